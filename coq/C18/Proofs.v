(* C18 — proofs about the model of pathspec.py *)
From Coq Require Import List NArith Bool Arith Lia.
Require Import BobV.C18.Model.
Import ListNotations.

(* ------------------------------------------------------------------ sets *)
Lemma memb_In : forall n l, memb n l = true <-> In n l.
Proof.
  induction l as [|x r IH]; cbn [memb In].
  - split; [discriminate | tauto].
  - rewrite orb_true_iff, IH, Nat.eqb_eq. split; intros [H|H]; auto.
Qed.

Lemma memb_false : forall n l, memb n l = false <-> ~ In n l.
Proof.
  intros. rewrite <- memb_In. destruct (memb n l).
  - split; [discriminate | intros H; exfalso; apply H; reflexivity].
  - split; [intros _ H; discriminate | reflexivity].
Qed.

Lemma In_dedup : forall x l, In x (dedup l) <-> In x l.
Proof.
  induction l as [|y r IH]; cbn [dedup In]; [tauto|].
  destruct (memb y r) eqn:E.
  - rewrite IH. apply memb_In in E. split; [auto|]. intros [->|H]; auto.
  - cbn [In]. rewrite IH. tauto.
Qed.

Lemma In_inter : forall x a b, In x (inter a b) <-> In x a /\ In x b.
Proof. intros. unfold inter. rewrite filter_In, memb_In. tauto. Qed.

Lemma In_diff : forall x a b, In x (diff a b) <-> In x a /\ ~ In x b.
Proof.
  intros. unfold diff. rewrite filter_In, negb_true_iff, memb_false. tauto.
Qed.

Lemma In_union : forall x a b, In x (union a b) <-> In x a \/ In x b.
Proof.
  intros. unfold union. rewrite in_app_iff, In_dedup, In_diff.
  destruct (memb x a) eqn:E.
  - apply memb_In in E. tauto.
  - apply memb_false in E. tauto.
Qed.

Lemma subset_spec : forall a b, subset a b = true <-> (forall x, In x a -> In x b).
Proof.
  intros. unfold subset. rewrite forallb_forall. split; intros H x Hx.
  - apply memb_In. auto.
  - apply memb_In. auto.
Qed.

Lemma In_remove1 : forall x n l, In x (remove1 n l) <-> In x l /\ x <> n.
Proof.
  intros. unfold remove1. rewrite filter_In, negb_true_iff, Nat.eqb_neq. tauto.
Qed.

Lemma is_empty_spec : forall l, is_empty l = true <-> (forall x : node, ~ In x l).
Proof.
  destruct l; cbn; split; intros H; try reflexivity; try discriminate; auto.
  exfalso. apply (H n). auto.
Qed.

Lemma is_empty_false : forall l, is_empty l = false -> exists x : node, In x l.
Proof. destruct l; cbn; [discriminate|]. intros _. exists n. auto. Qed.

Lemma In_nodes : forall g n, In n (nodes g) <-> n < length g.
Proof. intros. unfold nodes. rewrite in_seq. lia. Qed.

Lemma In_hop : forall next ns m, In m (hop next ns) <-> exists n, In n ns /\ In m (next n).
Proof. intros. unfold hop. rewrite In_dedup, in_flat_map. tauto. Qed.

(* ------------------------------------------------------------------ transitive closure *)
Lemma tc_r : forall (R : node -> node -> Prop) n x m, tc R n x -> R x m -> tc R n m.
Proof.
  intros R n x m H. induction H as [a b Hab | a b c Hab Hbc IH]; intros Hm.
  - eapply tc_more; [eassumption|]. apply tc_one. assumption.
  - eapply tc_more; [eassumption|]. auto.
Qed.

Lemma tc_trans : forall (R : node -> node -> Prop) n x m, tc R n x -> tc R x m -> tc R n m.
Proof.
  intros R n x m H. induction H as [a b Hab | a b c Hab Hbc IH]; intros Hm.
  - eapply tc_more; eassumption.
  - eapply tc_more; [eassumption|]. auto.
Qed.

(* last-step decomposition *)
Lemma tc_last : forall (R : node -> node -> Prop) n m, tc R n m -> exists x, (n = x \/ tc R n x) /\ R x m.
Proof.
  intros R n m H. induction H as [a b Hab | a b c Hab Hbc IH].
  - exists a. auto.
  - destruct IH as [x [[->|Hx] Hr]].
    + exists x. split; [right; apply tc_one; assumption | assumption].
    + exists x. split; [right; eapply tc_more; eassumption | assumption].
Qed.

Lemma tc_flip : forall (R : node -> node -> Prop) n m, tc R n m -> tc (fun a b => R b a) m n.
Proof.
  intros R n m H. induction H as [a b Hab | a b c Hab Hbc IH].
  - apply tc_one. assumption.
  - eapply tc_r; [eassumption | assumption].
Qed.

Lemma tc_impl : forall (R S : node -> node -> Prop), (forall a b, R a b -> S a b) ->
  forall n m, tc R n m -> tc S n m.
Proof.
  intros R S HRS n m H. induction H; [apply tc_one | eapply tc_more]; eauto.
Qed.

(* ------------------------------------------------------------------ the worklist loop of the
   descendant / ancestor axes computes exactly the transitive closure *)
Lemma filter_length_mono : forall (f f' : node -> bool) (l : list node),
  (forall y, f' y = true -> f y = true) -> length (filter f' l) <= length (filter f l).
Proof.
  intros f f' l H. induction l as [|z l IH]; cbn [filter]; [lia|].
  destruct (f' z) eqn:E1.
  - rewrite (H _ E1). cbn [length]. lia.
  - destruct (f z); cbn [length]; lia.
Qed.

Section Closure.
Variable N : nat.
Variable next : node -> list node.
Hypothesis next_bound : forall n x, In x (next n) -> x < N.

Definition Rn (n m : node) : Prop := In m (next n).
Definition measure (ret : list node) : nat :=
  length (filter (fun x => negb (memb x ret)) (seq 0 N)).

Lemma filter_length_lt : forall (f f' : node -> bool) (l : list node) x,
  (forall y, f' y = true -> f y = true) -> In x l -> f x = true -> f' x = false ->
  length (filter f' l) < length (filter f l).
Proof.
  intros f f' l x Hmono. induction l as [|y r IH]; cbn [In filter]; [tauto|].
  assert (Hle : forall l0, length (filter f' l0) <= length (filter f l0)).
  { induction l0 as [|z l0 IHl]; cbn [filter]; [lia|].
    destruct (f' z) eqn:E1.
    - rewrite (Hmono _ E1). cbn [length]. lia.
    - destruct (f z); cbn [length]; lia. }
  intros [->|Hin] Hf Hf'.
  - rewrite Hf, Hf'. cbn [length]. specialize (Hle r). lia.
  - specialize (IH Hin Hf Hf').
    destruct (f' y) eqn:E1.
    + rewrite (Hmono _ E1). cbn [length]. lia.
    + destruct (f y); cbn [length]; lia.
Qed.

Lemma measure_lt : forall ret ret' x,
  (forall y, In y ret -> In y ret') -> x < N -> ~ In x ret -> In x ret' ->
  measure ret' < measure ret.
Proof.
  intros ret ret' x Hinc Hx Hn Hi. unfold measure.
  apply filter_length_lt with (x := x).
  - intros y Hy. rewrite negb_true_iff in *. rewrite memb_false in *. auto.
  - apply in_seq. lia.
  - rewrite negb_true_iff, memb_false. assumption.
  - rewrite negb_false_iff, memb_In. assumption.
Qed.

Variable S0 : list node.     (* the start set *)

Definition reach1 (x : node) : Prop := exists s, In s S0 /\ tc Rn s x.

Record inv (todo ret : list node) : Prop := {
  inv_ret : forall x, In x ret -> reach1 x;
  inv_todo : forall x, In x todo -> In x S0 \/ reach1 x;
  inv_closed : forall x c, In x S0 \/ In x ret -> Rn x c -> In c ret \/ In x todo;
  inv_bound : forall x, In x ret -> x < N
}.

Lemma inv_final : forall ret, inv [] ret -> forall m, In m ret <-> reach1 m.
Proof.
  intros ret I m. split; [apply (inv_ret _ _ I)|].
  intros [s [Hs Ht]].
  assert (G : forall x, In x S0 \/ In x ret -> tc Rn x m -> In m ret).
  { intros x Hx Hxm. induction Hxm as [a b Hab | a b c Hab Hbc IH].
    - destruct (inv_closed _ _ I a b Hx Hab) as [H|[]]. assumption.
    - destruct (inv_closed _ _ I a b Hx Hab) as [H|[]].
      apply IH; auto. }
  apply (G s); auto.
Qed.

Lemma inv_step : forall todo ret, inv todo ret ->
  inv (diff (hop next todo) ret) (union ret (hop next todo)).
Proof.
  intros todo ret I.
  assert (Hch : forall x, In x (hop next todo) -> reach1 x).
  { intros x Hx. apply In_hop in Hx. destruct Hx as [t [Ht Hn]].
    destruct (inv_todo _ _ I t Ht) as [Hs|[s [Hs Hts]]].
    - exists t. split; [assumption | apply tc_one; assumption].
    - exists s. split; [assumption | eapply tc_r; eassumption]. }
  constructor.
  - intros x Hx. apply In_union in Hx. destruct Hx as [Hx|Hx]; [apply (inv_ret _ _ I); assumption | auto].
  - intros x Hx. apply In_diff in Hx. right. apply Hch. tauto.
  - intros x c Hx Hr.
    assert (Hold : In x S0 \/ In x ret -> In c (union ret (hop next todo)) \/ In x (diff (hop next todo) ret)).
    { intros Hx'. destruct (inv_closed _ _ I x c Hx' Hr) as [H|H].
      - left. apply In_union. auto.
      - left. apply In_union. right. apply In_hop. exists x. auto. }
    destruct Hx as [Hx|Hx]; [auto|].
    apply In_union in Hx. destruct Hx as [Hx|Hx]; [auto|].
    destruct (memb x ret) eqn:E.
    + apply memb_In in E. auto.
    + apply memb_false in E. right. apply In_diff. auto.
  - intros x Hx. apply In_union in Hx. destruct Hx as [Hx|Hx]; [apply (inv_bound _ _ I); assumption|].
    apply In_hop in Hx. destruct Hx as [t [_ Hn]]. eapply next_bound; eassumption.
Qed.

Lemma closure_loop_inv : forall fuel todo ret,
  (todo = [] \/ measure ret < fuel) -> inv todo ret ->
  forall m, In m (closure_loop next fuel todo ret) <-> reach1 m.
Proof.
  induction fuel as [|f IH]; intros todo ret Hf I m.
  - cbn [closure_loop]. destruct Hf as [->|Hf]; [|lia]. apply inv_final. assumption.
  - cbn [closure_loop]. destruct todo as [|t0 todo'].
    + apply inv_final. assumption.
    + destruct Hf as [Hf|Hf]; [discriminate|].
      apply IH; [|apply inv_step; assumption].
      destruct (diff (hop next (t0 :: todo')) ret) as [|x r] eqn:E; [left; reflexivity|right].
      assert (Hx : In x (diff (hop next (t0 :: todo')) ret)) by (rewrite E; left; reflexivity).
      apply In_diff in Hx. destruct Hx as [Hx1 Hx2].
      assert (measure (union ret (hop next (t0 :: todo'))) < measure ret); [|lia].
      apply measure_lt with (x := x).
      * intros y Hy. apply In_union. auto.
      * apply In_hop in Hx1. destruct Hx1 as [t [_ Hn]]. eapply next_bound; eassumption.
      * assumption.
      * apply In_union. auto.
Qed.

Lemma measure_le : forall ret, measure ret <= N.
Proof.
  intros. unfold measure.
  assert (H : forall (f : node -> bool) l, length (filter f l) <= length l).
  { induction l as [|y r IH]; cbn [filter length]; [lia|]. destruct (f y); cbn [length]; lia. }
  etransitivity; [apply H|]. rewrite seq_length. lia.
Qed.

Lemma closure_loop_correct : forall m,
  In m (closure_loop next (S N) S0 []) <-> exists s, In s S0 /\ tc Rn s m.
Proof.
  intros m. apply closure_loop_inv.
  - right. pose proof (measure_le []). lia.
  - constructor.
    + intros x [].
    + intros x Hx. auto.
    + intros x c [Hx|[]] _. auto.
    + intros x [].
Qed.

End Closure.

(* ------------------------------------------------------------------ graph facts *)
Section Graph.
Variable g : graph.
Hypothesis wf : wf_graph g.

Lemma In_kids_f : forall ind n m, In m (kids_f g ind n) <-> edge g ind n m.
Proof.
  intros. unfold kids_f, edge. rewrite in_map_iff. split.
  - intros [[c d] [<- H]]. apply filter_In in H. destruct H as [H1 H2]. cbn [fst snd] in *.
    exists d. split; [assumption|]. apply orb_true_iff in H2. destruct H2; auto.
  - intros [d [H1 H2]]. exists (m, d). split; [reflexivity|]. apply filter_In. split; [assumption|].
    cbn [snd]. apply orb_true_iff. destruct H2; auto.
Qed.

Lemma edge_bound : forall ind n m, edge g ind n m -> n < m /\ m < length g.
Proof. intros ind n m [d [H _]]. destruct wf as [_ W]. eapply W; eassumption. Qed.

Lemma edge_weaken : forall ind n m, edge g ind n m -> edge g true n m.
Proof. intros ind n m [d [H _]]. exists d. auto. Qed.

Lemma tc_edge_bound : forall ind n m, tc (edge g ind) n m -> n < m /\ m < length g.
Proof.
  intros ind n m H. induction H as [a b Hab | a b c Hab Hbc IH].
  - eapply edge_bound; eassumption.
  - apply edge_bound in Hab. lia.
Qed.

Lemma In_parents : forall ind n p, In p (parents g ind n) <-> edge g ind p n.
Proof.
  intros. unfold parents. rewrite filter_In, memb_In, In_kids_f, In_nodes. split; [tauto|].
  intros H. split; [|assumption]. apply edge_bound in H. lia.
Qed.

Lemma kids_f_bound : forall ind n x, In x (kids_f g ind n) -> x < length g.
Proof. intros ind n x H. apply In_kids_f in H. apply edge_bound in H. lia. Qed.

Lemma parents_bound : forall ind n x, In x (parents g ind n) -> x < length g.
Proof. intros ind n x H. apply In_parents in H. apply edge_bound in H. lia. Qed.

(* axis_closure_correct, descendant direction *)
Lemma ax_desc_correct : forall ind ns m,
  In m (ax_desc g ind ns) <-> exists n, In n ns /\ tc (edge g ind) n m.
Proof.
  intros. unfold ax_desc, closure.
  rewrite (closure_loop_correct (length g) (kids_f g ind) (kids_f_bound ind)).
  split; intros [n [H1 H2]]; exists n; (split; [assumption|]).
  - eapply tc_impl; [|eassumption]. intros a b. unfold Rn. apply In_kids_f.
  - eapply tc_impl; [|eassumption]. intros a b. unfold Rn. apply In_kids_f.
Qed.

(* ancestor direction: the inverse relation *)
Lemma ax_anc_correct : forall ind ns m,
  In m (ax_anc g ind ns) <-> exists n, In n ns /\ tc (edge g ind) m n.
Proof.
  intros. unfold ax_anc, closure.
  rewrite (closure_loop_correct (length g) (parents g ind) (parents_bound ind)).
  split; intros [n [H1 H2]]; exists n; (split; [assumption|]).
  - apply tc_flip in H2. eapply tc_impl; [|eassumption]. intros a b. unfold Rn. cbn. apply In_parents.
  - apply tc_flip in H2. eapply tc_impl; [|eassumption]. intros a b. unfold Rn. cbn. apply In_parents.
Qed.

Lemma ax_child_correct : forall ind ns m,
  In m (ax_child g ind ns) <-> exists n, In n ns /\ edge g ind n m.
Proof.
  intros. unfold ax_child. rewrite In_hop. split; intros [n [H1 H2]]; exists n; (split; [assumption|]); apply In_kids_f; assumption.
Qed.

Lemma ax_parent_correct : forall ind ns m,
  In m (ax_parent g ind ns) <-> exists n, In n ns /\ edge g ind m n.
Proof.
  intros. unfold ax_parent. rewrite In_hop. split; intros [n [H1 H2]]; exists n; (split; [assumption|]); apply In_parents; assumption.
Qed.

End Graph.

(* ------------------------------------------------------------------ strings, small facts *)
Lemma str_eqb_eq : forall a b, str_eqb a b = true <-> a = b.
Proof.
  induction a as [|x a IH]; destruct b as [|y b]; cbn [str_eqb]; try (split; [discriminate|discriminate]); try tauto.
  rewrite andb_true_iff, N.eqb_eq, IH. split; [intros [-> ->]; reflexivity | intros H; inversion H; auto].
Qed.

Lemma axis_eqb_eq : forall a b, axis_eqb a b = true <-> a = b.
Proof. destruct a, b; cbn; split; intros H; try reflexivity; try discriminate. Qed.

Lemma is_pnone_eq : forall p, is_pnone p = true <-> p = PNone.
Proof. destruct p; cbn; split; intros H; try reflexivity; try discriminate. Qed.

Lemma test_star : forall nm, test_match star nm = true.
Proof. intros. reflexivity. Qed.

Scheme pred_mut := Induction for pred Sort Prop
with path_mut := Induction for path Sort Prop.
Combined Scheme pred_path_ind from pred_mut, path_mut.

(* ------------------------------------------------------------------ evaluation = semantics *)
Section Sem.
Variable g : graph.
Variable sv : sexpr -> node -> str.
Hypothesis wf : wf_graph g.

Notation len := (length g).
Notation E := (edge g true).
Definition dos (ind : bool) (n m : node) : Prop := n = m \/ tc (edge g ind) n m.

(* unfolding equations of the mutually recursive definitions *)
Lemma holds_path : forall abs q n,
  holds g sv (PPath abs q) n = exists m, sem_path g sv q (if abs then root else n) m.
Proof. reflexivity. Qed.
Lemma holds_not : forall a n, holds g sv (PNot a) n = ~ holds g sv a n.
Proof. reflexivity. Qed.
Lemma holds_and : forall a b n, holds g sv (PAnd a b) n = (holds g sv a n /\ holds g sv b n).
Proof. reflexivity. Qed.
Lemma holds_or : forall a b n, holds g sv (POr a b) n = (holds g sv a n \/ holds g sv b n).
Proof. reflexivity. Qed.
Lemma holds_none : forall n, holds g sv PNone n = True.
Proof. reflexivity. Qed.
Lemma sem_nil : forall n m, sem_path g sv PNil n m = (n = m).
Proof. reflexivity. Qed.
Lemma sem_cons : forall dsl a t pr rest n m,
  sem_path g sv (PCons dsl a t pr rest) n m =
  exists x y, (if dsl then axis_rel g ADescSelf n x else n = x) /\ axis_rel g a x y /\
              test_match t (name g y) = true /\ holds g sv pr y /\ sem_path g sv rest y m.
Proof. reflexivity. Qed.
Lemma pred_back_path : forall abs q,
  pred_back g sv (PPath abs q) =
  if abs then (if memb root (path_back g sv q) then all g else []) else path_back g sv q.
Proof. reflexivity. Qed.
Lemma path_back_cons : forall dsl a t pr rest,
  path_back g sv (PCons dsl a t pr rest) =
  let ns := axis_back g a (if is_pnone pr then by_test g t (path_back g sv rest)
                           else inter (by_test g t (path_back g sv rest)) (pred_back g sv pr)) in
  if dsl then axis_back g ADescSelf ns else ns.
Proof. reflexivity. Qed.

Lemma axis_rel_le : forall a n m, axis_rel g a n m -> n <= m /\ (n < len -> m < len).
Proof.
  intros a n m H. destruct a; cbn [axis_rel] in H.
  - apply (edge_bound g wf) in H. lia.
  - apply (tc_edge_bound g wf) in H. lia.
  - destruct H as [->|H]; [lia|]. apply (tc_edge_bound g wf) in H. lia.
  - apply (edge_bound g wf) in H. lia.
  - apply (tc_edge_bound g wf) in H. lia.
  - destruct H as [->|H]; [lia|]. apply (tc_edge_bound g wf) in H. lia.
  - subst. lia.
Qed.

Lemma axis_rel_lt_back : forall a n m, axis_rel g a n m -> m < len -> n < len.
Proof. intros a n m H Hm. apply axis_rel_le in H. lia. Qed.

Lemma axis_back_correct : forall a ns x,
  In x (axis_back g a ns) <-> exists y, In y ns /\ axis_rel g a x y.
Proof.
  intros a ns x. destruct a; cbn [axis_back axis_rel].
  - apply (ax_parent_correct g wf).
  - apply (ax_anc_correct g wf).
  - rewrite In_union, (ax_anc_correct g wf). split.
    + intros [[y [H1 H2]]|H]; [exists y; auto | exists x; auto].
    + intros [y [H1 [->|H2]]]; [right; assumption | left; exists y; auto].
  - apply (ax_parent_correct g wf).
  - apply (ax_anc_correct g wf).
  - rewrite In_union, (ax_anc_correct g wf). split.
    + intros [[y [H1 H2]]|H]; [exists y; auto | exists x; auto].
    + intros [y [H1 [->|H2]]]; [right; assumption | left; exists y; auto].
  - split; [intros H; exists x; auto | intros [y [H ->]]; assumption].
Qed.

Lemma axis_fwd_correct : forall a ns m,
  In m (fst (axis_fwd g a ns)) <-> exists n, In n ns /\ axis_rel g a n m.
Proof.
  intros a ns m. destruct a; cbn [axis_fwd axis_rel fst].
  - apply (ax_child_correct g).
  - apply (ax_desc_correct g wf).
  - rewrite In_union, (ax_desc_correct g wf). split.
    + intros [[y [H1 H2]]|H]; [exists y; auto | exists m; auto].
    + intros [y [H1 [->|H2]]]; [right; assumption | left; exists y; auto].
  - apply (ax_child_correct g).
  - apply (ax_desc_correct g wf).
  - rewrite In_union, (ax_desc_correct g wf). split.
    + intros [[y [H1 H2]]|H]; [exists y; auto | exists m; auto].
    + intros [y [H1 [->|H2]]]; [right; assumption | left; exists y; auto].
  - split; [intros H; exists m; auto | intros [y [H ->]]; assumption].
Qed.

Lemma In_by_test : forall t ns y, In y (by_test g t ns) <-> In y ns /\ test_match t (name g y) = true.
Proof. intros. unfold by_test. apply filter_In. Qed.

(* eval_backward_correct: backward evaluation computes exactly the set of
   packages at which the predicate holds / from which the path selects something *)
Lemma back_correct :
  (forall p n, In n (pred_back g sv p) <-> n < len /\ holds g sv p n) /\
  (forall q n, In n (path_back g sv q) <-> n < len /\ exists m, sem_path g sv q n m).
Proof.
  apply pred_path_ind.
  - (* PNone *) intros n. rewrite holds_none. cbn [pred_back]. unfold all. rewrite In_nodes. tauto.
  - (* PPath *) intros abs q IH n. rewrite holds_path, pred_back_path. destruct abs.
    + destruct (memb root (path_back g sv q)) eqn:Em.
      * apply memb_In in Em. apply IH in Em. unfold all. rewrite In_nodes. tauto.
      * apply memb_false in Em. split; [intros []|]. intros [Hn Hm]. exfalso. apply Em. apply IH.
        split; [unfold root; lia | assumption].
    + apply IH.
  - (* PNot *) intros a IH n. rewrite holds_not. cbn [pred_back]. rewrite In_diff, IH. unfold all. rewrite In_nodes. tauto.
  - (* PAnd *) intros a IHa b IHb n. rewrite holds_and. cbn [pred_back]. rewrite In_inter, IHa, IHb. tauto.
  - (* POr *) intros a IHa b IHb n. rewrite holds_or. cbn [pred_back]. rewrite In_union, IHa, IHb. tauto.
  - (* PCmp *) intros o l r n. cbn [pred_back holds]. rewrite filter_In. unfold all. rewrite In_nodes. tauto.
  - (* PStr *) intros e n. cbn [pred_back holds]. rewrite filter_In. unfold all. rewrite In_nodes. tauto.
  - (* PNil *) intros n. cbn [path_back]. unfold all. rewrite In_nodes. split; [intros H; split; [assumption | exists n; reflexivity] | tauto].
  - (* PCons *) intros dsl a t pr IHp rest IHr n. rewrite path_back_cons. cbv zeta.
    assert (Hsem : forall m, sem_path g sv (PCons dsl a t pr rest) n m <->
              exists x y, (if dsl then axis_rel g ADescSelf n x else n = x) /\ axis_rel g a x y /\
              test_match t (name g y) = true /\ holds g sv pr y /\ sem_path g sv rest y m).
    { intros m. rewrite sem_cons. tauto. }
    assert (Hex : (exists m, sem_path g sv (PCons dsl a t pr rest) n m) <->
              exists m x y, (if dsl then axis_rel g ADescSelf n x else n = x) /\ axis_rel g a x y /\
              test_match t (name g y) = true /\ holds g sv pr y /\ sem_path g sv rest y m).
    { split; intros [m H]; exists m; apply Hsem; exact H. }
    rewrite Hex. clear Hsem Hex.
    set (B := if is_pnone pr then by_test g t (path_back g sv rest)
              else inter (by_test g t (path_back g sv rest)) (pred_back g sv pr)).
    assert (HB : forall y, In y B <-> y < len /\ test_match t (name g y) = true /\ holds g sv pr y /\
                                      exists m, sem_path g sv rest y m).
    { intros y. unfold B. destruct (is_pnone pr) eqn:Ep.
      - apply is_pnone_eq in Ep. subst pr. rewrite In_by_test, IHr, holds_none. tauto.
      - rewrite In_inter, In_by_test, IHr, IHp. tauto. }
    assert (HC : forall x, In x (axis_back g a B) <-> x < len /\ exists y m,
                   axis_rel g a x y /\ test_match t (name g y) = true /\ holds g sv pr y /\ sem_path g sv rest y m).
    { intros x. rewrite axis_back_correct. split.
      - intros [y [Hy Hr]]. apply HB in Hy. destruct Hy as [Hl [Ht [Hh [m Hm]]]].
        split; [eapply axis_rel_lt_back; eassumption|]. exists y, m. auto.
      - intros [Hx [y [m [Hr [Ht [Hh Hm]]]]]]. exists y. split; [|assumption]. apply HB.
        split; [apply axis_rel_le in Hr; lia|]. split; [assumption|]. split; [assumption|]. exists m. assumption. }
    destruct dsl.
    + rewrite axis_back_correct. split.
      * intros [x [Hx Hr]]. apply HC in Hx. destruct Hx as [Hl [y [m H]]].
        split; [eapply axis_rel_lt_back; eassumption|]. exists m, x, y. split; [exact Hr | exact H].
      * intros [Hn [m [x [y [Hr H]]]]]. exists x. split; [|exact Hr]. apply HC.
        split; [apply (axis_rel_le ADescSelf) in Hr; lia|]. exists y, m. exact H.
    + rewrite HC. split.
      * intros [Hl [y [m H]]]. split; [assumption|]. exists m, n, y. auto.
      * intros [Hl [m [x [y [<- H]]]]]. split; [assumption|]. exists y, m. exact H.
Qed.

Definition pred_back_correct := proj1 back_correct.
Definition path_back_correct := proj2 back_correct.

(* ---- forward *)
Definition step_sel (a : axis) (t : str) (pr : pred) (S : list node) (m : node) : Prop :=
  exists n, In n S /\ axis_rel g a n m /\ test_match t (name g m) = true /\ holds g sv pr m.

Definition bounded (S : list node) : Prop := forall x, In x S -> x < len.

Lemma step_fwd_correct : forall a t pr S m, bounded S ->
  (In m (fst (fst (step_fwd g sv a t pr S))) <-> step_sel a t pr S m).
Proof.
  intros a t pr S m HS. unfold step_fwd, step_sel.
  pose proof (axis_fwd_correct a S) as HA.
  destruct (axis_fwd g a S) as [ns1 search]. cbn [fst] in HA.
  destruct (is_pnone pr) eqn:Ep; cbn [fst].
  - apply is_pnone_eq in Ep. subst pr. rewrite In_by_test, HA. cbn [holds].
    split; [intros [[n [H1 H2]] H3]; exists n; auto | intros [n [H1 [H2 [H3 _]]]]; split; [exists n; auto | auto]].
  - rewrite In_inter, In_by_test, HA, (proj1 back_correct).
    split.
    + intros [[[n [H1 H2]] H3] [H4 H5]]. exists n. auto.
    + intros [n [H1 [H2 [H3 H4]]]]. split; [split; [exists n; auto | auto]|].
      split; [|assumption]. apply axis_rel_le in H2. apply HS in H1. lia.
Qed.

Lemma step_sel_bounded : forall a t pr S m, bounded S -> step_sel a t pr S m -> m < len.
Proof. intros a t pr S m HS [n [H1 [H2 _]]]. apply axis_rel_le in H2. apply HS in H1. lia. Qed.

Lemma fwd_one_spec : forall mode a t pr st, bounded (f_nodes st) ->
  match fwd_one g sv mode a t pr st with
  | inl e => (exists k, e = FNotFound k \/ e = FNoMatch k) /\ forall m, ~ step_sel a t pr (f_nodes st) m
  | inr st2 => forall m, In m (f_nodes st2) <-> step_sel a t pr (f_nodes st) m
  end.
Proof.
  intros mode a t pr st HS. unfold fwd_one.
  pose proof (fun m => step_fwd_correct a t pr (f_nodes st) m HS) as HF.
  destruct (step_fwd g sv a t pr (f_nodes st)) as [[ns search] cq]. cbn [fst] in HF.
  destruct (is_empty ns) eqn:Ee.
  - assert (Hno : forall m, ~ step_sel a t pr (f_nodes st) m).
    { intros m Hm. apply HF in Hm. rewrite is_empty_spec in Ee. eapply Ee; eassumption. }
    destruct (negb (emode_eqb mode NullSet)); cbn [andb].
    + destruct (negb (f_complex st || cq)); cbn [andb].
      * split; [eexists; left; reflexivity | assumption].
      * destruct (emode_eqb mode NullFail).
        -- split; [eexists; right; reflexivity | assumption].
        -- cbn [f_nodes]. assumption.
    + cbn [f_nodes]. assumption.
  - cbn [andb f_nodes]. assumption.
Qed.

Lemma dos_refl : forall ind n, dos ind n n.
Proof. intros. left. reflexivity. Qed.

(* eval_forward_correct, general form over the loop state *)
Lemma fwd_loop_correct : forall mode q st, bounded (f_nodes st) ->
  match fwd_loop g sv mode q st with
  | FOk ns _ => forall m, In m ns <-> exists n, In n (f_nodes st) /\ sem_path g sv q n m
  | _ => forall n m, In n (f_nodes st) -> ~ sem_path g sv q n m
  end.
Proof.
  intros mode q. induction q as [|dsl a t pr rest IH]; intros st HS.
  - cbn [fwd_loop sem_path]. intros m. split; [intros H; exists m; auto | intros [n [H ->]]; assumption].
  - cbn [fwd_loop].
    assert (Stage2 : forall st1, bounded (f_nodes st1) ->
      match (match fwd_one g sv mode a t pr st1 with inl e => e | inr st2 => fwd_loop g sv mode rest st2 end) with
      | FOk ns _ => forall m, In m ns <-> exists x y, In x (f_nodes st1) /\ axis_rel g a x y /\
                        test_match t (name g y) = true /\ holds g sv pr y /\ sem_path g sv rest y m
      | _ => forall x y m, In x (f_nodes st1) -> axis_rel g a x y -> test_match t (name g y) = true ->
                        holds g sv pr y -> ~ sem_path g sv rest y m
      end).
    { intros st1 H1. pose proof (fwd_one_spec mode a t pr st1 H1) as F1.
      destruct (fwd_one g sv mode a t pr st1) as [e|st2].
      - destruct F1 as [[k [->| ->]] Hno]; intros x y m Hx Hr Ht Hh _; apply (Hno y); exists x; auto.
      - assert (H2 : bounded (f_nodes st2)).
        { intros y Hy. apply F1 in Hy. eapply step_sel_bounded; eassumption. }
        specialize (IH st2 H2). destruct (fwd_loop g sv mode rest st2) as [ns v|k|k].
        + intros m. rewrite IH. split.
          * intros [y [Hy Hm]]. apply F1 in Hy. destruct Hy as [x [Hx [Hr [Ht Hh]]]]. exists x, y. auto.
          * intros [x [y [Hx [Hr [Ht [Hh Hm]]]]]]. exists y. split; [|assumption]. apply F1. exists x. auto.
        + intros x y m Hx Hr Ht Hh. apply IH. apply F1. exists x. auto.
        + intros x y m Hx Hr Ht Hh. apply IH. apply F1. exists x. auto. }
    destruct dsl.
    + pose proof (fwd_one_spec mode ADescSelf star PNone st HS) as F0.
      destruct (fwd_one g sv mode ADescSelf star PNone st) as [e|st1].
      * destruct F0 as [[k [->| ->]] Hno]; intros n m Hn _; apply (Hno n); exists n; cbn [axis_rel holds];
          rewrite test_star; auto.
      * assert (H1 : bounded (f_nodes st1)).
        { intros y Hy. apply F0 in Hy. eapply step_sel_bounded; eassumption. }
        specialize (Stage2 st1 H1).
        destruct (match fwd_one g sv mode a t pr st1 with inl e => e | inr st2 => fwd_loop g sv mode rest st2 end) as [ns v|k|k].
        -- intros m. rewrite Stage2. cbn [sem_path]. split.
           ++ intros [x [y [Hx H]]]. apply F0 in Hx. destruct Hx as [n [Hn [Hr _]]]. exists n. split; [assumption|].
              exists x, y. split; [exact Hr | exact H].
           ++ intros [n [Hn [x [y [Hr H]]]]]. exists x, y. split; [|exact H]. apply F0. exists n.
              cbn [holds]. rewrite test_star. auto.
        -- intros n m Hn. cbn [sem_path]. intros [x [y [Hr [H2 [H3 [H4 H5]]]]]].
           eapply (Stage2 x y m); try eassumption. apply F0. exists n. cbn [holds]. rewrite test_star. auto.
        -- intros n m Hn. cbn [sem_path]. intros [x [y [Hr [H2 [H3 [H4 H5]]]]]].
           eapply (Stage2 x y m); try eassumption. apply F0. exists n. cbn [holds]. rewrite test_star. auto.
    + specialize (Stage2 st HS).
      destruct (match fwd_one g sv mode a t pr st with inl e => e | inr st2 => fwd_loop g sv mode rest st2 end) as [ns v|k|k].
      * intros m. rewrite Stage2. cbn [sem_path]. split.
        -- intros [x [y [Hx H]]]. exists x. split; [assumption|]. exists x, y. auto.
        -- intros [n [Hn [x [y [<- H]]]]]. exists n, y. auto.
      * intros n m Hn. cbn [sem_path]. intros [x [y [<- [H2 [H3 [H4 H5]]]]]]. eapply (Stage2 n y m); eassumption.
      * intros n m Hn. cbn [sem_path]. intros [x [y [<- [H2 [H3 [H4 H5]]]]]]. eapply (Stage2 n y m); eassumption.
Qed.

Lemma wf_root : root < len.
Proof. destruct wf as [H _]. exact H. Qed.

Lemma eval_forward_correct_proof : forall mode q,
  match eval_forward g sv mode q with
  | FOk ns _ => forall m, In m ns <-> sem_path g sv q root m
  | _ => forall m, ~ sem_path g sv q root m
  end.
Proof.
  intros mode q. unfold eval_forward.
  set (st0 := {| f_nodes := [root]; f_valid := [root]; f_complex := false; f_k := 0 |}).
  assert (H0 : bounded (f_nodes st0)).
  { intros x [<-|[]]. apply wf_root. }
  pose proof (fwd_loop_correct mode q st0 H0) as H.
  destruct (fwd_loop g sv mode q st0) as [ns v|k|k].
  - intros m. rewrite H. cbn [f_nodes st0]. split.
    + intros [n [[<-|[]] Hm]]. assumption.
    + intros Hm. exists root. split; [left; reflexivity | assumption].
  - intros m. apply H. left. reflexivity.
  - intros m. apply H. left. reflexivity.
Qed.

End Sem.

(* ------------------------------------------------------------------ LocationPath.__init__ keeps the meaning *)
Section Norm.
Variable g : graph.
Variable sv : sexpr -> node -> str.
Hypothesis wf : wf_graph g.

Notation E := (edge g true).
Notation sem := (sem_path g sv).
Notation hold := (holds g sv).

Lemma dosE_trans : forall n x m, dos g true n x -> dos g true x m -> dos g true n m.
Proof.
  intros n x m [->|H1] [->|H2]; unfold dos; auto. right. eapply tc_trans; eassumption.
Qed.

Lemma dosE_edge : forall n x m, dos g true n x -> E x m -> tc E n m.
Proof. intros n x m [->|H] He; [apply tc_one; assumption | eapply tc_r; eassumption]. Qed.

Lemma sem_congr : forall dsl a t pr r1 r2,
  (forall y m, sem r1 y m <-> sem r2 y m) ->
  forall n m, sem (PCons dsl a t pr r1) n m <-> sem (PCons dsl a t pr r2) n m.
Proof.
  intros dsl a t pr r1 r2 H n m. rewrite !sem_cons.
  split; intros [x [y [H1 [H2 [H3 [H4 H5]]]]]]; exists x, y; repeat (split; [assumption|]); apply H; assumption.
Qed.

Lemma sem_congr_pred : forall dsl a t p1 p2 r1 r2,
  (forall y, hold p1 y <-> hold p2 y) -> (forall y m, sem r1 y m <-> sem r2 y m) ->
  forall n m, sem (PCons dsl a t p1 r1) n m <-> sem (PCons dsl a t p2 r2) n m.
Proof.
  intros dsl a t p1 p2 r1 r2 Hp H n m. rewrite !sem_cons.
  split; intros [x [y [H1 [H2 [H3 [H4 H5]]]]]]; exists x, y; repeat (split; [assumption|]);
    (split; [apply Hp; assumption | apply H; assumption]).
Qed.

Lemma expand_sem : forall q n m, sem (expand q) n m <-> sem q n m.
Proof.
  induction q as [|dsl a t pr rest IH]; intros n m; cbn [expand]; [tauto|].
  destruct dsl.
  - rewrite (sem_cons g sv true), (sem_cons g sv false ADescSelf). split.
    + intros [x [y [<- [Hd [_ [_ Hs]]]]]]. rewrite sem_cons in Hs.
      destruct Hs as [x' [y' [<- [H2 [H3 [H4 H5]]]]]]. exists y, y'. apply IH in H5. auto.
    + intros [x [y [Hd [H2 [H3 [H4 H5]]]]]]. exists n, x. split; [reflexivity|]. split; [exact Hd|].
      split; [apply test_star|]. split; [exact I|]. rewrite sem_cons. exists x, y. apply IH in H5. auto.
  - apply sem_congr. assumption.
Qed.

Lemma drop_self_sem : forall q n m, sem (drop_self q) n m <-> sem q n m.
Proof.
  induction q as [|dsl a t pr rest IH]; intros n m; cbn [drop_self]; [tauto|].
  destruct (trivial_self a t pr && negb dsl) eqn:Et.
  - apply andb_true_iff in Et. destruct Et as [Et Ed]. unfold trivial_self in Et.
    apply andb_true_iff in Et. destruct Et as [Et Ep]. apply andb_true_iff in Et. destruct Et as [Ea Es].
    apply axis_eqb_eq in Ea. apply str_eqb_eq in Es. apply is_pnone_eq in Ep. apply negb_true_iff in Ed. subst.
    rewrite IH, sem_cons. split.
    + intros H. exists n, n. split; [reflexivity|]. split; [reflexivity|]. split; [apply test_star|].
      split; [exact I | assumption].
    + intros [x [y [<- [Hs [_ [_ H]]]]]]. cbn [axis_rel] in Hs. subst. assumption.
  - apply sem_congr. assumption.
Qed.

Fixpoint plen (q : path) : nat := match q with PNil => 0 | PCons _ _ _ _ r => S (plen r) end.

Lemma fuse_sem_aux : forall k q, plen q <= k -> forall n m, sem (fuse q) n m <-> sem q n m.
Proof.
  induction k as [|k IH]; intros q Hk n m.
  - destruct q; cbn [plen] in Hk; [cbn [fuse]; tauto | lia].
  - destruct q as [|dsl a t pr rest]; [cbn [fuse]; tauto|]. cbn [plen] in Hk.
    assert (Hrest : forall y m', sem (fuse rest) y m' <-> sem rest y m') by (intros; apply IH; lia).
    destruct rest as [|dsl2 a2 t2 pr2 rest2].
    + cbn [fuse]. tauto.
    + assert (Hkeep : sem (PCons dsl a t pr (fuse (PCons dsl2 a2 t2 pr2 rest2))) n m <->
                      sem (PCons dsl a t pr (PCons dsl2 a2 t2 pr2 rest2)) n m)
        by (apply sem_congr; assumption).
      destruct a2; try exact Hkeep.
      cbn [fuse]. destruct (fusable a t pr) eqn:Ef; [|exact Hkeep]. clear Hkeep.
      unfold fusable in Ef. apply andb_true_iff in Ef. destruct Ef as [Ef Ep].
      apply andb_true_iff in Ef. destruct Ef as [Ea Es].
      apply axis_eqb_eq in Ea. apply str_eqb_eq in Es. apply is_pnone_eq in Ep. subst.
      cbn [plen] in Hk.
      assert (Hr2 : forall y m', sem (fuse rest2) y m' <-> sem rest2 y m') by (intros; apply IH; lia).
      rewrite (sem_cons g sv false ADesc), (sem_cons g sv dsl ADescSelf). split.
      * intros [x [y [<- [Ht [H3 [H4 H5]]]]]]. cbn [axis_rel] in Ht.
        apply tc_last in Ht. destruct Ht as [x0 [Hd He]].
        exists n, x0. split; [destruct dsl; [left; reflexivity | reflexivity]|].
        split; [exact Hd|]. split; [apply test_star|]. split; [exact I|].
        rewrite sem_cons. exists x0, y. split; [destruct dsl2; [left; reflexivity | reflexivity]|].
        split; [exact He|]. apply Hr2 in H5. auto.
      * intros [x [y [Hd1 [Hd2 [_ [_ Hs]]]]]]. rewrite sem_cons in Hs.
        destruct Hs as [x2 [y2 [Hd3 [He [H3 [H4 H5]]]]]]. cbn [axis_rel] in He.
        exists n, y2. split; [reflexivity|]. split.
        { cbn [axis_rel]. eapply dosE_edge; [|exact He].
          eapply dosE_trans; [|eapply dosE_trans].
          - destruct dsl; [exact Hd1 | left; exact Hd1].
          - exact Hd2.
          - destruct dsl2; [exact Hd3 | left; exact Hd3]. }
        apply Hr2 in H5. auto.
Qed.

Lemma fuse_sem : forall q n m, sem (fuse q) n m <-> sem q n m.
Proof. intros q. apply (fuse_sem_aux (plen q)). lia. Qed.

Lemma norm_correct :
  (forall p n, hold (norm_pred p) n <-> hold p n) /\
  (forall q, (forall n m, sem (norm_inner q) n m <-> sem q n m) /\
             (forall n m, sem (norm_path q) n m <-> sem q n m)).
Proof.
  apply pred_path_ind.
  - intros n. cbn [norm_pred]. tauto.
  - intros abs q [_ IH] n. cbn [norm_pred]. rewrite !holds_path. split; intros [m H]; exists m; apply IH; assumption.
  - intros a IH n. cbn [norm_pred]. rewrite !holds_not, IH. tauto.
  - intros a IHa b IHb n. cbn [norm_pred]. rewrite !holds_and, IHa, IHb. tauto.
  - intros a IHa b IHb n. cbn [norm_pred]. rewrite !holds_or, IHa, IHb. tauto.
  - intros o l r n. cbn [norm_pred]. tauto.
  - intros e n. cbn [norm_pred]. tauto.
  - split; intros n m; cbn [norm_inner norm_path]; tauto.
  - intros dsl a t pr IHp rest [IHi _].
    assert (Hin : forall n m, sem (norm_inner (PCons dsl a t pr rest)) n m <-> sem (PCons dsl a t pr rest) n m).
    { intros n m. cbn [norm_inner]. apply sem_congr_pred; assumption. }
    split; [exact Hin|]. intros n m.
    change (norm_path (PCons dsl a t pr rest)) with (fuse (drop_self (expand (norm_inner (PCons dsl a t pr rest))))).
    rewrite fuse_sem, drop_self_sem, expand_sem. apply Hin.
Qed.

Lemma normalize_sem_proof : forall q n m, sem (norm_path q) n m <-> sem q n m.
Proof. intros q. apply (proj2 (proj2 norm_correct q)). Qed.

End Norm.

(* ------------------------------------------------------------------ __findResultNodes *)
Section Results.
Variable g : graph.
Hypothesis wf : wf_graph g.
Notation len := (length g).

Lemma In_insert_by_name : forall c l x, In x (insert_by_name g c l) <-> x = c \/ In x l.
Proof.
  induction l as [|y r IH]; intros x; cbn [insert_by_name In].
  - split; intros [H|H]; auto.
  - destruct (str_ltb (name g y) (name g c)); cbn [In]; [rewrite IH|]; split; intros H; intuition auto.
Qed.

Lemma In_sort_by_name : forall l x, In x (sort_by_name g l) <-> In x l.
Proof.
  induction l as [|y r IH]; intros x; cbn [sort_by_name fold_right In]; [tauto|].
  fold (sort_by_name g r). rewrite In_insert_by_name, IH. split; intros [H|H]; auto.
Qed.

Definition kidlist (V : list node) (n : node) : list node :=
  sort_by_name g (filter (fun c => memb c V) (map fst (kids g n))).

Lemma In_kidlist : forall V n c, In c (kidlist V n) <-> edge g true n c /\ In c V.
Proof.
  intros. unfold kidlist. rewrite In_sort_by_name, filter_In, memb_In, in_map_iff. split.
  - intros [[[c' d] [<- H]] Hv]. split; [exists d; auto | assumption].
  - intros [[d [H _]] Hv]. split; [exists (c, d); auto | assumption].
Qed.

Definition fstep (qa : bool) (f : nat) (stack : list node)
  (acc : list (list node * node) * rstate) (c : node) : list (list node * node) * rstate :=
  let '(o2, st2) := frn g qa f c (stack ++ [c]) (snd acc) in (fst acc ++ o2, st2).

Lemma frn_S : forall qa f n stack valid result,
  frn g qa (S f) n stack (valid, result) =
  let valid1 := if qa then valid else remove1 n valid in
  let hit := memb n result in
  let result1 := if hit && negb qa then remove1 n result else result in
  let out0 := if hit then [(stack, n)] else [] in
  fold_left (fstep qa f stack) (kidlist valid1 n) (out0, (valid1, result1)).
Proof. reflexivity. Qed.

(* ---- soundness: every reported stack is a real path from the start node,
   inside 'valid', to a node of 'result' *)
Definition sound_out (n : node) (stack : list node) (st : rstate) (out : list (list node * node)) : Prop :=
  forall stk m, In (stk, m) out ->
    In m (snd st) /\ exists suf, stk = stack ++ suf /\ real_path g n suf m /\ forall x, In x suf -> In x (fst st).

Lemma frn_sound : forall qa fuel n stack st,
  let r := frn g qa fuel n stack st in
  incl (fst (snd r)) (fst st) /\ incl (snd (snd r)) (snd st) /\ sound_out n stack st (fst r).
Proof.
  intros qa. induction fuel as [|f IH]; intros n stack [valid result].
  - cbn [frn fst snd]. split; [apply incl_refl|]. split; [apply incl_refl|]. intros stk m [].
  - rewrite frn_S. cbv zeta.
    set (valid1 := if qa then valid else remove1 n valid).
    set (result1 := if memb n result && negb qa then remove1 n result else result).
    set (out0 := if memb n result then [(stack, n)] else []).
    assert (Hv1 : incl valid1 valid).
    { unfold valid1. destruct qa; [apply incl_refl|]. intros x Hx. apply In_remove1 in Hx. tauto. }
    assert (Hr1 : incl result1 result).
    { unfold result1. destruct (memb n result && negb qa); [|apply incl_refl]. intros x Hx. apply In_remove1 in Hx. tauto. }
    assert (H0 : sound_out n stack (valid, result) out0).
    { unfold out0. intros stk m Hin. destruct (memb n result) eqn:Em; [|destruct Hin].
      destruct Hin as [Heq|[]]. inversion Heq; subst. apply memb_In in Em. split; [assumption|].
      exists []. rewrite app_nil_r. split; [reflexivity|]. split; [reflexivity|]. intros x []. }
    assert (Hfold : forall ks (acc : list (list node * node) * rstate),
              (forall c, In c ks -> edge g true n c /\ In c valid1) ->
              incl (fst (snd acc)) valid1 -> incl (snd (snd acc)) result1 ->
              sound_out n stack (valid, result) (fst acc) ->
              let r := fold_left (fstep qa f stack) ks acc in
              incl (fst (snd r)) valid1 /\ incl (snd (snd r)) result1 /\ sound_out n stack (valid, result) (fst r)).
    { induction ks as [|c ks IHk]; intros acc Hks Hav Har Hao; cbn [fold_left]; [auto|].
      apply IHk.
      - intros c' Hc'. apply Hks. right. assumption.
      - unfold fstep. destruct (frn g qa f c (stack ++ [c]) (snd acc)) as [o2 st2] eqn:Efr.
        pose proof (IH c (stack ++ [c]) (snd acc)) as Hc. cbv zeta in Hc. rewrite Efr in Hc. cbn [fst snd] in *.
        eapply incl_tran; [apply Hc | assumption].
      - unfold fstep. destruct (frn g qa f c (stack ++ [c]) (snd acc)) as [o2 st2] eqn:Efr.
        pose proof (IH c (stack ++ [c]) (snd acc)) as Hc. cbv zeta in Hc. rewrite Efr in Hc. cbn [fst snd] in *.
        eapply incl_tran; [apply Hc | assumption].
      - unfold fstep. destruct (frn g qa f c (stack ++ [c]) (snd acc)) as [o2 st2] eqn:Efr.
        pose proof (IH c (stack ++ [c]) (snd acc)) as Hc. cbv zeta in Hc. rewrite Efr in Hc. cbn [fst snd] in *.
        destruct Hc as [_ [_ Hs]].
        intros stk m Hin. apply in_app_iff in Hin. destruct Hin as [Hin|Hin]; [apply Hao; assumption|].
        destruct (Hs stk m Hin) as [Hm [suf [-> [Hp Hall]]]].
        destruct (Hks c (or_introl eq_refl)) as [He Hcv].
        split; [apply Hr1, Har; assumption|].
        exists (c :: suf). rewrite <- app_assoc. split; [reflexivity|]. split; [split; assumption|].
        intros x [<-|Hx]; [apply Hv1; assumption | apply Hv1, Hav, Hall; assumption]. }
    specialize (Hfold (kidlist valid1 n) (out0, (valid1, result1))). cbv zeta in Hfold. cbn [fst snd] in Hfold.
    destruct Hfold as [A [B C]].
    + intros c Hc. apply In_kidlist in Hc. assumption.
    + apply incl_refl.
    + apply incl_refl.
    + assumption.
    + split; [eapply incl_tran; eassumption|]. split; [eapply incl_tran; eassumption | assumption].
Qed.

(* ---- completeness with queryAll: every path inside 'valid' to a node of
   'result' is reported *)
Lemma fold_out_mono : forall qa f stack ks acc x,
  In x (fst acc) -> In x (fst (fold_left (fstep qa f stack) ks acc)).
Proof.
  induction ks as [|c ks IH]; intros acc x Hx; cbn [fold_left]; [assumption|].
  apply IH. unfold fstep. destruct (frn g qa f c (stack ++ [c]) (snd acc)). cbn [fst]. apply in_app_iff. auto.
Qed.

Lemma frn_all_state : forall fuel n stack st, snd (frn g true fuel n stack st) = st.
Proof.
  induction fuel as [|f IH]; intros n stack [valid result]; [reflexivity|].
  rewrite frn_S. cbv zeta. rewrite andb_false_r.
  generalize (kidlist valid n). generalize (if memb n result then [(stack, n)] else []).
  intros out0 ks. revert out0. induction ks as [|c ks IHk]; intros out0; cbn [fold_left]; [reflexivity|].
  unfold fstep at 2. cbn [snd fst]. pose proof (IH c (stack ++ [c]) (valid, result)) as Hc.
  destruct (frn g true f c (stack ++ [c]) (valid, result)) as [o2 st2]. cbn [snd] in Hc. subst st2. apply IHk.
Qed.

Lemma frn_all_complete : forall fuel n stack valid result suf m,
  n < len -> len <= fuel + n ->
  real_path g n suf m -> (forall x, In x suf -> In x valid) -> In m result ->
  In (stack ++ suf, m) (fst (frn g true fuel n stack (valid, result))).
Proof.
  induction fuel as [|f IH]; intros n stack valid result suf m Hn Hf Hp Hv Hm; [lia|].
  rewrite frn_S. cbv zeta. rewrite andb_false_r.
  destruct suf as [|c suf].
  - cbn [real_path] in Hp. subst m. apply fold_out_mono. apply memb_In in Hm. rewrite Hm.
    rewrite app_nil_r. left. reflexivity.
  - cbn [real_path] in Hp. destruct Hp as [He Hp].
    assert (Hck : In c (kidlist valid n)) by (apply In_kidlist; split; [assumption | apply Hv; left; reflexivity]).
    pose proof (edge_bound g wf _ _ _ He) as Hb.
    assert (Hsub : In (stack ++ c :: suf, m) (fst (frn g true f c (stack ++ [c]) (valid, result)))).
    { replace (stack ++ c :: suf) with ((stack ++ [c]) ++ suf) by (rewrite <- app_assoc; reflexivity).
      apply IH; try assumption; try lia. intros x Hx. apply Hv. right. assumption. }
    assert (Hgen : forall ks (out0 : list (list node * node)), In c ks ->
              In (stack ++ c :: suf, m) (fst (fold_left (fstep true f stack) ks (out0, (valid, result))))).
    { induction ks as [|c' ks IHk]; intros out0 Hin; [destruct Hin|].
      cbn [fold_left]. destruct Hin as [->|Hin].
      + apply fold_out_mono. unfold fstep. cbn [snd fst].
        destruct (frn g true f c (stack ++ [c]) (valid, result)) as [o2 st2]. cbn [fst] in *. apply in_app_iff. auto.
      + unfold fstep at 2. cbn [snd fst].
        pose proof (frn_all_state f c' (stack ++ [c']) (valid, result)) as Hst.
        destruct (frn g true f c' (stack ++ [c']) (valid, result)) as [o2 st2]. cbn [snd] in Hst. subst st2.
        apply IHk. assumption. }
    apply Hgen. assumption.
Qed.

End Results.

(* ------------------------------------------------------------------ __findResultNodes without
   queryAll: a depth first search that deletes visited nodes from 'valid' and
   reported nodes from 'result'.  It still reaches every node that is
   reachable from the start through 'valid', and reports each result once. *)
Section ResultsOnce.
Variable g : graph.
Hypothesis wf : wf_graph g.
Variable V0 : list node.      (* 'valid' when the search starts *)
Notation len := (length g).

(* every node that was visited and is not on the current stack (A) has all its
   children inside V0 visited as well *)
Definition closedP (A V : list node) : Prop :=
  forall y c, In y V0 -> ~ In y V -> ~ In y A -> edge g true y c -> In c V0 -> ~ In c V.
Definition visited_reported (V Rs : list node) : Prop :=
  forall y, In y V0 -> ~ In y V -> ~ In y Rs.

Record post (A : list node) (n : node) (V Rs : list node)
            (r : list (list node * node) * rstate) : Prop := {
  p_v : incl (fst (snd r)) V;
  p_r : incl (snd (snd r)) Rs;
  p_nv : ~ In n (fst (snd r));
  p_nr : ~ In n (snd (snd r));
  p_closed : closedP A (fst (snd r));
  p_kids : forall c, edge g true n c -> In c V0 -> ~ In c (fst (snd r));
  p_j3 : visited_reported (fst (snd r)) (snd (snd r));
  p_yield : forall m, In m Rs -> ~ In m (snd (snd r)) -> exists stk, In (stk, m) (fst r)
}.

Lemma frn_once_post : forall fuel n stack V Rs A,
  n < len -> len <= fuel + n -> incl V V0 -> closedP A V -> visited_reported V Rs ->
  post A n V Rs (frn g false fuel n stack (V, Rs)).
Proof.
  induction fuel as [|f IH]; intros n stack V Rs A Hn Hf HV Hcl Hj; [lia|].
  rewrite frn_S. cbv zeta. rewrite andb_true_r.
  set (valid1 := remove1 n V).
  set (result1 := if memb n Rs then remove1 n Rs else Rs).
  set (out0 := if memb n Rs then [(stack, n)] else []).
  assert (Hv1 : incl valid1 V) by (intros x Hx; apply In_remove1 in Hx; tauto).
  assert (Hnv1 : ~ In n valid1) by (intros Hx; apply In_remove1 in Hx; tauto).
  assert (Hr1 : incl result1 Rs).
  { unfold result1. destruct (memb n Rs); [|apply incl_refl]. intros x Hx. apply In_remove1 in Hx. tauto. }
  assert (Hnr1 : ~ In n result1).
  { unfold result1. destruct (memb n Rs) eqn:Em.
    - intros Hx. apply In_remove1 in Hx. tauto.
    - apply memb_false. assumption. }
  assert (Hkeep : forall y, y <> n -> ~ In y valid1 -> ~ In y V).
  { intros y Hy Hny Hin. apply Hny. apply In_remove1. auto. }
  assert (Hcl1 : closedP (n :: A) valid1).
  { intros y c Hy0 Hyv HyA He Hc0 Hcv. apply (Hcl y c); auto.
    - apply Hkeep; [|assumption]. intros ->. apply HyA. left. reflexivity.
    - intros HA. apply HyA. right. assumption. }
  assert (Hj1 : visited_reported valid1 result1).
  { intros y Hy0 Hyv Hyr. destruct (Nat.eq_dec y n) as [->|Hne]; [tauto|].
    apply (Hj y Hy0); [apply Hkeep; assumption | apply Hr1; assumption]. }
  (* the loop over the children *)
  assert (Hloop : forall ks (acc : list (list node * node) * rstate),
    (forall c, In c ks -> edge g true n c) ->
    incl (fst (snd acc)) valid1 -> incl (snd (snd acc)) result1 ->
    closedP (n :: A) (fst (snd acc)) -> visited_reported (fst (snd acc)) (snd (snd acc)) ->
    let r := fold_left (fstep g false f stack) ks acc in
    incl (fst (snd r)) (fst (snd acc)) /\ incl (snd (snd r)) (snd (snd acc)) /\
    closedP (n :: A) (fst (snd r)) /\ visited_reported (fst (snd r)) (snd (snd r)) /\
    (forall c, In c ks -> ~ In c (fst (snd r))) /\
    (forall x, In x (fst acc) -> In x (fst r)) /\
    (forall m, In m (snd (snd acc)) -> ~ In m (snd (snd r)) -> exists stk, In (stk, m) (fst r))).
  { induction ks as [|c ks IHk]; intros acc Hks Hav Har Hac Haj; cbn [fold_left].
    - cbv zeta. split; [apply incl_refl|]. split; [apply incl_refl|]. split; [assumption|]. split; [assumption|].
      split; [intros c []|]. split; [auto|]. intros m H1 H2. contradiction.
    - pose proof (Hks c (or_introl eq_refl)) as He. pose proof (edge_bound g wf _ _ _ He) as Hb.
      assert (Hsub : post (n :: A) c (fst (snd acc)) (snd (snd acc))
                          (frn g false f c (stack ++ [c]) (fst (snd acc), snd (snd acc)))).
      { apply IH; try assumption; try lia. eapply incl_tran; [eassumption|]. eapply incl_tran; eassumption. }
      assert (Hacc' : fstep g false f stack acc c =
                (fst acc ++ fst (frn g false f c (stack ++ [c]) (fst (snd acc), snd (snd acc))),
                 snd (frn g false f c (stack ++ [c]) (fst (snd acc), snd (snd acc))))).
      { unfold fstep. destruct acc as [o [v r]]. cbn [fst snd].
        destruct (frn g false f c (stack ++ [c]) (v, r)). reflexivity. }
      rewrite Hacc'. clear Hacc'.
      set (sub := frn g false f c (stack ++ [c]) (fst (snd acc), snd (snd acc))) in *.
      destruct Hsub as [S1 S2 S3 S4 S5 S6 S7 S8].
      specialize (IHk (fst acc ++ fst sub, snd sub)). cbn [fst snd] in IHk. cbv zeta in IHk.
      destruct IHk as [K1 [K2 [K3 [K4 [K5 [K6 K7]]]]]].
      + intros c' Hc'. apply Hks. right. assumption.
      + eapply incl_tran; eassumption.
      + eapply incl_tran; eassumption.
      + assumption.
      + assumption.
      + cbv zeta. split; [eapply incl_tran; eassumption|]. split; [eapply incl_tran; eassumption|].
        split; [assumption|]. split; [assumption|].
        split.
        { intros c' [<-|Hc']; [intros Hx; apply S3, K1; assumption | apply K5; assumption]. }
        split.
        { intros x Hx. apply K6. apply in_app_iff. auto. }
        intros m Hm Hnm.
        destruct (memb m (snd (snd sub))) eqn:Em.
        * apply memb_In in Em. apply K7; assumption.
        * apply memb_false in Em. destruct (S8 m Hm Em) as [stk Hs]. exists stk. apply K6. apply in_app_iff. auto. }
  specialize (Hloop (kidlist g valid1 n) (out0, (valid1, result1))). cbn [fst snd] in Hloop. cbv zeta in Hloop.
  destruct Hloop as [L1 [L2 [L3 [L4 [L5 [L6 L7]]]]]].
  - intros c Hc. apply In_kidlist in Hc. tauto.
  - apply incl_refl.
  - apply incl_refl.
  - assumption.
  - assumption.
  - set (r := fold_left (fstep g false f stack) (kidlist g valid1 n) (out0, (valid1, result1))) in *.
    assert (Pk : forall c, edge g true n c -> In c V0 -> ~ In c (fst (snd r))).
    { intros c He Hc0. destruct (memb c valid1) eqn:Ec.
      - apply memb_In in Ec. apply L5. apply In_kidlist. auto.
      - apply memb_false in Ec. intros Hx. apply Ec, L1. assumption. }
    constructor.
    + eapply incl_tran; eassumption.
    + eapply incl_tran; eassumption.
    + intros Hx. apply Hnv1, L1. assumption.
    + intros Hx. apply Hnr1, L2. assumption.
    + intros y c Hy0 Hyv HyA He Hc0. destruct (Nat.eq_dec y n) as [->|Hne].
      * apply Pk; assumption.
      * apply (L3 y c); auto. intros [<-|HA]; [apply Hne; reflexivity | apply HyA; assumption].
    + exact Pk.
    + assumption.
    + intros m Hm Hnm. destruct (Nat.eq_dec m n) as [->|Hne].
      * exists stack. apply L6. unfold out0. apply memb_In in Hm. rewrite Hm. left. reflexivity.
      * apply L7; [|assumption]. unfold result1. destruct (memb n Rs); [|assumption]. apply In_remove1. auto.
Qed.

Lemma real_path_last : forall n suf m, real_path g n suf m -> suf <> [] -> In m suf.
Proof.
  intros n suf. revert n. induction suf as [|c suf IH]; intros n m Hp Hne; [contradiction|].
  cbn [real_path] in Hp. destruct Hp as [_ Hp]. destruct suf as [|c' suf'].
  - cbn [real_path] in Hp. subst. left. reflexivity.
  - right. eapply IH; [eassumption | discriminate].
Qed.

Lemma frn_once_complete : forall n stack Rs suf m,
  n < len -> real_path g n suf m -> (forall x, In x suf -> In x V0) -> In m Rs ->
  exists stk, In (stk, m) (fst (frn g false (S len) n stack (V0, Rs))).
Proof.
  intros n stack Rs suf m Hn Hp Hv Hm.
  assert (P : post [] n V0 Rs (frn g false (S len) n stack (V0, Rs))).
  { apply frn_once_post; try assumption; try lia.
    - apply incl_refl.
    - intros y c Hy Hny. contradiction.
    - intros y Hy Hny. contradiction. }
  set (r := frn g false (S len) n stack (V0, Rs)) in *.
  destruct P as [P1 P2 P3 P4 P5 P6 P7 P8].
  apply P8; [assumption|].
  destruct suf as [|c suf].
  - cbn [real_path] in Hp. subst. assumption.
  - assert (G : forall suf' y x, (y = n \/ (In y V0 /\ ~ In y (fst (snd r)))) ->
                real_path g y suf' x -> (forall z, In z suf' -> In z V0) -> suf' <> [] -> ~ In x (fst (snd r))).
    { induction suf' as [|c' suf' IHs]; intros y x Hy Hpy Hvy Hne; [contradiction|].
      cbn [real_path] in Hpy. destruct Hpy as [He Hpy].
      assert (Hc' : ~ In c' (fst (snd r))).
      { destruct Hy as [->|[Hy1 Hy2]].
        - apply P6; [assumption | apply Hvy; left; reflexivity].
        - apply (P5 y c'); auto. apply Hvy. left. reflexivity. }
      destruct suf' as [|c'' suf''].
      - cbn [real_path] in Hpy. subst. assumption.
      - apply (IHs c' x); [right; split; [apply Hvy; left; reflexivity | assumption] | assumption | | discriminate].
        intros z Hz. apply Hvy. right. assumption. }
    apply P7.
    + apply Hv. eapply real_path_last; [eassumption | discriminate].
    + eapply (G (c :: suf) n m); [left; reflexivity | assumption | assumption | discriminate].
Qed.

End ResultsOnce.

(* ------------------------------------------------------------------ __findIntermediateNodes *)
Section Traverse.
Variable g : graph.
Hypothesis wf : wf_graph g.
Variable ind : bool.
Variable new : list node.
Notation len := (length g).
Notation Ei := (edge g ind).

(* "leads to a node of new" *)
Definition leads (v : node) : Prop := In v new \/ exists m, In m new /\ tc Ei v m.

Record tinv (st : list node * list node) : Prop := {
  t_closed : forall v c, In v (fst st) -> Ei v c -> In c (fst st);
  t_marked : forall v c, In v (fst st) -> Ei v c -> leads c -> In v (snd st)
}.

Lemma traverse_S : forall f n stack st,
  traverse g ind new (S f) n stack st =
  if memb n (fst st) then
    (if memb n new || memb n (snd st) then (fst st, union (snd st) stack) else st)
  else
    let im1 := if memb n new then union (snd st) stack else snd st in
    let st' := fold_left (fun s c => traverse g ind new f c (stack ++ [n]) s) (kids_f g ind n) (fst st, im1) in
    (n :: fst st', snd st').
Proof. reflexivity. Qed.

Lemma leads_step : forall v c, Ei v c -> leads c -> exists m, In m new /\ tc Ei v m.
Proof.
  intros v c He [Hc|[m [Hm Ht]]].
  - exists c. split; [assumption | apply tc_one; assumption].
  - exists m. split; [assumption | eapply tc_more; eassumption].
Qed.

Lemma traverse_post : forall fuel n stack st,
  n < len -> len <= fuel + n -> tinv st ->
  let r := traverse g ind new fuel n stack st in
  tinv r /\ incl (fst st) (fst r) /\ incl (snd st) (snd r) /\ In n (fst r) /\
  (leads n -> incl stack (snd r)).
Proof.
  induction fuel as [|f IH]; intros n stack st Hn Hf I; [lia|].
  rewrite traverse_S. cbv zeta.
  destruct (memb n (fst st)) eqn:Ev.
  - apply memb_In in Ev.
    assert (Hl : leads n -> memb n new || memb n (snd st) = true).
    { intros [Hnew|[m [Hm Ht]]]; apply orb_true_iff.
      - left. apply memb_In. assumption.
      - right. apply memb_In. inversion Ht; subst.
        + eapply (t_marked _ I); [eassumption | eassumption | left; assumption].
        + eapply (t_marked _ I); [eassumption | eassumption | right; exists m; auto]. }
    destruct (memb n new || memb n (snd st)) eqn:Ec.
    + cbn [fst snd]. split; [|split; [apply incl_refl | split; [intros x Hx; apply In_union; auto | split; [assumption|]]]].
      * constructor; cbn [fst snd].
        -- apply (t_closed _ I).
        -- intros v c Hv He Hc. apply In_union. left. eapply (t_marked _ I); eassumption.
      * intros _ x Hx. apply In_union. auto.
    + split; [assumption|]. split; [apply incl_refl|]. split; [apply incl_refl|]. split; [assumption|].
      intros Hl'. apply Hl in Hl'. discriminate.
  - apply memb_false in Ev.
    set (im1 := if memb n new then union (snd st) stack else snd st).
    assert (Him1 : incl (snd st) im1).
    { unfold im1. destruct (memb n new); [|apply incl_refl]. intros x Hx. apply In_union. auto. }
    assert (I1 : tinv (fst st, im1)).
    { constructor; cbn [fst snd].
      - apply (t_closed _ I).
      - intros v c Hv He Hc. apply Him1. eapply (t_marked _ I); eassumption. }
    (* loop over the children *)
    assert (Hloop : forall ks s,
      (forall c, In c ks -> Ei n c) -> tinv s ->
      let r := fold_left (fun s c => traverse g ind new f c (stack ++ [n]) s) ks s in
      tinv r /\ incl (fst s) (fst r) /\ incl (snd s) (snd r) /\
      (forall c, In c ks -> In c (fst r)) /\
      (forall c, In c ks -> leads c -> incl (stack ++ [n]) (snd r))).
    { induction ks as [|c ks IHk]; intros s Hks Hs; cbn [fold_left].
      - cbv zeta. split; [assumption|]. split; [apply incl_refl|]. split; [apply incl_refl|].
        split; intros c [].
      - pose proof (Hks c (or_introl eq_refl)) as He. pose proof (edge_bound g wf _ _ _ He) as Hb.
        destruct (IH c (stack ++ [n]) s) as [A1 [A2 [A3 [A4 A5]]]]; [lia | lia | assumption|].
        set (s1 := traverse g ind new f c (stack ++ [n]) s) in *.
        destruct (IHk s1) as [B1 [B2 [B3 [B4 B5]]]]; [intros c' Hc'; apply Hks; right; assumption | assumption|].
        cbv zeta. split; [assumption|]. split; [eapply incl_tran; eassumption|]. split; [eapply incl_tran; eassumption|].
        split.
        + intros c' [<-|Hc']; [apply B2; assumption | apply B4; assumption].
        + intros c' [<-|Hc'] Hl; [eapply incl_tran; [apply A5; assumption | assumption] | apply (B5 c'); assumption]. }
    destruct (Hloop (kids_f g ind n) (fst st, im1)) as [L1 [L2 [L3 [L4 L5]]]].
    { intros c Hc. apply In_kids_f in Hc. assumption. }
    { assumption. }
    set (r := fold_left (fun s c => traverse g ind new f c (stack ++ [n]) s) (kids_f g ind n) (fst st, im1)) in *.
    cbn [fst snd] in *.
    split; [|split; [intros x Hx; right; apply L2; assumption |
             split; [eapply incl_tran; eassumption | split; [left; reflexivity|]]]].
    + constructor; cbn [fst snd].
      * intros v c [<-|Hv] He.
        -- right. apply L4. apply In_kids_f. assumption.
        -- right. eapply (t_closed _ L1); eassumption.
      * intros v c [<-|Hv] He Hc.
        -- apply (L5 c); [apply In_kids_f; assumption | assumption | apply in_app_iff; right; left; reflexivity].
        -- eapply (t_marked _ L1); eassumption.
    + intros [Hnew|[m [Hm Ht]]].
      * apply memb_In in Hnew. intros x Hx. apply L3. unfold im1. rewrite Hnew. apply In_union. auto.
      * assert (Hk : exists c, Ei n c /\ leads c).
        { inversion Ht; subst; [exists m; split; [assumption | left; assumption] |
                                exists x; split; [assumption | right; exists m; auto]]. }
        destruct Hk as [c [He Hc]]. intros x Hx. apply (L5 c); [apply In_kids_f; assumption | assumption|].
        apply in_app_iff. auto.
Qed.

(* every node of 'new' below a node of 'old' is connected to it by a chain whose
   inner nodes are all recorded as intermediate *)
Lemma find_intermediate_chain : forall old o m,
  (forall x, In x old -> x < len) -> subset new old = false ->
  In o old -> In m new -> tc Ei o m ->
  exists suf, real_path g o suf m /\ forall x, In x suf -> In x (find_intermediate g old new ind) \/ x = m.
Proof.
  intros old o m Hold Hsub Ho Hm Ht. unfold find_intermediate. rewrite Hsub.
  assert (Hfold : forall os s, (forall x, In x os -> x < len) -> tinv s ->
            let r := fold_left (fun s n => traverse g ind new (S len) n [] s) os s in
            tinv r /\ incl (fst s) (fst r) /\ (forall x, In x os -> In x (fst r))).
  { induction os as [|a os IHo]; intros s Hos Hs; cbn [fold_left].
    - cbv zeta. split; [assumption|]. split; [apply incl_refl | intros x []].
    - destruct (traverse_post (S len) a [] s) as [A1 [A2 [A3 [A4 A5]]]]; [apply Hos; left; reflexivity | lia | assumption|].
      destruct (IHo (traverse g ind new (S len) a [] s)) as [B1 [B2 B3]];
        [intros x Hx; apply Hos; right; assumption | assumption|].
      cbv zeta. split; [assumption|]. split; [eapply incl_tran; eassumption|].
      intros x [<-|Hx]; [apply B2; assumption | apply B3; assumption]. }
  destruct (Hfold old ([], [])) as [F1 [_ F3]]; [assumption | constructor; cbn [fst]; intros v c []|].
  set (r := fold_left (fun s n => traverse g ind new (S len) n [] s) old ([], [])) in *.
  assert (G : forall v, tc Ei v m -> In v (fst r) ->
              exists suf, real_path g v suf m /\ forall x, In x suf -> In x (snd r) \/ x = m).
  { intros v Hv. induction Hv as [a b Hab | a b c Hab Hbc IH]; intros Ha.
    - exists [b]. split; [split; [eapply edge_weaken; eassumption | reflexivity] | intros x [<-|[]]; auto].
    - assert (Hb : In b (fst r)) by (eapply (t_closed _ F1); eassumption).
      destruct (IH Hm Ht Hb) as [suf [Hp Hs]].
      exists (b :: suf). split; [split; [eapply edge_weaken; eassumption | assumption]|].
      intros x [<-|Hx]; [|auto]. left.
      inversion Hbc; subst.
      + eapply (t_marked _ F1); [eassumption | eassumption | left; assumption].
      + eapply (t_marked _ F1); [eassumption | eassumption | right; exists c; auto]. }
  apply G; [assumption | apply F3; assumption].
Qed.

End Traverse.

(* ------------------------------------------------------------------ __findReachableSubset *)
Section Reach.
Variable g : graph.
Hypothesis wf : wf_graph g.
Variable V : list node.       (* valid *)
Variable NS : list node.      (* the current context nodes *)
Notation len := (length g).

Record rinv (todo ret : list node) : Prop := {
  r_par : forall y p, In y ret -> edge g true p y -> In p V -> In p ret \/ In p todo;
  r_ns : forall m, In m NS -> In m V -> In m ret \/ In m todo
}.

Lemma parents_length : forall n, length (parents g true n) <= len.
Proof.
  intros. unfold parents.
  assert (H : forall (f : node -> bool) l, length (filter f l) <= length l).
  { induction l as [|y r IH]; cbn [filter length]; [lia|]. destruct (f y); cbn [length]; lia. }
  etransitivity; [apply H|]. unfold nodes. rewrite seq_length. lia.
Qed.

Lemma reach_loop_inv : forall fuel todo ret,
  length todo + len * measure len ret < fuel -> rinv todo ret ->
  rinv [] (reach_loop g V fuel todo ret).
Proof.
  induction fuel as [|f IH]; intros todo ret Hf I; [lia|].
  cbn [reach_loop]. destruct todo as [|n rest]; [assumption|].
  destruct (negb (memb n V) || memb n ret) eqn:Ec.
  - apply IH; [cbn [length] in Hf; lia|].
    assert (Hn : In n V -> In n ret).
    { intros Hv. apply orb_true_iff in Ec. destruct Ec as [Ec|Ec].
      - apply negb_true_iff, memb_false in Ec. contradiction.
      - apply memb_In. assumption. }
    constructor.
    + intros y p Hy He Hp. destruct (r_par _ _ I y p Hy He Hp) as [H|[<-|H]]; auto.
    + intros m Hm Hv. destruct (r_ns _ _ I m Hm Hv) as [H|[<-|H]]; auto.
  - apply orb_false_iff in Ec. destruct Ec as [Ev Er].
    apply negb_false_iff, memb_In in Ev. apply memb_false in Er.
    apply IH.
    + rewrite app_length. cbn [length] in Hf.
      destruct (Nat.lt_ge_cases n len) as [Hlt|Hge].
      * assert (Hm : measure len (n :: ret) < measure len ret).
        { apply measure_lt with (x := n); [intros y Hy; right; assumption | assumption | assumption | left; reflexivity]. }
        pose proof (parents_length n). nia.
      * assert (Hp : parents g true n = []).
        { destruct (parents g true n) as [|p ps] eqn:Ep; [reflexivity|].
          assert (Hin : In p (parents g true n)) by (rewrite Ep; left; reflexivity).
          apply (In_parents g wf) in Hin. apply (edge_bound g wf) in Hin. lia. }
        rewrite Hp. cbn [length].
        assert (Hm : measure len (n :: ret) <= measure len ret).
        { unfold measure. apply filter_length_mono. intros y Hy.
          rewrite negb_true_iff in *. rewrite memb_false in *. intros Hin. apply Hy. right. assumption. }
        nia.
    + constructor.
      * intros y p [<-|Hy] He Hp.
        -- right. apply in_app_iff. left. apply (In_parents g wf). assumption.
        -- destruct (r_par _ _ I y p Hy He Hp) as [H|[<-|H]]; [left; right; assumption | left; left; reflexivity |
             right; apply in_app_iff; right; assumption].
      * intros m Hm Hv. destruct (r_ns _ _ I m Hm Hv) as [H|[<-|H]]; [left; right; assumption | left; left; reflexivity |
             right; apply in_app_iff; right; assumption].
Qed.

Lemma reach_complete : forall suf x m,
  In m NS -> real_path g x suf m -> In x V -> (forall z, In z suf -> In z V) ->
  In x (find_reachable_subset g V NS).
Proof.
  unfold find_reachable_subset.
  assert (I : rinv [] (reach_loop g V (length NS + len * len + 1) NS [])).
  { apply reach_loop_inv.
    - pose proof (measure_le len []). nia.
    - constructor; [intros y p [] | intros m Hm _; auto]. }
  induction suf as [|c suf IH]; intros x m Hm Hp Hx Hs.
  - cbn [real_path] in Hp. subst. destruct (r_ns _ _ I m Hm Hx) as [H|[]]. assumption.
  - cbn [real_path] in Hp. destruct Hp as [He Hp].
    assert (Hc : In c (reach_loop g V (length NS + len * len + 1) NS [])).
    { apply (IH c m); [assumption | assumption | apply Hs; left; reflexivity | intros z Hz; apply Hs; right; assumption]. }
    destruct (r_par _ _ I c x Hc He Hx) as [H|[]]. assumption.
Qed.

End Reach.

(* ------------------------------------------------------------------ evalForward keeps every
   context node connected to the root inside 'valid' *)
Section Conn.
Variable g : graph.
Variable sv : sexpr -> node -> str.
Hypothesis wf : wf_graph g.
Notation len := (length g).

Definition connV (V : list node) (m : node) : Prop :=
  exists stk, real_path g root stk m /\ forall x, In x stk -> In x V.

Definition Conn (st : fstate) : Prop := forall m, In m (f_nodes st) -> connV (f_valid st) m.

Lemma real_path_app : forall n s1 x s2 m, real_path g n s1 x -> real_path g x s2 m -> real_path g n (s1 ++ s2) m.
Proof.
  intros n s1. revert n. induction s1 as [|c s1 IH]; intros n x s2 m H1 H2; cbn [real_path app] in *.
  - subst. assumption.
  - destruct H1 as [He H1]. split; [assumption|]. eapply IH; eassumption.
Qed.

Lemma real_path_split : forall n s1 s2 m, real_path g n (s1 ++ s2) m ->
  exists x, real_path g n s1 x /\ real_path g x s2 m.
Proof.
  intros n s1. revert n. induction s1 as [|c s1 IH]; intros n s2 m H; cbn [real_path app] in *.
  - exists n. auto.
  - destruct H as [He H]. destruct (IH _ _ _ H) as [x [H1 H2]]. exists x. auto.
Qed.

Lemma connV_mono : forall V V' m, incl V V' -> connV V m -> connV V' m.
Proof. intros V V' m Hi [stk [Hp Hs]]. exists stk. split; [assumption | auto]. Qed.

Lemma connV_extend : forall V o suf m, connV V o -> real_path g o suf m -> (forall x, In x suf -> In x V) -> connV V m.
Proof.
  intros V o suf m [stk [Hp Hs]] Hp2 Hs2. exists (stk ++ suf). split; [eapply real_path_app; eassumption|].
  intros x Hx. apply in_app_iff in Hx. destruct Hx; auto.
Qed.

(* trimming by the reachable subset keeps the context nodes connected *)
Lemma trim_conn : forall V ns m, incl ns V -> In m ns -> connV V m ->
  connV (inter V (find_reachable_subset g V ns)) m.
Proof.
  intros V ns m Hns Hm [stk [Hp Hs]]. exists stk. split; [assumption|].
  intros x Hx. apply In_inter. split; [auto|].
  apply in_split in Hx. destruct Hx as [s1 [s2 ->]].
  replace (s1 ++ x :: s2) with ((s1 ++ [x]) ++ s2) in Hp by (rewrite <- app_assoc; reflexivity).
  apply real_path_split in Hp. destruct Hp as [y [H1 H2]].
  apply real_path_split in H1. destruct H1 as [z [_ H1]]. cbn [real_path] in H1. destruct H1 as [_ <-].
  eapply (reach_complete g wf V ns s2 x m); try eassumption.
  - apply Hs. apply in_app_iff. right. left. reflexivity.
  - intros w Hw. apply Hs. apply in_app_iff. right. right. assumption.
Qed.

Lemma step_fwd_search : forall a t pr S,
  snd (fst (step_fwd g sv a t pr S)) = snd (axis_fwd g a S).
Proof.
  intros. unfold step_fwd. destruct (axis_fwd g a S) as [ns1 search]. destruct (is_pnone pr); reflexivity.
Qed.

Lemma fwd_one_conn : forall mode a t pr st,
  bounded g (f_nodes st) -> Conn st ->
  match fwd_one g sv mode a t pr st with
  | inl _ => True
  | inr st2 => Conn st2
  end.
Proof.
  intros mode a t pr st HS HC. unfold fwd_one.
  pose proof (fun m => step_fwd_correct g sv wf a t pr (f_nodes st) m HS) as HF.
  pose proof (step_fwd_search a t pr (f_nodes st)) as Hsearch.
  destruct (step_fwd g sv a t pr (f_nodes st)) as [[ns search] cq]. cbn [fst snd] in HF, Hsearch.
  set (valid1 := match search with
                 | Some ind0 => union (f_valid st) (find_intermediate g (f_nodes st) ns ind0)
                 | None => union (f_valid st) ns
                 end).
  assert (Hgoal : Conn {| f_nodes := ns; f_valid := inter (union valid1 ns) (find_reachable_subset g (union valid1 ns) ns);
                          f_complex := f_complex st || cq; f_k := S (f_k st) |}).
  { intros m Hm. cbn [f_nodes f_valid] in *.
    apply trim_conn; [intros x Hx; apply In_union; auto | assumption|].
    pose proof Hm as Hsel. apply HF in Hsel. destruct Hsel as [o [Ho [Hr _]]].
    pose proof (HC o Ho) as Hco.
    assert (Hv : incl (f_valid st) (union valid1 ns)).
    { intros x Hx. apply In_union. left. unfold valid1. destruct search; apply In_union; auto. }
    assert (Hone : edge g true o m -> connV (union valid1 ns) m).
    { intros He. eapply connV_extend; [eapply connV_mono; eassumption | |].
      - instantiate (1 := [m]). split; [assumption | reflexivity].
      - intros x [<-|[]]. apply In_union. auto. }
    assert (Hmany : forall ind0, search = Some ind0 -> tc (edge g ind0) o m -> connV (union valid1 ns) m).
    { intros ind0 Hs Ht. destruct (subset ns (f_nodes st)) eqn:Esub.
      - rewrite subset_spec in Esub. eapply connV_mono; [eassumption|]. apply HC. apply Esub. assumption.
      - destruct (find_intermediate_chain g wf ind0 ns (f_nodes st) o m HS Esub Ho Hm Ht) as [suf [Hp Hs']].
        eapply connV_extend; [eapply connV_mono; eassumption | eassumption|].
        intros x Hx. apply In_union. destruct (Hs' x Hx) as [Hi| ->]; [|auto].
        left. unfold valid1. rewrite Hs. apply In_union. auto. }
    destruct a; cbn [axis_fwd snd] in Hsearch; cbn [axis_rel] in Hr.
    - apply Hone. assumption.
    - apply (Hmany true); assumption.
    - destruct Hr as [<-|Hr]; [eapply connV_mono; eassumption | apply (Hmany true); assumption].
    - apply Hone. eapply edge_weaken. eassumption.
    - apply (Hmany false); assumption.
    - destruct Hr as [<-|Hr]; [eapply connV_mono; eassumption | apply (Hmany false); assumption].
    - subst. eapply connV_mono; eassumption. }
  destruct (is_empty ns && negb (emode_eqb mode NullSet) && negb (f_complex st || cq)); [exact I|].
  destruct (is_empty ns && negb (emode_eqb mode NullSet) && emode_eqb mode NullFail); [exact I|].
  exact Hgoal.
Qed.

Lemma fwd_one_bounded : forall mode a t pr st st2,
  bounded g (f_nodes st) -> fwd_one g sv mode a t pr st = inr st2 -> bounded g (f_nodes st2).
Proof.
  intros mode a t pr st st2 HS H. pose proof (fwd_one_spec g sv wf mode a t pr st HS) as F.
  rewrite H in F. intros y Hy. apply F in Hy. eapply step_sel_bounded; eassumption.
Qed.

Lemma fwd_loop_conn : forall mode q st,
  bounded g (f_nodes st) -> Conn st ->
  match fwd_loop g sv mode q st with
  | FOk ns valid => forall m, In m ns -> connV valid m
  | _ => True
  end.
Proof.
  intros mode q. induction q as [|dsl a t pr rest IH]; intros st HS HC.
  - cbn [fwd_loop]. exact HC.
  - cbn [fwd_loop].
    assert (Stage2 : forall st1, bounded g (f_nodes st1) -> Conn st1 ->
      match (match fwd_one g sv mode a t pr st1 with inl e => e | inr st2 => fwd_loop g sv mode rest st2 end) with
      | FOk ns valid => forall m, In m ns -> connV valid m
      | _ => True
      end).
    { intros st1 H1 C1. pose proof (fwd_one_conn mode a t pr st1 H1 C1) as F1.
      pose proof (fwd_one_spec g sv wf mode a t pr st1 H1) as F2.
      destruct (fwd_one g sv mode a t pr st1) as [e|st2] eqn:E1.
      - destruct F2 as [[k [->| ->]] _]; exact I.
      - apply IH; [eapply fwd_one_bounded; eassumption | assumption]. }
    destruct dsl.
    + pose proof (fwd_one_conn mode ADescSelf star PNone st HS HC) as F1.
      pose proof (fwd_one_spec g sv wf mode ADescSelf star PNone st HS) as F2.
      destruct (fwd_one g sv mode ADescSelf star PNone st) as [e|st1] eqn:E1.
      * destruct F2 as [[k [->| ->]] _]; exact I.
      * apply Stage2; [eapply fwd_one_bounded; eassumption | assumption].
    + apply Stage2; assumption.
Qed.

Lemma eval_forward_conn : forall mode q,
  match eval_forward g sv mode q with
  | FOk ns valid => forall m, In m ns -> connV valid m
  | _ => True
  end.
Proof.
  intros. unfold eval_forward. apply fwd_loop_conn.
  - intros x [<-|[]]. apply (wf_root g wf).
  - intros m [<-|[]]. exists []. split; [reflexivity | intros x []].
Qed.

End Conn.

(* ------------------------------------------------------------------ without queryAll every
   package is reported at most once *)
Section Once.
Variable g : graph.

Lemma NoDup_app_disj : forall (A : Type) (l1 l2 : list A),
  NoDup l1 -> NoDup l2 -> (forall x, In x l1 -> ~ In x l2) -> NoDup (l1 ++ l2).
Proof.
  intros A l1. induction l1 as [|a l1 IH]; intros l2 H1 H2 Hd; cbn [app]; [assumption|].
  inversion H1; subst. constructor.
  - intros Hin. apply in_app_iff in Hin. destruct Hin as [Hin|Hin]; [contradiction|].
    apply (Hd a); [left; reflexivity | assumption].
  - apply IH; [assumption | assumption|]. intros x Hx. apply Hd. right. assumption.
Qed.

Lemma frn_once_nodup : forall fuel n stack V Rs,
  let r := frn g false fuel n stack (V, Rs) in
  NoDup (map snd (fst r)) /\ incl (snd (snd r)) Rs /\
  forall m, In m (map snd (fst r)) -> In m Rs /\ ~ In m (snd (snd r)).
Proof.
  induction fuel as [|f IH]; intros n stack V Rs.
  - cbn [frn fst snd map]. split; [constructor|]. split; [apply incl_refl | intros m []].
  - rewrite frn_S. cbv zeta. rewrite andb_true_r.
    set (valid1 := remove1 n V).
    set (result1 := if memb n Rs then remove1 n Rs else Rs).
    set (out0 := if memb n Rs then [(stack, n)] else []).
    assert (Hr1 : incl result1 Rs).
    { unfold result1. destruct (memb n Rs); [|apply incl_refl]. intros x Hx. apply In_remove1 in Hx. tauto. }
    assert (H0 : NoDup (map snd out0) /\ forall m, In m (map snd out0) -> In m Rs /\ ~ In m result1).
    { unfold out0, result1. destruct (memb n Rs) eqn:Em; cbn [map snd].
      - split; [constructor; [intros []|constructor]|]. intros m [<-|[]]. apply memb_In in Em.
        split; [assumption|]. intros Hx. apply In_remove1 in Hx. tauto.
      - split; [constructor | intros m []]. }
    assert (Hloop : forall ks (acc : list (list node * node) * rstate),
      NoDup (map snd (fst acc)) -> incl (snd (snd acc)) Rs ->
      (forall m, In m (map snd (fst acc)) -> In m Rs /\ ~ In m (snd (snd acc))) ->
      let r := fold_left (fstep g false f stack) ks acc in
      NoDup (map snd (fst r)) /\ incl (snd (snd r)) Rs /\
      forall m, In m (map snd (fst r)) -> In m Rs /\ ~ In m (snd (snd r))).
    { induction ks as [|c ks IHk]; intros acc A1 A2 A3; cbn [fold_left]; [cbv zeta; auto|].
      apply IHk; unfold fstep; destruct acc as [o [v rs]]; cbn [fst snd] in *;
        pose proof (IH c (stack ++ [c]) v rs) as Hc; cbv zeta in Hc;
        destruct (frn g false f c (stack ++ [c]) (v, rs)) as [o2 [v2 r2]]; cbn [fst snd] in *;
        destruct Hc as [C1 [C2 C3]].
      - rewrite map_app. apply NoDup_app_disj; [assumption | assumption|].
        intros x Hx Hx2. apply A3 in Hx. apply C3 in Hx2. tauto.
      - eapply incl_tran; eassumption.
      - intros m Hm. rewrite map_app in Hm. apply in_app_iff in Hm. destruct Hm as [Hm|Hm].
        + apply A3 in Hm. split; [tauto|]. intros Hx. apply C2 in Hx. tauto.
        + apply C3 in Hm. split; [apply A2; tauto | tauto]. }
    apply Hloop; cbn [fst snd]; [tauto | assumption | tauto].
Qed.

End Once.

(* ------------------------------------------------------------------ name patterns *)
Lemma glob_star : forall pat s,
  glob (ch_star :: pat) s = glob pat s || match s with [] => false | _ :: s' => glob (ch_star :: pat) s' end.
Proof. intros pat s. destruct s; reflexivity. Qed.

Lemma glob_match_spec_proof : forall pat s, glob pat s = true <-> gmatch pat s.
Proof.
  induction pat as [|c pat IH]; intros s.
  - destruct s; cbn [glob]; split; intros H; try constructor; try discriminate. inversion H.
  - destruct (N.eqb c ch_star) eqn:Ec.
    + apply N.eqb_eq in Ec. subst c. split.
      * revert IH. induction s as [|d s IHs]; intros IH; rewrite glob_star; intros H.
        -- rewrite orb_false_r in H. apply IH in H. apply (gm_star pat [] []). assumption.
        -- apply orb_true_iff in H. destruct H as [H|H].
           ++ apply IH in H. apply (gm_star pat [] (d :: s)). assumption.
           ++ apply IHs in H; [|assumption]. inversion H; subst.
              ** rewrite app_comm_cons. apply gm_star. assumption.
              ** exfalso. auto.
      * intros H. remember (ch_star :: pat) as p eqn:Ep. destruct H as [|pat' s1 s2 H|c' pat' s' Hne H]; try discriminate.
        -- inversion Ep; subst pat'. apply IH in H. clear IH.
           induction s1 as [|d s1 IHs]; cbn [app]; rewrite glob_star.
           ++ rewrite H. reflexivity.
           ++ rewrite IHs. apply orb_true_r.
        -- inversion Ep; subst. exfalso. auto.
    + assert (Hne : c <> ch_star) by (apply N.eqb_neq; assumption).
      cbn [glob]. rewrite Ec. destruct s as [|d s].
      * split; [discriminate | intros H; inversion H; subst; exfalso; auto].
      * rewrite andb_true_iff, N.eqb_eq, IH. split.
        -- intros [<- H]. constructor; assumption.
        -- intros H. inversion H; subst; [exfalso; auto | auto].
Qed.

(* ------------------------------------------------------------------ empty result modes *)
Section Modes.
Variable g : graph.
Variable sv : sexpr -> node -> str.

Lemma nullset_never_raises_loop : forall q st, exists ns v, fwd_loop g sv NullSet q st = FOk ns v.
Proof.
  induction q as [|dsl a t pr rest IH]; intros st; cbn [fwd_loop]; [eexists; eexists; reflexivity|].
  assert (H1 : forall a' t' pr' st', exists st2, fwd_one g sv NullSet a' t' pr' st' = inr st2).
  { intros. unfold fwd_one. destruct (step_fwd g sv a' t' pr' (f_nodes st')) as [[ns search] cq].
    cbn [emode_eqb negb]. rewrite !andb_false_r. cbn [andb]. eexists. reflexivity. }
  destruct dsl.
  - destruct (H1 ADescSelf star PNone st) as [st1 ->]. destruct (H1 a t pr st1) as [st2 ->]. apply IH.
  - destruct (H1 a t pr st) as [st2 ->]. apply IH.
Qed.

Lemma fwd_one_nullfail : forall a t pr st st2,
  fwd_one g sv NullFail a t pr st = inr st2 -> f_nodes st2 <> [].
Proof.
  intros a t pr st st2. unfold fwd_one.
  destruct (step_fwd g sv a t pr (f_nodes st)) as [[ns search] cq].
  destruct ns as [|x ns]; cbn [is_empty emode_eqb negb andb].
  - destruct (negb (f_complex st || cq)); discriminate.
  - intros H. inversion H. cbn [f_nodes]. discriminate.
Qed.

Lemma nullfail_nonempty_loop : forall q st ns v,
  f_nodes st <> [] -> fwd_loop g sv NullFail q st = FOk ns v -> ns <> [].
Proof.
  induction q as [|dsl a t pr rest IH]; intros st ns v Hst; cbn [fwd_loop].
  - intros H. inversion H; subst. assumption.
  - destruct dsl.
    + destruct (fwd_one g sv NullFail ADescSelf star PNone st) as [e|st1] eqn:E1.
      * intros ->. unfold fwd_one in E1. destruct (step_fwd g sv ADescSelf star PNone (f_nodes st)) as [[ns1 s1] c1].
        destruct (is_empty ns1 && negb (emode_eqb NullFail NullSet) && negb (f_complex st || c1)); [inversion E1|].
        destruct (is_empty ns1 && negb (emode_eqb NullFail NullSet) && emode_eqb NullFail NullFail); inversion E1.
      * apply fwd_one_nullfail in E1.
        destruct (fwd_one g sv NullFail a t pr st1) as [e|st2] eqn:E2.
        -- intros ->. unfold fwd_one in E2. destruct (step_fwd g sv a t pr (f_nodes st1)) as [[ns1 s1] c1].
           destruct (is_empty ns1 && negb (emode_eqb NullFail NullSet) && negb (f_complex st1 || c1)); [inversion E2|].
           destruct (is_empty ns1 && negb (emode_eqb NullFail NullSet) && emode_eqb NullFail NullFail); inversion E2.
        -- apply fwd_one_nullfail in E2. apply IH. assumption.
    + destruct (fwd_one g sv NullFail a t pr st) as [e|st2] eqn:E2.
      * intros ->. unfold fwd_one in E2. destruct (step_fwd g sv a t pr (f_nodes st)) as [[ns1 s1] c1].
        destruct (is_empty ns1 && negb (emode_eqb NullFail NullSet) && negb (f_complex st || c1)); [inversion E2|].
        destruct (is_empty ns1 && negb (emode_eqb NullFail NullSet) && emode_eqb NullFail NullFail); inversion E2.
      * apply fwd_one_nullfail in E2. apply IH. assumption.
Qed.

Lemma fwd_one_nullglob_err : forall a t pr st e,
  fwd_one g sv NullGlob a t pr st = inl e -> exists k, e = FNotFound k.
Proof.
  intros a t pr st e. unfold fwd_one.
  destruct (step_fwd g sv a t pr (f_nodes st)) as [[ns search] cq]. cbn [emode_eqb negb].
  rewrite !andb_false_r.
  destruct (is_empty ns && true && negb (f_complex st || cq)); intros H; inversion H. eexists. reflexivity.
Qed.

Lemma nullglob_never_nomatch_loop : forall q st k, fwd_loop g sv NullGlob q st <> FNoMatch k.
Proof.
  induction q as [|dsl a t pr rest IH]; intros st k; cbn [fwd_loop]; [discriminate|].
  destruct dsl.
  - destruct (fwd_one g sv NullGlob ADescSelf star PNone st) as [e|st1] eqn:E1.
    + apply fwd_one_nullglob_err in E1. destruct E1 as [k' ->]. discriminate.
    + destruct (fwd_one g sv NullGlob a t pr st1) as [e|st2] eqn:E2.
      * apply fwd_one_nullglob_err in E2. destruct E2 as [k' ->]. discriminate.
      * apply IH.
  - destruct (fwd_one g sv NullGlob a t pr st) as [e|st2] eqn:E2.
    + apply fwd_one_nullglob_err in E2. destruct E2 as [k' ->]. discriminate.
    + apply IH.
Qed.

Lemma simple_step_not_complex : forall a t S,
  simple_axis a = true -> mem_N ch_star t = false -> snd (step_fwd g sv a t PNone S) = false.
Proof.
  intros a t S Ha Ht. unfold step_fwd.
  assert (Hs : str_eqb t star = false).
  { destruct (str_eqb t star) eqn:E; [|reflexivity]. apply str_eqb_eq in E. subst. discriminate. }
  destruct a; try discriminate; cbn [axis_fwd is_pnone snd]; rewrite Hs, Ht; reflexivity.
Qed.

Lemma nullglob_simple_loop : forall q st ns v,
  simple_path q = true -> f_complex st = false -> f_nodes st <> [] ->
  fwd_loop g sv NullGlob q st = FOk ns v -> ns <> [].
Proof.
  induction q as [|dsl a t pr rest IH]; intros st ns v Hq Hc Hst; cbn [fwd_loop].
  - intros H. inversion H; subst. assumption.
  - cbn [simple_path] in Hq. repeat (apply andb_true_iff in Hq; destruct Hq as [Hq ?]).
    apply negb_true_iff in Hq. subst dsl. apply is_pnone_eq in H0. subst pr. apply negb_true_iff in H1.
    pose proof (simple_step_not_complex a t (f_nodes st) H2 H1) as Hcq.
    destruct (fwd_one g sv NullGlob a t PNone st) as [e|st2] eqn:E2.
    + intros ->. apply fwd_one_nullglob_err in E2. destruct E2 as [k E2]. discriminate.
    + apply IH; [assumption| |].
      * unfold fwd_one in E2. destruct (step_fwd g sv a t PNone (f_nodes st)) as [[ns1 s1] c1]. cbn [snd] in Hcq. subst c1.
        rewrite Hc in E2. cbn [orb negb emode_eqb] in E2. rewrite !andb_true_r, !andb_false_r in E2.
        destruct (is_empty ns1); inversion E2. reflexivity.
      * unfold fwd_one in E2. destruct (step_fwd g sv a t PNone (f_nodes st)) as [[ns1 s1] c1]. cbn [snd] in Hcq. subst c1.
        rewrite Hc in E2. cbn [orb negb emode_eqb] in E2. rewrite !andb_true_r, !andb_false_r in E2.
        destruct ns1 as [|x ns1]; cbn [is_empty] in E2; inversion E2. cbn [f_nodes]. discriminate.
Qed.

End Modes.

(* ------------------------------------------------------------------ the query as a whole *)
Section Query.
Variable g : graph.
Variable sv : sexpr -> node -> str.
Hypothesis wf : wf_graph g.
Notation len := (length g).

Lemma query_tree_inv : forall mode q qa found,
  query_tree g sv mode q qa = QOk found ->
  exists ns valid, eval_forward g sv mode (norm_path q) = FOk ns valid /\
                   found = fst (frn g qa (S len) root [] (valid, ns)).
Proof.
  intros mode q qa found. unfold query_tree.
  destruct (eval_forward g sv mode (norm_path q)) as [ns valid|k|k]; intros H; try discriminate.
  exists ns, valid. split; [reflexivity | congruence].
Qed.

Lemma query_tree_sound_proof : forall mode q qa found,
  query_tree g sv mode q qa = QOk found ->
  forall stk m, In (stk, m) found -> real_path g root stk m /\ sem_path g sv q root m.
Proof.
  intros mode q qa found H stk m Hin.
  destruct (query_tree_inv _ _ _ _ H) as [ns [valid [E ->]]].
  pose proof (eval_forward_correct_proof g sv wf mode (norm_path q)) as HF. rewrite E in HF.
  destruct (frn_sound g qa (S len) root [] (valid, ns)) as [_ [_ Hs]].
  destruct (Hs stk m Hin) as [Hm [suf [-> [Hp _]]]]. cbn [snd] in Hm. cbn [app].
  split; [assumption|]. apply (normalize_sem_proof g sv). apply HF. assumption.
Qed.

Lemma query_tree_complete_proof : forall mode q qa found,
  query_tree g sv mode q qa = QOk found ->
  forall m, sem_path g sv q root m -> exists stk, In (stk, m) found.
Proof.
  intros mode q qa found H m Hm.
  destruct (query_tree_inv _ _ _ _ H) as [ns [valid [E ->]]].
  pose proof (eval_forward_correct_proof g sv wf mode (norm_path q)) as HF. rewrite E in HF.
  pose proof (eval_forward_conn g sv wf mode (norm_path q)) as HC. rewrite E in HC.
  apply (normalize_sem_proof g sv) in Hm. apply HF in Hm.
  destruct (HC m Hm) as [stk [Hp Hs]].
  destruct qa.
  - exists ([] ++ stk). apply (frn_all_complete g wf); try assumption; try lia. apply (wf_root g wf).
  - apply (frn_once_complete g wf valid root [] ns stk m); try assumption. apply (wf_root g wf).
Qed.

Lemma query_tree_error_proof : forall mode q qa,
  query_tree g sv mode q qa = QNotFound \/ query_tree g sv mode q qa = QNoMatch ->
  forall m, ~ sem_path g sv q root m.
Proof.
  intros mode q qa. unfold query_tree.
  pose proof (eval_forward_correct_proof g sv wf mode (norm_path q)) as HF.
  destruct (eval_forward g sv mode (norm_path q)) as [ns valid|k|k].
  - intros [H|H]; discriminate.
  - intros _ m Hm. apply (HF m). apply (normalize_sem_proof g sv). assumption.
  - intros _ m Hm. apply (HF m). apply (normalize_sem_proof g sv). assumption.
Qed.

Lemma query_tree_once_proof : forall mode q found,
  query_tree g sv mode q false = QOk found -> NoDup (map snd found).
Proof.
  intros mode q found H.
  destruct (query_tree_inv _ _ _ _ H) as [ns [valid [E ->]]].
  apply (frn_once_nodup g (S len) root [] valid ns).
Qed.

End Query.

Lemma wf_graphb_sound : forall g, wf_graphb g = true -> wf_graph g.
Proof.
  intros g H. unfold wf_graphb in H. apply andb_true_iff in H. destruct H as [H1 H2].
  split; [apply Nat.ltb_lt; assumption|].
  intros n c d Hin. rewrite forallb_forall in H2.
  destruct (Nat.lt_ge_cases n (length g)) as [Hn|Hn].
  - specialize (H2 n). rewrite In_nodes in H2. specialize (H2 Hn). rewrite forallb_forall in H2.
    specialize (H2 (c, d) Hin). cbn [fst] in H2. apply andb_true_iff in H2. destruct H2 as [A B].
    apply Nat.ltb_lt in A. apply Nat.ltb_lt in B. lia.
  - exfalso. unfold kids, rec_of in Hin. rewrite nth_overflow in Hin by lia. destruct Hin.
Qed.

Lemma inside_valid_proof : forall g sv, wf_graph g -> forall mode q,
  match eval_forward g sv mode q with
  | FOk ns valid =>
      (forall m, In m ns -> exists stk, real_path g root stk m /\ forall x, In x stk -> In x valid) /\
      (forall qa stk m, In (stk, m) (fst (frn g qa (S (length g)) root [] (valid, ns))) ->
                        forall x, In x stk -> In x valid)
  | _ => True
  end.
Proof.
  intros g sv wf mode q. pose proof (eval_forward_conn g sv wf mode q) as HC.
  destruct (eval_forward g sv mode q) as [ns valid|k|k]; try exact I.
  split; [exact HC|].
  intros qa stk m Hin x Hx.
  destruct (frn_sound g qa (S (length g)) root [] (valid, ns)) as [_ [_ Hs]].
  destruct (Hs stk m Hin) as [_ [suf [-> [_ Hall]]]]. cbn [app fst] in *. apply Hall. assumption.
Qed.

Lemma empty_mode_table_proof : forall g sv q,
  (exists ns v, eval_forward g sv NullSet q = FOk ns v) /\
  (forall ns v, eval_forward g sv NullFail q = FOk ns v -> ns <> []) /\
  (forall k, eval_forward g sv NullGlob q <> FNoMatch k) /\
  (simple_path q = true -> forall ns v, eval_forward g sv NullGlob q = FOk ns v -> ns <> []).
Proof.
  intros g sv q. unfold eval_forward.
  split; [apply nullset_never_raises_loop|].
  split; [intros ns v; apply nullfail_nonempty_loop; cbn [f_nodes]; discriminate|].
  split; [intros k; apply nullglob_never_nomatch_loop|].
  intros Hs ns v. apply nullglob_simple_loop; [assumption | reflexivity | cbn [f_nodes]; discriminate].
Qed.

Lemma axis_closure_correct_proof : forall g, wf_graph g -> forall ind ns m,
  (In m (ax_desc g ind ns) <-> exists n, In n ns /\ tc (edge g ind) n m) /\
  (In m (ax_anc g ind ns) <-> exists n, In n ns /\ tc (edge g ind) m n).
Proof. intros g wf ind ns m. split; [apply ax_desc_correct | apply ax_anc_correct]; assumption. Qed.

(* ------------------------------------------------------------------ known finding F30: witnesses *)
Definition g_f30a_w : graph := [
  {| n_name := []%N;        n_kids := [(1, true)];            n_env := [] |};
  {| n_name := [97]%N;      n_kids := [(2, true); (3, true)]; n_env := [] |};
  {| n_name := [122; 98]%N; n_kids := [(3, true)];            n_env := [] |};
  {| n_name := [99]%N;      n_kids := [];                     n_env := [] |} ].
Definition g_f30b_w : graph := [
  {| n_name := []%N;        n_kids := [(1, true); (3, true)]; n_env := [] |};
  {| n_name := [97]%N;      n_kids := [(2, true)];            n_env := [] |};
  {| n_name := [119]%N;     n_kids := [(3, true)];            n_env := [] |};
  {| n_name := [98]%N;      n_kids := [];                     n_env := [] |} ].

Lemma result_paths_through_steps_refuted_proof :
  exists g sv mode q qa found stk m,
    wf_graph g /\ query_tree g sv mode q qa = QOk found /\ In (stk, m) found /\
    witness_b g sv q root stk = false.
Proof.
  exists g_f30a_w, (sval_impl g_f30a_w), NullGlob,
    (PCons false AChild [97]%N PNone (PCons false AChild [122; 98]%N PNone (PCons false AChild [99]%N PNone PNil))),
    false, [([1; 3], 3)], [1; 3], 3.
  split; [apply wf_graphb_sound; vm_compute; reflexivity|].
  split; [vm_compute; reflexivity|]. split; [left; reflexivity | vm_compute; reflexivity].
Qed.

Lemma queryall_reports_every_witness_refuted_proof :
  exists g sv mode q found stk,
    wf_graph g /\ query_tree g sv mode q true = QOk found /\
    witness_b g sv q root stk = true /\ forall m, ~ In (stk, m) found.
Proof.
  exists g_f30b_w, (sval_impl g_f30b_w), NullGlob,
    (PCons false AChild [42]%N PNone (PCons false ADesc [98]%N PNone PNil)),
    [([3], 3)], [1; 2; 3].
  split; [apply wf_graphb_sound; vm_compute; reflexivity|].
  split; [vm_compute; reflexivity|]. split; [vm_compute; reflexivity|].
  intros m [H|[]]. inversion H.
Qed.
