(* C14 — proofs, part 1: the digest of a record is uniquely decodable
   (decoder round trip), hence artifact ids are injective up to an explicit
   hash collision, and they depend on the dict only (not on insertion order). *)
From Coq Require Import List NArith ZArith Bool Lia Permutation.
Require Import BobV.Common.Cases BobV.Ids.Model BobV.Ids.Proofs BobV.Gen.ConstsC14 BobV.C14.Model.
Import ListNotations.
Open Scope N_scope.

(* ------------------------------------------------------------------ induction over values *)
Section ValueInd.
  Variable P : value -> Prop.
  Hypothesis HStr : forall s, P (VStr s).
  Hypothesis HMap : forall m, Forall (fun kx => P (snd kx)) m -> P (VMap m).
  Hypothesis HList : forall l, Forall P l -> P (VList l).
  Hypothesis HInt : forall z, P (VInt z).
  Hypothesis HBool : forall b, P (VBool b).
  Hypothesis HBytes : forall b, P (VBytes b).
  Hypothesis HNone : P VNone.

  Fixpoint value_ind' (v : value) : P v :=
    match v with
    | VStr s => HStr s
    | VMap m =>
        HMap m ((fix go (l : list (str * value)) : Forall (fun kx => P (snd kx)) l :=
                   match l with
                   | [] => Forall_nil _
                   | kx :: r => Forall_cons kx (value_ind' (snd kx)) (go r)
                   end) m)
    | VList l =>
        HList l ((fix go (l : list value) : Forall P l :=
                    match l with
                    | [] => Forall_nil _
                    | x :: r => Forall_cons x (value_ind' x) (go r)
                    end) l)
    | VInt z => HInt z
    | VBool b => HBool b
    | VBytes b => HBytes b
    | VNone => HNone
    end.
End ValueInd.

(* ------------------------------------------------------------------ canonical form = the dict as a value *)
(* maps sorted by key (a dict has no order), bool folded into int where the
   int branch of digestData catches it (Python: True == 1) *)
Definition on_snd {A B} (g : A -> B) (kx : str * A) : str * B := (fst kx, g (snd kx)).

Fixpoint canon (v : value) : value :=
  match v with
  | VMap m =>
      VMap (sort_by fst ((fix go (l : list (str * value)) : list (str * value) :=
                            match l with
                            | [] => []
                            | kx :: r => (fst kx, canon (snd kx)) :: go r
                            end) m))
  | VList l =>
      VList ((fix go (l : list value) : list value :=
                match l with
                | [] => []
                | x :: r => canon x :: go r
                end) l)
  | VBool b => if bool_as_int then VInt (if b then 1 else 0)%Z else VBool b
  | _ => v
  end.

Lemma canon_map m : canon (VMap m) = VMap (sort_by fst (map (on_snd canon) m)).
Proof.
  cbn [canon]. repeat f_equal.
  all: try (induction m as [|kx m IH]; [reflexivity|]; cbn [map]; unfold on_snd at 1; f_equal; exact IH).
Qed.

Lemma canon_list l : canon (VList l) = VList (map canon l).
Proof.
  cbn [canon]. repeat f_equal.
  all: try (induction l as [|x l IH]; [reflexivity|]; cbn [map]; f_equal; exact IH).
Qed.

Lemma digest_map m :
  digest_data (VMap m) =
  tag_map :: le32 (llen m) ++ flat_map enc_entry (sort_by fst (map (on_snd digest_data) m)).
Proof.
  cbn [digest_data]. repeat f_equal.
  all: try (induction m as [|kx m IH]; [reflexivity|]; cbn [map]; unfold on_snd at 1; f_equal; exact IH).
Qed.

Lemma digest_list l :
  digest_data (VList l) = tag_list :: le32 (llen l) ++ flat_map digest_data l.
Proof.
  cbn [digest_data]. repeat f_equal.
  all: try (induction l as [|x l IH]; [reflexivity|]; cbn [flat_map]; f_equal; exact IH).
Qed.

(* sorting by key commutes with a map that keeps keys *)
Lemma insert_by_on_snd {A B} (g : A -> B) kx l :
  insert_by fst (on_snd g kx) (map (on_snd g) l) = map (on_snd g) (insert_by fst kx l).
Proof.
  induction l as [|y l IH]; [reflexivity|].
  cbn [map insert_by]. unfold on_snd at 1 2. cbn [fst].
  destruct (str_ltb (fst y) (fst kx)).
  - cbn [map]. f_equal. exact IH.
  - reflexivity.
Qed.

Lemma sort_by_on_snd {A B} (g : A -> B) l :
  sort_by fst (map (on_snd g) l) = map (on_snd g) (sort_by fst l).
Proof.
  induction l as [|x l IH]; [reflexivity|].
  cbn [map]. unfold sort_by in *. cbn [fold_right]. rewrite IH. apply insert_by_on_snd.
Qed.

(* ------------------------------------------------------------------ well-formed values *)
Definition int64 (z : Z) : Prop := (-9223372036854775808 <= z < 9223372036854775808)%Z.

Fixpoint wf (v : value) : Prop :=
  match v with
  | VStr s => wf_str s
  | VMap m =>
      small (llen m) /\
      (fix go (l : list (str * value)) : Prop :=
         match l with
         | [] => True
         | kx :: r => (wf_str (fst kx) /\ wf (snd kx)) /\ go r
         end) m
  | VList l =>
      small (llen l) /\
      (fix go (l : list value) : Prop :=
         match l with
         | [] => True
         | x :: r => wf x /\ go r
         end) l
  | VInt z => int64 z
  | VBool _ => True
  | VBytes b => small (llen b)
  | VNone => True
  end.

Lemma wf_map m : wf (VMap m) <-> small (llen m) /\ Forall (fun kx => wf_str (fst kx) /\ wf (snd kx)) m.
Proof.
  cbn [wf]. split; intros [Hs Hm]; (split; [exact Hs|]); clear Hs.
  - induction m as [|kx m IH]; [constructor|]. destruct Hm as [Hk Hr]. constructor; [exact Hk|apply IH, Hr].
  - induction Hm as [|kx m Hk Hr IH]; [exact I|]. split; [exact Hk|exact IH].
Qed.

Lemma wf_list l : wf (VList l) <-> small (llen l) /\ Forall wf l.
Proof.
  cbn [wf]. split; intros [Hs Hm]; (split; [exact Hs|]); clear Hs.
  - induction l as [|x l IH]; [constructor|]. destruct Hm as [Hk Hr]. constructor; [exact Hk|apply IH, Hr].
  - induction Hm as [|x l Hk Hr IH]; [exact I|]. split; [exact Hk|exact IH].
Qed.

Fixpoint depth (v : value) : nat :=
  match v with
  | VMap m =>
      S ((fix go (l : list (str * value)) : nat :=
            match l with
            | [] => O
            | kx :: r => Nat.max (depth (snd kx)) (go r)
            end) m)
  | VList l =>
      S ((fix go (l : list value) : nat :=
            match l with
            | [] => O
            | x :: r => Nat.max (depth x) (go r)
            end) l)
  | _ => 1%nat
  end.

Lemma depth_map m f : (depth (VMap m) <= S f)%nat -> Forall (fun kx => (depth (snd kx) <= f)%nat) m.
Proof.
  cbn [depth]. intros Hd. apply le_S_n in Hd.
  induction m as [|kx m IH]; [constructor|].
  constructor; [lia|apply IH; lia].
Qed.

Lemma depth_list l f : (depth (VList l) <= S f)%nat -> Forall (fun x => (depth x <= f)%nat) l.
Proof.
  cbn [depth]. intros Hd. apply le_S_n in Hd.
  induction l as [|x l IH]; [constructor|].
  constructor; [lia|apply IH; lia].
Qed.

Lemma depth_pos v : (1 <= depth v)%nat.
Proof. destruct v; cbn [depth]; lia. Qed.

(* ------------------------------------------------------------------ decoder *)
Definition de64 (l : bytes) : option (N * bytes) :=
  obind (de32 l) (fun lo r => obind (de32 r) (fun hi r' => Some (lo + 4294967296 * hi, r'))).

Definition z_of_u64 (n : N) : Z :=
  if n <? 9223372036854775808 then Z.of_N n else (Z.of_N n - 18446744073709551616)%Z.

Lemma de64_le64 n r : n < 18446744073709551616 -> de64 (le64 n ++ r) = Some (n, r).
Proof.
  intros Hn. unfold de64, le64. rewrite <- app_assoc.
  rewrite de32_le32 by (apply N.mod_lt; discriminate). cbn [obind].
  rewrite de32_le32 by (apply N.div_lt_upper_bound; [discriminate|exact Hn]). cbn [obind].
  f_equal. f_equal. rewrite (N.div_mod n 4294967296) at 3 by discriminate. lia.
Qed.

Lemma int_roundtrip {A} (k : Z -> A) z r : int64 z ->
  obind (de64 (int_bytes z ++ r)) (fun n r' => Some (k (z_of_u64 n), r')) = Some (k z, r).
Proof.
  intros [Hlo Hhi]. unfold int_bytes.
  rewrite de64_le64.
  2:{ assert (0 <= z mod 18446744073709551616 < 18446744073709551616)%Z by (apply Z.mod_pos_bound; reflexivity). lia. }
  cbn [obind]. f_equal. f_equal. f_equal. unfold z_of_u64.
  destruct (Z.to_N (z mod 18446744073709551616) <? 9223372036854775808) eqn:E.
  - apply N.ltb_lt in E. rewrite Z2N.id by (apply Z.mod_pos_bound; reflexivity).
    assert (Hz : (0 <= z)%Z \/ (z < 0)%Z) by lia. destruct Hz as [Hz|Hz].
    + apply Z.mod_small. lia.
    + exfalso. assert (Hm : (z mod 18446744073709551616 = z + 18446744073709551616)%Z).
      { symmetry. apply (Z.mod_unique_pos _ _ (-1)); lia. }
      rewrite Hm in E. lia.
  - apply N.ltb_ge in E. rewrite Z2N.id by (apply Z.mod_pos_bound; reflexivity).
    assert (Hz : (0 <= z)%Z \/ (z < 0)%Z) by lia. destruct Hz as [Hz|Hz].
    + exfalso. rewrite Z.mod_small in E by lia. lia.
    + assert (Hm : (z mod 18446744073709551616 = z + 18446744073709551616)%Z).
      { symmetry. apply (Z.mod_unique_pos _ _ (-1)); lia. }
      rewrite Hm. lia.
Qed.

Definition dec_key (l : bytes) : option (str * bytes) :=
  match l with
  | t :: r => if t =? tag_str then p_lstr r else None
  | [] => None
  end.

Fixpoint dec (fuel : nat) (l : bytes) : option (value * bytes) :=
  match fuel with
  | O => None
  | S f =>
    match l with
    | [] => None
    | t :: r =>
      if t =? tag_str then obind (p_lstr r) (fun s r' => Some (VStr s, r'))
      else if t =? tag_map then
        obind (de32 r) (fun n r1 =>
        obind (p_many (fun l => obind (dec_key l) (fun k r2 => obind (dec f r2) (fun x r3 => Some ((k, x), r3))))
                      (N.to_nat n) r1) (fun m r' => Some (VMap m, r')))
      else if t =? tag_list then
        obind (de32 r) (fun n r1 => obind (p_many (dec f) (N.to_nat n) r1) (fun xs r' => Some (VList xs, r')))
      else if t =? tag_int then obind (de64 r) (fun n r' => Some (VInt (z_of_u64 n), r'))
      else if t =? tag_bool then
        match r with b :: r' => Some (VBool (negb (b =? 0)), r') | [] => None end
      else if t =? tag_bytes then
        obind (de32 r) (fun n r1 => obind (p_take (N.to_nat n) r1) (fun b r' => Some (VBytes b, r')))
      else if t =? tag_none then Some (VNone, r)
      else None
    end
  end.

(* the seven tags are pairwise different (checked on the regenerated constants) *)
Lemma tags_distinct : NoDup [tag_str; tag_map; tag_list; tag_int; tag_bool; tag_bytes; tag_none].
Proof.
  repeat constructor; cbn [In]; intros Hc;
    repeat match goal with H : _ \/ _ |- _ => destruct H as [H|H] end; try discriminate; exact Hc.
Qed.

Lemma dec_str f s r : dec (S f) (digest_string s ++ r) = obind (p_lstr (enc_lstr s ++ r)) (fun s r' => Some (VStr s, r')).
Proof. reflexivity. Qed.
Lemma dec_map_tag f r : dec (S f) (tag_map :: r) =
  obind (de32 r) (fun n r1 =>
  obind (p_many (fun l => obind (dec_key l) (fun k r2 => obind (dec f r2) (fun x r3 => Some ((k, x), r3))))
                (N.to_nat n) r1) (fun m r' => Some (VMap m, r'))).
Proof. reflexivity. Qed.
Lemma dec_list_tag f r : dec (S f) (tag_list :: r) =
  obind (de32 r) (fun n r1 => obind (p_many (dec f) (N.to_nat n) r1) (fun xs r' => Some (VList xs, r'))).
Proof. reflexivity. Qed.
Lemma dec_int_tag f r : dec (S f) (tag_int :: r) = obind (de64 r) (fun n r' => Some (VInt (z_of_u64 n), r')).
Proof. reflexivity. Qed.
Lemma dec_bool_tag f b r : dec (S f) (tag_bool :: b :: r) = Some (VBool (negb (b =? 0)), r).
Proof. reflexivity. Qed.
Lemma dec_bytes_tag f r : dec (S f) (tag_bytes :: r) =
  obind (de32 r) (fun n r1 => obind (p_take (N.to_nat n) r1) (fun b r' => Some (VBytes b, r'))).
Proof. reflexivity. Qed.
Lemma dec_none_tag f r : dec (S f) (tag_none :: r) = Some (VNone, r).
Proof. reflexivity. Qed.
Lemma dec_key_str k r : dec_key (digest_string k ++ r) = p_lstr (enc_lstr k ++ r).
Proof. reflexivity. Qed.

Lemma Forall_and_inv {A} (P Q : A -> Prop) l : Forall (fun x => P x /\ Q x) l -> Forall P l /\ Forall Q l.
Proof. induction 1 as [|x l [Hp Hq] _ [IHp IHq]]; split; constructor; assumption. Qed.

(* THE round trip *)
Lemma dec_digest : forall v, wf v -> forall f r, (depth v <= f)%nat ->
  dec f (digest_data v ++ r) = Some (canon v, r).
Proof.
  induction v as [s|m IH|l IH|z|b|b|] using value_ind'; intros Hwf f r Hd;
    (destruct f as [|f]; [pose proof (depth_pos (VStr [])); cbn [depth] in Hd; lia|]).
  - (* str *)
    cbn [digest_data canon]. rewrite dec_str, p_lstr_rt by exact Hwf. reflexivity.
  - (* map *)
    apply wf_map in Hwf. destruct Hwf as [Hs Hm]. apply depth_map in Hd.
    rewrite digest_map, canon_map. cbn [app]. rewrite dec_map_tag, <- app_assoc.
    rewrite de32_le32 by exact Hs. cbn [obind].
    rewrite sort_by_on_snd, (sort_by_on_snd canon).
    set (sm := sort_by fst m).
    assert (Hlen : N.to_nat (llen m) = length sm).
    { unfold llen, sm. now rewrite Nat2N.id, sort_by_length. }
    rewrite Hlen. rewrite flat_map_concat_map, map_map, <- flat_map_concat_map.
    assert (Hall : Forall (fun kx => (wf_str (fst kx) /\ wf (snd kx)) /\ (depth (snd kx) <= f)%nat /\
                                     (wf (snd kx) -> forall f r, (depth (snd kx) <= f)%nat ->
                                        dec f (digest_data (snd kx) ++ r) = Some (canon (snd kx), r))) sm).
    { eapply Permutation_Forall; [apply Permutation_sym, sort_by_perm|].
      rewrite Forall_forall in *. intros kx Hin. repeat split; try apply Hm; try apply Hd; try apply IH; exact Hin. }
    rewrite (p_many_rt (fun kx => enc_entry (on_snd digest_data kx)) (on_snd canon) _
               (fun kx => (wf_str (fst kx) /\ wf (snd kx)) /\ (depth (snd kx) <= f)%nat /\
                          (wf (snd kx) -> forall f r, (depth (snd kx) <= f)%nat ->
                             dec f (digest_data (snd kx) ++ r) = Some (canon (snd kx), r)))).
    + reflexivity.
    + intros kx r0 [[Hk Hv] [Hdx Hx]]. unfold enc_entry, on_snd. cbn [fst snd].
      rewrite <- app_assoc, dec_key_str, p_lstr_rt by exact Hk. cbn [obind].
      rewrite Hx by assumption. reflexivity.
    + exact Hall.
  - (* list *)
    apply wf_list in Hwf. destruct Hwf as [Hs Hm]. apply depth_list in Hd.
    rewrite digest_list, canon_list. cbn [app]. rewrite dec_list_tag, <- app_assoc.
    rewrite de32_le32 by exact Hs. cbn [obind].
    unfold llen. rewrite Nat2N.id.
    rewrite (p_many_rt digest_data canon (dec f)
               (fun x => wf x /\ (depth x <= f)%nat /\
                         (wf x -> forall f r, (depth x <= f)%nat -> dec f (digest_data x ++ r) = Some (canon x, r)))).
    + reflexivity.
    + intros x r0 (Hv & Hdx & Hx). apply Hx; assumption.
    + rewrite Forall_forall in *. intros x Hin. repeat split; [apply Hm|apply Hd|apply IH]; exact Hin.
  - (* int *)
    cbn [digest_data canon app]. rewrite dec_int_tag. apply (int_roundtrip VInt). exact Hwf.
  - (* bool *)
    cbn [digest_data canon]. destruct bool_as_int.
    + cbn [app]. rewrite dec_int_tag. apply (int_roundtrip VInt). destruct b; unfold int64; lia.
    + cbn [app]. rewrite dec_bool_tag. destruct b; reflexivity.
  - (* bytes *)
    cbn [digest_data canon app]. rewrite dec_bytes_tag, <- app_assoc.
    rewrite de32_le32 by exact Hwf. cbn [obind]. unfold llen. rewrite Nat2N.id, p_take_rt. reflexivity.
  - cbn [digest_data canon app]. apply dec_none_tag.
Qed.

Lemma digest_data_injective_proof a b :
  wf a -> wf b -> digest_data a = digest_data b -> canon a = canon b.
Proof.
  intros Ha Hb E.
  pose proof (dec_digest a Ha (Nat.max (depth a) (depth b)) [] (Nat.le_max_l _ _)) as Da.
  pose proof (dec_digest b Hb (Nat.max (depth a) (depth b)) [] (Nat.le_max_r _ _)) as Db.
  rewrite E in Da. congruence.
Qed.

(* prefix-freeness: a digest is never a proper prefix of another one *)
Lemma digest_data_prefix_free_proof a b r1 r2 :
  wf a -> wf b -> digest_data a ++ r1 = digest_data b ++ r2 -> canon a = canon b /\ r1 = r2.
Proof.
  intros Ha Hb E.
  pose proof (dec_digest a Ha (Nat.max (depth a) (depth b)) r1 (Nat.le_max_l _ _)) as Da.
  pose proof (dec_digest b Hb (Nat.max (depth a) (depth b)) r2 (Nat.le_max_r _ _)) as Db.
  rewrite E in Da. rewrite Da in Db. inversion Db. split; reflexivity || assumption.
Qed.

Lemma bytes_eq_dec (x y : bytes) : {x = y} + {x <> y}.
Proof. apply list_eq_dec, N.eq_dec. Qed.

Lemma record_id_injective_or_collision_proof (H : bytes -> bytes) r1 r2 :
  wf (VMap r1) -> wf (VMap r2) -> record_id H r1 = record_id H r2 ->
  canon (VMap r1) = canon (VMap r2) \/ collision H (digest_data (VMap r1)) (digest_data (VMap r2)).
Proof.
  intros H1 H2 E. unfold record_id in E.
  destruct (bytes_eq_dec (digest_data (VMap r1)) (digest_data (VMap r2))) as [Eq|Ne].
  - left. apply digest_data_injective_proof; assumption.
  - right. split; assumption.
Qed.


(* ------------------------------------------------------------------ purity *)
Lemma artifact_id_function_of_record_proof (H : bytes -> bytes) a b :
  to_value a = to_value b -> artifact_id H a = artifact_id H b.
Proof. intros E. unfold artifact_id. now rewrite E. Qed.

(* ------------------------------------------------------------------ the id depends on the dict, not on insertion order *)
(* ---- str_ltb is a strict total order *)
Lemma str_ltb_irrefl a : str_ltb a a = false.
Proof. induction a as [|x a IH]; [reflexivity|]. cbn [str_ltb]. rewrite N.ltb_irrefl. exact IH. Qed.

Lemma str_ltb_trans : forall a b c, str_ltb a b = true -> str_ltb b c = true -> str_ltb a c = true.
Proof.
  induction a as [|x a IH]; intros [|y b] [|z c]; cbn [str_ltb]; try discriminate; try reflexivity.
  destruct (x <? y) eqn:Exy; destruct (y <? z) eqn:Eyz; destruct (x <? z) eqn:Exz; try reflexivity;
    try (destruct (y <? x) eqn:Eyx); try (destruct (z <? y) eqn:Ezy); try (destruct (z <? x) eqn:Ezx);
    try discriminate; intros H1 H2; try reflexivity; try (exfalso; lia).
  eapply IH; eassumption.
Qed.

Lemma str_ltb_total : forall a b, a <> b -> str_ltb a b = true \/ str_ltb b a = true.
Proof.
  induction a as [|x a IH]; intros [|y b] Hn; cbn [str_ltb]; try (now left); try (now right); try contradiction.
  destruct (x <? y) eqn:Exy; [now left|]. destruct (y <? x) eqn:Eyx; [now right|].
  assert (x = y) by lia. subst. apply IH. intros ->. now apply Hn.
Qed.

Lemma str_ltb_asym a b : str_ltb a b = true -> str_ltb b a = false.
Proof.
  intros H. destruct (str_ltb b a) eqn:E; [|reflexivity].
  pose proof (str_ltb_trans _ _ _ H E) as X. rewrite str_ltb_irrefl in X. discriminate.
Qed.

(* ---- strictly sorted association lists *)
Section Sorted.
  Context {A : Type}.
  Fixpoint ssorted (l : list (str * A)) : Prop :=
    match l with
    | [] => True
    | x :: r => Forall (fun y => str_ltb (fst x) (fst y) = true) r /\ ssorted r
    end.

  Lemma insert_sorted x l :
    ssorted l -> ~ In (fst x) (map fst l) -> ssorted (insert_by fst x l).
  Proof.
    induction l as [|y l IH]; intros Hs Hn; cbn [insert_by].
    - cbn. split; [constructor|exact I].
    - destruct Hs as [Hy Hs]. destruct (str_ltb (fst y) (fst x)) eqn:E.
      + cbn [ssorted]. split.
        * assert (Hp : Permutation (insert_by fst x l) (x :: l)) by apply insert_by_perm.
          eapply Permutation_Forall; [apply Permutation_sym, Hp|]. constructor; [exact E|exact Hy].
        * apply IH; [exact Hs|]. intros Hc. apply Hn. now right.
      + cbn [ssorted]. split; [|split; assumption].
        assert (Hxy : str_ltb (fst x) (fst y) = true).
        { destruct (str_ltb_total (fst x) (fst y)) as [H|H]; [|exact H|congruence].
          intros Heq. apply Hn. left. now symmetry. }
        constructor; [exact Hxy|]. eapply Forall_impl; [|exact Hy].
        intros z Hz. eapply str_ltb_trans; eassumption.
  Qed.

  Lemma sort_sorted l : NoDup (map fst l) -> ssorted (sort_by fst l).
  Proof.
    induction l as [|x l IH]; intros Hn; [exact I|].
    unfold sort_by. cbn [fold_right]. fold (sort_by fst l). inversion Hn; subst.
    apply insert_sorted; [now apply IH|].
    intros Hc. apply H1. eapply Permutation_in; [|exact Hc]. apply Permutation_map, sort_by_perm.
  Qed.

  Lemma ssorted_perm_eq : forall l1 l2 : list (str * A), ssorted l1 -> ssorted l2 -> Permutation l1 l2 -> l1 = l2.
  Proof.
    induction l1 as [|x l1 IH]; intros l2 H1 H2 Hp.
    - apply Permutation_nil in Hp. now subst.
    - destruct l2 as [|y l2]; [apply Permutation_sym, Permutation_nil in Hp; discriminate|].
      destruct H1 as [Hx H1]. destruct H2 as [Hy H2].
      assert (Exy : x = y).
      { assert (Hin : In x (y :: l2)) by (eapply Permutation_in; [exact Hp|now left]).
        assert (Hin2 : In y (x :: l1)) by (eapply Permutation_in; [apply Permutation_sym, Hp|now left]).
        destruct Hin as [->|Hin]; [reflexivity|]. destruct Hin2 as [->|Hin2]; [reflexivity|].
        rewrite Forall_forall in Hx, Hy. pose proof (Hx _ Hin2) as L1. pose proof (Hy _ Hin) as L2.
        apply str_ltb_asym in L1. congruence. }
      subst y. f_equal. apply IH; try assumption. eapply Permutation_cons_inv, Hp.
  Qed.

  Lemma sort_by_perm_eq (l1 l2 : list (str * A)) :
    NoDup (map fst l1) -> Permutation l1 l2 -> sort_by fst l1 = sort_by fst l2.
  Proof.
    intros Hn Hp. apply ssorted_perm_eq.
    - now apply sort_sorted.
    - apply sort_sorted. eapply Permutation_NoDup; [apply Permutation_map, Hp|exact Hn].
    - rewrite sort_by_perm. rewrite Hp. symmetry. apply sort_by_perm.
  Qed.
End Sorted.

(* the digest of a dict does not depend on the insertion order of its keys *)
Lemma digest_map_perm m1 m2 :
  NoDup (map fst m1) -> Permutation m1 m2 -> digest_data (VMap m1) = digest_data (VMap m2).
Proof.
  intros Hn Hp. rewrite !digest_map. f_equal.
  assert (Hl : llen m1 = llen m2) by (unfold llen; now rewrite (Permutation_length Hp)).
  rewrite Hl. f_equal. f_equal. apply sort_by_perm_eq.
  - rewrite map_map. cbn [on_snd fst]. exact Hn.
  - now apply Permutation_map.
Qed.

Lemma record_id_order_independent_proof (H : bytes -> bytes) r1 r2 :
  NoDup (map fst r1) -> Permutation r1 r2 -> record_id H r1 = record_id H r2.
Proof. intros Hn Hp. unfold record_id. now rewrite (digest_map_perm r1 r2 Hn Hp). Qed.
