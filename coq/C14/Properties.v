(* C14 — Audit trails are complete and truthful: property theorems
   (statements only; proofs in Proofs.v, ProofsAudit.v, ProofsBuilder.v). *)
From Coq Require Import List NArith ZArith Bool Permutation.
Require Import BobV.Common.Cases BobV.Common.Sha1 BobV.Ids.Model BobV.Ids.Proofs.
Require Import BobV.C14.Model BobV.C14.Builder BobV.C14.Proofs BobV.C14.ProofsAudit BobV.C14.ProofsBuilder
               BobV.C14.Examples.
Import ListNotations.
Open Scope N_scope.

(* ---- P1: artifact ids are a function of the record content only: nothing
   but the dict enters (no clock, host, path; not even a stale stored id) *)
Theorem artifact_id_function_of_record : forall (H : bytes -> bytes) a b,
  to_value a = to_value b -> artifact_id H a = artifact_id H b.
Proof. exact artifact_id_function_of_record_proof. Qed.

(* ... and of the dict as a mapping: the insertion order of the keys (what a
   JSON round trip or a different code path may change) does not matter *)
Theorem artifact_id_order_independent : forall (H : bytes -> bytes) r1 r2,
  NoDup (map fst r1) -> Permutation r1 r2 -> record_id H r1 = record_id H r2.
Proof. exact record_id_order_independent_proof. Qed.

(* the digest of a record can be decoded again (sorted-key maps, character
   count prefixes, type tags): [canon] is the dict as a value (maps without
   order, bool folded into int exactly where digestData's isinstance chain does) *)
Theorem digest_uniquely_decodable : forall v, wf v -> forall f r, (depth v <= f)%nat ->
  dec f (digest_data v ++ r) = Some (canon v, r).
Proof. exact dec_digest. Qed.

Theorem artifact_id_injective_or_collision : forall (H : bytes -> bytes) r1 r2,
  wf (VMap r1) -> wf (VMap r2) -> record_id H r1 = record_id H r2 ->
  canon (VMap r1) = canon (VMap r2) \/ collision H (digest_data (VMap r1)) (digest_data (VMap r2)).
Proof. exact record_id_injective_or_collision_proof. Qed.

(* ---- P1: closure.  Merging a dependency trail adds its references and its
   artifact; such trails stay closed through save/load, and the closure walk
   of Audit.__validate accepts them with the fuel the model provides *)
Theorem merge_keeps_closed : forall (H : bytes -> bytes) self other,
  mem_closed self -> mem_closed other -> a_id (au_art other) <> None ->
  mem_closed (add_arg H self other) /\ (forall n, mem_closed (add_tool H self n other)) /\
  mem_closed (set_sandbox H self other).
Proof. exact merge_keeps_closed_proof. Qed.

(* completeness of what is listed: a trail generated after executing the step
   names as arguments exactly the trails of the valid arguments in recipe
   order and the trail of the sandbox iff there is one; it exists only if
   every one of those trails was readable *)
Theorem generate_records_dependencies : forall (H : bytes -> bytes) g au,
  g_executed g = true -> generate H g = Some au ->
  args_list (au_art au) = valid_ids H (g_args g) /\
  Forall (fun vf => fst vf = true -> from_file (snd vf) <> None) (g_args g) /\
  match g_sandbox g with
  | None => a_sandbox (au_art au) = None
  | Some f => exists o, from_file f = Some o /\ a_sandbox (au_art au) = Some (get_id H (au_art o))
  end.
Proof. exact generate_records_dependencies_proof. Qed.

Theorem closed_trail_validates : forall au, mem_closed au -> validate au = VOk.
Proof. exact validate_closed. Qed.

(* for every history of cook (with any failure point), prune, upload,
   download, share-install and share-use events, with any recipes: every
   trail next to a workspace, in the archive and in the share store loads and
   validates *)
Theorem references_closed : forall (H : bytes -> bytes) es,
  Forall trusted es ->
  let s := run H init es in
  (forall p f, w_audit (s_ws s p) = Some f -> exists au, load f = Some au /\ validate au = VOk) /\
  (forall bid e, In (bid, e) (s_archive s) -> exists au, load (e_audit e) = Some au /\ validate au = VOk) /\
  (forall bid e, In (bid, e) (s_share s) -> exists au, load (sh_audit e) = Some au /\ validate au = VOk).
Proof. exact references_closed_proof. Qed.

(* ---- P1: truthfulness (ordering lemma).  In every reachable state a
   workspace whose result hash is set holds exactly that content and its trail
   records exactly that hash; the same for uploaded artifacts and shared
   packages *)
Theorem ids_truthful : forall (H : bytes -> bytes) es,
  hist_ok H init es ->
  let s := run H init es in
  (forall p h, w_result (s_ws s p) = RHash h ->
     w_content (s_ws s p) = h /\ forall f, w_audit (s_ws s p) = Some f -> a_rhash (fst f) = h) /\
  (forall bid e, In (bid, e) (s_archive s) -> a_rhash (fst (e_audit e)) = e_content e) /\
  (forall bid e, In (bid, e) (s_share s) -> sh_hash e = sh_content e /\ a_rhash (fst (sh_audit e)) = sh_hash e).
Proof. exact ids_truthful_proof. Qed.

(* a completed cook records the variant-id and build-id it was called with
   and the hash of what the script produced *)
Theorem cook_records_ids : forall (H : bytes -> bytes) s d force out bid k,
  (6 <= k)%nat ->
  let s' := step H s (ECook d true force out bid k) in
  let w := s_ws s' (d_path d) in
  w_result w = RHash out /\ w_content w = out /\
  forall f, w_audit w = Some f ->
    a_vid (fst f) = g_vid (d_base d) /\ a_rhash (fst f) = out /\
    a_bid (fst f) = (if d_checkout d then out else bid).
Proof. exact cook_records_ids_proof. Qed.

(* the trail is generated before setResultHash: a failure anywhere in between
   leaves a datetime, the step is not skipped next time *)
Theorem audit_failure_forces_rerun : forall (H : bytes -> bytes) s d executed force out bid k,
  d_checkout d = false -> (1 <= k < 6)%nat ->
  w_result (s_ws (step H s (ECook d executed force out bid k)) (d_path d)) = RStamp.
Proof. exact audit_failure_forces_rerun_proof. Qed.

Theorem checkout_failure_forces_rerun : forall (H : bytes -> bytes) s d force out bid k h,
  d_checkout d = true -> (2 <= k < 6)%nat ->
  w_result (s_ws (step H s (ECook d true force out bid k)) (d_path d)) <> RHash h.
Proof. exact checkout_failure_forces_rerun_proof. Qed.

(* ---- P2 *)
Theorem download_trail_checked : forall (H : bytes -> bytes) s p c f k h,
  w_result (s_ws s p) = RNone ->
  w_result (s_ws (step H s (EDownloadForeign p c f k)) p) = RHash h ->
  h = c /\ w_content (s_ws (step H s (EDownloadForeign p c f k)) p) = c /\
  exists fa, f = Some fa /\ w_audit (s_ws (step H s (EDownloadForeign p c f k)) p) = Some fa /\ a_rhash (fst fa) = c.
Proof. exact download_trail_checked_proof. Qed.

Theorem shared_trail_is_store_trail : forall (H : bytes -> bytes) s p bid e,
  lookup bid (s_share s) = Some e ->
  let w := s_ws (step H s (EShareUse p bid)) p in
  w_audit w = Some (sh_audit e) /\ w_result w = RHash (sh_hash e) /\ w_content w = sh_content e.
Proof. exact shared_trail_is_store_trail_proof. Qed.

Theorem share_install_links_store : forall (H : bytes -> bytes) s p bid h f,
  w_result (s_ws s p) = RHash h -> w_audit (s_ws s p) = Some f ->
  let s' := step H s (EShareInstall p bid) in
  exists e, lookup bid (s_share s') = Some e /\ w_audit (s_ws s' p) = Some (sh_audit e) /\
            w_content (s_ws s' p) = sh_content e /\
            (lookup bid (s_share s) = None -> sh_audit e = f /\ sh_hash e = h /\ sh_content e = w_content (s_ws s p)).
Proof. exact share_install_links_store_proof. Qed.

(* ---- non-vacuity *)
(* the model reproduces the id the pinned implementation gives the example
   record; a different "env" gives a different id; True and 1 collide as the
   int branch of digestData catches bool (and canon says so) *)
Example artifact_id_nonvacuous :
  artifact_id sha1 (ex_art_E) = ex_id /\
  artifact_id sha1 (ex_art_F) = ex_id_F /\
  artifact_id sha1 (ex_art_1) = ex_id /\
  canon (VMap (to_value (ex_art_E))) = canon (VMap (to_value (ex_art_1))) /\
  canon (VMap (to_value (ex_art_E))) <> canon (VMap (to_value (ex_art_F))) /\
  dec 5 (digest_data (VMap (to_value (ex_art_E)))) =
    Some (canon (VMap (to_value (ex_art_E))), []).
Proof.
  repeat split; try (vm_compute; reflexivity); try (vm_compute; discriminate).
  all: vm_compute; repeat constructor; cbn [In]; intros Hc;
    repeat match goal with H : _ \/ _ |- _ => destruct H as [H|H] end; try discriminate; exact Hc.
Qed.

(* a history with a killed cook, a tool, an invalid argument, upload, prune,
   download, share: the package trail has 5 references and validates; a
   trail that lacks a referenced record does not *)
Example references_closed_nonvacuous :
  Forall trusted ex_hist /\
  file_verdict (w_audit (s_ws ex_state 3)) = (5%nat, VOk) /\
  file_verdict (w_audit (s_ws ex_state 7)) = (2%nat, VOk) /\
  file_verdict (w_audit (s_ws ex_state 1)) = (0%nat, VOk) /\
  validate ex_open = VMissing (repeat 68 20).
Proof. split; [repeat constructor|]. repeat split; vm_compute; reflexivity. Qed.

Example ids_truthful_nonvacuous :
  hist_ok sha1 init ex_hist /\
  w_result (s_ws ex_state 3) = RHash [73] /\ w_result (s_ws ex_state 7) = RHash [76] /\
  w_result (s_ws (run sha1 init (firstn 2 ex_hist)) 2) = RStamp /\
  length (s_archive ex_state) = 1%nat /\ length (s_share ex_state) = 1%nat.
Proof. split; [vm_compute; repeat split|]. repeat split; vm_compute; reflexivity. Qed.
