(* C14 — concrete objects for the non-vacuity examples.  Definitions only. *)
From Coq Require Import String Ascii.
From Coq Require Import List NArith ZArith Bool.
Require Import BobV.Common.Cases BobV.Common.Sha1 BobV.Ids.Model BobV.C14.Model BobV.C14.Builder.
Import ListNotations.
Open Scope N_scope.

(* the record
   {"variant-id": "11"*20, "build-id": "22"*20, "result-hash": "33"*20,
    "meta": {"step": "dist", "recipe": "r"}, "build": {"sysname": "Linux"}, "env": "E",
    "scms": [{"type": "git", "dirty": True}],
    "dependencies": {"args": ["44"*20], "tools": {"t": "55"*20}}, "metaEnv": {"LICENSE": "MIT"}}
   whose artifact id under the pinned implementation is f303d3ca20d021d323b62466867b540913acae71 *)
Definition ex_art (dirty : value) (env : str) : artifact :=
  {| a_vid := repeat 17 20; a_bid := repeat 34 20; a_rhash := repeat 51 20;
     a_meta := [(s2l "step", s2l "dist"); (s2l "recipe", s2l "r")];
     a_build := [(s2l "sysname", s2l "Linux")];
     a_env := env; a_metaenv := Some [(s2l "LICENSE", s2l "MIT")]; a_files := None;
     a_scms := [VMap [(s2l "type", VStr (s2l "git")); (s2l "dirty", dirty)]];
     a_recipes := None; a_layers := None;
     a_args := Some [repeat 68 20]; a_tools := Some [(s2l "t", repeat 85 20)]; a_sandbox := None;
     a_id := None |}.

Definition ex_id : bytes := [243; 3; 211; 202; 32; 208; 33; 211; 35; 182; 36; 102; 134; 123; 84; 9; 19; 172; 174; 113].
Definition ex_id_F : bytes := [252; 32; 185; 238; 151; 76; 12; 23; 132; 8; 96; 63; 93; 187; 207; 21; 90; 42; 165; 248].

Definition ex_art_E := ex_art (VBool true) (s2l "E").
Definition ex_art_F := ex_art (VBool true) (s2l "F").
Definition ex_art_1 := ex_art (VInt 1) (s2l "E").

(* a small project: checkout 1 -> build 2 -> package 3, package 3 uses the
   tool packaged in 6 (checkout 4 -> build 5 -> package 6) *)
Definition ex_base (vid : bytes) (step : str) : gen_in :=
  {| g_vid := vid; g_bid := []; g_rhash := []; g_build := [(s2l "sysname", s2l "Linux")];
     g_meta := [(s2l "recipe", s2l "r"); (k_step, step)]; g_metaenv := []; g_recipes := None; g_layers := [];
     g_files := []; g_executed := true; g_env := s2l "declare -x A=1"; g_tools := []; g_sandbox := None;
     g_args := []; g_scms := [] |}.

Definition ex_decl (p : path) (co : bool) (vid : bytes) (step : str) tools args : decl :=
  {| d_path := p; d_checkout := co; d_base := ex_base vid step; d_tools := tools; d_sandbox := None; d_args := args |}.

Definition ex_src := ex_decl 1 true [1; 1] (s2l "src") [] [].
Definition ex_build := ex_decl 2 false [2; 2] (s2l "build") [] [(true, 1)].
Definition ex_tsrc := ex_decl 4 true [4; 4] (s2l "src") [] [].
Definition ex_tbuild := ex_decl 5 false [5; 5] (s2l "build") [] [(true, 4)].
Definition ex_tdist := ex_decl 6 false [6; 6] (s2l "dist") [] [(true, 5)].
Definition ex_dist := ex_decl 3 false [3; 3] (s2l "dist") [(s2l "tool", 6)] [(false, 9); (true, 2)].

Definition ex_hist : list event :=
  [ ECook ex_src true false [71] [] 6;
    ECook ex_build true false [72] [92] 3;          (* killed after the script ran *)
    ECook ex_build true false [72] [92] 6;
    ECook ex_tsrc true false [74] [] 6;
    ECook ex_tbuild true false [75] [95] 6;
    ECook ex_tdist true false [76] [96] 6;
    ECook ex_dist true false [73] [93] 6;
    EUpload 3 [93];
    EShareInstall 6 [96];
    EPrune 3;
    EDownload 3 [93] 2;
    EShareUse 7 [96];
    ECook ex_src false true [] [] 4 ].                 (* forced, script skipped: regenerated *)

Definition ex_state := run sha1 init ex_hist.

Definition file_verdict (o : option afile) : nat * vres :=
  match o with
  | Some f => (length (snd f), match load f with Some au => validate au | None => VOutOfFuel end)
  | None => (O, VOutOfFuel)
  end.

(* a trail that names a reference it does not contain *)
Definition ex_open : audit := {| au_art := ex_art_E; au_refs := [] |}.
