(* SHA-1 over byte lists with primitive 63-bit integers: same function as
   Common/Sha1.v, only much faster under vm_compute.  Used solely by the
   harness to *run* the C14 model on records of several KiB; no theorem
   depends on it.  Cross-checked against Common/Sha1.v at the end. *)
From Coq Require Import List NArith ZArith Uint63.
Require Import BobV.Common.Sha1.
Import ListNotations.

Module F.
Local Open Scope uint63_scope.

Definition m32 : int := 4294967295.
Definition add32 (a b : int) : int := (a + b) land m32.
Definition rotl (n x : int) : int := ((x << n) lor (x >> (32 - n))) land m32.
Definition not32 (x : int) : int := x lxor m32.

Fixpoint words_of (bs : list int) : list int :=
  match bs with
  | a :: b :: c :: d :: r => ((a << 24) + (b << 16) + (c << 8) + d) :: words_of r
  | _ => []
  end.

Definition nthI (l : list int) (k : nat) : int := nth k l 0.

Definition fk (t : nat) (b c d : int) : int * int :=
  if Nat.ltb t 20 then ((b land c) lor ((not32 b) land d), 1518500249)
  else if Nat.ltb t 40 then ((b lxor c) lxor d, 1859775393)
  else if Nat.ltb t 60 then (((b land c) lor (b land d)) lor (c land d), 2400959708)
  else ((b lxor c) lxor d, 3395469782).

Fixpoint rounds (n : nat) (t : nat) (pending win : list int) (a b c d e : int) : int * int * int * int * int :=
  match n with
  | O => (a, b, c, d, e)
  | S n' =>
    let '(w, pending') :=
        match pending with
        | x :: r => (x, r)
        | [] => (rotl 1 (((nthI win 2) lxor (nthI win 7)) lxor ((nthI win 13) lxor (nthI win 15))), [])
        end in
    let '(f, k) := fk t b c d in
    let temp := add32 (add32 (add32 (add32 (rotl 5 a) f) e) k) w in
    rounds n' (S t) pending' (w :: firstn 15 win) temp a (rotl 30 b) c d
  end.

Definition process_block (h : int * int * int * int * int) (block : list int) : int * int * int * int * int :=
  let '(h0, h1, h2, h3, h4) := h in
  let '(a, b, c, d, e) := rounds 80 0 (words_of block) [] h0 h1 h2 h3 h4 in
  (add32 h0 a, add32 h1 b, add32 h2 c, add32 h3 d, add32 h4 e).

Fixpoint blocks (fuel : nat) (bs : list int) (h : int * int * int * int * int) : int * int * int * int * int :=
  match fuel with
  | O => h
  | S f =>
    match bs with
    | [] => h
    | _ => blocks f (skipn 64 bs) (process_block h (firstn 64 bs))
    end
  end.

Definition be32 (w : int) : list int := [(w >> 24) land 255; (w >> 16) land 255; (w >> 8) land 255; w land 255].
End F.

Definition i2n (i : int) : N := Z.to_N (Uint63.to_Z i).
Definition n2i (n : N) : int := Uint63.of_Z (Z.of_N n).

(* padding is done on N as in Common/Sha1.v *)
Definition sha1f (msg : list N) : list N :=
  let p := map n2i (pad msg) in
  let '(h0, h1, h2, h3, h4) :=
      F.blocks (S (length p)) p (1732584193, 4023233417, 2562383102, 271733878, 3285377520)%uint63 in
  map i2n (F.be32 h0 ++ F.be32 h1 ++ F.be32 h2 ++ F.be32 h3 ++ F.be32 h4).

Example sha1f_agrees :
  sha1f [] = sha1 [] /\ sha1f [97; 98; 99] = sha1 [97; 98; 99] /\
  sha1f (repeat 200%N 119) = sha1 (repeat 200%N 119) /\ sha1f (repeat 0%N 64) = sha1 (repeat 0%N 64) /\
  sha1f (map N.of_nat (seq 0 256)) = sha1 (map N.of_nat (seq 0 256)).
Proof. repeat split; vm_compute; reflexivity. Qed.
