(* C14 — proofs, part 3: invariants of the builder micro-op model over all
   histories and all failure points: every trail in the project, the archive
   and the share store is closed; a workspace whose result hash is set holds
   exactly that content and its trail records exactly that hash. *)
From Coq Require Import List NArith Bool Lia Permutation.
Require Import BobV.Common.Cases BobV.Ids.Model BobV.Ids.Proofs BobV.C14.Model BobV.C14.Builder
               BobV.C14.ProofsAudit.
Import ListNotations.
Open Scope N_scope.

(* ------------------------------------------------------------------ basic state lemmas *)
Lemma upd_same s p w : s_ws (upd s p w) p = w.
Proof. cbn [upd s_ws]. now rewrite N.eqb_refl. Qed.

Lemma upd_other s p w q : q <> p -> s_ws (upd s p w) q = s_ws s q.
Proof. intros Hn. cbn [upd s_ws]. apply N.eqb_neq in Hn. now rewrite Hn. Qed.

Lemma lookup_in {V} k (m : list (bytes * V)) v : lookup k m = Some v -> exists k', In (k', v) m.
Proof.
  induction m as [|[k0 v0] m IH]; cbn [lookup]; [discriminate|].
  destruct (eqb_str k k0).
  - intros E. inversion E; subst. exists k0. now left.
  - intros E. destruct (IH E) as [k' Hin]. exists k'. now right.
Qed.

(* what _generateAudit writes carries the ids it was called with *)
Definition ids3 (a : artifact) := (a_vid a, a_bid a, a_rhash a).

Lemma add_tools_ids H l : forall au au', add_tools H au l = Some au' -> ids3 (au_art au') = ids3 (au_art au).
Proof.
  induction l as [|[n f] l IH]; intros au au' E; cbn [add_tools] in E; [inversion E; reflexivity|].
  destruct (from_file f); [|discriminate]. apply IH in E. exact E.
Qed.

Lemma add_args_ids H l : forall au au', add_args H au l = Some au' -> ids3 (au_art au') = ids3 (au_art au).
Proof.
  induction l as [|[v f] l IH]; intros au au' E; cbn [add_args] in E; [inversion E; reflexivity|].
  destruct v; [destruct (from_file f); [|discriminate]|]; apply IH in E; exact E.
Qed.

Lemma add_sandbox_ids H s au au' : add_sandbox H au s = Some au' -> ids3 (au_art au') = ids3 (au_art au).
Proof.
  destruct s as [o|]; cbn [add_sandbox]; [|intros E; inversion E; reflexivity].
  destruct (from_file o); [|discriminate]. intros E; inversion E; reflexivity.
Qed.

Lemma generate_ids H g au : generate H g = Some au -> ids3 (au_art au) = (g_vid g, g_bid g, g_rhash g).
Proof.
  unfold generate. intros E. destruct (g_executed g).
  - destruct (add_tools H _ _) as [au1|] eqn:E1; [|discriminate].
    destruct (add_sandbox H au1 _) as [au2|] eqn:E2; [|discriminate].
    destruct (add_args H au2 _) as [au3|] eqn:E3; [|discriminate].
    inversion E; subst. apply add_tools_ids in E1. apply add_sandbox_ids in E2. apply add_args_ids in E3.
    unfold with_scms. cbn [au_art]. unfold ids3 in *. cbn [a_vid a_bid a_rhash] in *.
    rewrite E3, E2, E1. reflexivity.
  - inversion E; subst. reflexivity.
Qed.

Lemma generate_file_ids H g f : generate_file H g = Some f -> ids3 (fst f) = (g_vid g, g_bid g, g_rhash g).
Proof.
  unfold generate_file. destruct (generate H g) as [au|] eqn:E; [|discriminate].
  intros E'. inversion E'; subst. apply generate_ids in E. exact E.
Qed.

(* ------------------------------------------------------------------ a cook touches one workspace only *)
Lemma exec_op_frame H d s reg o :
  let s' := fst (exec_op H d (s, reg) o) in
  s_archive s' = s_archive s /\ s_share s' = s_share s /\ forall q, q <> d_path d -> s_ws s' q = s_ws s q.
Proof.
  destruct o; cbn [exec_op fst]; try destruct reg; try destruct (w_result (s_ws s (d_path d)));
    cbn [fst upd s_archive s_share]; repeat split; intros; try reflexivity; now apply upd_other.
Qed.

Lemma exec_ops_frame H d ops : forall s reg,
  let s' := fst (fold_left (exec_op H d) ops (s, reg)) in
  s_archive s' = s_archive s /\ s_share s' = s_share s /\ forall q, q <> d_path d -> s_ws s' q = s_ws s q.
Proof.
  induction ops as [|o ops IH]; intros s reg; cbn [fold_left]; [repeat split|].
  destruct (exec_op H d (s, reg) o) as [s1 reg1] eqn:E.
  pose proof (exec_op_frame H d s reg o) as F. rewrite E in F. cbn [fst] in F. destruct F as (Fa & Fs & Fw).
  destruct (IH s1 reg1) as (Ia & Is & Iw). repeat split; try congruence.
  intros q Hq. rewrite Iw, Fw by exact Hq. reflexivity.
Qed.

(* ------------------------------------------------------------------ closure invariant *)
Definition closedW (w : wsst) : Prop := forall f, w_audit w = Some f -> file_closed f.
Definition Closed (s : state) : Prop :=
  (forall p, closedW (s_ws s p)) /\
  Forall (fun be => file_closed (e_audit (snd be))) (s_archive s) /\
  Forall (fun be => file_closed (sh_audit (snd be))) (s_share s).

(* foreign archives are trusted to deliver closed trails (Bob validates a
   downloaded trail only under DEBUG['audit']) *)
Definition trusted (e : event) : Prop :=
  match e with
  | EDownloadForeign _ _ (Some f) _ => file_closed f
  | _ => True
  end.

Lemma gen_input_deps_ok s d b h ex : Closed s -> deps_ok (gen_input s d b h ex).
Proof.
  intros [Hw _]. unfold deps_ok, gen_input. cbn [g_tools g_sandbox g_args]. split; [|split].
  - apply Forall_forall. intros nf Hin. apply in_map_iff in Hin. destruct Hin as [np [<- _]]. cbn [snd].
    intros f E. eapply Hw, E.
  - intros o0 E. destruct (d_sandbox d) as [p|]; cbn [option_map] in E; [|discriminate].
    inversion E; subst. intros f E'. eapply Hw, E'.
  - apply Forall_forall. intros nf Hin. apply in_map_iff in Hin. destruct Hin as [np [<- _]]. cbn [snd].
    intros f E. eapply Hw, E.
Qed.

Lemma closed_upd s p w : Closed s -> closedW w -> Closed (upd s p w).
Proof.
  intros (Hw & Ha & Hs) Hc. split; [|split; assumption].
  intros q. cbn [upd s_ws]. destruct (q =? p); [exact Hc|apply Hw].
Qed.

Lemma exec_op_closed H d s reg o : Closed s -> Closed (fst (exec_op H d (s, reg) o)).
Proof.
  intros Hc. pose proof Hc as (Hw & _). pose proof (Hw (d_path d)) as Hp.
  destruct o; cbn [exec_op fst]; try destruct reg; try destruct (w_result (s_ws s (d_path d)));
    cbn [fst]; try exact Hc; apply closed_upd; try exact Hc;
    try (intros f E; cbn [set_result set_content set_audit w_audit] in E; try discriminate; try (apply Hp; exact E)).
  all: eapply generate_file_closed; [apply gen_input_deps_ok; exact Hc|exact E].
Qed.

Lemma exec_ops_closed H d ops : forall s reg, Closed s -> Closed (fst (fold_left (exec_op H d) ops (s, reg))).
Proof.
  induction ops as [|o ops IH]; intros s reg Hc; cbn [fold_left]; [exact Hc|].
  destruct (exec_op H d (s, reg) o) as [s1 reg1] eqn:E. apply IH.
  pose proof (exec_op_closed H d s reg o Hc) as X. now rewrite E in X.
Qed.

Lemma do_download_closed s p c f k : Closed s -> (forall fa, f = Some fa -> file_closed fa) -> Closed (do_download s p c f k).
Proof.
  intros Hc Hf. unfold do_download. destruct (w_result (s_ws s p)); try exact Hc.
  destruct k as [|k]; [exact Hc|].
  destruct k as [|k]; [|destruct f as [fa|]; [destruct (eqb_str (a_rhash (fst fa)) c)|]];
    apply closed_upd; try exact Hc; intros x E; cbn [w_audit] in E; apply Hf; exact E.
Qed.

Lemma step_closed H s e : trusted e -> Closed s -> Closed (step H s e).
Proof.
  intros Ht Hc. pose proof Hc as (Hw & Ha & Hs). destruct e; cbn [step].
  - apply exec_ops_closed, Hc.
  - apply closed_upd; [exact Hc|]. intros f E. cbn [w_audit] in E. eapply Hw, E.
  - destruct (w_result (s_ws s p)); try exact Hc. destruct (w_audit (s_ws s p)) as [f|] eqn:E; [|exact Hc].
    split; [exact Hw|split; [|exact Hs]]. cbn [s_archive]. constructor; [|exact Ha].
    cbn [snd e_audit]. eapply Hw, E.
  - destruct (lookup bid (s_archive s)) as [e|] eqn:E; [|exact Hc].
    apply do_download_closed; [exact Hc|]. intros fa Efa. inversion Efa; subst.
    apply lookup_in in E. destruct E as [k' Hin]. rewrite Forall_forall in Ha. apply (Ha _ Hin).
  - apply do_download_closed; [exact Hc|]. intros fa ->. exact Ht.
  - destruct (w_result (s_ws s p)) as [| |h]; try exact Hc.
    destruct (w_audit (s_ws s p)) as [f|] eqn:E; [|exact Hc].
    set (sh := match lookup bid (s_share s) with Some _ => s_share s | None => _ end).
    assert (Hsh : Forall (fun be => file_closed (sh_audit (snd be))) sh).
    { unfold sh. destruct (lookup bid (s_share s)); [exact Hs|]. constructor; [|exact Hs].
      cbn [snd sh_audit]. eapply Hw, E. }
    destruct (lookup bid sh) as [e|] eqn:El; [|exact Hc].
    split; [|split; [exact Ha|exact Hsh]].
    intros q. cbn [s_ws]. destruct (q =? p); [|apply Hw].
    intros x Ex. cbn [w_audit] in Ex. inversion Ex; subst.
    apply lookup_in in El. destruct El as [k' Hin]. rewrite Forall_forall in Hsh. apply (Hsh _ Hin).
  - destruct (lookup bid (s_share s)) as [e|] eqn:E; [|exact Hc].
    apply closed_upd; [exact Hc|]. intros x Ex. cbn [w_audit] in Ex. inversion Ex; subst.
    apply lookup_in in E. destruct E as [k' Hin]. rewrite Forall_forall in Hs. apply (Hs _ Hin).
Qed.

Lemma init_closed : Closed init.
Proof. split; [intros p f E; discriminate|split; constructor]. Qed.

Lemma run_closed H es : forall s, Forall trusted es -> Closed s -> Closed (run H s es).
Proof.
  induction es as [|e es IH]; intros s Ht Hc; cbn [run fold_left]; [exact Hc|].
  inversion Ht; subst. apply IH; [assumption|]. now apply step_closed.
Qed.

Lemma file_validates f : file_closed f -> exists au, load f = Some au /\ validate au = VOk.
Proof.
  intros Hf. destruct (load_closed f Hf) as (au & Hl & Hc & _). exists au. split; [exact Hl|].
  now apply validate_closed.
Qed.

Lemma references_closed_proof (H : bytes -> bytes) es :
  Forall trusted es ->
  let s := run H init es in
  (forall p f, w_audit (s_ws s p) = Some f -> exists au, load f = Some au /\ validate au = VOk) /\
  (forall bid e, In (bid, e) (s_archive s) -> exists au, load (e_audit e) = Some au /\ validate au = VOk) /\
  (forall bid e, In (bid, e) (s_share s) -> exists au, load (sh_audit e) = Some au /\ validate au = VOk).
Proof.
  intros Ht s. destruct (run_closed H es init Ht init_closed) as (Hw & Ha & Hs). fold s in Hw, Ha, Hs.
  repeat split.
  - intros p f E. apply file_validates. eapply Hw, E.
  - intros bid e Hin. apply file_validates. rewrite Forall_forall in Ha. apply (Ha _ Hin).
  - intros bid e Hin. apply file_validates. rewrite Forall_forall in Hs. apply (Hs _ Hin).
Qed.

(* ------------------------------------------------------------------ truthfulness invariant *)
Definition truthW (w : wsst) : Prop :=
  forall h, w_result w = RHash h -> w_content w = h /\ forall f, w_audit w = Some f -> a_rhash (fst f) = h.

Definition Truth (s : state) : Prop :=
  (forall p, truthW (s_ws s p)) /\
  Forall (fun be => a_rhash (fst (e_audit (snd be))) = e_content (snd be)) (s_archive s) /\
  Forall (fun be => sh_hash (snd be) = sh_content (snd be) /\ a_rhash (fst (sh_audit (snd be))) = sh_hash (snd be))
         (s_share s).

Lemma truth_upd s p w : Truth s -> truthW w -> Truth (upd s p w).
Proof.
  intros (Hw & Ha & Hs) Hc. split; [|split; assumption].
  intros q. cbn [upd s_ws]. destruct (q =? p); [exact Hc|apply Hw].
Qed.

Lemma eqb_str_eq x y : eqb_str x y = true -> x = y.
Proof. apply eqb_bytes_spec. Qed.

Ltac run_ops :=
  unfold exec_ops; cbn [firstn]; rewrite ?firstn_nil; cbn [fold_left exec_op fst snd];
  repeat (rewrite ?upd_same; cbn [set_result set_content set_audit w_content w_result w_audit fst snd]).

Ltac gen_ids Ef :=
  apply generate_file_ids in Ef; unfold ids3 in Ef; cbn [gen_input g_vid g_bid g_rhash] in Ef.

Ltac fin Ht :=
  let hh := fresh "hh" in let Eh := fresh "Eh" in
  intros hh Eh; cbn [set_result set_content set_audit w_result w_content w_audit] in *;
  first
    [ discriminate
    | exfalso; congruence
    | solve [ inversion Eh; subst; (split; [reflexivity|]);
              let f := fresh "f" in let Ef := fresh "Ef" in
              intros f Ef; try discriminate; gen_ids Ef; congruence ]
    | solve [ let Hc := fresh "Hc" in let Hf := fresh "Hf" in
              destruct (Ht hh Eh) as [Hc Hf]; (split; [exact Hc|]);
              let f := fresh "f" in let Ef := fresh "Ef" in
              intros f Ef; try discriminate; try (apply Hf; exact Ef); gen_ids Ef; congruence ] ].

(* the state of the cooked workspace after any prefix of a cook *)
Lemma cook_truthW H s d executed force out bid k :
  truthW (s_ws s (d_path d)) ->
  truthW (s_ws (step H s (ECook d executed force out bid k)) (d_path d)).
Proof.
  intros Ht. cbn [step]. unfold cook_ops.
  destruct (d_checkout d).
  - destruct executed.
    + destruct (w_result (s_ws s (d_path d))) eqn:Er;
        do 7 (try destruct k as [|k]); run_ops; rewrite ?Er; run_ops; try exact Ht; fin Ht.
    + destruct (force || negb (is_hash_of (w_result (s_ws s (d_path d))) (w_content (s_ws s (d_path d))))).
      * do 5 (try destruct k as [|k]); run_ops; try exact Ht; fin Ht.
      * destruct k; run_ops; exact Ht.
  - do 7 (try destruct k as [|k]); run_ops; try exact Ht; fin Ht.
Qed.

Lemma step_cook_truth H s d executed force out bid k :
  Truth s -> Truth (step H s (ECook d executed force out bid k)).
Proof.
  intros Ht. pose proof Ht as (Hw & Ha & Hs).
  pose proof (cook_truthW H s d executed force out bid k (Hw (d_path d))) as Hp.
  cbn [step] in *. unfold exec_ops in *.
  destruct (exec_ops_frame H d (firstn k (cook_ops s d executed force out bid)) s None) as (Fa & Fs & Fw).
  split; [|split; [rewrite Fa; exact Ha|rewrite Fs; exact Hs]].
  intros q. destruct (N.eq_dec q (d_path d)) as [->|Hn]; [exact Hp|]. rewrite Fw by exact Hn. apply Hw.
Qed.

Lemma do_download_truth s p c f k :
  Truth s -> Truth (do_download s p c f k).
Proof.
  intros Ht. unfold do_download. destruct (w_result (s_ws s p)); try exact Ht.
  destruct k as [|k]; [exact Ht|].
  destruct k as [|k]; [|destruct f as [fa|]; [destruct (eqb_str (a_rhash (fst fa)) c) eqn:E|]];
    apply truth_upd; try exact Ht; intros h Eh; cbn [w_result w_content w_audit] in *; try discriminate.
  inversion Eh; subst. split; [reflexivity|]. intros x Ex. inversion Ex; subst. now apply eqb_str_eq.
Qed.

Lemma step_truth H s e : ev_ok s e -> Truth s -> Truth (step H s e).
Proof.
  intros Hok Ht. pose proof Ht as (Hw & Ha & Hs). destruct e.
  - now apply step_cook_truth.
  - cbn [step]. apply truth_upd; [exact Ht|]. intros h Eh. discriminate.
  - cbn [step]. destruct (w_result (s_ws s p)) as [| |h] eqn:Er; try exact Ht.
    destruct (w_audit (s_ws s p)) as [f|] eqn:E; [|exact Ht].
    split; [exact Hw|split; [|exact Hs]]. cbn [s_archive]. constructor; [|exact Ha].
    cbn [snd e_audit e_content]. destruct (Hw p h Er) as [Hc Hf]. rewrite Hc. apply Hf, E.
  - cbn [step]. destruct (lookup bid (s_archive s)); [|exact Ht]. now apply do_download_truth.
  - cbn [step]. now apply do_download_truth.
  - cbn [step]. cbn [ev_ok] in Hok.
    destruct (w_result (s_ws s p)) as [| |h] eqn:Er; try exact Ht.
    destruct (w_audit (s_ws s p)) as [f|] eqn:E; [|exact Ht].
    destruct (Hw p h Er) as [Hc Hf]. specialize (Hf f E).
    destruct (lookup bid (s_share s)) as [e0|] eqn:El.
    + (* somebody else was faster *)
      rewrite El. split; [|split; [exact Ha|exact Hs]].
      intros q. cbn [s_ws]. destruct (q =? p); [|apply Hw].
      apply lookup_in in El. destruct El as [k' Hin]. rewrite Forall_forall in Hs.
      destruct (Hs _ Hin) as [H1 H2]. cbn [snd] in H1, H2.
      intros h' Eh'. cbn [w_result w_content w_audit] in *. inversion Eh'; subst h'.
      split; [congruence|]. intros x Ex. inversion Ex; subst. congruence.
    + cbn [lookup]. change (eqb_str bid bid) with (eqb_bytes bid bid). rewrite eqb_bytes_refl.
      split; [|split; [exact Ha|]].
      * intros q. cbn [s_ws]. destruct (q =? p); [|apply Hw].
        intros h' Eh'. cbn [w_result w_content w_audit sh_content sh_audit] in *. inversion Eh'; subst h'.
        split; [exact Hc|]. intros x Ex. inversion Ex; subst. exact Hf.
      * cbn [s_share]. constructor; [|exact Hs]. cbn [snd sh_hash sh_content sh_audit]. split; [now symmetry|exact Hf].
  - cbn [step]. destruct (lookup bid (s_share s)) as [e|] eqn:El; [|exact Ht].
    apply truth_upd; [exact Ht|]. intros h Eh. cbn [w_result w_content w_audit] in *. inversion Eh; subst.
    apply lookup_in in El. destruct El as [k' Hin]. rewrite Forall_forall in Hs.
    destruct (Hs _ Hin) as [H1 H2]. cbn [snd] in H1, H2.
    split; [now symmetry|]. intros x Ex. inversion Ex; subst. exact H2.
Qed.

Lemma init_truth : Truth init.
Proof. split; [intros p h E; discriminate|split; constructor]. Qed.

Lemma run_truth H es : forall s, hist_ok H s es -> Truth s -> Truth (run H s es).
Proof.
  induction es as [|e es IH]; intros s Hok Ht; cbn [run fold_left]; [exact Ht|].
  destruct Hok as [H1 H2]. apply IH; [exact H2|]. now apply step_truth.
Qed.

Lemma ids_truthful_proof (H : bytes -> bytes) es :
  hist_ok H init es ->
  let s := run H init es in
  (forall p h, w_result (s_ws s p) = RHash h ->
     w_content (s_ws s p) = h /\ forall f, w_audit (s_ws s p) = Some f -> a_rhash (fst f) = h) /\
  (forall bid e, In (bid, e) (s_archive s) -> a_rhash (fst (e_audit e)) = e_content e) /\
  (forall bid e, In (bid, e) (s_share s) -> sh_hash e = sh_content e /\ a_rhash (fst (sh_audit e)) = sh_hash e).
Proof.
  intros Hok s. destruct (run_truth H es init Hok init_truth) as (Hw & Ha & Hs). fold s in Hw, Ha, Hs.
  split; [|split].
  - intros p h E. apply (Hw p h E).
  - intros bid e Hin. rewrite Forall_forall in Ha. apply (Ha _ Hin).
  - intros bid e Hin. rewrite Forall_forall in Hs. apply (Hs _ Hin).
Qed.

(* ------------------------------------------------------------------ single events *)
(* a completed cook that ran the script records exactly the ids it was called with *)
Lemma cook_records_ids_proof H s d force out bid k :
  (6 <= k)%nat ->
  let s' := step H s (ECook d true force out bid k) in
  let w := s_ws s' (d_path d) in
  w_result w = RHash out /\ w_content w = out /\
  forall f, w_audit w = Some f ->
    a_vid (fst f) = g_vid (d_base d) /\ a_rhash (fst f) = out /\
    a_bid (fst f) = (if d_checkout d then out else bid).
Proof.
  intros Hk. do 6 (destruct k as [|k]; [lia|]). cbn [step]. unfold cook_ops.
  destruct (d_checkout d).
  - destruct (w_result (s_ws s (d_path d))) eqn:Er; run_ops; rewrite ?Er; run_ops;
      (split; [reflexivity|split; [reflexivity|]]); intros f Ef;
      pose proof (generate_file_ids _ _ _ Ef) as Ei; unfold ids3 in Ei; cbn [gen_input g_vid g_bid g_rhash] in Ei;
      inversion Ei; repeat split; auto.
  - run_ops. (split; [reflexivity|split; [reflexivity|]]); intros f Ef.
    pose proof (generate_file_ids _ _ _ Ef) as Ei; unfold ids3 in Ei; cbn [gen_input g_vid g_bid g_rhash] in Ei.
    inversion Ei; repeat split; auto.
Qed.

(* the trail is written before the result hash: a build/package cook that
   stops anywhere after its first micro-op and before the last one leaves a
   datetime as result, so the step cannot be skipped by the next invocation *)
Lemma audit_failure_forces_rerun_proof H s d executed force out bid k :
  d_checkout d = false -> (1 <= k < 6)%nat ->
  w_result (s_ws (step H s (ECook d executed force out bid k)) (d_path d)) = RStamp.
Proof.
  intros Hd Hk. cbn [step]. unfold cook_ops. rewrite Hd.
  do 6 (destruct k as [|k]; [try lia; run_ops; reflexivity|]). lia.
Qed.

(* a checkout that ran its script and stops before the last micro-op never
   leaves a hash as result either *)
Lemma checkout_failure_forces_rerun_proof H s d force out bid k h :
  d_checkout d = true -> (2 <= k < 6)%nat ->
  w_result (s_ws (step H s (ECook d true force out bid k)) (d_path d)) <> RHash h.
Proof.
  intros Hd Hk. cbn [step]. unfold cook_ops. rewrite Hd.
  destruct (w_result (s_ws s (d_path d))) eqn:Er;
    do 6 (destruct k as [|k]; [try lia; run_ops; rewrite ?Er; run_ops; rewrite ?Er; discriminate|]); lia.
Qed.

(* P2: a downloaded artifact is accepted only with a trail whose result hash
   is the hash of the extracted tree -- whatever the archive delivered *)
Lemma download_trail_checked_proof H s p c f k h :
  w_result (s_ws s p) = RNone ->
  w_result (s_ws (step H s (EDownloadForeign p c f k)) p) = RHash h ->
  h = c /\ w_content (s_ws (step H s (EDownloadForeign p c f k)) p) = c /\
  exists fa, f = Some fa /\ w_audit (s_ws (step H s (EDownloadForeign p c f k)) p) = Some fa /\ a_rhash (fst fa) = c.
Proof.
  intros Er. cbn [step]. unfold do_download. rewrite Er.
  destruct k as [|k]; [rewrite Er; discriminate|].
  destruct k as [|k]; [rewrite upd_same; discriminate|].
  destruct f as [fa|]; [|rewrite upd_same; discriminate].
  destruct (eqb_str (a_rhash (fst fa)) c) eqn:E; rewrite upd_same; cbn [w_result w_content w_audit]; [|discriminate].
  intros Eh. inversion Eh; subst. repeat split. exists fa. repeat split. now apply eqb_str_eq.
Qed.

(* P2: the trail next to a shared workspace is the trail of the store *)
Lemma shared_trail_is_store_trail_proof H s p bid e :
  lookup bid (s_share s) = Some e ->
  let w := s_ws (step H s (EShareUse p bid)) p in
  w_audit w = Some (sh_audit e) /\ w_result w = RHash (sh_hash e) /\ w_content w = sh_content e.
Proof.
  intros El. cbn [step]. rewrite El, upd_same. repeat split.
Qed.

Lemma share_install_links_store_proof H s p bid h f :
  w_result (s_ws s p) = RHash h -> w_audit (s_ws s p) = Some f ->
  let s' := step H s (EShareInstall p bid) in
  exists e, lookup bid (s_share s') = Some e /\ w_audit (s_ws s' p) = Some (sh_audit e) /\
            w_content (s_ws s' p) = sh_content e /\
            (lookup bid (s_share s) = None -> sh_audit e = f /\ sh_hash e = h /\ sh_content e = w_content (s_ws s p)).
Proof.
  intros Er Ea. cbn [step]. rewrite Er, Ea.
  destruct (lookup bid (s_share s)) as [e0|] eqn:El.
  - rewrite El. exists e0. cbn [s_share s_ws]. rewrite N.eqb_refl. cbn [w_audit w_content].
    repeat split; try assumption; discriminate.
  - cbn [lookup]. change (eqb_str bid bid) with (eqb_bytes bid bid). rewrite eqb_bytes_refl.
    eexists. cbn [s_share s_ws lookup]. change (eqb_str bid bid) with (eqb_bytes bid bid).
    rewrite eqb_bytes_refl, N.eqb_refl. cbn [w_audit w_content sh_audit sh_content sh_hash]. repeat split.
Qed.

(* what a generated trail lists as dependencies, when all trails are readable *)
Lemma generate_not_executed_no_deps H g au :
  g_executed g = false -> generate H g = Some au -> get_refs (au_art au) = [] /\ au_refs au = [].
Proof.
  intros Ee E. unfold generate in E. rewrite Ee in E. inversion E; subst. split; reflexivity.
Qed.
