(* C14 — micro-op model of the parts of pym/bob/builder.py that decide what
   an audit trail says and when it is written: _cookCheckoutStep,
   _cookBuildStep, _cookPackageStep (order of setResultHash(now), _runShell,
   hashWorkspace, _generateAudit = removePath + write, setResultHash(hash)),
   _downloadPackage (extract, "misses its audit trail", result-hash check),
   upload, and shared packages (_useSharedPackage/_installSharedPackage: the
   trail next to the workspace is the store's trail).  Definitions only.

   A workspace's tree is abstracted to its hash ([w_content]); scripts are
   external: every run carries the content it produced.  Any operation may
   fail (exception, kill): an event carries the number of micro-ops that were
   executed.  Events may come in any order and with any declarations, which
   covers recipe edits between invocations. *)
From Coq Require Import List NArith Bool.
Require Import BobV.Common.Cases BobV.Ids.Model BobV.C14.Model.
Import ListNotations.
Open Scope N_scope.

Inductive rstate := RNone | RStamp | RHash (h : bytes).   (* BobState result hash: unset, datetime, hash *)

Record wsst := {
  w_content : bytes;                (* hashWorkspace() of what is there now *)
  w_result : rstate;
  w_audit : option afile            (* audit.json.gz next to the workspace *)
}.

Definition path := N.
Record entry := { e_content : bytes; e_audit : afile }.                      (* artifact in the archive *)
Record shent := { sh_content : bytes; sh_hash : bytes; sh_audit : afile }.   (* package in the share store + pkg.json hash *)

Record state := {
  s_ws : path -> wsst;
  s_archive : list (bytes * entry);     (* build-id -> artifact; only what this history uploaded *)
  s_share : list (bytes * shent)
}.

Definition empty_ws : wsst := {| w_content := []; w_result := RNone; w_audit := None |}.
Definition init : state := {| s_ws := fun _ => empty_ws; s_archive := []; s_share := [] |}.

Definition upd (s : state) (p : path) (w : wsst) : state :=
  {| s_ws := fun q => if q =? p then w else s_ws s q; s_archive := s_archive s; s_share := s_share s |}.

Fixpoint lookup {V} (k : bytes) (m : list (bytes * V)) : option V :=
  match m with
  | [] => None
  | (k', v) :: r => if eqb_str k k' then Some v else lookup k r
  end.

(* what the recipes declare for the step that is cooked *)
Record decl := {
  d_path : path;
  d_checkout : bool;
  d_base : gen_in;                  (* ids, meta, environment, scm records; dependency fields unused *)
  d_tools : list (str * path);
  d_sandbox : option path;
  d_args : list (bool * path)       (* isValid, workspace *)
}.

(* the arguments of _generateAudit as the builder passes them; dependency
   trails are read from next to the dependency workspaces *)
Definition gen_input (s : state) (d : decl) (bid h : bytes) (executed : bool) : gen_in :=
  let b := d_base d in
  {| g_vid := g_vid b; g_bid := bid; g_rhash := h; g_build := g_build b; g_meta := g_meta b;
     g_metaenv := g_metaenv b; g_recipes := g_recipes b; g_layers := g_layers b; g_files := g_files b;
     g_executed := executed; g_env := g_env b;
     g_tools := map (fun np => (fst np, w_audit (s_ws s (snd np)))) (d_tools d);
     g_sandbox := option_map (fun p => w_audit (s_ws s p)) (d_sandbox d);
     g_args := map (fun vp => (fst vp, w_audit (s_ws s (snd vp)))) (d_args d);
     g_scms := g_scms b |}.

Inductive op :=
| OStamp                 (* BobState().setResultHash(path, datetime.now()) *)
| OStampIfSet            (* checkout: "forge checkout result" only if there is one *)
| ORun (out : bytes)     (* _runShell *)
| OHash                  (* h = hashWorkspace(step) *)
| ORemoveAudit           (* _generateAudit: removePath(auditPath) *)
| OWriteAudit (bid : option bytes) (executed : bool)
                         (* rest of _generateAudit(step, depth, h, bid or h, executed) *)
| OSetResult.            (* BobState().setResultHash(path, h) *)

(* the cook functions, flattened; the checkout decision
   "if checkoutHash != oldCheckoutHash or self.__force" is taken on the
   pre-state: after a run the old value is a datetime or None, so the trail is
   always regenerated *)
Definition is_hash_of (r : rstate) (h : bytes) : bool :=
  match r with RHash h' => eqb_str h h' | _ => false end.

Definition cook_ops (s : state) (d : decl) (executed force : bool) (out bid : bytes) : list op :=
  if d_checkout d then
    if executed then [OStampIfSet; ORun out; OHash; ORemoveAudit; OWriteAudit None true; OSetResult]
    else
      let w := s_ws s (d_path d) in
      if force || negb (is_hash_of (w_result w) (w_content w))
      then [OHash; ORemoveAudit; OWriteAudit None false; OSetResult]
      else []
  else [OStamp; ORun out; OHash; ORemoveAudit; OWriteAudit (Some bid) true; OSetResult].

Definition set_result (w : wsst) (r : rstate) : wsst :=
  {| w_content := w_content w; w_result := r; w_audit := w_audit w |}.
Definition set_content (w : wsst) (c : bytes) : wsst :=
  {| w_content := c; w_result := w_result w; w_audit := w_audit w |}.
Definition set_audit (w : wsst) (a : option afile) : wsst :=
  {| w_content := w_content w; w_result := w_result w; w_audit := a |}.

(* one micro-op; [reg] is the local variable holding the hash *)
Definition exec_op H (d : decl) (sr : state * option bytes) (o : op) : state * option bytes :=
  let '(s, reg) := sr in
  let p := d_path d in
  let w := s_ws s p in
  match o with
  | OStamp => (upd s p (set_result w RStamp), reg)
  | OStampIfSet => (match w_result w with RNone => s | _ => upd s p (set_result w RStamp) end, reg)
  | ORun out => (upd s p (set_content w out), reg)
  | OHash => (s, Some (w_content w))
  | ORemoveAudit => (upd s p (set_audit w None), reg)
  | OWriteAudit bid executed =>
      match reg with
      | None => (s, reg)
      | Some h =>
        let b := match bid with Some b => b | None => h end in
        (upd s p (set_audit w (generate_file H (gen_input s d b h executed))), reg)
      end
  | OSetResult =>
      match reg with
      | None => (s, reg)
      | Some h => (upd s p (set_result w (RHash h)), reg)
      end
  end.

Definition exec_ops H (d : decl) (s : state) (ops : list op) : state :=
  fst (fold_left (exec_op H d) ops (s, None)).

Inductive event :=
| ECook (d : decl) (executed force : bool) (out bid : bytes) (k : nat)
        (* k micro-ops were executed before the step failed / Bob was killed; k >= 6: completed *)
| EPrune (p : path)                      (* emptyDirectory + resetWorkspaceState (the trail may stay) *)
| EUpload (p : path) (bid : bytes)
| EDownload (p : path) (bid : bytes) (k : nat)      (* from what this history uploaded *)
| EDownloadForeign (p : path) (c : bytes) (f : option afile) (k : nat)   (* an archive filled by somebody else *)
| EShareInstall (p : path) (bid : bytes)
| EShareUse (p : path) (bid : bytes).

(* TarHelper._extract + the checks of _downloadPackage; only attempted when
   the workspace has no result *)
Definition do_download (s : state) (p : path) (c : bytes) (f : option afile) (k : nat) : state :=
  let w := s_ws s p in
  match w_result w, k with
  | RNone, S k' =>
      let w1 := {| w_content := c; w_result := RNone; w_audit := f |} in
      match k', f with
      | S _, Some fa =>
          if eqb_str (a_rhash (fst fa)) c
          then upd s p {| w_content := c; w_result := RHash c; w_audit := f |}
          else upd s p w1          (* "Corrupt downloaded artifact!" *)
      | _, _ => upd s p w1         (* killed after extraction, or "misses its audit trail" *)
      end
  | _, _ => s
  end.

Definition step H (s : state) (e : event) : state :=
  match e with
  | ECook d executed force out bid k =>
      exec_ops H d s (firstn k (cook_ops s d executed force out bid))
  | EPrune p =>
      let w := s_ws s p in
      upd s p {| w_content := []; w_result := RNone; w_audit := w_audit w |}
  | EUpload p bid =>
      let w := s_ws s p in
      match w_result w, w_audit w with
      | RHash _, Some f =>
          {| s_ws := s_ws s; s_archive := (bid, {| e_content := w_content w; e_audit := f |}) :: s_archive s;
             s_share := s_share s |}
      | _, _ => s                      (* "Missing audit trail! Cannot proceed without one." / nothing built *)
      end
  | EDownload p bid k =>
      match lookup bid (s_archive s) with
      | Some e => do_download s p (e_content e) (Some (e_audit e)) k
      | None => s
      end
  | EDownloadForeign p c f k => do_download s p c f k
  | EShareInstall p bid =>
      let w := s_ws s p in
      match w_result w, w_audit w with
      | RHash h, Some f =>
          let sh := match lookup bid (s_share s) with
                    | Some _ => s_share s            (* somebody else was faster: theirs is used *)
                    | None => (bid, {| sh_content := w_content w; sh_hash := h; sh_audit := f |}) :: s_share s
                    end in
          match lookup bid sh with
          | Some e =>
              {| s_ws := fun q => if q =? p
                                  then {| w_content := sh_content e; w_result := w_result w;
                                          w_audit := Some (sh_audit e) |}
                                  else s_ws s q;
                 s_archive := s_archive s; s_share := sh |}
          | None => s
          end
      | _, _ => s                      (* "skipped (no audit trail)" *)
      end
  | EShareUse p bid =>
      match lookup bid (s_share s) with
      | Some e => upd s p {| w_content := sh_content e; w_result := RHash (sh_hash e);
                             w_audit := Some (sh_audit e) |}
      | None => s
      end
  end.

Definition run H (s : state) (es : list event) : state := fold_left (step H) es s.

(* Installing into the share store loses against a package that is already
   there (another project was faster).  Bob then links the workspace to the
   existing package without comparing hashes; histories in which that package
   has a different tree hash than what was just built (an unreproducible
   build racing between projects) are the subject of C15 and are excluded
   from the truthfulness theorem by this side condition. *)
Definition ev_ok (s : state) (e : event) : Prop :=
  match e with
  | EShareInstall p bid =>
      match lookup bid (s_share s), w_result (s_ws s p) with
      | Some e', RHash h => sh_hash e' = h
      | _, _ => True
      end
  | _ => True
  end.
Fixpoint hist_ok H (s : state) (es : list event) : Prop :=
  match es with
  | [] => True
  | e :: r => ev_ok s e /\ hist_ok H (step H s e) r
  end.
