(* C14 — model of pym/bob/audit.py (digestData/digestMap/digestString,
   Artifact, Audit: merge, addArg/addTool/setSandbox, validate,
   getReferencedBuildIds, save/load) and of LocalBuilder._generateAudit
   (pym/bob/builder.py).  Definitions only.  The builder micro-op model that
   calls [generate] is in Builder.v. *)
From Coq Require Import String Ascii.
From Coq Require Import List NArith ZArith Bool.
Require Import BobV.Common.Cases BobV.Ids.Model BobV.Gen.ConstsC14.
Import ListNotations.
Open Scope N_scope.

(* ------------------------------------------------------------------ *)
(* string literals -> code points                                       *)
Fixpoint s2l (s : String.string) : str :=
  match s with
  | String.EmptyString => []
  | String.String c r => Ascii.N_of_ascii c :: s2l r
  end.

(* ------------------------------------------------------------------ *)
(* JSON-like values: what Artifact.__data can hold                      *)
Inductive value :=
| VStr (s : str)                       (* str: code points *)
| VMap (m : list (str * value))        (* dict with str keys, insertion order *)
| VList (l : list value)
| VInt (z : Z)
| VBool (b : bool)
| VBytes (b : bytes)
| VNone.

(* struct.pack("<q", z) for -2^63 <= z < 2^63 *)
Definition le64 (n : N) : bytes := le32 (n mod 4294967296) ++ le32 (n / 4294967296).
Definition int_bytes (z : Z) : bytes := le64 (Z.to_N (z mod 18446744073709551616)).

(* Which branch of the isinstance chain of digestData catches a bool: bool
   is a subclass of int, so the int branch does if it comes first. *)
Fixpoint index_of (x : N) (l : list N) : nat :=
  match l with
  | [] => O
  | y :: r => if x =? y then O else S (index_of x r)
  end.
Definition ty_int : N := 3.
Definition ty_bool : N := 4.
Definition bool_as_int : bool := Nat.ltb (index_of ty_int dd_order) (index_of ty_bool dd_order).

(* digestString: tag, number of *characters*, UTF-8 bytes *)
Definition digest_string (s : str) : bytes := tag_str :: enc_lstr s.

Definition enc_entry (kx : str * bytes) : bytes := digest_string (fst kx) ++ snd kx.

Fixpoint digest_data (v : value) : bytes :=
  match v with
  | VStr s => digest_string s
  | VMap m =>
      let enc := (fix go (l : list (str * value)) : list (str * bytes) :=
                    match l with
                    | [] => []
                    | kx :: r => (fst kx, digest_data (snd kx)) :: go r
                    end) m in
      tag_map :: le32 (llen m) ++ flat_map enc_entry (sort_by fst enc)
  | VList l =>
      tag_list :: le32 (llen l) ++
      (fix go (l : list value) : bytes :=
         match l with
         | [] => []
         | x :: r => digest_data x ++ go r
         end) l
  | VInt z => tag_int :: int_bytes z
  | VBool b =>
      if bool_as_int then tag_int :: int_bytes (if b then 1 else 0)%Z
      else [tag_bool; if b then 1 else 0]
  | VBytes b => tag_bytes :: le32 (llen b) ++ b
  | VNone => [tag_none]
  end.

(* asHexStr *)
Definition hexdigit (n : N) : N := if n <? 10 then 48 + n else 87 + n.
Definition hex (b : bytes) : str := flat_map (fun x => [hexdigit (x / 16); hexdigit (x mod 16)]) b.

(* ------------------------------------------------------------------ *)
(* Artifact: the record, typed as Artifact.SCHEMA prescribes.  Ids are  *)
(* kept as bytes (bytes.fromhex of what the dict stores).               *)
Record artifact := {
  a_vid : bytes;
  a_bid : bytes;
  a_rhash : bytes;
  a_meta : list (str * str);
  a_build : list (str * str);
  a_env : str;
  a_metaenv : option (list (str * str));
  a_files : option (list (str * str));
  a_scms : list value;
  a_recipes : option value;
  a_layers : option (list (str * value));
  a_args : option (list bytes);
  a_tools : option (list (str * bytes));
  a_sandbox : option bytes;
  a_id : option bytes                   (* "artifact-id" if present *)
}.

Definition k_variant_id := Eval vm_compute in s2l "variant-id"%string.
Definition k_build_id := Eval vm_compute in s2l "build-id"%string.
Definition k_result_hash := Eval vm_compute in s2l "result-hash"%string.
Definition k_artifact_id := Eval vm_compute in s2l "artifact-id"%string.
Definition k_meta := Eval vm_compute in s2l "meta"%string.
Definition k_build := Eval vm_compute in s2l "build"%string.
Definition k_env := Eval vm_compute in s2l "env"%string.
Definition k_metaEnv := Eval vm_compute in s2l "metaEnv"%string.
Definition k_files := Eval vm_compute in s2l "files"%string.
Definition k_scms := Eval vm_compute in s2l "scms"%string.
Definition k_recipes := Eval vm_compute in s2l "recipes"%string.
Definition k_layers := Eval vm_compute in s2l "layers"%string.
Definition k_dependencies := Eval vm_compute in s2l "dependencies"%string.
Definition k_args := Eval vm_compute in s2l "args"%string.
Definition k_tools := Eval vm_compute in s2l "tools"%string.
Definition k_sandbox := Eval vm_compute in s2l "sandbox"%string.
Definition k_step := Eval vm_compute in s2l "step"%string.
Definition k_dist := Eval vm_compute in s2l "dist"%string.

Definition smap (m : list (str * str)) : value := VMap (map (fun kv => (fst kv, VStr (snd kv))) m).
Definition vhex (b : bytes) : value := VStr (hex b).
Definition opt_field {A} (k : str) (f : A -> value) (o : option A) : list (str * value) :=
  match o with Some x => [(k, f x)] | None => [] end.

Definition deps_value (a : artifact) : value :=
  VMap (opt_field k_args (fun l => VList (map vhex l)) (a_args a)
        ++ opt_field k_tools (fun l => VMap (map (fun kv => (fst kv, vhex (snd kv))) l)) (a_tools a)
        ++ opt_field k_sandbox vhex (a_sandbox a)).

(* the dict that is digested: everything but "artifact-id" *)
Definition to_value (a : artifact) : list (str * value) :=
  [(k_variant_id, vhex (a_vid a)); (k_build_id, vhex (a_bid a)); (k_result_hash, vhex (a_rhash a));
   (k_meta, smap (a_meta a)); (k_build, smap (a_build a)); (k_env, VStr (a_env a));
   (k_scms, VList (a_scms a)); (k_dependencies, deps_value a)]
  ++ opt_field k_metaEnv smap (a_metaenv a)
  ++ opt_field k_files smap (a_files a)
  ++ opt_field k_recipes (fun v => v) (a_recipes a)
  ++ opt_field k_layers VMap (a_layers a).

(* Artifact.__calculateArtifactId *)
Definition record_id (H : bytes -> bytes) (r : list (str * value)) : bytes := H (digest_data (VMap r)).
Definition artifact_id (H : bytes -> bytes) (a : artifact) : bytes := record_id H (to_value a).
(* Artifact.getId: a stored id is trusted, otherwise calculated *)
Definition get_id (H : bytes -> bytes) (a : artifact) : bytes :=
  match a_id a with Some i => i | None => artifact_id H a end.
(* Artifact.dump *)
Definition set_id (a : artifact) (i : option bytes) : artifact :=
  {| a_vid := a_vid a; a_bid := a_bid a; a_rhash := a_rhash a; a_meta := a_meta a; a_build := a_build a;
     a_env := a_env a; a_metaenv := a_metaenv a; a_files := a_files a; a_scms := a_scms a;
     a_recipes := a_recipes a; a_layers := a_layers a; a_args := a_args a; a_tools := a_tools a;
     a_sandbox := a_sandbox a; a_id := i |}.
Definition dump (H : bytes -> bytes) (a : artifact) : artifact := set_id a (Some (get_id H a)).

(* Artifact.getReferences *)
Definition get_refs (a : artifact) : list bytes :=
  match a_args a with Some l => l | None => [] end
  ++ match a_sandbox a with Some s => [s] | None => [] end
  ++ match a_tools a with Some l => map snd l | None => [] end.

(* dict assignment d[k] = v on an insertion-ordered association list *)
Definition eqb_bytes : bytes -> bytes -> bool := eqb_str.
Fixpoint aset {V} (k : str) (v : V) (m : list (str * V)) : list (str * V) :=
  match m with
  | [] => [(k, v)]
  | (k', v') :: r => if eqb_bytes k k' then (k, v) :: r else (k', v') :: aset k v r
  end.

(* mutators; every one invalidates the id *)
Definition art_add_arg (a : artifact) (i : bytes) : artifact :=
  {| a_vid := a_vid a; a_bid := a_bid a; a_rhash := a_rhash a; a_meta := a_meta a; a_build := a_build a;
     a_env := a_env a; a_metaenv := a_metaenv a; a_files := a_files a; a_scms := a_scms a;
     a_recipes := a_recipes a; a_layers := a_layers a;
     a_args := Some (match a_args a with Some l => l | None => [] end ++ [i]);
     a_tools := a_tools a; a_sandbox := a_sandbox a; a_id := None |}.
Definition art_add_tool (a : artifact) (name : str) (i : bytes) : artifact :=
  {| a_vid := a_vid a; a_bid := a_bid a; a_rhash := a_rhash a; a_meta := a_meta a; a_build := a_build a;
     a_env := a_env a; a_metaenv := a_metaenv a; a_files := a_files a; a_scms := a_scms a;
     a_recipes := a_recipes a; a_layers := a_layers a; a_args := a_args a;
     a_tools := Some (aset name i (match a_tools a with Some l => l | None => [] end));
     a_sandbox := a_sandbox a; a_id := None |}.
Definition art_set_sandbox (a : artifact) (i : bytes) : artifact :=
  {| a_vid := a_vid a; a_bid := a_bid a; a_rhash := a_rhash a; a_meta := a_meta a; a_build := a_build a;
     a_env := a_env a; a_metaenv := a_metaenv a; a_files := a_files a; a_scms := a_scms a;
     a_recipes := a_recipes a; a_layers := a_layers a; a_args := a_args a; a_tools := a_tools a;
     a_sandbox := Some i; a_id := None |}.

(* ------------------------------------------------------------------ *)
(* Audit                                                                *)
Definition refmap := list (bytes * artifact).     (* dict artifact-id -> record, insertion order *)

Fixpoint rm_set (k : bytes) (v : artifact) (m : refmap) : refmap :=
  match m with
  | [] => [(k, v)]
  | (k', v') :: r => if eqb_bytes k k' then (k, v) :: r else (k', v') :: rm_set k v r
  end.
Fixpoint rm_get (k : bytes) (m : refmap) : option artifact :=
  match m with
  | [] => None
  | (k', v') :: r => if eqb_bytes k k' then Some v' else rm_get k r
  end.
Definition rm_update (m other : refmap) : refmap :=
  fold_left (fun acc kv => rm_set (fst kv) (snd kv) acc) other m.

Record audit := { au_art : artifact; au_refs : refmap }.

(* Audit.__merge *)
Definition merge (H : bytes -> bytes) (self other : audit) : refmap :=
  rm_set (get_id H (au_art other)) (au_art other) (rm_update (au_refs self) (au_refs other)).

Definition add_arg H (self other : audit) : audit :=
  {| au_art := art_add_arg (au_art self) (get_id H (au_art other)); au_refs := merge H self other |}.
Definition add_tool H (self : audit) (name : str) (other : audit) : audit :=
  {| au_art := art_add_tool (au_art self) name (get_id H (au_art other)); au_refs := merge H self other |}.
Definition set_sandbox H (self other : audit) : audit :=
  {| au_art := art_set_sandbox (au_art self) (get_id H (au_art other)); au_refs := merge H self other |}.

(* the content of audit.json.gz: {"artifact": ..., "references": [...]} *)
Definition afile := (artifact * list artifact)%type.

(* Audit.save *)
Definition save H (au : audit) : afile :=
  (dump H (au_art au), map (fun kv => dump H (snd kv)) (au_refs au)).

(* Audit.load: every record needs its "artifact-id" (REQUIRED_KEYS / KeyError);
   the dict comprehension keeps the first position and the last value *)
Fixpoint load_refs (l : list artifact) (acc : refmap) : option refmap :=
  match l with
  | [] => Some acc
  | r :: rest => match a_id r with
                 | None => None
                 | Some i => load_refs rest (rm_set i r acc)
                 end
  end.
Definition load (f : afile) : option audit :=
  match a_id (fst f), load_refs (snd f) [] with
  | Some _, Some m => Some {| au_art := fst f; au_refs := m |}
  | _, _ => None
  end.

(* Audit.__validate: closure walk.  Sets are duplicate-free lists; which
   element pop() returns does not influence the verdict. *)
Inductive vres := VOk | VMissing (i : bytes) | VOutOfFuel.
Definition mem (x : bytes) (l : list bytes) : bool := existsb (eqb_bytes x) l.
Definition sadd (x : bytes) (l : list bytes) : list bytes := if mem x l then l else l ++ [x].
Definition to_set (l : list bytes) : list bytes := fold_left (fun s x => sadd x s) l [].

Fixpoint walk (fuel : nat) (refs : refmap) (todo done : list bytes) : vres :=
  match fuel with
  | O => VOutOfFuel
  | S f =>
    match todo with
    | [] => VOk
    | cur :: rest =>
      match rm_get cur refs with
      | None => VMissing cur
      | Some r =>
        walk f refs
             (fold_left (fun t d => if mem d done then t else sadd d t) (get_refs r) rest)
             (sadd cur done)
      end
    end
  end.
Definition validate_fuel (au : audit) : nat := (2 * length (au_refs au) + 2)%nat.
Definition validate (au : audit) : vres :=
  walk (validate_fuel au) (au_refs au) (to_set (get_refs (au_art au))) [].

(* Audit.getReferencedBuildIds: build-ids of the nearest "dist" records *)
Definition meta_step (a : artifact) : option str :=
  match find (fun kv => eqb_bytes (fst kv) k_step) (a_meta a) with Some kv => Some (snd kv) | None => None end.
Fixpoint rbi_walk (fuel : nat) (refs : refmap) (todo : list bytes) (acc : list bytes) : option (list bytes) :=
  match fuel with
  | O => None
  | S f =>
    match todo with
    | [] => Some acc
    | cur :: rest =>
      match rm_get cur refs with
      | None => None                       (* KeyError *)
      | Some r =>
        match meta_step r with
        | None => None                     (* KeyError *)
        | Some s => if eqb_bytes s k_dist then rbi_walk f refs rest (sadd (a_bid r) acc)
                    else rbi_walk f refs (fold_left (fun t d => sadd d t) (get_refs r) rest) acc
        end
      end
    end
  end.
(* result as a set (the implementation returns it sorted) *)
Definition referenced_build_ids (fuel : nat) (au : audit) : option (list bytes) :=
  rbi_walk fuel (au_refs au) (to_set (get_refs (au_art au))) [].

(* ------------------------------------------------------------------ *)
(* LocalBuilder._generateAudit                                          *)
Record gen_in := {
  g_vid : bytes; g_bid : bytes; g_rhash : bytes;
  g_build : list (str * str);              (* platform.uname, date, os-release: environment *)
  g_meta : list (str * str);               (* --meta defines, then bob/recipe/package/step/language *)
  g_metaenv : list (str * str);            (* package.getMetaEnv() *)
  g_recipes : option value;                (* recipe repository audit of layer "" *)
  g_layers : list (str * value);
  g_files : list (str * str);              (* audit files read from the workspace *)
  g_executed : bool;
  g_env : str;                             (* content of ../env *)
  g_tools : list (str * option afile);     (* step.getTools(): name -> trail next to the tool's workspace (None: unreadable) *)
  g_sandbox : option (option afile);
  g_args : list (bool * option afile);     (* step.getArguments(): isValid, trail *)
  g_scms : list value                      (* SCM records scanned from the workspace *)
}.

Definition nonempty {A} (l : list A) : option (list A) := match l with [] => None | _ => Some l end.

Definition fresh_artifact (g : gen_in) : artifact :=
  {| a_vid := g_vid g; a_bid := g_bid g; a_rhash := g_rhash g;
     a_meta := fold_left (fun m kv => aset (fst kv) (snd kv) m) (g_meta g) [];
     a_build := g_build g; a_env := [];
     a_metaenv := nonempty (fold_left (fun m kv => aset (fst kv) (snd kv) m) (g_metaenv g) []);
     a_files := nonempty (fold_left (fun m kv => aset (fst kv) (snd kv) m) (g_files g) []);
     a_scms := []; a_recipes := g_recipes g; a_layers := nonempty (g_layers g);
     a_args := None; a_tools := None; a_sandbox := None; a_id := None |}.

Definition with_env (au : audit) (e : str) : audit :=
  let a := au_art au in
  {| au_art := {| a_vid := a_vid a; a_bid := a_bid a; a_rhash := a_rhash a; a_meta := a_meta a; a_build := a_build a;
                  a_env := e; a_metaenv := a_metaenv a; a_files := a_files a; a_scms := a_scms a;
                  a_recipes := a_recipes a; a_layers := a_layers a; a_args := a_args a; a_tools := a_tools a;
                  a_sandbox := a_sandbox a; a_id := None |};
     au_refs := au_refs au |}.
Definition with_scms (au : audit) (s : list value) : audit :=
  let a := au_art au in
  {| au_art := {| a_vid := a_vid a; a_bid := a_bid a; a_rhash := a_rhash a; a_meta := a_meta a; a_build := a_build a;
                  a_env := a_env a; a_metaenv := a_metaenv a; a_files := a_files a; a_scms := a_scms a ++ s;
                  a_recipes := a_recipes a; a_layers := a_layers a; a_args := a_args a; a_tools := a_tools a;
                  a_sandbox := a_sandbox a; a_id := None |};
     au_refs := au_refs au |}.

(* Audit.fromFile of a dependency trail; None = ParseError (BobError) *)
Definition from_file (o : option afile) : option audit :=
  match o with Some f => load f | None => None end.

Fixpoint add_tools H (au : audit) (l : list (str * option afile)) : option audit :=
  match l with
  | [] => Some au
  | (n, f) :: r => match from_file f with
                   | None => None
                   | Some o => add_tools H (add_tool H au n o) r
                   end
  end.
Fixpoint add_args H (au : audit) (l : list (bool * option afile)) : option audit :=
  match l with
  | [] => Some au
  | (valid, f) :: r =>
    if valid then match from_file f with
                  | None => None
                  | Some o => add_args H (add_arg H au o) r
                  end
    else add_args H au r
  end.
Definition add_sandbox H (au : audit) (s : option (option afile)) : option audit :=
  match s with
  | None => Some au
  | Some f => match from_file f with
              | None => None
              | Some o => Some (set_sandbox H au o)
              end
  end.

(* None: the trail could not be generated (warning, no file is written) *)
Definition generate H (g : gen_in) : option audit :=
  let au0 := {| au_art := fresh_artifact g; au_refs := [] |} in
  let deps :=
      if g_executed g then
        match add_tools H (with_env au0 (g_env g)) (sort_by fst (g_tools g)) with
        | None => None
        | Some au1 => match add_sandbox H au1 (g_sandbox g) with
                      | None => None
                      | Some au2 => add_args H au2 (g_args g)
                      end
        end
      else Some au0 in
  match deps with
  | None => None
  | Some au => Some (with_scms au (g_scms g))
  end.

Definition generate_file H (g : gen_in) : option afile :=
  match generate H g with Some au => Some (save H au) | None => None end.
