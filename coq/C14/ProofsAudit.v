(* C14 — proofs, part 2: the references of a generated trail are closed
   (merge = "references of the other trail plus its artifact"), closed trails
   survive save/load, and the closure walk of Audit.__validate accepts them
   with the fuel the model gives it. *)
From Coq Require Import List NArith Bool Lia Permutation.
Require Import BobV.Common.Cases BobV.Ids.Model BobV.Ids.Proofs BobV.C14.Model.
Import ListNotations.
Open Scope N_scope.

(* ------------------------------------------------------------------ equality on byte strings *)
Lemma eqb_bytes_spec x y : eqb_bytes x y = true <-> x = y.
Proof.
  unfold eqb_bytes, eqb_str. revert y. induction x as [|a x IH]; destruct y as [|b y]; cbn [eqb_list];
    try (split; [discriminate|discriminate]); try (split; reflexivity).
  rewrite andb_true_iff, N.eqb_eq, IH. split; [intros [-> ->]; reflexivity|intros E; inversion E; auto].
Qed.

Lemma eqb_bytes_refl x : eqb_bytes x x = true.
Proof. now apply eqb_bytes_spec. Qed.

Lemma eqb_bytes_false x y : eqb_bytes x y = false <-> x <> y.
Proof.
  split.
  - intros E Hc. apply eqb_bytes_spec in Hc. congruence.
  - intros Hn. destruct (eqb_bytes x y) eqn:E; [apply eqb_bytes_spec in E; contradiction|reflexivity].
Qed.

Lemma mem_spec x l : mem x l = true <-> In x l.
Proof.
  unfold mem. rewrite existsb_exists. split.
  - intros [y [Hy E]]. apply eqb_bytes_spec in E. now subst.
  - intros Hin. exists x. split; [exact Hin|apply eqb_bytes_refl].
Qed.

Lemma mem_false x l : mem x l = false <-> ~ In x l.
Proof.
  split.
  - intros E Hc. apply mem_spec in Hc. congruence.
  - intros Hn. destruct (mem x l) eqn:E; [apply mem_spec in E; contradiction|reflexivity].
Qed.

(* ------------------------------------------------------------------ the reference dict *)
Definition keys (m : refmap) : list bytes := map fst m.

Lemma rm_set_keys k v m k' : In k' (keys (rm_set k v m)) <-> k' = k \/ In k' (keys m).
Proof.
  induction m as [|[k0 v0] m IH]; cbn [rm_set keys map fst In].
  - intuition.
  - destruct (eqb_bytes k k0) eqn:E.
    + apply eqb_bytes_spec in E. subst k0. cbn [keys map fst In]. intuition.
    + cbn [keys map fst In]. unfold keys in IH. rewrite IH. intuition.
Qed.

Lemma rm_set_entries k v m kv : In kv (rm_set k v m) -> kv = (k, v) \/ In kv m.
Proof.
  induction m as [|[k0 v0] m IH]; cbn [rm_set In].
  - intuition.
  - destruct (eqb_bytes k k0); cbn [In]; intuition.
Qed.

Lemma rm_set_Forall (Q : bytes * artifact -> Prop) k v m :
  Forall Q m -> Q (k, v) -> Forall Q (rm_set k v m).
Proof.
  intros Hm Hq. rewrite Forall_forall in *. intros kv Hin.
  apply rm_set_entries in Hin. destruct Hin as [->|Hin]; auto.
Qed.

Lemma rm_update_keys o : forall m k', In k' (keys (rm_update m o)) <-> In k' (keys m) \/ In k' (keys o).
Proof.
  unfold rm_update. induction o as [|[k v] o IH]; intros m k'; cbn [fold_left keys map In fst snd].
  - intuition.
  - rewrite IH, rm_set_keys. unfold keys. intuition.
Qed.

Lemma rm_update_Forall (Q : bytes * artifact -> Prop) o : forall m,
  Forall Q m -> Forall Q o -> Forall Q (rm_update m o).
Proof.
  unfold rm_update. induction o as [|[k v] o IH]; intros m Hm Ho; cbn [fold_left]; [exact Hm|].
  inversion Ho; subst. apply IH; [apply rm_set_Forall; assumption|assumption].
Qed.

Lemma rm_get_in k m : In k (keys m) -> exists r, rm_get k m = Some r /\ In (k, r) m.
Proof.
  induction m as [|[k0 v0] m IH]; cbn [keys map fst In rm_get]; [intros []|].
  intros Hin. destruct (eqb_bytes k k0) eqn:E.
  - apply eqb_bytes_spec in E. subst. eexists; split; [reflexivity|now left].
  - destruct Hin as [->|Hin]; [rewrite eqb_bytes_refl in E; discriminate|].
    destruct (IH Hin) as [r [Hr Hi]]. exists r. split; [exact Hr|now right].
Qed.

(* ------------------------------------------------------------------ closure *)
(* every record of the dict is stored under its own id, and everything a
   record (or the artifact) references is in the dict *)
Definition entry_ok (K : list bytes) (kv : bytes * artifact) : Prop :=
  a_id (snd kv) = Some (fst kv) /\ incl (get_refs (snd kv)) K.

Definition mem_closed (au : audit) : Prop :=
  incl (get_refs (au_art au)) (keys (au_refs au)) /\ Forall (entry_ok (keys (au_refs au))) (au_refs au).

Definition ids_of (l : list artifact) : list bytes :=
  flat_map (fun r => match a_id r with Some i => [i] | None => [] end) l.

Definition file_closed (f : afile) : Prop :=
  a_id (fst f) <> None /\ Forall (fun r => a_id r <> None) (snd f) /\
  incl (get_refs (fst f)) (ids_of (snd f)) /\ Forall (fun r => incl (get_refs r) (ids_of (snd f))) (snd f).

Lemma entry_ok_mono K K' kv : incl K K' -> entry_ok K kv -> entry_ok K' kv.
Proof. intros Hi [Ha Hr]. split; [exact Ha|]. eapply incl_tran; eassumption. Qed.

Lemma Forall_entry_ok_mono K K' m : incl K K' -> Forall (entry_ok K) m -> Forall (entry_ok K') m.
Proof. intros Hi. apply Forall_impl. intros kv. now apply entry_ok_mono. Qed.

(* Audit.__merge keeps the dict closed *)
Lemma merge_closed H self other :
  Forall (entry_ok (keys (au_refs self))) (au_refs self) -> mem_closed other -> a_id (au_art other) <> None ->
  let m := merge H self other in
  Forall (entry_ok (keys m)) m /\ incl (keys (au_refs self)) (keys m) /\ In (get_id H (au_art other)) (keys m).
Proof.
  intros Hs [Hoa Hor] Hid m.
  assert (Hk1 : incl (keys (au_refs self)) (keys m)).
  { intros k Hk. unfold m, merge. apply rm_set_keys. right. apply rm_update_keys. now left. }
  assert (Hk2 : incl (keys (au_refs other)) (keys m)).
  { intros k Hk. unfold m, merge. apply rm_set_keys. right. apply rm_update_keys. now right. }
  split; [|split; [exact Hk1|]].
  - unfold m at 2. unfold merge. apply rm_set_Forall.
    + apply rm_update_Forall; [exact (Forall_entry_ok_mono _ _ _ Hk1 Hs)|exact (Forall_entry_ok_mono _ _ _ Hk2 Hor)].
    + split; cbn [fst snd].
      * unfold get_id. destruct (a_id (au_art other)); [reflexivity|contradiction].
      * eapply incl_tran; eassumption.
  - unfold m, merge. apply rm_set_keys. now left.
Qed.

Lemma get_refs_add_arg a i x : In x (get_refs (art_add_arg a i)) -> In x (get_refs a) \/ x = i.
Proof.
  unfold get_refs, art_add_arg. cbn [a_args a_sandbox a_tools].
  rewrite !in_app_iff. cbn [In]. intuition.
Qed.

Lemma aset_snd {V} n (i : V) l x : In x (map snd (aset n i l)) -> x = i \/ In x (map snd l).
Proof.
  induction l as [|[k v] l IH]; cbn [aset map snd In].
  - intuition.
  - destruct (eqb_bytes n k); cbn [map snd In]; intuition.
Qed.

Lemma get_refs_add_tool a n i x : In x (get_refs (art_add_tool a n i)) -> In x (get_refs a) \/ x = i.
Proof.
  unfold get_refs, art_add_tool. cbn [a_args a_sandbox a_tools].
  rewrite !in_app_iff. intros [Hx|[Hx|Hx]]; [intuition|intuition|].
  apply aset_snd in Hx. destruct (a_tools a); cbn [map In] in *; intuition.
Qed.

Lemma get_refs_set_sandbox a i x : In x (get_refs (art_set_sandbox a i)) -> In x (get_refs a) \/ x = i.
Proof.
  unfold get_refs, art_set_sandbox. cbn [a_args a_sandbox a_tools].
  rewrite !in_app_iff. cbn [In]. intuition.
Qed.

Lemma add_arg_closed H self other :
  mem_closed self -> mem_closed other -> a_id (au_art other) <> None -> mem_closed (add_arg H self other).
Proof.
  intros [Hsa Hsr] Ho Hid. destruct (merge_closed H self other Hsr Ho Hid) as (Hm & Hk & Hin).
  split; cbn [add_arg au_art au_refs]; [|exact Hm].
  intros x Hx. apply get_refs_add_arg in Hx. destruct Hx as [Hx| ->]; [apply Hk, Hsa, Hx|exact Hin].
Qed.

Lemma add_tool_closed H self n other :
  mem_closed self -> mem_closed other -> a_id (au_art other) <> None -> mem_closed (add_tool H self n other).
Proof.
  intros [Hsa Hsr] Ho Hid. destruct (merge_closed H self other Hsr Ho Hid) as (Hm & Hk & Hin).
  split; cbn [add_tool au_art au_refs]; [|exact Hm].
  intros x Hx. apply get_refs_add_tool in Hx. destruct Hx as [Hx| ->]; [apply Hk, Hsa, Hx|exact Hin].
Qed.

Lemma set_sandbox_closed H self other :
  mem_closed self -> mem_closed other -> a_id (au_art other) <> None -> mem_closed (set_sandbox H self other).
Proof.
  intros [Hsa Hsr] Ho Hid. destruct (merge_closed H self other Hsr Ho Hid) as (Hm & Hk & Hin).
  split; cbn [set_sandbox au_art au_refs]; [|exact Hm].
  intros x Hx. apply get_refs_set_sandbox in Hx. destruct Hx as [Hx| ->]; [apply Hk, Hsa, Hx|exact Hin].
Qed.

Lemma merge_keeps_closed_proof (H : bytes -> bytes) self other :
  mem_closed self -> mem_closed other -> a_id (au_art other) <> None ->
  mem_closed (add_arg H self other) /\ (forall n, mem_closed (add_tool H self n other)) /\
  mem_closed (set_sandbox H self other).
Proof.
  intros Hs Ho Hi. split; [|split].
  - now apply add_arg_closed.
  - intros n. now apply add_tool_closed.
  - now apply set_sandbox_closed.
Qed.

(* ------------------------------------------------------------------ load *)
Lemma load_refs_spec l : Forall (fun r => a_id r <> None) l -> forall acc,
  exists m, load_refs l acc = Some m /\
            (forall k, In k (keys m) <-> In k (keys acc) \/ In k (ids_of l)) /\
            (forall kv, In kv m -> In kv acc \/ (In (snd kv) l /\ a_id (snd kv) = Some (fst kv))).
Proof.
  induction 1 as [|r l Hr Hl IH]; intros acc; cbn [load_refs].
  - exists acc. split; [reflexivity|]. split; [cbn [ids_of flat_map In]; intuition|intuition].
  - destruct (a_id r) as [i|] eqn:E; [|contradiction].
    destruct (IH (rm_set i r acc)) as (m & Hm & Hk & He). exists m. split; [exact Hm|]. split.
    + intros k. rewrite Hk, rm_set_keys. cbn [ids_of flat_map]. rewrite E. cbn [app In].
      fold (ids_of l). intuition.
    + intros kv Hin. destruct (He kv Hin) as [Ha|[Ha Hb]].
      * apply rm_set_entries in Ha. destruct Ha as [->|Ha]; [right; cbn [fst snd]; split; [now left|exact E]|now left].
      * right. split; [now right|exact Hb].
Qed.

Lemma load_closed f : file_closed f -> exists au, load f = Some au /\ mem_closed au /\ a_id (au_art au) <> None.
Proof.
  intros (Hid & Hids & Ha & Hr). unfold load.
  destruct (load_refs_spec (snd f) Hids []) as (m & Hm & Hk & He). rewrite Hm.
  destruct (a_id (fst f)) eqn:E; [|contradiction].
  eexists. split; [reflexivity|]. split; [|cbn [au_art]; congruence].
  assert (Hkeys : incl (ids_of (snd f)) (keys m)).
  { intros k Hin. apply Hk. now right. }
  split; cbn [au_art au_refs].
  - eapply incl_tran; eassumption.
  - apply Forall_forall. intros kv Hin. destruct (He kv Hin) as [[]|[Hl Hi]].
    split; [exact Hi|]. rewrite Forall_forall in Hr. eapply incl_tran; [apply Hr, Hl|exact Hkeys].
Qed.

(* ------------------------------------------------------------------ save *)
Lemma get_refs_set_id a i : get_refs (set_id a i) = get_refs a.
Proof. reflexivity. Qed.

Lemma save_closed H au : mem_closed au -> file_closed (save H au).
Proof.
  intros [Ha Hr]. unfold save, file_closed. cbn [fst snd].
  assert (Hids : ids_of (map (fun kv => dump H (snd kv)) (au_refs au)) = keys (au_refs au)).
  { clear Ha. induction Hr as [|kv m [Hk _] _ IH]; [reflexivity|].
    cbn [map ids_of flat_map keys]. unfold dump at 1. cbn [set_id a_id]. unfold get_id. rewrite Hk.
    cbn [app]. f_equal. exact IH. }
  rewrite Hids. repeat split.
  - unfold dump. cbn [set_id a_id]. discriminate.
  - apply Forall_forall. intros r Hin. apply in_map_iff in Hin. destruct Hin as [kv [<- _]].
    unfold dump. cbn [set_id a_id]. discriminate.
  - exact Ha.
  - apply Forall_forall. intros r Hin. apply in_map_iff in Hin. destruct Hin as [kv [<- Hin]].
    rewrite Forall_forall in Hr. apply (Hr kv Hin).
Qed.

(* ------------------------------------------------------------------ generate *)
Definition dep_ok (o : option afile) : Prop := forall f, o = Some f -> file_closed f.

Lemma from_file_closed o au : dep_ok o -> from_file o = Some au -> mem_closed au /\ a_id (au_art au) <> None.
Proof.
  intros Hd E. destruct o as [f|]; [|discriminate]. cbn [from_file] in E.
  destruct (load_closed f (Hd f eq_refl)) as (au' & Hl & Hc & Hi). rewrite Hl in E. inversion E; subst. now split.
Qed.

Lemma add_tools_closed H l : Forall (fun nf => dep_ok (snd nf)) l -> forall au au',
  mem_closed au -> add_tools H au l = Some au' -> mem_closed au'.
Proof.
  induction 1 as [|[n f] l Hf Hl IH]; intros au au' Hc E; cbn [add_tools] in E.
  - inversion E; now subst.
  - destruct (from_file f) as [o|] eqn:Ef; [|discriminate].
    destruct (from_file_closed f o Hf Ef) as [Ho Hi].
    eapply IH; [|exact E]. now apply add_tool_closed.
Qed.

Lemma add_args_closed H l : Forall (fun vf => dep_ok (snd vf)) l -> forall au au',
  mem_closed au -> add_args H au l = Some au' -> mem_closed au'.
Proof.
  induction 1 as [|[v f] l Hf Hl IH]; intros au au' Hc E; cbn [add_args] in E.
  - inversion E; now subst.
  - destruct v.
    + destruct (from_file f) as [o|] eqn:Ef; [|discriminate].
      destruct (from_file_closed f o Hf Ef) as [Ho Hi].
      eapply IH; [|exact E]. now apply add_arg_closed.
    + eapply IH; eassumption.
Qed.

Lemma add_sandbox_closed H s au au' :
  (forall o, s = Some o -> dep_ok o) -> mem_closed au -> add_sandbox H au s = Some au' -> mem_closed au'.
Proof.
  intros Hs Hc E. destruct s as [o|]; cbn [add_sandbox] in E; [|inversion E; now subst].
  destruct (from_file o) as [x|] eqn:Ef; [|discriminate]. inversion E; subst.
  destruct (from_file_closed o x (Hs o eq_refl) Ef) as [Ho Hi]. now apply set_sandbox_closed.
Qed.

Definition deps_ok (g : gen_in) : Prop :=
  Forall (fun nf => dep_ok (snd nf)) (g_tools g) /\ (forall o, g_sandbox g = Some o -> dep_ok o) /\
  Forall (fun vf => dep_ok (snd vf)) (g_args g).

Lemma generate_closed H g au : deps_ok g -> generate H g = Some au -> mem_closed au.
Proof.
  intros (Ht & Hs & Ha) E. unfold generate in E.
  set (au0 := {| au_art := fresh_artifact g; au_refs := [] |}) in *.
  assert (H0 : mem_closed au0).
  { split; cbn [au0 au_art au_refs]; [intros x []|constructor]. }
  assert (Henv : forall a e, mem_closed a -> mem_closed (with_env a e)).
  { intros a e [X Y]. split; [exact X|exact Y]. }
  assert (Hscm : forall a e, mem_closed a -> mem_closed (with_scms a e)).
  { intros a e [X Y]. split; [exact X|exact Y]. }
  destruct (g_executed g).
  - destruct (add_tools H (with_env au0 (g_env g)) (sort_by fst (g_tools g))) as [au1|] eqn:E1; [|discriminate].
    destruct (add_sandbox H au1 (g_sandbox g)) as [au2|] eqn:E2; [|discriminate].
    destruct (add_args H au2 (g_args g)) as [au3|] eqn:E3; [|discriminate].
    inversion E; subst. apply Hscm.
    eapply add_args_closed; [exact Ha| |exact E3].
    eapply add_sandbox_closed; [exact Hs| |exact E2].
    eapply add_tools_closed; [| |exact E1].
    + eapply Permutation_Forall; [apply Permutation_sym, sort_by_perm|exact Ht].
    + apply Henv, H0.
  - inversion E; subst. apply Hscm, H0.
Qed.

Lemma generate_file_closed H g f : deps_ok g -> generate_file H g = Some f -> file_closed f.
Proof.
  intros Hd E. unfold generate_file in E. destruct (generate H g) as [au|] eqn:Eg; [|discriminate].
  inversion E; subst. apply save_closed. eapply generate_closed; eassumption.
Qed.

(* ------------------------------------------------------------------ the closure walk accepts closed trails *)
Definition cnt (P : bytes -> bool) (l : list bytes) : nat := length (filter P l).

Lemma sadd_in x y l : In y (sadd x l) <-> In y l \/ y = x.
Proof.
  unfold sadd. destruct (mem x l) eqn:E.
  - apply mem_spec in E. split; [auto|intros [Hy| ->]; assumption].
  - rewrite in_app_iff. cbn [In]. intuition.
Qed.

Lemma sadd_nodup x l : NoDup l -> NoDup (sadd x l).
Proof.
  intros Hn. unfold sadd. destruct (mem x l) eqn:E; [exact Hn|].
  apply mem_false in E. eapply Permutation_NoDup; [apply Permutation_cons_append|]. now constructor.
Qed.

Definition addnew (done ds t : list bytes) : list bytes :=
  fold_left (fun t d => if mem d done then t else sadd d t) ds t.

Lemma addnew_in done ds : forall t y, In y (addnew done ds t) -> In y t \/ (In y ds /\ mem y done = false).
Proof.
  unfold addnew. induction ds as [|d ds IH]; intros t y Hy; cbn [fold_left] in Hy; [now left|].
  apply IH in Hy. destruct Hy as [Hy|[Hy Hm]]; [|right; split; [now right|exact Hm]].
  destruct (mem d done) eqn:E; [now left|].
  apply sadd_in in Hy. destruct Hy as [Hy| ->]; [now left|right; split; [now left|exact E]].
Qed.

Lemma addnew_nodup done ds : forall t, NoDup t -> NoDup (addnew done ds t).
Proof.
  unfold addnew. induction ds as [|d ds IH]; intros t Ht; cbn [fold_left]; [exact Ht|].
  apply IH. destruct (mem d done); [exact Ht|now apply sadd_nodup].
Qed.

Lemma cnt_cons P x l : cnt P (x :: l) = ((if P x then 1 else 0) + cnt P l)%nat.
Proof. unfold cnt. cbn [filter]. destruct (P x); reflexivity. Qed.

Lemma cnt_app P a b : cnt P (a ++ b) = (cnt P a + cnt P b)%nat.
Proof. unfold cnt. now rewrite filter_app, app_length. Qed.

Lemma addnew_cnt done ds : forall t, cnt (fun x => mem x done) (addnew done ds t) = cnt (fun x => mem x done) t.
Proof.
  unfold addnew. induction ds as [|d ds IH]; intros t; cbn [fold_left]; [reflexivity|].
  rewrite IH. destruct (mem d done) eqn:E; [reflexivity|].
  unfold sadd. destruct (mem d t); [reflexivity|].
  rewrite cnt_app. unfold cnt at 2. cbn [filter]. rewrite E. cbn [length]. lia.
Qed.

Lemma cnt_eq_nodup c l : NoDup l -> (cnt (fun x => eqb_bytes x c) l <= 1)%nat.
Proof.
  unfold cnt. induction 1 as [|x l Hx Hn IH]; cbn [filter length]; [lia|].
  destruct (eqb_bytes x c) eqn:E; [|exact IH].
  apply eqb_bytes_spec in E. subst. cbn [length].
  assert (Hz : filter (fun x => eqb_bytes x c) l = []).
  { clear IH Hn. induction l as [|y l IH]; [reflexivity|]. cbn [filter].
    destruct (eqb_bytes y c) eqn:Ey.
    - apply eqb_bytes_spec in Ey. subst. exfalso. apply Hx. now left.
    - apply IH. intros Hc. apply Hx. now right. }
  rewrite Hz. cbn [length]. lia.
Qed.

Lemma cnt_or P Q l : (cnt (fun x => P x || Q x) l <= cnt P l + cnt Q l)%nat.
Proof.
  unfold cnt. induction l as [|x l IH]; cbn [filter length]; [lia|].
  destruct (P x), (Q x); cbn [orb length]; lia.
Qed.

Lemma cnt_ext P Q l : (forall x, P x = Q x) -> cnt P l = cnt Q l.
Proof. intros E. unfold cnt. now rewrite (filter_ext P Q E). Qed.

Lemma mem_sadd x c done : mem x (sadd c done) = mem x done || eqb_bytes x c.
Proof.
  destruct (mem x (sadd c done)) eqn:E1.
  - apply mem_spec, sadd_in in E1. symmetry. apply orb_true_iff.
    destruct E1 as [E1| ->]; [left; now apply mem_spec|right; apply eqb_bytes_refl].
  - symmetry. apply orb_false_iff. apply mem_false in E1. split.
    + apply mem_false. intros Hc. apply E1, sadd_in. now left.
    + apply eqb_bytes_false. intros ->. apply E1, sadd_in. now right.
Qed.

(* strictly fewer keys stay outside [done] once a key is added *)
Lemma cnt_notdone_decr K c done :
  In c K -> mem c done = false ->
  (cnt (fun k => negb (mem k (sadd c done))) K < cnt (fun k => negb (mem k done)) K)%nat.
Proof.
  intros Hin Hc. unfold cnt. induction K as [|k K IH]; [destruct Hin|].
  cbn [filter]. rewrite mem_sadd.
  assert (Hle : forall L, (length (filter (fun k => negb (mem k (sadd c done))) L) <=
                           length (filter (fun k => negb (mem k done)) L))%nat).
  { induction L as [|y L IHL]; cbn [filter length]; [lia|]. rewrite mem_sadd.
    destruct (mem y done), (eqb_bytes y c); cbn [orb negb length]; lia. }
  destruct Hin as [->|Hin].
  - rewrite Hc, eqb_bytes_refl. cbn [orb negb length]. specialize (Hle K). lia.
  - specialize (IH Hin). destruct (mem k done), (eqb_bytes k c); cbn [orb negb length]; lia.
Qed.

Definition mu (K todo done : list bytes) : nat :=
  (2 * cnt (fun k => negb (mem k done)) K + cnt (fun x => mem x done) todo)%nat.

Lemma walk_closed refs :
  Forall (entry_ok (keys refs)) refs ->
  forall fuel todo done, NoDup todo -> incl todo (keys refs) -> (mu (keys refs) todo done < fuel)%nat ->
  walk fuel refs todo done = VOk.
Proof.
  intros Hr. induction fuel as [|f IH]; intros todo done Hn Hi Hmu; [lia|].
  cbn [walk]. destruct todo as [|cur rest]; [reflexivity|].
  destruct (rm_get_in cur refs (Hi cur (or_introl eq_refl))) as (r & Hget & Hin). rewrite Hget.
  fold (addnew done (get_refs r) rest).
  assert (Hrk : incl (get_refs r) (keys refs)).
  { rewrite Forall_forall in Hr. apply (Hr _ Hin). }
  inversion Hn as [|? ? Hcr Hnr]; subst.
  apply IH.
  - now apply addnew_nodup.
  - intros y Hy. apply addnew_in in Hy. destruct Hy as [Hy|[Hy _]]; [apply Hi; now right|now apply Hrk].
  - unfold mu in *.
    pose proof (addnew_cnt done (get_refs r) rest) as Hc.
    destruct (mem cur done) eqn:Ecur.
    + (* already done: popped for the second time *)
      assert (Hs : sadd cur done = done) by (unfold sadd; now rewrite Ecur).
      rewrite Hs, Hc. rewrite cnt_cons, Ecur in Hmu. lia.
    + pose proof (cnt_notdone_decr (keys refs) cur done (Hi cur (or_introl eq_refl)) Ecur) as Hd.
      assert (Ht : (cnt (fun x => mem x (sadd cur done)) (addnew done (get_refs r) rest) <=
                    cnt (fun x => mem x done) rest + 1)%nat).
      { rewrite (cnt_ext _ (fun x => mem x done || eqb_bytes x cur)) by (intros x; apply mem_sadd).
        pose proof (cnt_or (fun x => mem x done) (fun x => eqb_bytes x cur) (addnew done (get_refs r) rest)) as Hor.
        rewrite Hc in Hor.
        pose proof (cnt_eq_nodup cur _ (addnew_nodup done (get_refs r) rest Hnr)). lia. }
      rewrite cnt_cons, Ecur in Hmu. lia.
Qed.

Lemma to_set_spec l : NoDup (to_set l) /\ forall x, In x (to_set l) -> In x l.
Proof.
  unfold to_set.
  assert (G : forall l acc, NoDup acc -> NoDup (fold_left (fun s x => sadd x s) l acc) /\
                            forall x, In x (fold_left (fun s x => sadd x s) l acc) -> In x acc \/ In x l).
  { clear l. induction l as [|y l IH]; intros acc Ha; cbn [fold_left]; [split; [exact Ha|now left]|].
    destruct (IH (sadd y acc) (sadd_nodup y acc Ha)) as [Hn Hi]. split; [exact Hn|].
    intros x Hx. apply Hi in Hx. destruct Hx as [Hx|Hx]; [|right; now right].
    apply sadd_in in Hx. destruct Hx as [Hx| ->]; [now left|right; now left]. }
  destruct (G l [] (NoDup_nil _)) as [Hn Hi]. split; [exact Hn|].
  intros x Hx. apply Hi in Hx. destruct Hx as [[]|Hx]. exact Hx.
Qed.

Lemma cnt_le P l : (cnt P l <= length l)%nat.
Proof. unfold cnt. induction l as [|x l IH]; cbn [filter length]; [lia|]. destruct (P x); cbn [length]; lia. Qed.

Lemma validate_closed au : mem_closed au -> validate au = VOk.
Proof.
  intros [Ha Hr]. unfold validate. destruct (to_set_spec (get_refs (au_art au))) as [Hn Hi].
  apply walk_closed; [exact Hr|exact Hn| |].
  - intros x Hx. apply Ha, Hi, Hx.
  - unfold mu, validate_fuel.
    assert (E0 : cnt (fun x => mem x []) (to_set (get_refs (au_art au))) = 0%nat).
    { unfold cnt. cbn [mem existsb]. generalize (to_set (get_refs (au_art au))) as L.
      induction L as [|y L IHL]; [reflexivity|exact IHL]. }
    rewrite E0. pose proof (cnt_le (fun k => negb (mem k [])) (keys (au_refs au))).
    unfold keys in *. rewrite map_length in *. lia.
Qed.

(* ------------------------------------------------------------------ what a generated trail lists *)
Definition args_list (a : artifact) : list bytes := match a_args a with Some l => l | None => [] end.

(* ids of the trails of the valid arguments, in order *)
Definition valid_ids (H : bytes -> bytes) (l : list (bool * option afile)) : list bytes :=
  flat_map (fun vf : bool * option afile => if fst vf then match from_file (snd vf) with Some o => [get_id H (au_art o)] | None => [] end else []) l.

Lemma add_args_list H l : forall au au', add_args H au l = Some au' ->
  args_list (au_art au') = args_list (au_art au) ++ valid_ids H l /\ a_sandbox (au_art au') = a_sandbox (au_art au).
Proof.
  induction l as [|[v f] l IH]; intros au au' E; cbn [add_args] in E.
  - inversion E; subst. unfold valid_ids. cbn [flat_map]. now rewrite app_nil_r.
  - destruct v.
    + destruct (from_file f) as [o|] eqn:Ef; [|discriminate]. destruct (IH _ _ E) as [Ha Hs].
      split.
      * rewrite Ha. unfold valid_ids. cbn [flat_map fst snd]. rewrite Ef.
        assert (X : args_list (au_art (add_arg H au o)) = args_list (au_art au) ++ [get_id H (au_art o)]) by reflexivity.
        rewrite X, <- app_assoc. reflexivity.
      * rewrite Hs. reflexivity.
    + destruct (IH _ _ E) as [Ha Hs]. split; [rewrite Ha; reflexivity|exact Hs].
Qed.

Lemma add_tools_keeps H l : forall au au', add_tools H au l = Some au' ->
  a_args (au_art au') = a_args (au_art au) /\ a_sandbox (au_art au') = a_sandbox (au_art au).
Proof.
  induction l as [|[n f] l IH]; intros au au' E; cbn [add_tools] in E; [inversion E; now subst|].
  destruct (from_file f) as [o|]; [|discriminate]. destruct (IH _ _ E) as [Ha Hs]. now rewrite Ha, Hs.
Qed.

(* a trail generated after executing the step names, as arguments, exactly the
   trails of the valid arguments in recipe order, and the trail of the sandbox
   iff there is one; an unreadable dependency trail means no trail at all *)
Lemma generate_records_dependencies_proof (H : bytes -> bytes) g au :
  g_executed g = true -> generate H g = Some au ->
  args_list (au_art au) = valid_ids H (g_args g) /\
  Forall (fun vf => fst vf = true -> from_file (snd vf) <> None) (g_args g) /\
  match g_sandbox g with
  | None => a_sandbox (au_art au) = None
  | Some f => exists o, from_file f = Some o /\ a_sandbox (au_art au) = Some (get_id H (au_art o))
  end.
Proof.
  intros Ee E. unfold generate in E. rewrite Ee in E.
  destruct (add_tools H _ _) as [au1|] eqn:E1; [|discriminate].
  destruct (add_sandbox H au1 _) as [au2|] eqn:E2; [|discriminate].
  destruct (add_args H au2 _) as [au3|] eqn:E3; [|discriminate].
  inversion E; subst. cbn [with_scms au_art]. unfold args_list. cbn [a_args a_sandbox].
  destruct (add_tools_keeps _ _ _ _ E1) as [T1 T2]. cbn [with_env au_art a_args a_sandbox fresh_artifact] in T1, T2.
  destruct (add_args_list _ _ _ _ E3) as [A1 A2]. unfold args_list in A1.
  split; [|split].
  - rewrite A1. destruct (g_sandbox g) as [f|]; cbn [add_sandbox] in E2.
    + destruct (from_file f); [|discriminate]. inversion E2; subst. cbn [set_sandbox au_art art_set_sandbox a_args]. now rewrite T1.
    + inversion E2; subst. now rewrite T1.
  - clear - E3. revert au2 au3 E3. induction (g_args g) as [|[v f] l IH]; intros au2 au3 E3; [constructor|].
    cbn [add_args] in E3. destruct v.
    + destruct (from_file f) as [o|] eqn:Ef; [|discriminate]. constructor; [cbn [fst snd]; intros _; congruence|eapply IH, E3].
    + constructor; [cbn [fst]; discriminate|eapply IH, E3].
  - rewrite A2. destruct (g_sandbox g) as [f|]; cbn [add_sandbox] in E2.
    + destruct (from_file f) as [o|]; [|discriminate]. inversion E2; subst. exists o. split; reflexivity.
    + inversion E2; subst. exact T2.
Qed.
