(* C06 — property theorems.  This file contains only statements, each closed
   by [exact] of a lemma from the proof files, and non-vacuity examples.

   (a) JobServerSemaphore (pym/bob/builder.py) as a transition system over any
       number of tasks and tokens; [sreach c p0 s]: s is reachable from the
       initial state with pipe content p0 by any sequence of acquire /
       reader-callback / wake / release / foreign take and put.
   (b) the cook scheduler as a transition system over any dependency graph;
       [reach T run C s]: s is reachable by any interleaving. *)
From Coq Require Import List Arith Bool NArith Permutation.
Require Import BobV.C06.Model BobV.C06.Proofs.
Import ListNotations.

(* ======================= (a) token semaphore ======================= *)

(* No token is lost or duplicated: pipe, token stack and the tokens held by the
   other processes sharing the pipe are always a permutation of the initial
   pipe content.  (Holds for both accounting protocols.) *)
Theorem tokens_conserved : forall c p0 s,
  sreach c p0 s -> Permutation (pipe s ++ tokens s ++ ext s) p0.
Proof. exact tokens_conserved_proof. Qed.

(* Slots in use (tasks inside plus granted-but-not-resumed wake-ups) are exactly
   __acquired and never exceed the tokens held, plus the implicit slot in
   recursive mode; the tokens held never exceed the initial pipe content. *)
Theorem acquired_bounded : forall c p0 s,
  at_grant c = true -> sreach c p0 s ->
  inside s + grants s = acquired s /\
  acquired s <= length (tokens s) + implicit c /\
  length (tokens s) <= length p0.
Proof. exact acquired_bounded_proof. Qed.

(* When no task is inside and no wake-up is pending every token has been
   written back: nothing is kept, and pipe + foreign holders have them all. *)
Theorem quiescent_all_returned : forall c p0 s,
  at_grant c = true -> sreach c p0 s -> inside s = 0 -> grants s = 0 ->
  acquired s = 0 /\ tokens s = [] /\ Permutation (pipe s ++ ext s) p0.
Proof. exact quiescent_all_returned_proof. Qed.

(* release() without a matching acquire() is rejected (ValueError) ... *)
Theorem release_without_acquire_rejected : forall c s,
  acquired s = 0 -> sem_step c s SRelease = SRejected.
Proof. exact release_without_acquire_rejected_proof. Qed.

(* ... and a release() in a reachable state never pops from an empty token stack. *)
Theorem release_never_crashes : forall c p0 s,
  at_grant c = true -> sreach c p0 s -> sem_step c s SRelease <> SCrash.
Proof. exact release_never_crashes_proof. Qed.

(* No lost wake-up: a blocked task is either already granted a slot (and can
   resume), or counted as waiter with the pipe reader registered, and then a
   token arriving in the pipe is turned into a grant by the callback. *)
Theorem no_lost_wakeup : forall c p0 s,
  at_grant c = true -> sreach c p0 s ->
  blocked s = waiters s + grants s /\
  (waiters s > 0 -> reader s = true /\
     (pipe s <> [] -> exists s', sem_step c s SCallback = SOk s' /\ grants s' > grants s /\ blocked s' = blocked s)) /\
  (grants s > 0 -> exists s', sem_step c s SWake = SOk s' /\ inside s' = S (inside s)).
Proof. exact no_lost_wakeup_proof. Qed.

(* Documentation of why commit 0a01ba7 was needed: with the slot accounted only
   when the waiter resumes, a recursive semaphore on an empty pipe lets two
   tasks in on the single implicit slot and the next release() raises IndexError. *)
Theorem acquired_accounting_old_protocol_refuted :
  exists s, sem_exec old_sem (sem_init []) extjs_schedule = Some s /\
            inside s = 2 /\ tokens s = [] /\ pipe s = [] /\
            sem_step old_sem s SRelease = SCrash.
Proof. exact acquired_accounting_old_protocol_refuted_proof. Qed.

(* ======================= (b) cook scheduler ======================= *)

(* Never more scripts run than there are job tokens. *)
Theorem jobs_bounded : forall T run C nn,
  yieldlock C = true -> wf C nn ->
  forall (s : state T) ns, reach T run C s -> NoDup ns -> (forall n, In n ns -> st s n = Running) ->
  length ns + free s <= jobs C.
Proof. exact jobs_bounded_le. Qed.

(* A script runs only when every dependency has finished successfully ... *)
Theorem deps_before_start : forall T run C nn,
  yieldlock C = true -> wf C nn ->
  forall (s : state T) n, reach T run C s -> st s n = Running ->
  virt C n = false /\ forall d, In d (deps C n) -> wasRun s (ws C d) = true.
Proof. exact deps_before_start_proof. Qed.

(* ... and then reads exactly the contents the dependency graph prescribes. *)
Theorem deps_contents : forall T run C nn,
  yieldlock C = true -> wf C nn ->
  forall (s : state T) n d, coherent T run C -> reach T run C s -> st s n = Running ->
  In d (deps C n) -> out s (ws C d) = spec T run C (S d) d.
Proof. exact deps_contents_proof. Qed.

(* No workspace is executed by two jobs at once. *)
Theorem workspace_exclusive : forall T run C,
  yieldlock C = true ->
  forall (s : state T) n1 n2, reach T run C s ->
  st s n1 = Running -> st s n2 = Running -> ws C n1 = ws C n2 -> n1 = n2.
Proof. exact running_exclusive. Qed.

(* No workspace is executed twice: a script never runs in a workspace that has
   been run successfully (and that stays so), and -- with failed workspaces
   remembered (memfail, the current code) or when a failure stops the build (no
   keep-going) -- no workspace is started twice at all. *)
Theorem workspace_once : forall T run C nn,
  yieldlock C = true -> wf C nn ->
  forall (s : state T), reach T run C s ->
  (forall n, st s n = Running -> wasRun s (ws C n) = false) /\
  (forall l s' w, step T run C s l = Some s' -> wasRun s w = true -> wasRun s' w = true) /\
  (memfail C = true \/ keep C = false -> NoDup (starts (rev (trace s)))).
Proof. exact workspace_once_all. Qed.

(* Documentation of why __failedWorkspaces was needed: with keep-going and
   without remembering failures (memfail = false) a failing workspace that is
   reached under two task keys is started twice. *)
Theorem workspace_once_old_protocol_refuted :
  exists s, exec tree run_tree (kg_cfg false) (init tree (kg_cfg false)) kg_schedule = Some s /\
            starts (rev (trace s)) = [10; 10].
Proof. exact workspace_once_keepgoing_refuted_proof. Qed.

(* Without keep-going a failure stops the build: nothing is started any more. *)
Theorem failure_stops : forall T run C nn,
  yieldlock C = true -> wf C nn -> keep C = false ->
  forall (s : state T) w, reach T run C s -> In (EvEnd w false) (trace s) ->
  running s = false /\
  forall l s' w', step T run C s l = Some s' -> trace s' <> EvStart w' :: trace s.
Proof. exact failure_stops_all. Qed.

(* With keep-going (or without failures) the build keeps running, a task fails
   only if its dependency cone contains a failing script, and in a complete
   execution every task whose cone is clean has finished successfully. *)
Theorem failure_confined : forall T run C nn,
  yieldlock C = true -> wf C nn ->
  forall (s : state T) n, alt_dirty C -> keep C = true \/ (forall w, failsW C w = false) ->
  reach T run C s ->
  running s = true /\
  (st s n = Failed -> dirty C n) /\
  (terminal T run C s -> st s n <> Absent -> ~ dirty C n -> st s n = Done).
Proof. exact failure_confined_proof. Qed.

(* Schedule independence: whatever the interleaving and the job count, a
   workspace that was run holds the content prescribed by the graph, and two
   complete executions deliver the same contents for every requested package
   with a clean cone (the sequential -j1 build is one of them). *)
Theorem schedule_independent : forall T run C nn,
  yieldlock C = true -> wf C nn ->
  forall (s1 s2 : state T), coherent T run C -> alt_dirty C ->
  keep C = true \/ (forall w, failsW C w = false) ->
  reach T run C s1 -> reach T run C s2 ->
  (forall n, virt C n = false -> wasRun s1 (ws C n) = true -> wasRun s2 (ws C n) = true ->
             out s1 (ws C n) = out s2 (ws C n) /\ out s1 (ws C n) = spec T run C (S n) n) /\
  (terminal T run C s1 -> terminal T run C s2 -> forall r d, In r (roots C) -> ~ dirty C r -> In d (deps C r) ->
     wasRun s1 (ws C d) = true /\ wasRun s2 (ws C d) = true /\
     out s1 (ws C d) = out s2 (ws C d) /\ out s1 (ws C d) = spec T run C (S d) d).
Proof. exact schedule_independent_proof. Qed.

(* Progress (current protocol): as long as some task has not finished, some
   transition is enabled -- no deadlock, no lost wake-up in the scheduler. *)
Theorem progress : forall T run C nn,
  yieldlock C = true -> wf C nn ->
  forall (s : state T), reach T run C s -> (exists n, nonfinal (st s n) = true) ->
  exists l s', step T run C s l = Some s'.
Proof. exact progress_proof. Qed.

(* Documentation of why commit fbe6edb was needed (finding F7): with the token
   kept while waiting for the workspace lock, one build step reached under
   three sandboxes with two tokens dead-locks. *)
Theorem progress_old_protocol_refuted :
  exists s, exec tree run_tree (f7_cfg false) (init tree (f7_cfg false)) f7_schedule = Some s /\
            final_upto tree 4 s = false /\ enabled tree run_tree (f7_cfg false) 4 s = [] /\ free s = 0.
Proof. exact progress_old_protocol_refuted_proof. Qed.

(* Every visible trace of the transition system passes the monitor that the
   harness evaluates on the event logs of real builds. *)
Theorem traces_accepted : forall T run C nn,
  yieldlock C = true -> wf C nn ->
  forall (s : state T), reach T run C s -> accept C nn (once_flag C) (rev (trace s)) = true.
Proof. exact traces_accepted_proof. Qed.

(* ======================= non-vacuity ======================= *)

Example semaphore_nonvacuous :     (* three tasks on two tokens, a hand-over, a foreign borrower *)
  exists s, sem_exec (new_sem false) (sem_init [7%N; 8%N]) sem_demo = Some s /\
            pipe s = [8%N; 7%N] /\ tokens s = [] /\ acquired s = 0 /\ inside s = 0 /\ reader s = false.
Proof. exact sem_demo_run. Qed.

Example recursive_handover_nonvacuous :   (* the schedule of the refutation, under the current accounting *)
  exists s, sem_exec (new_sem true) (sem_init []) extjs_schedule = Some s /\
            inside s = 1 /\ blocked s = 1 /\ acquired s = 1 /\ tokens s = [].
Proof. exact extjs_schedule_new_protocol. Qed.

Example f7_progress_nonvacuous :   (* the F7 graph is well-formed and completes under the current protocol *)
  wf (f7_cfg true) 4 /\
  exists s, exec tree run_tree (f7_cfg true) (init tree (f7_cfg true)) f7_schedule_new = Some s /\
            final_upto tree 4 s = true /\ enabled tree run_tree (f7_cfg true) 4 s = [] /\
            free s = 2 /\ starts (rev (trace s)) = [10].
Proof. exact (conj (f7_wf true) f7_new_protocol_completes). Qed.

Example schedule_independent_nonvacuous :   (* a diamond, -j1 and -j2, different traces, same contents *)
  (wf (dia_cfg 1) 5 /\ wf (dia_cfg 2) 5) /\
  exists s1 s2,
    exec tree run_tree (dia_cfg 1) (init tree (dia_cfg 1)) dia_seq = Some s1 /\
    exec tree run_tree (dia_cfg 2) (init tree (dia_cfg 2)) dia_par = Some s2 /\
    final_upto tree 5 s1 = true /\ final_upto tree 5 s2 = true /\
    enabled tree run_tree (dia_cfg 1) 5 s1 = [] /\ enabled tree run_tree (dia_cfg 2) 5 s2 = [] /\
    rev (trace s1) <> rev (trace s2) /\
    out s1 13 = out s2 13 /\ out s1 13 = spec tree run_tree (dia_cfg 1) 4 3 /\
    out s1 13 = Some (Node 13 [Some (Node 11 [Some (Node 10 [])]); Some (Node 12 [Some (Node 10 [])])]).
Proof. exact (conj dia_wf dia_two_schedules). Qed.

Example workspace_once_nonvacuous :   (* current code: the second task key does not run the failed workspace again *)
  wf (kg_cfg true) 3 /\
  exists s, exec tree run_tree (kg_cfg true) (init tree (kg_cfg true)) kg_schedule = Some s /\
            starts (rev (trace s)) = [10] /\ st s 1 = Failed.
Proof. exact (conj (kg_wf true) kg_memfail_once). Qed.
