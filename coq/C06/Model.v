(* C06 — two labelled transition systems for the parallel builder.
   Definitions only.

   (a) JobServerSemaphore  (pym/bob/builder.py, class JobServerSemaphore,
       jobavailableCallback / acquire / release) together with the job server
       pipe and the other users of that pipe (child make processes).
   (b) the cook scheduler (pym/bob/builder.py: cook/dispatcher, _cookTask,
       _cook, _cookStep, __createCookTask/__taskWrapper (task table, fence),
       __workspaceLock, __yieldJobWhile, _wasAlreadyRun/_setAlreadyRun,
       _getBuildId under the workspace lock).

   Both are given as *executable* step functions [state -> label -> result];
   the transition relation is "step s l = Some s'".  The number of tasks,
   tokens, nodes and workspaces is arbitrary.  asyncio is cooperative: the code
   between two suspension points is one transition. *)
From Coq Require Import List Arith Bool NArith.
Import ListNotations.

(* ------------------------------------------------------------------ *)
(** * (a) JobServerSemaphore                                            *)
(* ------------------------------------------------------------------ *)

(* static part: [recursive] = bob runs below an external job server and owns
   one implicit slot; [at_grant] = True models the current code (a slot is
   counted in __acquired when it is granted); False is the protocol before
   commit 0a01ba7 (counted when the waiter resumes), kept for the
   [..._old_protocol_refuted] witness. *)
Record semcfg := { recursive : bool; at_grant : bool }.

Record sem := mkSem {
  pipe : list N;      (* bytes in the job server pipe, head = next byte read *)
  tokens : list N;    (* self.__tokens, last = top of the stack *)
  waiters : nat;      (* self.__waitersCnt *)
  grants : nat;       (* wake-ups given through self.__sem that the woken task has not consumed yet *)
  blocked : nat;      (* tasks suspended in  await self.__sem.acquire()  *)
  acquired : nat;     (* self.__acquired *)
  reader : bool;      (* loop.add_reader(fds[0]) registered *)
  ext : list N;       (* tokens currently held by other processes sharing the pipe *)
  inside : nat        (* ghost: tasks that returned from acquire() and have not called release() *)
}.

Inductive slabel :=
| SAcquire            (* a task calls acquire(): implicit slot, token read, or it blocks *)
| SCallback           (* the event loop runs jobavailableCallback *)
| SWake               (* a blocked task that was granted a slot resumes *)
| SRelease            (* a task that is inside calls release() (or anybody when nothing is acquired) *)
| SExtTake            (* another process reads a token from the pipe *)
| SExtPut (i : nat).  (* another process writes back the i-th token it holds *)

Inductive sres :=
| SOk (s : sem)
| SDisabled           (* label not enabled in this state *)
| SRejected           (* release(): ValueError, state unchanged *)
| SCrash.             (* release(): IndexError (pop from empty list) *)

Definition sem_init (p0 : list N) : sem :=
  mkSem p0 [] 0 0 0 0 false [] 0.

(* the while-loop of jobavailableCallback: one token per waiter until the
   pipe would block *)
Fixpoint cb_loop (w : nat) (p t : list N) (g a : nat) (atg : bool)
  : nat * list N * list N * nat * nat :=
  match w, p with
  | S w', b :: p' => cb_loop w' p' (t ++ [b]) (S g) (if atg then S a else a) atg
  | _, _ => (w, p, t, g, a)
  end.

Fixpoint remove_nth {A} (i : nat) (l : list A) : list A :=
  match i, l with
  | _, [] => []
  | O, _ :: r => r
  | S i', x :: r => x :: remove_nth i' r
  end.

Definition sem_step (c : semcfg) (s : sem) (l : slabel) : sres :=
  match l with
  | SAcquire =>
      if recursive c && (acquired s =? 0) then
        SOk (mkSem (pipe s) (tokens s) (waiters s) (grants s) (blocked s) (S (acquired s)) (reader s) (ext s) (S (inside s)))
      else match pipe s with
      | b :: p => SOk (mkSem p (tokens s ++ [b]) (waiters s) (grants s) (blocked s) (S (acquired s)) (reader s) (ext s) (S (inside s)))
      | [] => SOk (mkSem [] (tokens s) (S (waiters s)) (grants s) (S (blocked s)) (acquired s) true (ext s) (inside s))
      end
  | SCallback =>
      if reader s then
        match cb_loop (waiters s) (pipe s) (tokens s) (grants s) (acquired s) (at_grant c) with
        | (w, p, t, g, a) => SOk (mkSem p t w g (blocked s) a (negb (w =? 0)) (ext s) (inside s))
        end
      else SDisabled
  | SWake =>
      match grants s, blocked s with
      | S g, S b => SOk (mkSem (pipe s) (tokens s) (waiters s) g b
                           (if at_grant c then acquired s else S (acquired s)) (reader s) (ext s) (S (inside s)))
      | _, _ => SDisabled
      end
  | SRelease =>
      match acquired s with
      | O => SRejected
      | S a' =>
        match inside s with
        | O => SDisabled
        | S i' =>
          match waiters s with
          | S w' => SOk (mkSem (pipe s) (tokens s) w' (S (grants s)) (blocked s)
                           (if at_grant c then acquired s else a') (negb (w' =? 0) && reader s) (ext s) i')
          | O =>
            if negb (recursive c) || (1 <? acquired s) then
              match rev (tokens s) with
              | [] => SCrash
              | b :: r => SOk (mkSem (pipe s ++ [b]) (rev r) 0 (grants s) (blocked s) a' (reader s) (ext s) i')
              end
            else SOk (mkSem (pipe s) (tokens s) 0 (grants s) (blocked s) a' (reader s) (ext s) i')
          end
        end
      end
  | SExtTake =>
      match pipe s with
      | b :: p => SOk (mkSem p (tokens s) (waiters s) (grants s) (blocked s) (acquired s) (reader s) (ext s ++ [b]) (inside s))
      | [] => SDisabled
      end
  | SExtPut i =>
      match nth_error (ext s) i with
      | Some b => SOk (mkSem (pipe s ++ [b]) (tokens s) (waiters s) (grants s) (blocked s) (acquired s) (reader s)
                         (remove_nth i (ext s)) (inside s))
      | None => SDisabled
      end
  end.

(* run a script of labels; rejected releases leave the state unchanged *)
Fixpoint sem_exec (c : semcfg) (s : sem) (ls : list slabel) : option sem :=
  match ls with
  | [] => Some s
  | l :: r => match sem_step c s l with
              | SOk s' => sem_exec c s' r
              | SRejected => sem_exec c s r
              | _ => None
              end
  end.

(* what the harness observes of the real object after every step *)
Inductive sobs :=
| OState (p t : list N) (w g a : nat) (rd : bool)
| ODisabled | ORejected | OCrash.

Definition obs_of (s : sem) : sobs :=
  OState (pipe s) (tokens s) (waiters s) (grants s) (acquired s) (reader s).

Fixpoint sem_trace (c : semcfg) (s : sem) (ls : list slabel) : list sobs :=
  match ls with
  | [] => []
  | l :: r => match sem_step c s l with
              | SOk s' => obs_of s' :: sem_trace c s' r
              | SRejected => ORejected :: sem_trace c s r
              | SDisabled => [ODisabled]
              | SCrash => [OCrash]
              end
  end.

Definition eqb_ln (a b : list N) : bool :=
  (length a =? length b) && forallb (fun p => N.eqb (fst p) (snd p)) (combine a b).

Definition sobs_eqb (x y : sobs) : bool :=
  match x, y with
  | OState p t w g a r, OState p' t' w' g' a' r' =>
      eqb_ln p p' && eqb_ln t t' && (w =? w') && (g =? g') && (a =? a') && Bool.eqb r r'
  | ODisabled, ODisabled | ORejected, ORejected | OCrash, OCrash => true
  | _, _ => false
  end.

Fixpoint sobs_list_eqb (a b : list sobs) : bool :=
  match a, b with
  | [], [] => true
  | x :: a', y :: b' => sobs_eqb x y && sobs_list_eqb a' b'
  | _, _ => false
  end.

(* ------------------------------------------------------------------ *)
(** * (b) cook scheduler                                                *)
(* ------------------------------------------------------------------ *)

(* A node is one task key (workspace, sandbox, checkoutOnly) of the task table
   __cookTasks, or (virt) one _cookTask of the dispatcher.  Nodes are numbers;
   dependencies point to smaller numbers (DAG). *)
Record cfg := {
  ws : nat -> nat;            (* workspace of a node: several nodes may share one *)
  deps : nat -> list nat;     (* getAllDepSteps() as nodes *)
  alt : nat -> option nat;    (* the node with the alternate key (other checkoutOnly flag) *)
  virt : nat -> bool;         (* dispatcher task: no workspace, no script *)
  bid : nat -> bool;          (* _getBuildId is computed under the workspace lock (build steps) *)
  failsW : nat -> bool;       (* the script of this workspace fails *)
  roots : list nat;           (* dispatcher tasks *)
  jobs : nat;                 (* number of job tokens *)
  keep : bool;                (* --keep-going *)
  yieldlock : bool;           (* True = current code: token yielded while waiting for the workspace lock
                                 (commit fbe6edb); False = old protocol *)
  memfail : bool              (* True = current code: a workspace whose run failed is never executed again in
                                 this invocation (__failedWorkspaces); False = old protocol *)
}.

Inductive pc :=
| Absent        (* no task in the table *)
| Fenced        (* task created, awaiting the task of the alternate key *)
| Want0         (* await runners.acquire() at the start of _cookStep/_cookTask *)
| WaitDeps      (* in _cook: token yielded, awaiting the dependency tasks *)
| Want1         (* dependencies done, re-acquiring the token *)
| WaitLock      (* waiting for the workspace lock (token yielded iff yieldlock) *)
| Want2         (* lock held, re-acquiring the token *)
| WaitBid       (* lock held, token yielded, Build-Id sub-task needs a token *)
| Want3         (* lock held, Build-Id known, re-acquiring the token *)
| Running       (* lock and token held, script executing *)
| Done          (* task finished successfully (and was removed from the table) *)
| Failed.       (* task finished with an exception (stays in the table) *)

Definition pc_eqb (a b : pc) : bool :=
  match a, b with
  | Absent, Absent | Fenced, Fenced | Want0, Want0 | WaitDeps, WaitDeps | Want1, Want1
  | WaitLock, WaitLock | Want2, Want2 | WaitBid, WaitBid | Want3, Want3 | Running, Running
  | Done, Done | Failed, Failed => true
  | _, _ => false
  end.

Definition finished (p : pc) : bool := match p with Done | Failed => true | _ => false end.
Definition is_failed (p : pc) : bool := match p with Failed => true | _ => false end.
(* tracker.get(key) finds a task: created and not finished successfully *)
Definition in_table (p : pc) : bool := match p with Absent | Done => false | _ => true end.

Inductive event :=
| EvStart (w : nat)               (* a script starts in workspace w *)
| EvEnd (w : nat) (ok : bool).    (* it ends *)

Inductive label :=
| LFence (n : nat) | LTake0 (n : nat) | LDeps (n : nat) | LTake1 (n : nat) | LLock (n : nat)
| LTake2 (n : nat) | LBid (n : nat) | LTake3 (n : nat) | LFinish (n : nat).

Definition upd {A} (f : nat -> A) (k : nat) (v : A) : nat -> A :=
  fun x => if x =? k then v else f x.

Section Sched.
  Variable T : Type.                               (* workspace content *)
  Variable run : nat -> list (option T) -> T.      (* script: workspace, input contents |-> result *)
  Variable C : cfg.

  Record state := mkState {
    st : nat -> pc;
    free : nat;                     (* tokens in the pipe *)
    lock : nat -> option nat;       (* workspace -> node holding __workspaceLocks[path] *)
    wasRun : nat -> bool;           (* workspace -> _wasAlreadyRun *)
    failedW : nat -> bool;          (* workspace -> a run of it failed (used when memfail) *)
    out : nat -> option T;          (* workspace -> content produced *)
    running : bool;                 (* self.__running *)
    awaiting : nat -> list nat;     (* node -> tasks it gathers in _cook *)
    trace : list event              (* ghost: visible events, newest first *)
  }.

  Definition set_st (s : state) (n : nat) (p : pc) : state :=
    mkState (upd (st s) n p) (free s) (lock s) (wasRun s) (failedW s) (out s) (running s) (awaiting s) (trace s).
  Definition set_free (s : state) (f : nat) : state :=
    mkState (st s) f (lock s) (wasRun s) (failedW s) (out s) (running s) (awaiting s) (trace s).
  Definition set_lock (s : state) (w : nat) (h : option nat) : state :=
    mkState (st s) (free s) (upd (lock s) w h) (wasRun s) (failedW s) (out s) (running s) (awaiting s) (trace s).
  Definition set_awaiting (s : state) (n : nat) (l : list nat) : state :=
    mkState (st s) (free s) (lock s) (wasRun s) (failedW s) (out s) (running s) (upd (awaiting s) n l) (trace s).
  Definition add_event (s : state) (e : event) : state :=
    mkState (st s) (free s) (lock s) (wasRun s) (failedW s) (out s) (running s) (awaiting s) (e :: trace s).

  Definition init : state :=
    mkState (fun n => if existsb (Nat.eqb n) (roots C) then Want0 else Absent)
            (jobs C) (fun _ => None) (fun _ => false) (fun _ => false) (fun _ => None) true (fun _ => []) [].

  (* CancelBuildException: the task ends, nothing else changes *)
  Definition fail_cancel (s : state) (n : nat) : state := set_st s n Failed.
  Definition done (s : state) (n : nat) : state := set_st s n Done.
  Definition unlock (s : state) (n : nat) : state := set_lock s (ws C n) None.

  (* __createCookTask for one dependency *)
  Definition spawn1 (s : state) (d : nat) : state :=
    match st s d with
    | Absent =>
        let fenced := match alt C d with Some a => in_table (st s a) | None => false end in
        set_st s d (if fenced then Fenced else Want0)
    | _ => s
    end.
  Definition spawn_all (s : state) (ds : list nat) : state := fold_left spawn1 ds s.

  (* async with __workspaceLock(step): the caller holds a token *)
  Definition enter_lock (s : state) (n : nat) : state :=
    if virt C n then done s n
    else if yieldlock C then set_st s n WaitLock
    else set_free (set_st s n WaitLock) (free s - 1).

  (* first segment of _cookStep / _cookTask with the token in hand *)
  Definition after_tok0 (s : state) (n : nat) : state :=
    if negb (running s) then fail_cancel s n
    else if negb (virt C n) && wasRun s (ws C n) then done s n   (* _cookTask has no such check *)
    else
      let todo := filter (fun d => negb (wasRun s (ws C d))) (deps C n) in
      match todo with
      | [] => enter_lock s n
      | _ => set_awaiting (set_st (spawn_all s todo) n WaitDeps) n todo
      end.

  Definition start (s : state) (n : nat) : state :=
    add_event (set_free (set_st s n Running) (free s - 1)) (EvStart (ws C n)).

  (* body of  async with __workspaceLock(step)  with lock and token in hand;
     chk = the check of self.__running after the token was re-acquired *)
  Definition after_lock (chk : bool) (s : state) (n : nat) : state :=
    if chk && negb (running s) then fail_cancel (unlock s n) n
    else if memfail C && failedW s (ws C n) then fail_cancel (unlock s n) n
    else if wasRun s (ws C n) then done (unlock s n) n
    else if bid C n then set_st s n WaitBid
    else start s n.

  Definition finish (s : state) (n : nat) : state :=
    let w := ws C n in
    let s1 := set_free (unlock s n) (S (free s)) in
    if failsW C w then
      mkState (upd (st s1) n Failed) (free s1) (lock s1) (wasRun s1) (upd (failedW s1) w true) (out s1)
              (running s1 && keep C) (awaiting s1) (EvEnd w false :: trace s1)
    else
      mkState (upd (st s1) n Done) (free s1) (lock s1) (upd (wasRun s1) w true) (failedW s1)
              (upd (out s1) w (Some (run w (map (fun d => out s (ws C d)) (deps C n)))))
              (running s1) (awaiting s1) (EvEnd w true :: trace s1).

  Definition step (s : state) (l : label) : option state :=
    match l with
    | LFence n =>
        match st s n, alt C n with
        | Fenced, Some a =>
            match st s a with
            | Done => Some (set_st s n Want0)
            | Failed => Some (fail_cancel s n)
            | _ => None
            end
        | _, _ => None
        end
    | LTake0 n =>
        match st s n with
        | Want0 => if 1 <=? free s then Some (after_tok0 s n) else None
        | _ => None
        end
    | LDeps n =>
        match st s n with
        | WaitDeps => if forallb (fun d => finished (st s d)) (awaiting s n)
                      then Some (set_st s n Want1) else None
        | _ => None
        end
    | LTake1 n =>
        match st s n with
        | Want1 =>
            if 1 <=? free s then
              Some (if negb (running s) then fail_cancel s n
                    else if existsb (fun d => is_failed (st s d)) (awaiting s n) then fail_cancel s n
                    else enter_lock s n)
            else None
        | _ => None
        end
    | LLock n =>
        match st s n, lock s (ws C n) with
        | WaitLock, None =>
            let s1 := set_lock s (ws C n) (Some n) in
            if yieldlock C then Some (set_st s1 n Want2)
            else Some (after_lock false (set_free s1 (S (free s1))) n)
        | _, _ => None
        end
    | LTake2 n =>
        match st s n with
        | Want2 => if 1 <=? free s then Some (after_lock true s n) else None
        | _ => None
        end
    | LBid n =>
        match st s n with
        | WaitBid => if 1 <=? free s then Some (set_st s n Want3) else None
        | _ => None
        end
    | LTake3 n =>
        match st s n with
        | Want3 =>
            if 1 <=? free s then
              Some (if negb (running s) then fail_cancel (unlock s n) n else start s n)
            else None
        | _ => None
        end
    | LFinish n =>
        match st s n with
        | Running => Some (finish s n)
        | _ => None
        end
    end.

  Fixpoint exec (s : state) (ls : list label) : option state :=
    match ls with
    | [] => Some s
    | l :: r => match step s l with Some s' => exec s' r | None => None end
    end.

  (* all labels of the nodes below a bound, and those enabled in a state *)
  Definition labels_of (n : nat) : list label :=
    [LFence n; LTake0 n; LDeps n; LTake1 n; LLock n; LTake2 n; LBid n; LTake3 n; LFinish n].
  Definition all_labels (nn : nat) : list label := flat_map labels_of (seq 0 nn).
  Definition is_some {A} (o : option A) : bool := match o with Some _ => true | None => false end.
  Definition enabled (nn : nat) (s : state) : list label :=
    filter (fun l => is_some (step s l)) (all_labels nn).
  (* every task that exists has finished *)
  Definition final_upto (nn : nat) (s : state) : bool :=
    forallb (fun n => match st s n with Absent | Done | Failed => true | _ => false end) (seq 0 nn).

  (* the sequential meaning: content of a node's workspace as a function of
     the dependency graph only (structural recursion on fuel = node bound) *)
  Fixpoint spec (fuel : nat) (n : nat) : option T :=
    match fuel with
    | O => None
    | S f => Some (run (ws C n) (map (spec f) (deps C n)))
    end.
End Sched.

(* ------------------------------------------------------------------ *)
(** * monitor for visible traces (oldest event first)                   *)
(* ------------------------------------------------------------------ *)

Record mon := mkMon {
  m_open : list nat;      (* workspaces with a running script *)
  m_ok : list nat;        (* workspaces that finished successfully *)
  m_started : list nat;   (* every workspace a script was started in *)
  m_failed : bool         (* some script failed *)
}.

Definition mem (x : nat) (l : list nat) : bool := existsb (Nat.eqb x) l.
Fixpoint remove1 (x : nat) (l : list nat) : list nat :=
  match l with [] => [] | y :: r => if y =? x then r else y :: remove1 x r end.

(* may a script start in w?  [once] = demand that w was never started before *)
Definition start_ok (C : cfg) (nn : nat) (once : bool) (m : mon) (w : nat) : bool :=
  (length (m_open m) <? jobs C)
  && negb (mem w (m_open m))
  && negb (mem w (m_ok m))
  && (negb once || negb (mem w (m_started m)))
  && (keep C || negb (m_failed m))
  && existsb (fun n => (ws C n =? w) && negb (virt C n)
                        && forallb (fun d => mem (ws C d) (m_ok m)) (deps C n)) (seq 0 nn).

Definition mon_step (C : cfg) (nn : nat) (once : bool) (m : mon) (e : event) : option mon :=
  match e with
  | EvStart w =>
      if start_ok C nn once m w
      then Some (mkMon (w :: m_open m) (m_ok m) (w :: m_started m) (m_failed m)) else None
  | EvEnd w ok =>
      if mem w (m_open m) && Bool.eqb ok (negb (failsW C w))
      then Some (mkMon (remove1 w (m_open m)) (if ok then w :: m_ok m else m_ok m) (m_started m)
                       (m_failed m || negb ok))
      else None
  end.

Fixpoint mon_run (C : cfg) (nn : nat) (once : bool) (m : mon) (tr : list event) : option mon :=
  match tr with
  | [] => Some m
  | e :: r => match mon_step C nn once m e with Some m' => mon_run C nn once m' r | None => None end
  end.

Definition mon_init : mon := mkMon [] [] [] false.

(* workspaces in which a script was started, in order *)
Fixpoint starts (tr : list event) : list nat :=
  match tr with
  | [] => []
  | EvStart w :: r => w :: starts r
  | EvEnd _ _ :: r => starts r
  end.

Definition accept (C : cfg) (nn : nat) (once : bool) (tr : list event) : bool :=
  match mon_run C nn once mon_init tr with Some _ => true | None => false end.

(* ------------------------------------------------------------------ *)
(** * configurations from tables (harness cases, examples)              *)
(* ------------------------------------------------------------------ *)

Record nodeinfo := mkNode { ni_ws : nat; ni_deps : list nat; ni_alt : option nat; ni_virt : bool; ni_bid : bool }.

Definition mk_cfg (nodes : list nodeinfo) (failing : list nat) (rts : list nat)
                  (j : nat) (kp yl mf : bool) : cfg :=
  let dflt := mkNode 0 [] None false false in
  {| ws := fun n => ni_ws (nth n nodes dflt);
     deps := fun n => ni_deps (nth n nodes dflt);
     alt := fun n => ni_alt (nth n nodes dflt);
     virt := fun n => ni_virt (nth n nodes dflt);
     bid := fun n => ni_bid (nth n nodes dflt);
     failsW := fun w => mem w failing;
     roots := rts; jobs := j; keep := kp; yieldlock := yl; memfail := mf |}.

(* a concrete content type for examples and harness cases: the tree of inputs *)
Inductive tree := Node (w : nat) (inputs : list (option tree)).
Definition run_tree (w : nat) (i : list (option tree)) : tree := Node w i.

(* well-formedness of a table, decidable *)
Definition cfg_wf (C : cfg) (nn : nat) : bool :=
  forallb (fun n => forallb (fun d => (d <? n) && negb (virt C d)) (deps C n)
                    && match alt C n with
                       | Some a => (a <? nn) && negb (a =? n)
                                   && match alt C a with Some b => b =? n | None => false end
                                   && forallb (fun d => d <? n) (deps C a)
                       | None => true end) (seq 0 nn)
  && forallb (fun r => (r <? nn) && virt C r) (roots C)
  && (1 <=? jobs C).
