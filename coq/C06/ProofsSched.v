(* C06 (b) — cook scheduler: invariants of the transition system. *)
From Coq Require Import List Arith Bool Lia.
Require Import BobV.C06.Model.
Import ListNotations.

Arguments st {T} _ _.
Arguments free {T} _.
Arguments lock {T} _ _.
Arguments wasRun {T} _ _.
Arguments failedW {T} _ _.
Arguments out {T} _ _.
Arguments running {T} _.
Arguments awaiting {T} _ _.
Arguments trace {T} _.
Arguments mkState {T} _ _ _ _ _ _ _ _ _.
Arguments set_st {T} _ _ _.
Arguments set_free {T} _ _.
Arguments set_lock {T} _ _ _.
Arguments set_awaiting {T} _ _ _.
Arguments add_event {T} _ _.

Lemma upd_same : forall A (f : nat -> A) k v, upd f k v k = v.
Proof. intros. unfold upd. rewrite Nat.eqb_refl. reflexivity. Qed.
Lemma upd_other : forall A (f : nat -> A) k v x, x <> k -> upd f k v x = f x.
Proof. intros. unfold upd. destruct (x =? k) eqn:E; auto. apply Nat.eqb_eq in E. contradiction. Qed.

Lemma mem_In : forall x l, mem x l = true <-> In x l.
Proof.
  intros x l. unfold mem. rewrite existsb_exists. split.
  - intros (y & Hy & E). apply Nat.eqb_eq in E. subst. exact Hy.
  - intros H. exists x. split; auto. apply Nat.eqb_refl.
Qed.

Lemma mem_false_In : forall x l, mem x l = false <-> ~ In x l.
Proof.
  intros. rewrite <- mem_In. destruct (mem x l); split; intros; try discriminate; auto. exfalso; auto.
Qed.

Definition holds_lock (p : pc) : bool :=
  match p with Want2 | WaitBid | Want3 | Running => true | _ => false end.
Definition at_lock (p : pc) : bool :=
  match p with WaitLock | Want2 | WaitBid | Want3 | Running => true | _ => false end.
Definition nonfinal (p : pc) : bool :=
  match p with Absent | Done | Failed => false | _ => true end.

Section Sched.
  Variable T : Type.
  Variable run : nat -> list (option T) -> T.
  Variable C : cfg.
  Variable nn : nat.

  Notation state := (state T).
  Notation step := (step T run C).
  Notation init := (init T C).
  Notation spawn1 := (spawn1 T C).
  Notation spawn_all := (spawn_all T C).

  Inductive reach : state -> Prop :=
  | r_init : reach init
  | r_step : forall s l s', reach s -> step s l = Some s' -> reach s'.

  Record wf : Prop := {
    wf_deps_lt : forall n d, In d (deps C n) -> d < n;
    wf_deps_nv : forall n d, In d (deps C n) -> virt C d = false;
    wf_alt_sym : forall n a, alt C n = Some a -> alt C a = Some n /\ a <> n;
    wf_alt_deps : forall n a d, alt C n = Some a -> In d (deps C a) -> d < n;
    wf_roots : forall r, In r (roots C) -> r < nn /\ virt C r = true;
    wf_jobs : 1 <= jobs C
  }.

  (* ---------------- spawn *)
  Lemma spawn1_fields : forall s d,
    free (spawn1 s d) = free s /\ lock (spawn1 s d) = lock s /\ wasRun (spawn1 s d) = wasRun s /\
    failedW (spawn1 s d) = failedW s /\ out (spawn1 s d) = out s /\ running (spawn1 s d) = running s /\
    awaiting (spawn1 s d) = awaiting s /\ trace (spawn1 s d) = trace s.
  Proof. intros. unfold Model.spawn1. destruct (st s d); cbn; auto 10. Qed.

  Lemma spawn_all_cons : forall s d ds, spawn_all s (d :: ds) = spawn_all (spawn1 s d) ds.
  Proof. reflexivity. Qed.

  Lemma spawn_all_fields : forall ds s,
    free (spawn_all s ds) = free s /\ lock (spawn_all s ds) = lock s /\ wasRun (spawn_all s ds) = wasRun s /\
    failedW (spawn_all s ds) = failedW s /\ out (spawn_all s ds) = out s /\ running (spawn_all s ds) = running s /\
    awaiting (spawn_all s ds) = awaiting s /\ trace (spawn_all s ds) = trace s.
  Proof.
    induction ds as [|d ds IH]; intros s; [cbn; auto 10|]. rewrite spawn_all_cons.
    destruct (IH (spawn1 s d)) as (a1 & a2 & a3 & a4 & a5 & a6 & a7 & a8).
    destruct (spawn1_fields s d) as (b1 & b2 & b3 & b4 & b5 & b6 & b7 & b8).
    rewrite a1, a2, a3, a4, a5, a6, a7, a8. auto 10.
  Qed.

  Lemma spawn1_st : forall s d n,
    st (spawn1 s d) n = st s n \/
    (n = d /\ st s n = Absent /\
     ((st (spawn1 s d) n = Want0 /\ (forall a, alt C n = Some a -> in_table (st s a) = false)) \/
      (st (spawn1 s d) n = Fenced /\ exists a, alt C n = Some a /\ in_table (st s a) = true))).
  Proof.
    intros s d n. unfold Model.spawn1. destruct (st s d) eqn:E; auto.
    cbn. unfold upd. destruct (n =? d) eqn:E'; auto. apply Nat.eqb_eq in E'. subst n. right.
    split; auto. split; auto. destruct (alt C d) as [a|] eqn:A.
    - destruct (in_table (st s a)) eqn:I.
      + right. split; auto. exists a. auto.
      + left. split; auto. intros a' H. inversion H; subst. exact I.
    - left. split; auto. intros a' H. discriminate.
  Qed.

  Lemma spawn1_keep : forall s d n, st s n <> Absent -> st (spawn1 s d) n = st s n.
  Proof. intros s d n H. destruct (spawn1_st s d n) as [E|(-> & E & _)]; auto. contradiction. Qed.

  Lemma spawn1_spawned : forall s d, st (spawn1 s d) d <> Absent.
  Proof.
    intros s d. destruct (spawn1_st s d d) as [E|(_ & E & [[E' _]|[E' _]])]; try (rewrite E'; discriminate).
    unfold Model.spawn1 in *. destruct (st s d) eqn:X; try (rewrite X; discriminate).
    cbn in E. rewrite upd_same in E. destruct (match alt C d with Some a => in_table (st s a) | None => false end); discriminate.
  Qed.

  Lemma spawn1_absent : forall s d n, st (spawn1 s d) n = Absent -> st s n = Absent /\ n <> d.
  Proof.
    intros s d n H. split.
    - destruct (st s n) eqn:E; auto; rewrite spawn1_keep in H; congruence.
    - intros ->. apply (spawn1_spawned s d). exact H.
  Qed.

  Lemma spawn_all_keep : forall ds s n, st s n <> Absent -> st (spawn_all s ds) n = st s n.
  Proof.
    induction ds as [|d ds IH]; intros s n H; [reflexivity|]. rewrite spawn_all_cons.
    rewrite IH; [apply spawn1_keep; auto|]. rewrite spawn1_keep; auto.
  Qed.

  Lemma spawn_all_spawned : forall ds s d, In d ds -> st (spawn_all s ds) d <> Absent.
  Proof.
    induction ds as [|x ds IH]; intros s d H; [contradiction|]. rewrite spawn_all_cons.
    destruct H as [->|H]; [|apply IH; auto].
    rewrite spawn_all_keep; apply spawn1_spawned.
  Qed.

  (* a node changed by spawn_all was Absent and is now Want0 or Fenced *)
  Lemma spawn_all_st : forall ds s n,
    st (spawn_all s ds) n = st s n \/
    (In n ds /\ st s n = Absent /\ (st (spawn_all s ds) n = Want0 \/ st (spawn_all s ds) n = Fenced)).
  Proof.
    induction ds as [|d ds IH]; intros s n; [left; reflexivity|]. rewrite spawn_all_cons.
    destruct (IH (spawn1 s d) n) as [E|(I & A & W)].
    - rewrite E. destruct (spawn1_st s d n) as [E'|(-> & A & [[W _]|[W _]])]; auto; right; cbn; auto.
    - right. apply spawn1_absent in A. destruct A as [A _]. cbn. auto.
  Qed.

  Local Opaque Model.spawn_all Model.spawn1.

  (* ---------------- case analysis of one step *)
  Ltac step_cases H :=
    unfold Model.step, Model.after_tok0, Model.after_lock, Model.enter_lock, Model.start,
           Model.finish, Model.fail_cancel, Model.done, Model.unlock in H;
    repeat match type of H with
    | context [match ?x with _ => _ end] => destruct x eqn:?; try discriminate
    end;
    inversion H; subst; clear H.

  Ltac upd_cases n0 n :=
    unfold upd; destruct (n0 =? n) eqn:?E;
    [apply Nat.eqb_eq in E; subst n0 | apply Nat.eqb_neq in E].

  (* ---------------- G1: the workspace lock *)
  Definition inv_lock (s : state) : Prop :=
    (forall w n, lock s w = Some n -> ws C n = w /\ holds_lock (st s n) = true) /\
    (forall n, holds_lock (st s n) = true -> lock s (ws C n) = Some n).

  Lemma inv_lock_init : inv_lock init.
  Proof.
    split; cbn; intros; try discriminate.
    destruct (existsb (Nat.eqb n) (roots C)); discriminate.
  Qed.

  Ltac simp_s :=
    cbn [st free lock wasRun failedW out running awaiting trace
         set_st set_free set_lock set_awaiting add_event] in *.

  Hypothesis YL : yieldlock C = true.

  (* ---------------- the transition relation, one constructor per shape of
     state change (current protocol: yieldlock = true) *)
  Definition todo_of (s : state) (n : nat) : list nat :=
    filter (fun d => negb (wasRun s (ws C d))) (deps C n).

  Inductive pc_move (s : state) (n : nat) : pc -> pc -> Prop :=
  | M_fence_ok : forall a, alt C n = Some a -> st s a = Done -> pc_move s n Fenced Want0
  | M_fence_fail : forall a, alt C n = Some a -> st s a = Failed -> pc_move s n Fenced Failed
  | M_cancel0 : 1 <= free s -> running s = false -> pc_move s n Want0 Failed
  | M_skip0 : 1 <= free s -> running s = true -> virt C n = false -> wasRun s (ws C n) = true -> pc_move s n Want0 Done
  | M_nodeps_virt : 1 <= free s -> running s = true -> todo_of s n = [] ->
                    virt C n = true -> pc_move s n Want0 Done
  | M_nodeps : 1 <= free s -> running s = true -> todo_of s n = [] ->
               virt C n = false -> pc_move s n Want0 WaitLock
  | M_deps : (forall d, In d (awaiting s n) -> finished (st s d) = true) -> pc_move s n WaitDeps Want1
  | M_cancel1 : 1 <= free s -> running s = false -> pc_move s n Want1 Failed
  | M_depfail : forall d, 1 <= free s -> running s = true -> In d (awaiting s n) -> st s d = Failed ->
                pc_move s n Want1 Failed
  | M_depsok_virt : 1 <= free s -> running s = true -> (forall d, In d (awaiting s n) -> st s d <> Failed) ->
                    virt C n = true -> pc_move s n Want1 Done
  | M_depsok : 1 <= free s -> running s = true -> (forall d, In d (awaiting s n) -> st s d <> Failed) ->
               virt C n = false -> pc_move s n Want1 WaitLock
  | M_bid : 1 <= free s -> running s = true -> (memfail C = true -> failedW s (ws C n) = false) ->
            wasRun s (ws C n) = false -> bid C n = true -> pc_move s n Want2 WaitBid
  | M_bidrun : 1 <= free s -> pc_move s n WaitBid Want3.

  Inductive unlock_move (s : state) (n : nat) : pc -> pc -> Prop :=
  | U_cancel2 : 1 <= free s -> running s = false -> unlock_move s n Want2 Failed
  | U_memfail : 1 <= free s -> running s = true -> memfail C = true -> failedW s (ws C n) = true ->
                unlock_move s n Want2 Failed
  | U_skip : 1 <= free s -> running s = true -> wasRun s (ws C n) = true -> unlock_move s n Want2 Done
  | U_cancel3 : 1 <= free s -> running s = false -> unlock_move s n Want3 Failed.

  Inductive tstep (s : state) : state -> Prop :=
  | T_pc : forall n p0 p, st s n = p0 -> pc_move s n p0 p -> tstep s (set_st s n p)
  | T_spawn : forall n, st s n = Want0 -> 1 <= free s -> running s = true ->
      todo_of s n <> [] ->
      tstep s (set_awaiting (set_st (spawn_all s (todo_of s n)) n WaitDeps) n (todo_of s n))
  | T_lock : forall n, st s n = WaitLock -> lock s (ws C n) = None ->
      tstep s (set_st (set_lock s (ws C n) (Some n)) n Want2)
  | T_unlock : forall n p0 p, st s n = p0 -> unlock_move s n p0 p ->
      tstep s (set_st (set_lock s (ws C n) None) n p)
  | T_start : forall n,
      (st s n = Want2 /\ bid C n = false /\ wasRun s (ws C n) = false /\
       (memfail C = true -> failedW s (ws C n) = false)) \/ st s n = Want3 ->
      1 <= free s -> running s = true ->
      tstep s (start T C s n)
  | T_finish : forall n, st s n = Running -> tstep s (finish T run C s n).

  Lemma forallb_In : forall A (f : A -> bool) l, forallb f l = true -> forall x, In x l -> f x = true.
  Proof. intros A f l H. apply forallb_forall. exact H. Qed.

  Lemma existsb_false_In : forall A (f : A -> bool) l, existsb f l = false -> forall x, In x l -> f x = false.
  Proof.
    intros A f l H x I. destruct (f x) eqn:E; auto.
    assert (existsb f l = true) by (apply existsb_exists; eauto). congruence.
  Qed.

  Lemma leb1 : forall f, (1 <=? f) = true -> 1 <= f.
  Proof. intros f H. apply Nat.leb_le in H. exact H. Qed.

  Lemma step_sound : forall s l s', step s l = Some s' -> tstep s s'.
  Proof.
    intros s l s' H. destruct l; cbn [Model.step] in H.
    - (* fence *)
      destruct (st s n) eqn:P; try discriminate. destruct (alt C n) as [a|] eqn:A; try discriminate.
      destruct (st s a) eqn:Pa; try discriminate; inversion H; subst; clear H.
      + apply T_pc with (p0 := Fenced); auto. eapply M_fence_ok; eauto.
      + apply T_pc with (p0 := Fenced); auto. eapply M_fence_fail; eauto.
    - (* take0 *)
      destruct (st s n) eqn:P; try discriminate. destruct (1 <=? free s) eqn:F; try discriminate.
      apply leb1 in F. inversion H; subst; clear H. unfold Model.after_tok0.
      destruct (running s) eqn:R; cbn [negb].
      + destruct (negb (virt C n) && wasRun s (ws C n)) eqn:W.
        * apply andb_prop in W. destruct W as [W1 W2]. apply negb_true_iff in W1.
          apply T_pc with (p0 := Want0); auto. apply M_skip0; auto.
        * fold (todo_of s n). destruct (todo_of s n) as [|d0 r0] eqn:TD.
          -- unfold Model.enter_lock. rewrite YL. destruct (virt C n) eqn:V.
             ++ apply T_pc with (p0 := Want0); auto. apply M_nodeps_virt; auto.
             ++ apply T_pc with (p0 := Want0); auto. apply M_nodeps; auto.
          -- rewrite <- TD. apply T_spawn; auto. rewrite TD. discriminate.
      + apply T_pc with (p0 := Want0); auto. apply M_cancel0; auto.
    - (* deps *)
      destruct (st s n) eqn:P; try discriminate.
      destruct (forallb (fun d => finished (st s d)) (awaiting s n)) eqn:F; try discriminate.
      inversion H; subst; clear H. apply T_pc with (p0 := WaitDeps); auto. apply M_deps.
      intros d I. apply (forallb_In _ _ _ F d I).
    - (* take1 *)
      destruct (st s n) eqn:P; try discriminate. destruct (1 <=? free s) eqn:F; try discriminate.
      apply leb1 in F. inversion H; subst; clear H.
      destruct (running s) eqn:R; cbn [negb].
      + destruct (existsb (fun d => is_failed (st s d)) (awaiting s n)) eqn:E.
        * apply existsb_exists in E. destruct E as (d & I & Fd).
          apply T_pc with (p0 := Want1); auto. apply M_depfail with (d := d); auto.
          destruct (st s d); try discriminate; reflexivity.
        * assert (NF : forall d, In d (awaiting s n) -> st s d <> Failed).
          { intros d I Fd. pose proof (existsb_false_In _ _ _ E d I) as X. cbn in X. rewrite Fd in X. discriminate. }
          unfold Model.enter_lock. rewrite YL. destruct (virt C n) eqn:V.
          -- apply T_pc with (p0 := Want1); auto. apply M_depsok_virt; auto.
          -- apply T_pc with (p0 := Want1); auto. apply M_depsok; auto.
      + apply T_pc with (p0 := Want1); auto. apply M_cancel1; auto.
    - (* lock *)
      destruct (st s n) eqn:P; try discriminate. destruct (lock s (ws C n)) eqn:L; try discriminate.
      rewrite YL in H. inversion H; subst; clear H. apply T_lock; auto.
    - (* take2 *)
      destruct (st s n) eqn:P; try discriminate. destruct (1 <=? free s) eqn:F; try discriminate.
      apply leb1 in F. inversion H; subst; clear H. unfold Model.after_lock. cbn [andb].
      destruct (running s) eqn:R; cbn [negb].
      + destruct (memfail C && failedW s (ws C n)) eqn:MF.
        * apply andb_prop in MF. destruct MF. apply T_unlock with (p0 := Want2); auto. apply U_memfail; auto.
        * destruct (wasRun s (ws C n)) eqn:W.
          -- apply T_unlock with (p0 := Want2); auto. apply U_skip; auto.
          -- assert (MF' : memfail C = true -> failedW s (ws C n) = false).
             { intros M. rewrite M in MF. exact MF. }
             destruct (bid C n) eqn:B.
             ++ apply T_pc with (p0 := Want2); auto. apply M_bid; auto.
             ++ apply T_start; auto 6.
      + apply T_unlock with (p0 := Want2); auto. apply U_cancel2; auto.
    - (* bid *)
      destruct (st s n) eqn:P; try discriminate. destruct (1 <=? free s) eqn:F; try discriminate.
      apply leb1 in F. inversion H; subst; clear H. apply T_pc with (p0 := WaitBid); auto. apply M_bidrun; auto.
    - (* take3 *)
      destruct (st s n) eqn:P; try discriminate. destruct (1 <=? free s) eqn:F; try discriminate.
      apply leb1 in F. inversion H; subst; clear H.
      destruct (running s) eqn:R; cbn [negb].
      + apply T_start; auto.
      + apply T_unlock with (p0 := Want3); auto. apply U_cancel3; auto.
    - (* finish *)
      destruct (st s n) eqn:P; try discriminate. inversion H; subst; clear H. apply T_finish; auto.
  Qed.

  Lemma reach_ind' : forall (P : state -> Prop),
    P init -> (forall s s', reach s -> P s -> tstep s s' -> P s') -> forall s, reach s -> P s.
  Proof.
    intros P H0 HS s R. induction R; auto. eapply HS; eauto. eapply step_sound; eauto.
  Qed.

  (* ================= G1: workspace lock ================= *)
  Lemma pc_move_holds : forall s n p0 p, pc_move s n p0 p -> holds_lock p0 = holds_lock p.
  Proof. intros s n p0 p M. inversion M; reflexivity. Qed.

  Lemma unlock_move_holds : forall s n p0 p, unlock_move s n p0 p -> holds_lock p0 = true /\ holds_lock p = false.
  Proof. intros s n p0 p M. inversion M; auto. Qed.

  Lemma spawn_all_holds : forall ds s x, holds_lock (st (spawn_all s ds) x) = holds_lock (st s x).
  Proof.
    intros ds s x. destruct (spawn_all_st ds s x) as [E|(_ & A & [W|W])]; rewrite ?E, ?A, ?W; reflexivity.
  Qed.

  Lemma inv_lock_same : forall s s',
    inv_lock s -> lock s' = lock s -> (forall x, holds_lock (st s' x) = holds_lock (st s x)) -> inv_lock s'.
  Proof.
    intros s s' [L1 L2] EL EH. split.
    - intros w n H. rewrite EL in H. rewrite EH. auto.
    - intros n H. rewrite EH in H. rewrite EL. auto.
  Qed.

  Lemma inv_lock_release : forall s s' n p,
    inv_lock s -> holds_lock (st s n) = true -> holds_lock p = false ->
    st s' = upd (st s) n p -> lock s' = upd (lock s) (ws C n) None -> inv_lock s'.
  Proof.
    intros s s' n p [L1 L2] H0 Hp ES EL. split.
    - intros w x H. rewrite EL in H. unfold upd in H. destruct (w =? ws C n) eqn:E; [discriminate|].
      apply Nat.eqb_neq in E. destruct (L1 _ _ H) as [W HX]. split; auto. rewrite ES.
      rewrite upd_other; auto. intros ->. auto.
    - intros x H. rewrite ES in H. unfold upd in H. destruct (x =? n) eqn:E; [congruence|].
      apply Nat.eqb_neq in E. rewrite EL. rewrite upd_other; auto.
      intros EW. pose proof (L2 _ H) as A. pose proof (L2 _ H0) as B. rewrite EW in A. congruence.
  Qed.

  Lemma inv_lock_step : forall s s', inv_lock s -> tstep s s' -> inv_lock s'.
  Proof.
    intros s s' IL ST. destruct ST.
    - apply inv_lock_same with (s := s); auto. intros x. simp_s. unfold upd. destruct (x =? n) eqn:E; auto.
      apply Nat.eqb_eq in E. subst x. rewrite H. symmetry. eapply pc_move_holds; eauto.
    - apply inv_lock_same with (s := s); auto.
      + simp_s. apply spawn_all_fields.
      + intros x. simp_s. unfold upd. destruct (x =? n) eqn:E; [|apply spawn_all_holds].
        apply Nat.eqb_eq in E. subst x. rewrite H. reflexivity.
    - destruct IL as [L1 L2]. split; simp_s.
      + intros w x HL. unfold upd in HL. destruct (w =? ws C n) eqn:E.
        * apply Nat.eqb_eq in E. inversion HL; subst. rewrite upd_same. auto.
        * destruct (L1 _ _ HL) as [W HX]. split; auto. rewrite upd_other; auto. intros ->. rewrite H in HX. discriminate.
      + intros x HX. unfold upd in HX. destruct (x =? n) eqn:E.
        * apply Nat.eqb_eq in E. subst. rewrite upd_same. reflexivity.
        * apply Nat.eqb_neq in E. pose proof (L2 _ HX) as A. unfold upd. destruct (ws C x =? ws C n) eqn:EW; auto.
          apply Nat.eqb_eq in EW. rewrite EW in A. congruence.
    - destruct (unlock_move_holds _ _ _ _ H0) as [A B].
      eapply inv_lock_release with (s := s) (n := n) (p := p); eauto. rewrite H. exact A.
    - apply inv_lock_same with (s := s); auto. intros x. unfold Model.start. simp_s.
      unfold upd. destruct (x =? n) eqn:E; auto. apply Nat.eqb_eq in E. subst x.
      destruct H as [(H & _)|H]; rewrite H; reflexivity.
    - eapply inv_lock_release with (s := s) (n := n) (p := if failsW C (ws C n) then Failed else Done); eauto.
      + rewrite H. reflexivity.
      + destruct (failsW C (ws C n)); reflexivity.
      + unfold Model.finish. destruct (failsW C (ws C n)); reflexivity.
      + unfold Model.finish. destruct (failsW C (ws C n)); reflexivity.
  Qed.

  Lemma reach_lock : forall s, reach s -> inv_lock s.
  Proof.
    apply reach_ind'; [apply inv_lock_init|]. intros s s' _ I ST. eapply inv_lock_step; eauto.
  Qed.

  (* ================= general facts about one step ================= *)
  Lemma pc_move_src_nonfinal : forall s n p0 p, pc_move s n p0 p -> nonfinal p0 = true /\ p0 <> Absent /\ p <> Absent.
  Proof. intros s n p0 p M. inversion M; repeat split; try reflexivity; discriminate. Qed.

  Lemma finish_st : forall s n, st (finish T run C s n) = upd (st s) n (if failsW C (ws C n) then Failed else Done).
  Proof. intros. unfold Model.finish. destruct (failsW C (ws C n)); reflexivity. Qed.
  Lemma finish_wasRun : forall s n,
    wasRun (finish T run C s n) = if failsW C (ws C n) then wasRun s else upd (wasRun s) (ws C n) true.
  Proof. intros. unfold Model.finish. destruct (failsW C (ws C n)); reflexivity. Qed.
  Lemma finish_failedW : forall s n,
    failedW (finish T run C s n) = if failsW C (ws C n) then upd (failedW s) (ws C n) true else failedW s.
  Proof. intros. unfold Model.finish. destruct (failsW C (ws C n)); reflexivity. Qed.
  Lemma finish_awaiting : forall s n, awaiting (finish T run C s n) = awaiting s.
  Proof. intros. unfold Model.finish. destruct (failsW C (ws C n)); reflexivity. Qed.
  Lemma finish_lock : forall s n, lock (finish T run C s n) = upd (lock s) (ws C n) None.
  Proof. intros. unfold Model.finish. destruct (failsW C (ws C n)); reflexivity. Qed.
  Lemma finish_free : forall s n, free (finish T run C s n) = S (free s).
  Proof. intros. unfold Model.finish. destruct (failsW C (ws C n)); reflexivity. Qed.

  (* the node that moves, its old and new pc; every other node keeps its pc
     or is freshly spawned *)
  Lemma tstep_st : forall s s', tstep s s' ->
    exists n p, nonfinal (st s n) = true /\ st s' n = p /\ p <> Absent /\
      forall x, x <> n -> st s' x = st s x \/ (st s x = Absent /\ (st s' x = Want0 \/ st s' x = Fenced)).
  Proof.
    intros s s' ST. destruct ST.
    - destruct (pc_move_src_nonfinal _ _ _ _ H0) as (A & B & D). exists n, p. subst p0.
      repeat split; auto; simp_s. apply upd_same. intros x NE. left. apply upd_other; auto.
    - exists n, WaitDeps. rewrite H. repeat split; try discriminate; simp_s. apply upd_same.
      intros x NE. rewrite upd_other; auto.
      destruct (spawn_all_st (todo_of s n) s x) as [E|(_ & A & W)]; auto.
    - exists n, Want2. rewrite H. repeat split; try discriminate; simp_s. apply upd_same.
      intros x NE. left. apply upd_other; auto.
    - exists n, p. assert (X : nonfinal (st s n) = true /\ p <> Absent).
      { rewrite H. inversion H0; subst; split; try reflexivity; discriminate. }
      destruct X as (X1 & X2). repeat split; auto; simp_s. apply upd_same.
      intros x NE. left. apply upd_other; auto.
    - exists n, Running. unfold Model.start. simp_s. repeat split; try discriminate.
      destruct H as [(H & _)|H]; rewrite H; reflexivity. apply upd_same.
      intros x NE. left. apply upd_other; auto.
    - exists n, (if failsW C (ws C n) then Failed else Done). rewrite finish_st, H. repeat split.
      apply upd_same. destruct (failsW C (ws C n)); discriminate.
      intros x NE. left. apply upd_other; auto.
  Qed.

  Lemma tstep_final_stable : forall s s' x, tstep s s' -> finished (st s x) = true -> st s' x = st s x.
  Proof.
    intros s s' x ST F. destruct (tstep_st _ _ ST) as (n & p & NF & _ & _ & O).
    destruct (Nat.eq_dec x n) as [->|NE].
    - destruct (st s n); discriminate.
    - destruct (O x NE) as [E|(A & _)]; auto. rewrite A in F. discriminate.
  Qed.

  Lemma tstep_nonabsent : forall s s' x, tstep s s' -> st s x <> Absent -> st s' x <> Absent.
  Proof.
    intros s s' x ST F. destruct (tstep_st _ _ ST) as (n & p & NF & E & NA & O).
    destruct (Nat.eq_dec x n) as [->|NE]; [congruence|].
    destruct (O x NE) as [E'|(A & _)]; congruence.
  Qed.

  Lemma tstep_wasRun_mono : forall s s' w, tstep s s' -> wasRun s w = true -> wasRun s' w = true.
  Proof.
    intros s s' w ST H. destruct ST; simp_s; auto.
    - destruct (spawn_all_fields (todo_of s n) s) as (_ & _ & E & _). rewrite E. exact H.
    - rewrite finish_wasRun. destruct (failsW C (ws C n)); auto. unfold upd. destruct (w =? ws C n); auto.
  Qed.

  Lemma tstep_awaiting : forall s s' x, tstep s s' -> st s x <> Want0 -> awaiting s' x = awaiting s x.
  Proof.
    intros s s' x ST H. destruct ST; simp_s; auto.
    - destruct (spawn_all_fields (todo_of s n) s) as (_ & _ & _ & _ & _ & _ & E & _). rewrite E.
      apply upd_other. intros ->. contradiction.
    - apply (f_equal (fun f => f x) (finish_awaiting s n)).
  Qed.

  (* ================= G2: dependencies ================= *)
  Hypothesis WF : wf.

  Record inv_deps (s : state) : Prop := {
    d_lock : forall n, at_lock (st s n) = true ->
               virt C n = false /\ forall d, In d (deps C n) -> wasRun s (ws C d) = true;
    d_wait : forall n, st s n = WaitDeps \/ st s n = Want1 ->
               (forall d, In d (deps C n) -> wasRun s (ws C d) = true \/ In d (awaiting s n)) /\
               (forall d, In d (awaiting s n) -> In d (deps C n) /\ st s d <> Absent);
    d_want1 : forall n, st s n = Want1 -> forall d, In d (awaiting s n) -> finished (st s d) = true;
    d_done : forall n, st s n = Done ->
               if virt C n then forall d, In d (deps C n) -> wasRun s (ws C d) = true
               else wasRun s (ws C n) = true;
    d_bid : forall n, st s n = WaitBid \/ st s n = Want3 ->
               wasRun s (ws C n) = false /\ (memfail C = true -> failedW s (ws C n) = false)
  }.

  Lemma init_st : forall n, st init n = Want0 \/ st init n = Absent.
  Proof. intros n. cbn. destruct (existsb (Nat.eqb n) (roots C)); auto. Qed.

  Lemma inv_deps_init : inv_deps init.
  Proof.
    constructor; intros n H; destruct (init_st n) as [E|E]; rewrite E in H;
      try discriminate; destruct H; discriminate.
  Qed.

  Lemma todo_nil_all : forall s n, todo_of s n = [] -> forall d, In d (deps C n) -> wasRun s (ws C d) = true.
  Proof.
    intros s n E d I. destruct (wasRun s (ws C d)) eqn:W; auto.
    assert (In d (todo_of s n)) by (apply filter_In; rewrite W; auto). rewrite E in H. contradiction.
  Qed.

  Lemma awaited_all_ran : forall s n,
    inv_deps s -> (st s n = WaitDeps \/ st s n = Want1) ->
    (forall d, In d (awaiting s n) -> finished (st s d) = true) ->
    (forall d, In d (awaiting s n) -> st s d <> Failed) ->
    forall d, In d (deps C n) -> wasRun s (ws C d) = true.
  Proof.
    intros s n I W F NF d Hd. destruct (d_wait s I n W) as (A & B).
    destruct (A d Hd) as [R|Aw]; auto.
    pose proof (F d Aw) as Fd. pose proof (NF d Aw) as NFd.
    assert (D : st s d = Done) by (destruct (st s d); try discriminate; congruence).
    pose proof (d_done s I d D) as X. rewrite (wf_deps_nv WF n d Hd) in X. exact X.
  Qed.

  Lemma inv_deps_step : forall s s', inv_lock s -> inv_deps s -> tstep s s' -> inv_deps s'.
  Proof.
    intros s s' IL I ST.
    pose proof (tstep_wasRun_mono s s') as MONO. specialize (fun w => MONO w ST).
    destruct ST.
    - (* pc move *)
      subst p0. assert (SRC := pc_move_src_nonfinal _ _ _ _ H0). destruct SRC as (NFIN & _ & _).
      constructor; simp_s.
      + intros x AL. unfold upd in AL. destruct (x =? n) eqn:E; [apply Nat.eqb_eq in E; subst x|apply (d_lock s I x AL)].
        inversion H0; subst; try discriminate.
        * split; auto. apply todo_nil_all; auto.
        * split; auto. apply awaited_all_ran; auto. apply (d_want1 s I n); auto.
        * apply (d_lock s I n). rewrite <- H. reflexivity.
        * apply (d_lock s I n). rewrite <- H. reflexivity.
      + intros x W. unfold upd in W. destruct (x =? n) eqn:E.
        * apply Nat.eqb_eq in E. subst x. assert (st s n = WaitDeps).
          { inversion H0; subst; auto; destruct W; discriminate. }
          destruct (d_wait s I n (or_introl H)) as (A & B). split; auto.
          intros d Hd. destruct (B d Hd) as (B1 & B2). split; auto. rewrite upd_other; auto.
          intros ->. pose proof (wf_deps_lt WF _ _ B1). lia.
        * destruct (d_wait s I x W) as (A & B). split; auto.
          intros d Hd. destruct (B d Hd) as (B1 & B2). split; auto. unfold upd. destruct (d =? n) eqn:E'; auto.
          destruct (pc_move_src_nonfinal _ _ _ _ H0) as (_ & _ & X). exact X.
      + intros x W d Hd. unfold upd in W. destruct (x =? n) eqn:E.
        * apply Nat.eqb_eq in E. subst x. inversion H0; subst; try discriminate.
          pose proof (H1 d Hd) as Fd. rewrite upd_other; auto. intros ->. destruct (st s n); discriminate.
        * pose proof (d_want1 s I x W d Hd) as Fd. rewrite upd_other; auto. intros ->. destruct (st s n); discriminate.
      + intros x D. unfold upd in D. destruct (x =? n) eqn:E; [apply Nat.eqb_eq in E; subst x|apply (d_done s I x D)].
        inversion H0; subst; try discriminate.
        * rewrite H3. exact H4.
        * rewrite H4. apply todo_nil_all; auto.
        * rewrite H4. apply awaited_all_ran; auto. apply (d_want1 s I n); auto.
      + intros x W. unfold upd in W. destruct (x =? n) eqn:E; [apply Nat.eqb_eq in E; subst x|apply (d_bid s I x W)].
        inversion H0; subst; try (destruct W; discriminate).
        * split; auto.
        * apply (d_bid s I n). left. auto.
    - (* spawn *)
      destruct (spawn_all_fields (todo_of s n) s) as (SF & SL & SW & SFW & SO & SR & SA & ST).
      assert (OTH : forall x, x <> n -> st (spawn_all s (todo_of s n)) x = st s x \/
                     (st s x = Absent /\ (st (spawn_all s (todo_of s n)) x = Want0 \/ st (spawn_all s (todo_of s n)) x = Fenced))).
      { intros x _. destruct (spawn_all_st (todo_of s n) s x) as [E|(_ & A & W)]; auto. }
      constructor; simp_s; rewrite ?SW, ?SFW, ?SA.
      + intros x AL. unfold upd in AL. destruct (x =? n) eqn:E; [discriminate|]. apply Nat.eqb_neq in E.
        destruct (OTH x E) as [E'|(_ & [W|W])]; rewrite ?E', ?W in AL; try discriminate. apply (d_lock s I x AL).
      + intros x W. unfold upd in W. unfold upd at 1 2. destruct (x =? n) eqn:E.
        * apply Nat.eqb_eq in E. subst x. split.
          -- intros d Hd. destruct (wasRun s (ws C d)) eqn:WR; auto. right. apply filter_In. rewrite WR. auto.
          -- intros d Hd. pose proof Hd as Hd'. apply filter_In in Hd'. destruct Hd' as (Hd' & _). split; auto.
             rewrite upd_other. apply spawn_all_spawned; auto. pose proof (wf_deps_lt WF _ _ Hd'). lia.
        * apply Nat.eqb_neq in E. assert (W' : st s x = WaitDeps \/ st s x = Want1).
          { destruct (OTH x E) as [E'|(_ & [W'|W'])]; rewrite ?E', ?W' in W; auto; destruct W; discriminate. }
          destruct (d_wait s I x W') as (A & B). split; auto.
          intros d Hd. destruct (B d Hd) as (B1 & B2). split; auto. unfold upd. destruct (d =? n); [discriminate|].
          rewrite spawn_all_keep; auto.
      + intros x W d. unfold upd in W. unfold upd at 1. destruct (x =? n) eqn:E; [discriminate|]. apply Nat.eqb_neq in E.
        assert (W' : st s x = Want1).
        { destruct (OTH x E) as [E'|(_ & [W'|W'])]; rewrite ?E', ?W' in W; auto; discriminate. }
        intros Hd. pose proof (d_want1 s I x W' d Hd) as Fd. unfold upd. destruct (d =? n) eqn:E'.
        * apply Nat.eqb_eq in E'. subst d. rewrite H in Fd. discriminate.
        * rewrite spawn_all_keep; auto. intros A. rewrite A in Fd. discriminate.
      + intros x D. unfold upd in D. destruct (x =? n) eqn:E; [discriminate|]. apply Nat.eqb_neq in E.
        destruct (OTH x E) as [E'|(_ & [W|W])]; rewrite ?E', ?W in D; try discriminate. apply (d_done s I x D).
      + intros x W. unfold upd in W. destruct (x =? n) eqn:E; [destruct W; discriminate|]. apply Nat.eqb_neq in E.
        destruct (OTH x E) as [E'|(_ & [W'|W'])]; rewrite ?E', ?W' in W; try (destruct W; discriminate).
        apply (d_bid s I x W).
    - (* lock *)
      constructor; simp_s.
      + intros x AL. apply (d_lock s I x). unfold upd in AL. destruct (x =? n) eqn:E; auto.
        apply Nat.eqb_eq in E. subst x. rewrite H. reflexivity.
      + intros x W. unfold upd in W. destruct (x =? n) eqn:E; [destruct W; discriminate|].
        destruct (d_wait s I x W) as (A & B). split; auto.
        intros d Hd. destruct (B d Hd) as (B1 & B2). split; auto. unfold upd. destruct (d =? n); [discriminate|auto].
      + intros x W d Hd. unfold upd in W. destruct (x =? n) eqn:E; [discriminate|].
        pose proof (d_want1 s I x W d Hd) as Fd. rewrite upd_other; auto. intros ->. rewrite H in Fd. discriminate.
      + intros x D. unfold upd in D. destruct (x =? n) eqn:E; [discriminate|]. apply (d_done s I x D).
      + intros x W. unfold upd in W. destruct (x =? n) eqn:E; [destruct W; discriminate|]. apply (d_bid s I x W).
    - (* unlock *)
      assert (HL : at_lock (st s n) = true /\ nonfinal (st s n) = true /\ at_lock p = false /\ p <> Absent /\ p <> Want1 /\ p <> WaitDeps /\ p <> WaitBid /\ p <> Want3).
      { rewrite H. inversion H0; subst; repeat split; discriminate. }
      destruct HL as (AL & NF & ALp & PA & P1 & PW & PB & P3).
      constructor; simp_s.
      + intros x A. unfold upd in A. destruct (x =? n) eqn:E; [congruence|]. apply (d_lock s I x A).
      + intros x W. unfold upd in W. destruct (x =? n) eqn:E; [destruct W; congruence|].
        destruct (d_wait s I x W) as (A & B). split; auto.
        intros d Hd. destruct (B d Hd) as (B1 & B2). split; auto. unfold upd. destruct (d =? n); auto.
      + intros x W d Hd. unfold upd in W. destruct (x =? n) eqn:E; [congruence|].
        pose proof (d_want1 s I x W d Hd) as Fd. rewrite upd_other; auto. intros ->. destruct (st s n); discriminate.
      + intros x D. unfold upd in D. destruct (x =? n) eqn:E; [apply Nat.eqb_eq in E; subst x|apply (d_done s I x D)].
        destruct (d_lock s I n AL) as (V & _). rewrite V. inversion H0; subst; try discriminate. auto.
      + intros x W. unfold upd in W. destruct (x =? n) eqn:E; [destruct W; congruence|]. apply (d_bid s I x W).
    - (* start *)
      assert (AL : at_lock (st s n) = true) by (destruct H as [(H & _)|H]; rewrite H; reflexivity).
      unfold Model.start. constructor; simp_s.
      + intros x A. apply (d_lock s I x). unfold upd in A. destruct (x =? n) eqn:E; auto.
        apply Nat.eqb_eq in E. subst x. exact AL.
      + intros x W. unfold upd in W. destruct (x =? n) eqn:E; [destruct W; discriminate|].
        destruct (d_wait s I x W) as (A & B). split; auto.
        intros d Hd. destruct (B d Hd) as (B1 & B2). split; auto. unfold upd. destruct (d =? n); [discriminate|auto].
      + intros x W d Hd. unfold upd in W. destruct (x =? n) eqn:E; [discriminate|].
        pose proof (d_want1 s I x W d Hd) as Fd. rewrite upd_other; auto. intros ->.
        destruct H as [(H & _)|H]; rewrite H in Fd; discriminate.
      + intros x D. unfold upd in D. destruct (x =? n) eqn:E; [discriminate|]. apply (d_done s I x D).
      + intros x W. unfold upd in W. destruct (x =? n) eqn:E; [destruct W; discriminate|]. apply (d_bid s I x W).
    - (* finish *)
      assert (AL : at_lock (st s n) = true) by (rewrite H; reflexivity).
      constructor; rewrite ?finish_st, ?finish_awaiting.
      + intros x A. unfold upd in A. destruct (x =? n) eqn:E; [destruct (failsW C (ws C n)); discriminate|].
        destruct (d_lock s I x A) as (V & D). split; auto.
      + intros x W. unfold upd in W. destruct (x =? n) eqn:E; [destruct (failsW C (ws C n)); destruct W; discriminate|].
        destruct (d_wait s I x W) as (A & B). split.
        * intros d Hd. destruct (A d Hd); auto.
        * intros d Hd. destruct (B d Hd) as (B1 & B2). split; auto. unfold upd.
          destruct (d =? n); auto. destruct (failsW C (ws C n)); discriminate.
      + intros x W d Hd. unfold upd in W. destruct (x =? n) eqn:E; [destruct (failsW C (ws C n)); discriminate|].
        pose proof (d_want1 s I x W d Hd) as Fd. rewrite upd_other; auto. intros ->. rewrite H in Fd. discriminate.
      + intros x D. unfold upd in D. destruct (x =? n) eqn:E.
        * apply Nat.eqb_eq in E. subst x. destruct (d_lock s I n AL) as (V & _). rewrite V.
          rewrite finish_wasRun. destruct (failsW C (ws C n)); [discriminate|]. apply upd_same.
        * pose proof (d_done s I x D) as X. destruct (virt C x); auto.
      + intros x W. unfold upd in W. destruct (x =? n) eqn:E; [destruct (failsW C (ws C n)); destruct W; discriminate|].
        apply Nat.eqb_neq in E. destruct (d_bid s I x W) as (A & B).
        assert (NW : ws C x <> ws C n).
        { intros EW. destruct IL as [L1 L2]. assert (HX : holds_lock (st s x) = true) by (destruct W as [W|W]; rewrite W; reflexivity).
          assert (HN : holds_lock (st s n) = true) by (rewrite H; reflexivity).
          pose proof (L2 _ HX) as A1. pose proof (L2 _ HN) as A2. rewrite EW in A1. congruence. }
        rewrite finish_wasRun, finish_failedW. destruct (failsW C (ws C n)); rewrite ?upd_other; auto.
  Qed.

  Lemma reach_deps : forall s, reach s -> inv_deps s.
  Proof.
    apply reach_ind'; [apply inv_deps_init|]. intros s s' R I ST. eapply inv_deps_step; eauto. apply reach_lock; auto.
  Qed.

  (* ================= G3: fence, bound ================= *)
  Definition inv_fence (s : state) : Prop :=
    forall n, st s n = Fenced -> exists a, alt C n = Some a /\ st s a <> Absent /\ st s a <> Fenced.

  Local Transparent Model.spawn1.
  Lemma inv_fence_spawn1 : forall s d, inv_fence s -> inv_fence (spawn1 s d).
  Proof.
    intros s d I x F. destruct (spawn1_st s d x) as [E|(-> & A & [[W _]|[W (a & AL & IT)]])].
    - rewrite E in F. destruct (I x F) as (a & AL & NA & NF). exists a. split; auto.
      rewrite spawn1_keep; auto.
    - congruence.
    - exists a. split; auto. destruct (wf_alt_sym WF _ _ AL) as (SY & NE).
      assert (NA : st s a <> Absent) by (intros X; rewrite X in IT; discriminate).
      rewrite spawn1_keep; auto. split; auto. intros FA.
      destruct (I a FA) as (b & ALb & NAb & _). rewrite SY in ALb. inversion ALb; subst. contradiction.
  Qed.
  Local Opaque Model.spawn1.

  Lemma inv_fence_spawn_all : forall ds s, inv_fence s -> inv_fence (spawn_all s ds).
  Proof.
    induction ds as [|d ds IH]; intros s I; [exact I|]. rewrite spawn_all_cons. apply IH. apply inv_fence_spawn1; auto.
  Qed.

  (* changing the pc of one node to something that is neither Absent nor Fenced *)
  Lemma inv_fence_set : forall s (stf : nat -> pc) n p,
    inv_fence s -> p <> Absent -> p <> Fenced -> stf = upd (st s) n p ->
    forall x, stf x = Fenced -> exists a, alt C x = Some a /\ stf a <> Absent /\ stf a <> Fenced.
  Proof.
    intros s stf n p I PA PF -> x F. unfold upd in F. destruct (x =? n) eqn:E; [congruence|].
    destruct (I x F) as (a & AL & NA & NF). exists a. split; auto. unfold upd. destruct (a =? n); auto.
  Qed.

  Lemma inv_fence_init : inv_fence init.
  Proof. intros n F. destruct (init_st n) as [E|E]; rewrite E in F; discriminate. Qed.

  Lemma inv_fence_step : forall s s', inv_fence s -> tstep s s' -> inv_fence s'.
  Proof.
    intros s s' I ST. destruct ST; unfold inv_fence; unfold Model.start; rewrite ?finish_st; simp_s.
    - destruct (pc_move_src_nonfinal _ _ _ _ H0) as (_ & _ & PA).
      apply (inv_fence_set s (upd (st s) n p) n p); auto. inversion H0; discriminate.
    - apply (inv_fence_set (spawn_all s (todo_of s n)) _ n WaitDeps); try discriminate; [|reflexivity].
      apply inv_fence_spawn_all; auto.
    - apply (inv_fence_set s (upd (st s) n Want2) n Want2); auto; discriminate.
    - apply (inv_fence_set s (upd (st s) n p) n p); auto; inversion H0; discriminate.
    - apply (inv_fence_set s (upd (st s) n Running) n Running); auto; discriminate.
    - apply (inv_fence_set s _ n (if failsW C (ws C n) then Failed else Done)); auto;
        destruct (failsW C (ws C n)); discriminate.
  Qed.

  Lemma reach_fence : forall s, reach s -> inv_fence s.
  Proof. apply reach_ind'; [apply inv_fence_init|]. intros s s' _ I ST. eapply inv_fence_step; eauto. Qed.

  Definition inv_bound (s : state) : Prop := forall n, st s n <> Absent -> n < nn.

  Lemma inv_bound_init : inv_bound init.
  Proof.
    intros n H. cbn in H. destruct (existsb (Nat.eqb n) (roots C)) eqn:E; [|congruence].
    apply existsb_exists in E. destruct E as (r & I & E). apply Nat.eqb_eq in E. subst r.
    apply (wf_roots WF n I).
  Qed.

  Lemma inv_bound_step : forall s s', inv_bound s -> tstep s s' -> inv_bound s'.
  Proof.
    intros s s' I ST x NA. destruct (st s x) eqn:E; try (apply I; congruence).
    destruct ST; simp_s.
    - unfold upd in NA. destruct (x =? n) eqn:E'; [|congruence]. apply Nat.eqb_eq in E'. subst x.
      destruct (pc_move_src_nonfinal _ _ _ _ H0) as (_ & X & _). congruence.
    - unfold upd in NA. destruct (x =? n) eqn:E'; [apply Nat.eqb_eq in E'; subst x; congruence|].
      destruct (spawn_all_st (todo_of s n) s x) as [E2|(IN & _)]; [congruence|].
      apply filter_In in IN. destruct IN as (IN & _). pose proof (wf_deps_lt WF _ _ IN).
      assert (n < nn) by (apply I; congruence). lia.
    - unfold upd in NA. destruct (x =? n) eqn:E'; [apply Nat.eqb_eq in E'; subst x|]; congruence.
    - unfold upd in NA. destruct (x =? n) eqn:E'; [apply Nat.eqb_eq in E'; subst x|]; try congruence.
      inversion H0; subst; congruence.
    - unfold Model.start in NA. simp_s. unfold upd in NA. destruct (x =? n) eqn:E'; [apply Nat.eqb_eq in E'; subst x|]; try congruence.
      destruct H as [(H & _)|H]; congruence.
    - rewrite finish_st in NA. unfold upd in NA. destruct (x =? n) eqn:E'; [apply Nat.eqb_eq in E'; subst x|]; congruence.
  Qed.

  Lemma reach_bound : forall s, reach s -> inv_bound s.
  Proof. apply reach_ind'; [apply inv_bound_init|]. intros s s' _ I ST. eapply inv_bound_step; eauto. Qed.

  (* ================= G4: the monitor accepts every trace ================= *)
  Definition once_flag : bool := memfail C || negb (keep C).

  Lemma remove1_In : forall x w l, NoDup l -> (In x (remove1 w l) <-> In x l /\ x <> w).
  Proof.
    intros x w l. induction l as [|y l IH]; intros ND; cbn; [tauto|].
    inversion ND; subst. destruct (y =? w) eqn:E.
    - apply Nat.eqb_eq in E. subst y. split.
      + intros I. split; auto. intros ->. contradiction.
      + intros ([->|I] & NE); [contradiction|auto].
    - apply Nat.eqb_neq in E. cbn. rewrite (IH H2). split.
      + intros [->|(I & NE)]; auto.
      + intros ([->|I] & NE); auto.
  Qed.

  Lemma remove1_NoDup : forall w l, NoDup l -> NoDup (remove1 w l).
  Proof.
    intros w l. induction l as [|y l IH]; intros ND; cbn; auto. inversion ND; subst.
    destruct (y =? w); auto. constructor; auto. intros I. apply (remove1_In y w l H2) in I. tauto.
  Qed.

  Lemma remove1_length : forall w l, In w l -> S (length (remove1 w l)) = length l.
  Proof.
    intros w l. induction l as [|y l IH]; intros I; cbn; [contradiction|].
    destruct (y =? w) eqn:E; auto. apply Nat.eqb_neq in E. destruct I as [->|I]; [contradiction|].
    cbn. rewrite IH; auto.
  Qed.

  Lemma mon_run_snoc : forall once tr m e,
    mon_run C nn once m (tr ++ [e]) =
    match mon_run C nn once m tr with Some m' => mon_step C nn once m' e | None => None end.
  Proof.
    intros once tr. induction tr as [|x tr IH]; intros m e; cbn.
    - destruct (mon_step C nn once m e); reflexivity.
    - destruct (mon_step C nn once m x); auto.
  Qed.

  Record link (s : state) (m : mon) : Prop := {
    k_open : forall w, In w (m_open m) <-> exists n, st s n = Running /\ ws C n = w;
    k_nodup : NoDup (m_open m);
    k_free : free s + length (m_open m) = jobs C;
    k_ok : forall w, mem w (m_ok m) = wasRun s w;
    k_run : running s = (keep C || negb (m_failed m));
    k_started : forall w, In w (m_started m) -> In w (m_open m) \/ wasRun s w = true \/ failedW s w = true;
    k_failed : forall w, failedW s w = true -> m_failed m = true /\ failsW C w = true;
    k_once : once_flag = true -> NoDup (m_started m)
  }.

  Definition inv_mon (s : state) : Prop :=
    exists m, mon_run C nn once_flag mon_init (rev (trace s)) = Some m /\ link s m.

  Lemma inv_mon_init : inv_mon init.
  Proof.
    exists mon_init. split; [reflexivity|]. constructor; cbn.
    - intros w. split; [contradiction|]. intros (n & R & _).
      destruct (existsb (Nat.eqb n) (roots C)); discriminate.
    - constructor.
    - lia.
    - reflexivity.
    - rewrite orb_true_r. reflexivity.
    - contradiction.
    - discriminate.
    - intros _. constructor.
  Qed.

  (* steps that neither start nor finish a script *)
  Lemma link_silent : forall s s' m,
    link s m -> free s' = free s -> wasRun s' = wasRun s -> failedW s' = failedW s -> running s' = running s ->
    (forall x, st s' x = Running <-> st s x = Running) -> link s' m.
  Proof.
    intros s s' m L EF EW EFW ER ES. destruct L. constructor; auto; rewrite ?EF, ?EW, ?EFW, ?ER; auto.
    intros w. rewrite k_open0. split; intros (n & R & W); exists n; split; auto; apply ES; auto.
  Qed.

  Lemma existsb_seq : forall (f : nat -> bool) n, n < nn -> f n = true -> existsb f (seq 0 nn) = true.
  Proof. intros f n L F. apply existsb_exists. exists n. split; auto. apply in_seq. lia. Qed.

  Lemma inv_mon_step : forall s s', inv_lock s -> inv_deps s -> inv_bound s -> inv_mon s -> tstep s s' -> inv_mon s'.
  Proof.
    intros s s' IL ID IB (m & RUN & L) ST. destruct ST.
    - (* pc move *)
      exists m. split; [exact RUN|]. apply link_silent with (s := s); auto. intros x. simp_s. unfold upd.
      destruct (x =? n) eqn:E; [|tauto]. apply Nat.eqb_eq in E. subst x. subst p0.
      split; intros R; inversion H0; subst; try discriminate; congruence.
    - (* spawn *)
      destruct (spawn_all_fields (todo_of s n) s) as (SF & SL & SW & SFW & SO & SR & SA & STR).
      exists m. split; [simp_s; rewrite STR; exact RUN|]. apply link_silent with (s := s); auto. intros x. simp_s. unfold upd.
      destruct (x =? n) eqn:E.
      + apply Nat.eqb_eq in E. subst x. split; intros R; congruence.
      + destruct (spawn_all_st (todo_of s n) s x) as [E'|(_ & A & [W|W])]; rewrite ?E', ?W, ?A; try tauto;
          split; discriminate.
    - (* lock *)
      exists m. split; [exact RUN|]. apply link_silent with (s := s); auto. intros x. simp_s. unfold upd.
      destruct (x =? n) eqn:E; [|tauto]. apply Nat.eqb_eq in E. subst x. split; intros R; congruence.
    - (* unlock *)
      exists m. split; [exact RUN|]. apply link_silent with (s := s); auto. intros x. simp_s. unfold upd.
      destruct (x =? n) eqn:E; [|tauto]. apply Nat.eqb_eq in E. subst x.
      split; intros R; inversion H0; subst; try discriminate; congruence.
    - (* start *)
      set (w := ws C n).
      assert (HL : holds_lock (st s n) = true) by (destruct H as [(H & _)|H]; rewrite H; reflexivity).
      assert (AL : at_lock (st s n) = true) by (destruct H as [(H & _)|H]; rewrite H; reflexivity).
      assert (NR : st s n <> Running) by (destruct H as [(H & _)|H]; rewrite H; discriminate).
      destruct (d_lock s ID n AL) as (NV & DEPS).
      assert (WR : wasRun s w = false /\ (memfail C = true -> failedW s w = false)).
      { destruct H as [(H & _ & A & B)|H]; auto. apply (d_bid s ID n). auto. }
      destruct WR as (WR & FW).
      assert (NOPEN : ~ In w (m_open m)).
      { intros I. apply (k_open s m L) in I. destruct I as (n' & R' & W').
        destruct IL as [L1 L2]. assert (HL' : holds_lock (st s n') = true) by (rewrite R'; reflexivity).
        pose proof (L2 _ HL') as A1. pose proof (L2 _ HL) as A2. fold w in A2. rewrite W' in A1.
        assert (n' = n) by congruence. subst n'. contradiction. }
      assert (NOTFAILED : once_flag = true -> failedW s w = false).
      { unfold once_flag. intros O. destruct (memfail C) eqn:MF; auto. cbn in O.
        destruct (failedW s w) eqn:FWW; auto. destruct (k_failed s m L w FWW) as (MFL & _).
        pose proof (k_run s m L) as KR. rewrite H1, MFL in KR. destruct (keep C); discriminate. }
      assert (SOK : start_ok C nn once_flag m w = true).
      { unfold start_ok. repeat (apply andb_true_intro; split).
        - apply Nat.ltb_lt. pose proof (k_free s m L). lia.
        - apply negb_true_iff. apply mem_false_In. exact NOPEN.
        - apply negb_true_iff. rewrite (k_ok s m L). exact WR.
        - destruct once_flag eqn:O; auto. cbn. apply negb_true_iff. apply mem_false_In. intros I.
          destruct (k_started s m L w I) as [X|[X|X]]; [contradiction|congruence|]. rewrite NOTFAILED in X; auto. discriminate.
        - rewrite <- (k_run s m L). exact H1.
        - apply existsb_seq with (n := n).
          + apply IB. intros A. rewrite A in HL. discriminate.
          + fold w. rewrite Nat.eqb_refl, NV. cbn. apply forallb_forall. intros d Hd.
            rewrite (k_ok s m L). apply DEPS; auto. }
      eexists. split.
      + unfold Model.start. simp_s. cbn [rev]. rewrite mon_run_snoc, RUN. cbn [mon_step]. fold w. rewrite SOK. reflexivity.
      + destruct L. unfold Model.start. constructor; simp_s; auto.
        * intros w'. split.
          -- intros [<-|I].
             ++ exists n. split; auto. apply upd_same.
             ++ apply k_open0 in I. destruct I as (n' & R' & W'). exists n'. split; auto.
                rewrite upd_other; auto. intros ->. contradiction.
          -- intros (n' & R' & W'). unfold upd in R'. destruct (n' =? n) eqn:E.
             ++ apply Nat.eqb_eq in E. subst n'. left. auto.
             ++ right. apply k_open0. exists n'. auto.
        * constructor; auto.
        * cbn. lia.
        * intros w' [<-|I]; [left; left; reflexivity|]. destruct (k_started0 w' I) as [X|X]; auto. left. right. auto.
        * intros O. constructor; auto. intros I.
          destruct (k_started0 w I) as [X|[X|X]]; [contradiction|congruence|]. rewrite NOTFAILED in X; auto. discriminate.
    - (* finish *)
      set (w := ws C n).
      assert (HL : holds_lock (st s n) = true) by (rewrite H; reflexivity).
      assert (OPEN : In w (m_open m)) by (apply (k_open s m L); exists n; auto).
      assert (UNIQ : forall n', st s n' = Running -> ws C n' = w -> n' = n).
      { intros n' R' W'. destruct IL as [L1 L2]. assert (HL' : holds_lock (st s n') = true) by (rewrite R'; reflexivity).
        pose proof (L2 _ HL') as A1. pose proof (L2 _ HL) as A2. fold w in A2. rewrite W' in A1. congruence. }
      eexists. split.
      + assert (TR : trace (finish T run C s n) = EvEnd w (negb (failsW C w)) :: trace s).
        { unfold Model.finish. fold w. destruct (failsW C w); reflexivity. }
        rewrite TR. cbn [rev]. rewrite mon_run_snoc, RUN. cbn [mon_step].
        apply mem_In in OPEN. rewrite OPEN. rewrite eqb_reflx. cbn [andb]. reflexivity.
      + destruct L. constructor; cbn [m_open m_ok m_started m_failed];
          rewrite ?finish_st, ?finish_free, ?finish_wasRun, ?finish_failedW; fold w.
        * intros w'. rewrite (remove1_In w' w _ k_nodup0). split.
          -- intros (I & NE). apply k_open0 in I. destruct I as (n' & R' & W'). exists n'. split; auto.
             rewrite upd_other; auto. intros ->. fold w in W'. congruence.
          -- intros (n' & R' & W'). unfold upd in R'. destruct (n' =? n) eqn:E.
             ++ destruct (failsW C w); discriminate.
             ++ apply Nat.eqb_neq in E. split; [apply k_open0; exists n'; auto|].
                intros ->. apply E. apply UNIQ; auto.
        * apply remove1_NoDup; auto.
        * pose proof (remove1_length w _ OPEN). lia.
        * intros w'. destruct (failsW C w); cbn [negb]; auto. unfold mem. cbn [existsb].
          fold (mem w' (m_ok m)). rewrite k_ok0. unfold upd. destruct (w' =? w); reflexivity.
        * unfold Model.finish. fold w. destruct (failsW C w); cbn [running negb]; unfold Model.unlock; simp_s.
          -- rewrite k_run0. rewrite orb_true_r. cbn [negb]. destruct (keep C); cbn; auto. rewrite andb_false_r. reflexivity.
          -- rewrite orb_false_r. exact k_run0.
        * intros w' I. destruct (Nat.eq_dec w' w) as [->|NE].
          -- right. destruct (failsW C w); [right|left]; apply upd_same.
          -- destruct (k_started0 w' I) as [X|[X|X]].
             ++ left. apply remove1_In; auto.
             ++ right. left. destruct (failsW C w); auto. rewrite upd_other; auto.
             ++ right. right. destruct (failsW C w); auto. rewrite upd_other; auto.
        * intros w' F. destruct (failsW C w) eqn:FW; cbn [negb].
          -- unfold upd in F. destruct (w' =? w) eqn:E.
             ++ apply Nat.eqb_eq in E. subst w'. split; auto. apply orb_true_r.
             ++ destruct (k_failed0 w' F). split; auto. rewrite H0. reflexivity.
          -- destruct (k_failed0 w' F). split; auto. rewrite H0. reflexivity.
        * exact k_once0.
  Qed.

  Lemma reach_mon : forall s, reach s -> inv_mon s.
  Proof.
    apply reach_ind'; [apply inv_mon_init|]. intros s s' R I ST.
    eapply inv_mon_step; eauto; [apply reach_lock|apply reach_deps|apply reach_bound]; auto.
  Qed.

  (* ================= G5: contents are a function of the graph ================= *)
  Notation spec := (spec T run C).

  Lemma spec_stable : forall n f, n < f -> spec f n = spec (S n) n.
  Proof.
    induction n as [n IH] using lt_wf_ind. intros f L. destruct f as [|f]; [lia|]. cbn [Model.spec].
    f_equal. f_equal. apply map_ext_in. intros d Hd. pose proof (wf_deps_lt WF _ _ Hd) as LT.
    rewrite (IH d LT f) by lia. rewrite (IH d LT n) by lia. reflexivity.
  Qed.

  Definition coherent : Prop :=
    forall n1 n2, ws C n1 = ws C n2 -> virt C n1 = false -> virt C n2 = false -> spec (S n1) n1 = spec (S n2) n2.

  Definition inv_out (s : state) : Prop :=
    forall n, virt C n = false -> wasRun s (ws C n) = true -> out s (ws C n) = spec (S n) n.

  Lemma inv_out_step : forall s s', coherent -> inv_deps s -> inv_out s -> tstep s s' -> inv_out s'.
  Proof.
    intros s s' COH ID IO ST. destruct ST.
    - exact IO.
    - destruct (spawn_all_fields (todo_of s n) s) as (SF & SL & SW & SFW & SO & SR & SA & STR).
      intros x. simp_s. rewrite SW, SO. apply IO.
    - exact IO.
    - exact IO.
    - unfold Model.start. exact IO.
    - assert (AL : at_lock (st s n) = true) by (rewrite H; reflexivity).
      destruct (d_lock s ID n AL) as (NV & DEPS).
      intros x V. rewrite finish_wasRun. unfold Model.finish. destruct (failsW C (ws C n)); cbn [out]; [apply IO; auto|].
      unfold upd. destruct (ws C x =? ws C n) eqn:E; [|apply IO; auto].
      apply Nat.eqb_eq in E. intros _. rewrite (COH x n E V NV). cbn [Model.spec]. f_equal. f_equal.
      apply map_ext_in. intros d Hd. unfold Model.unlock. simp_s.
      rewrite (IO d (wf_deps_nv WF _ _ Hd) (DEPS d Hd)). symmetry. apply spec_stable. apply (wf_deps_lt WF _ _ Hd).
  Qed.

  Lemma reach_out : forall s, coherent -> reach s -> inv_out s.
  Proof.
    intros s COH. revert s. apply reach_ind'.
    - intros n _ H. discriminate.
    - intros s s' R I ST. eapply inv_out_step; eauto. apply reach_deps; auto.
  Qed.

  (* ================= G6: failures ================= *)
  Inductive cone : nat -> nat -> Prop :=
  | cone_refl : forall n, cone n n
  | cone_dep : forall n m d, In m (deps C n) -> cone m d -> cone n d.

  Definition dirty (n : nat) : Prop := exists d, cone n d /\ failsW C (ws C d) = true.

  Definition alt_dirty : Prop := forall n a, alt C n = Some a -> dirty a -> dirty n.

  Record inv_clean (s : state) : Prop := {
    c_running : running s = true;
    c_failed : forall n, st s n = Failed -> dirty n;
    c_failedW : forall w, failedW s w = true -> failsW C w = true
  }.

  Lemma dirty_self : forall n, failsW C (ws C n) = true -> dirty n.
  Proof. intros n F. exists n. split; auto. constructor. Qed.
  Lemma dirty_dep : forall n d, In d (deps C n) -> dirty d -> dirty n.
  Proof. intros n d I (x & Cx & F). exists x. split; auto. econstructor; eauto. Qed.

  Lemma inv_clean_step : forall s s',
    alt_dirty -> (keep C = true \/ forall w, failsW C w = false) ->
    inv_deps s -> inv_clean s -> tstep s s' -> inv_clean s'.
  Proof.
    intros s s' AD KN ID [CR CF CW] ST. destruct ST.
    - constructor; auto. intros x F. simp_s. unfold upd in F. destruct (x =? n) eqn:E; [|auto].
      apply Nat.eqb_eq in E. subst x p0. inversion H0; subst; try discriminate; try congruence.
      + apply (AD n a); auto.
      + match goal with HI : In ?d (awaiting s n), HF : st s ?d = Failed |- _ =>
          destruct (d_wait s ID n (or_intror (eq_sym H))) as (_ & B); destruct (B d HI) as (B1 & _);
          apply (dirty_dep n d); auto end.
    - destruct (spawn_all_fields (todo_of s n) s) as (SF & SL & SW & SFW & SO & SR & SA & STR).
      constructor; simp_s; rewrite ?SR, ?SFW; auto. intros x F. unfold upd in F. destruct (x =? n); [discriminate|].
      destruct (spawn_all_st (todo_of s n) s x) as [E|(_ & _ & [W|W])]; try congruence. rewrite E in F. auto.
    - constructor; auto. intros x F. simp_s. unfold upd in F. destruct (x =? n); [discriminate|auto].
    - constructor; auto. intros x F. simp_s. unfold upd in F. destruct (x =? n) eqn:E; [|auto].
      apply Nat.eqb_eq in E. subst x. inversion H0; subst; try discriminate; try congruence.
      apply dirty_self. auto.
    - unfold Model.start. constructor; auto. intros x F. simp_s. unfold upd in F. destruct (x =? n); [discriminate|auto].
    - constructor.
      + unfold Model.finish. destruct (failsW C (ws C n)) eqn:F; cbn [running]; unfold Model.unlock; simp_s; auto.
        destruct KN as [K|K]; [rewrite K, CR; reflexivity|]. rewrite K in F. discriminate.
      + intros x F. rewrite finish_st in F. unfold upd in F. destruct (x =? n) eqn:E; [|auto].
        apply Nat.eqb_eq in E. subst x. destruct (failsW C (ws C n)) eqn:FW; [|discriminate]. apply dirty_self; auto.
      + intros w F. rewrite finish_failedW in F. destruct (failsW C (ws C n)) eqn:FW; auto.
        unfold upd in F. destruct (w =? ws C n) eqn:E; auto. apply Nat.eqb_eq in E. subst w. auto.
  Qed.

  Lemma reach_clean : forall s,
    alt_dirty -> (keep C = true \/ forall w, failsW C w = false) -> reach s -> inv_clean s.
  Proof.
    intros s AD KN. revert s. apply reach_ind'.
    - constructor; cbn; auto; try discriminate. intros n F. destruct (existsb (Nat.eqb n) (roots C)); discriminate.
    - intros s s' R I ST. eapply inv_clean_step; eauto. apply reach_deps; auto.
  Qed.

  Lemma mon_failed_mono : forall once tr m m' w,
    mon_run C nn once m tr = Some m' -> (m_failed m = true \/ In (EvEnd w false) tr) -> m_failed m' = true.
  Proof.
    intros once tr. induction tr as [|e tr IH]; intros m m' w R H; cbn in R.
    - inversion R; subst. destruct H; [auto|contradiction].
    - destruct (mon_step C nn once m e) as [m1|] eqn:MS; [|discriminate]. apply (IH m1 m' w R).
      destruct H as [H|[->|H]]; auto.
      + left. destruct e; cbn [mon_step] in MS;
          match type of MS with (if ?c then _ else _) = _ => destruct c end; inversion MS; subst; cbn; auto.
        rewrite H. reflexivity.
      + left. cbn [mon_step] in MS.
        match type of MS with (if ?c then _ else _) = _ => destruct c end; inversion MS; subst; cbn. apply orb_true_r.
  Qed.

  (* ================= progress ================= *)
  Definition has_pc (f : pc -> bool) (s : state) : option nat := find (fun n => f (st s n)) (seq 0 nn).

  Lemma has_pc_some : forall f s n, has_pc f s = Some n -> f (st s n) = true.
  Proof. intros f s n H. apply find_some in H. tauto. Qed.

  Lemma has_pc_none : forall f s, inv_bound s -> has_pc f s = None -> f Absent = false ->
    forall x, f (st s x) = false.
  Proof.
    intros f s IB H FA x. destruct (st s x) eqn:E; try exact FA; rewrite <- E;
      apply (find_none _ _ H); apply in_seq; assert (x < nn) by (apply IB; congruence); lia.
  Qed.

  Lemma find_seq_min : forall (f : nat -> bool) len start n,
    find f (seq start len) = Some n -> forall x, start <= x -> x < n -> f x = false.
  Proof.
    intros f len. induction len as [|len IH]; intros start n H x L1 L2; cbn in H; [discriminate|].
    destruct (f start) eqn:E.
    - inversion H; subst. lia.
    - destruct (Nat.eq_dec x start) as [->|NE]; auto. apply (IH (S start) n H); lia.
  Qed.

  Definition wants_token (p : pc) : bool :=
    match p with Want0 | Want1 | Want2 | WaitBid | Want3 => true | _ => false end.
  Definition is_running (p : pc) : bool := match p with Running => true | _ => false end.
  Definition is_waitlock (p : pc) : bool := match p with WaitLock => true | _ => false end.

  Lemma leb1' : forall f, 1 <= f -> (1 <=? f) = true.
  Proof. intros. apply Nat.leb_le. auto. Qed.

  Lemma progress_proof : forall s,
    reach s -> (exists n, nonfinal (st s n) = true) -> exists l s', step s l = Some s'.
  Proof.
    intros s R (n1 & NF1).
    pose proof (reach_lock s R) as IL. pose proof (reach_deps s R) as ID. pose proof (reach_fence s R) as IF.
    pose proof (reach_bound s R) as IB. destruct (reach_mon s R) as (m & _ & L).
    destruct (has_pc is_running s) as [n|] eqn:HR.
    { apply has_pc_some in HR. exists (LFinish n). eexists. cbn [Model.step].
      destruct (st s n); try discriminate. reflexivity. }
    pose proof (has_pc_none _ s IB HR eq_refl) as NORUN.
    assert (FREE : 1 <= free s).
    { destruct (m_open m) as [|w r] eqn:O.
      - pose proof (k_free s m L) as KF. rewrite O in KF. cbn in KF. pose proof (wf_jobs WF). lia.
      - assert (I : In w (m_open m)) by (rewrite O; left; auto). apply (k_open s m L) in I.
        destruct I as (n & Rn & _). specialize (NORUN n). rewrite Rn in NORUN. discriminate. }
    apply leb1' in FREE.
    destruct (has_pc wants_token s) as [n|] eqn:HW.
    { apply has_pc_some in HW. destruct (st s n) eqn:P; try discriminate.
      - exists (LTake0 n). eexists. cbn [Model.step]. rewrite P, FREE. reflexivity.
      - exists (LTake1 n). eexists. cbn [Model.step]. rewrite P, FREE. reflexivity.
      - exists (LTake2 n). eexists. cbn [Model.step]. rewrite P, FREE. reflexivity.
      - exists (LBid n). eexists. cbn [Model.step]. rewrite P, FREE. reflexivity.
      - exists (LTake3 n). eexists. cbn [Model.step]. rewrite P, FREE. reflexivity. }
    pose proof (has_pc_none _ s IB HW eq_refl) as NOWANT.
    destruct (has_pc is_waitlock s) as [n|] eqn:HL.
    { apply has_pc_some in HL. destruct (st s n) eqn:P; try discriminate.
      exists (LLock n). eexists. cbn [Model.step]. rewrite P.
      destruct (lock s (ws C n)) as [h|] eqn:LK.
      - exfalso. destruct IL as [L1 _]. destruct (L1 _ _ LK) as (_ & HH).
        specialize (NORUN h). specialize (NOWANT h). destruct (st s h); discriminate.
      - rewrite YL. reflexivity. }
    pose proof (has_pc_none _ s IB HL eq_refl) as NOLOCK.
    (* every non-final node is Fenced or WaitDeps; take the smallest one *)
    assert (CLS : forall x, nonfinal (st s x) = true -> st s x = Fenced \/ st s x = WaitDeps).
    { intros x NF. specialize (NORUN x). specialize (NOWANT x). specialize (NOLOCK x).
      destruct (st s x); try discriminate; auto. }
    destruct (has_pc nonfinal s) as [n0|] eqn:HN.
    2:{ pose proof (has_pc_none _ s IB HN eq_refl n1). congruence. }
    pose proof (find_seq_min _ _ _ _ HN) as MIN. apply has_pc_some in HN.
    assert (SMALLER : forall d, d < n0 -> st s d <> Absent -> finished (st s d) = true).
    { intros d LT NA. pose proof (MIN d (Nat.le_0_l d) LT) as X. cbn beta in X. destruct (st s d); try discriminate; auto. }
    assert (DEPS_READY : forall x, st s x = WaitDeps -> (forall d, In d (deps C x) -> d < n0) ->
                         exists l s', step s l = Some s').
    { intros x P LT. exists (LDeps x). eexists. cbn [Model.step]. rewrite P.
      assert (F : forallb (fun d => finished (st s d)) (awaiting s x) = true).
      { apply forallb_forall. intros d Hd. destruct (d_wait s ID x (or_introl P)) as (_ & B).
        destruct (B d Hd) as (B1 & B2). apply SMALLER; auto. }
      rewrite F. reflexivity. }
    destruct (CLS n0 HN) as [P|P].
    - destruct (IF n0 P) as (a & AL & NA & NFa).
      destruct (finished (st s a)) eqn:FA.
      + destruct (st s a) eqn:Pa; try discriminate.
        * exists (LFence n0). eexists. cbn [Model.step]. rewrite P, AL, Pa. reflexivity.
        * exists (LFence n0). eexists. cbn [Model.step]. rewrite P, AL, Pa. reflexivity.
      + assert (NFA : nonfinal (st s a) = true) by (destruct (st s a); try discriminate; auto; congruence).
        destruct (CLS a NFA) as [Pa|Pa]; [congruence|].
        apply (DEPS_READY a Pa). intros d Hd. apply (wf_alt_deps WF n0 a d AL Hd).
    - apply (DEPS_READY n0 P). intros d Hd. apply (wf_deps_lt WF _ _ Hd).
  Qed.

  (* ================= the named lemmas ================= *)
  Definition terminal (s : state) : Prop := forall l, step s l = None.

  Lemma running_exclusive : forall s n1 n2,
    reach s -> st s n1 = Running -> st s n2 = Running -> ws C n1 = ws C n2 -> n1 = n2.
  Proof.
    intros s n1 n2 R R1 R2 E. destruct (reach_lock s R) as [L1 L2].
    assert (H1 : holds_lock (st s n1) = true) by (rewrite R1; reflexivity).
    assert (H2 : holds_lock (st s n2) = true) by (rewrite R2; reflexivity).
    pose proof (L2 _ H1) as A1. pose proof (L2 _ H2) as A2. rewrite E in A1. congruence.
  Qed.

  Lemma jobs_bounded_proof : forall s ns,
    reach s -> NoDup ns -> (forall n, In n ns -> st s n = Running) -> length ns + free s = jobs C \/ length ns + free s < jobs C.
  Proof.
    intros s ns R ND ALL. destruct (reach_mon s R) as (m & _ & L).
    assert (INJ : NoDup (map (ws C) ns)).
    { clear L. induction ns as [|x ns IH]; cbn; constructor.
      - intros I. apply in_map_iff in I. destruct I as (y & E & Iy). inversion ND; subst.
        assert (y = x). { apply (running_exclusive s y x R); auto. apply ALL. right. auto. apply ALL. left. auto. }
        subst y. contradiction.
      - inversion ND; subst. apply IH; auto. intros n I. apply ALL. right. auto. }
    assert (INC : incl (map (ws C) ns) (m_open m)).
    { intros w I. apply in_map_iff in I. destruct I as (y & E & Iy). apply (k_open s m L). exists y. split; auto. }
    pose proof (NoDup_incl_length INJ INC) as LE. rewrite map_length in LE.
    pose proof (k_free s m L). lia.
  Qed.

  Lemma deps_before_start_proof : forall s n,
    reach s -> st s n = Running ->
    virt C n = false /\ forall d, In d (deps C n) -> wasRun s (ws C d) = true.
  Proof.
    intros s n R H. apply (d_lock s (reach_deps s R) n). rewrite H. reflexivity.
  Qed.

  Lemma deps_contents_proof : forall s n d,
    coherent -> reach s -> st s n = Running -> In d (deps C n) -> out s (ws C d) = spec (S d) d.
  Proof.
    intros s n d COH R H I. destruct (deps_before_start_proof s n R H) as (_ & D).
    apply (reach_out s COH R d (wf_deps_nv WF _ _ I) (D d I)).
  Qed.

  (* a workspace in which a script runs has not been run successfully before *)
  Definition inv_runfalse (s : state) : Prop := forall n, st s n = Running -> wasRun s (ws C n) = false.

  Lemma step_runfalse : forall s s', inv_lock s -> inv_deps s -> inv_runfalse s -> tstep s s' -> inv_runfalse s'.
  Proof.
    intros s s' IL ID I ST. destruct ST.
    - intros x. simp_s. unfold upd. destruct (x =? n) eqn:E; [|apply I]. intros P. subst p0. inversion H0; subst; discriminate.
    - destruct (spawn_all_fields (todo_of s n) s) as (SF & SL & SW & SFW & SO & SR & SA & STR).
      intros x. simp_s. rewrite SW. unfold upd. destruct (x =? n) eqn:E; [discriminate|].
      destruct (spawn_all_st (todo_of s n) s x) as [E'|(_ & _ & [W|W])]; rewrite ?E', ?W; try discriminate. apply I.
    - intros x. simp_s. unfold upd. destruct (x =? n) eqn:E; [discriminate|apply I].
    - intros x. simp_s. unfold upd. destruct (x =? n) eqn:E; [|apply I]. intros P. inversion H0; subst; discriminate.
    - unfold Model.start. intros x. simp_s. unfold upd. destruct (x =? n) eqn:E; [|apply I].
      apply Nat.eqb_eq in E. subst x. intros _. destruct H as [(_ & _ & A & _)|H]; auto. apply (d_bid s ID n); auto.
    - intros x. rewrite finish_st, finish_wasRun. unfold upd at 1. destruct (x =? n) eqn:E.
      + destruct (failsW C (ws C n)); discriminate.
      + apply Nat.eqb_neq in E. intros P. destruct (failsW C (ws C n)); [apply I; auto|].
        rewrite upd_other; [apply I; auto|]. intros EW. apply E.
        destruct IL as [L1 L2].
        assert (H1 : holds_lock (st s x) = true) by (rewrite P; reflexivity).
        assert (H2 : holds_lock (st s n) = true) by (rewrite H; reflexivity).
        pose proof (L2 _ H1) as A1. pose proof (L2 _ H2) as A2. rewrite EW in A1. congruence.
  Qed.

  Lemma reach_runfalse : forall s, reach s -> inv_runfalse s.
  Proof.
    intros s R. induction R.
    - intros n H. destruct (init_st n) as [E|E]; rewrite E in H; discriminate.
    - apply (step_runfalse s s'); auto; [apply reach_lock|apply reach_deps|eapply step_sound]; eauto.
  Qed.

  Lemma mon_started_starts : forall once tr m m',
    mon_run C nn once m tr = Some m' -> m_started m' = rev (starts tr) ++ m_started m.
  Proof.
    intros once tr. induction tr as [|e tr IH]; intros m m' R; cbn in R.
    - inversion R; subst. reflexivity.
    - destruct (mon_step C nn once m e) as [m1|] eqn:MS; [|discriminate]. rewrite (IH m1 m' R).
      destruct e; cbn [mon_step] in MS;
        match type of MS with (if ?c then _ else _) = _ => destruct c end; inversion MS; subst; cbn [starts rev m_started]; auto.
      rewrite <- app_assoc. reflexivity.
  Qed.

  Lemma workspace_once_proof : forall s,
    reach s -> memfail C = true \/ keep C = false -> NoDup (starts (rev (trace s))).
  Proof.
    intros s R O. destruct (reach_mon s R) as (m & RUN & L).
    assert (OF : once_flag = true).
    { unfold once_flag. destruct O as [O|O]; rewrite O; auto. apply orb_true_r. }
    pose proof (k_once s m L OF) as ND. rewrite (mon_started_starts _ _ _ _ RUN) in ND.
    cbn in ND. rewrite app_nil_r in ND. apply NoDup_rev in ND. rewrite rev_involutive in ND. exact ND.
  Qed.

  Lemma traces_accepted_proof : forall s, reach s -> accept C nn once_flag (rev (trace s)) = true.
  Proof. intros s R. destruct (reach_mon s R) as (m & RUN & _). unfold accept. rewrite RUN. reflexivity. Qed.

  Lemma failure_stops_proof : forall s w,
    reach s -> keep C = false -> In (EvEnd w false) (trace s) -> running s = false.
  Proof.
    intros s w R K I. destruct (reach_mon s R) as (m & RUN & L).
    assert (F : m_failed m = true).
    { apply (mon_failed_mono _ _ _ _ w RUN). right. apply in_rev in I. exact I. }
    rewrite (k_run s m L), K, F. reflexivity.
  Qed.

  Lemma list_neq_cons : forall A (x : A) l, l = x :: l -> False.
  Proof. intros A x l. induction l; intros H; [discriminate|]. inversion H; subst. auto. Qed.

  Lemma start_needs_running_proof : forall s l s' w,
    reach s -> step s l = Some s' -> trace s' = EvStart w :: trace s -> running s = true.
  Proof.
    intros s l s' w R ST TR. apply step_sound in ST. destruct ST; simp_s; auto;
      try (exfalso; eapply list_neq_cons; eauto; fail).
    unfold Model.finish in TR. destruct (failsW C (ws C n)); cbn in TR; discriminate.
  Qed.

  Lemma terminal_all_final : forall s n, reach s -> terminal s -> nonfinal (st s n) = false.
  Proof.
    intros s n R TM. destruct (nonfinal (st s n)) eqn:E; auto.
    destruct (progress_proof s R (ex_intro _ n E)) as (l & s' & ST). rewrite (TM l) in ST. discriminate.
  Qed.

  Lemma failure_confined_proof : forall s n,
    alt_dirty -> (keep C = true \/ forall w, failsW C w = false) ->
    reach s -> running s = true /\ (st s n = Failed -> dirty n) /\
    (terminal s -> st s n <> Absent -> ~ dirty n -> st s n = Done).
  Proof.
    intros s n AD KN R. destruct (reach_clean s AD KN R) as [CR CF CW]. repeat split; auto.
    intros TM NA ND. pose proof (terminal_all_final s n R TM) as F.
    destruct (st s n) eqn:E; try discriminate; auto; try congruence. exfalso. apply ND. apply CF. exact E.
  Qed.

  Lemma done_results : forall s n,
    coherent -> reach s -> st s n = Done ->
    if virt C n then forall d, In d (deps C n) -> wasRun s (ws C d) = true /\ out s (ws C d) = spec (S d) d
    else wasRun s (ws C n) = true /\ out s (ws C n) = spec (S n) n.
  Proof.
    intros s n COH R D. pose proof (d_done s (reach_deps s R) n D) as X. destruct (virt C n) eqn:V.
    - intros d I. split; auto. apply (reach_out s COH R d (wf_deps_nv WF _ _ I)). auto.
    - split; auto. apply (reach_out s COH R n V X).
  Qed.

  Lemma schedule_independent_proof : forall s1 s2,
    coherent -> alt_dirty -> (keep C = true \/ forall w, failsW C w = false) ->
    reach s1 -> reach s2 ->
    (* values never depend on the schedule *)
    (forall n, virt C n = false -> wasRun s1 (ws C n) = true -> wasRun s2 (ws C n) = true ->
               out s1 (ws C n) = out s2 (ws C n) /\ out s1 (ws C n) = spec (S n) n) /\
    (* complete executions deliver every requested package whose cone is clean *)
    (terminal s1 -> terminal s2 -> forall r d, In r (roots C) -> ~ dirty r -> In d (deps C r) ->
       wasRun s1 (ws C d) = true /\ wasRun s2 (ws C d) = true /\
       out s1 (ws C d) = out s2 (ws C d) /\ out s1 (ws C d) = spec (S d) d).
  Proof.
    intros s1 s2 COH AD KN R1 R2. split.
    - intros n V W1 W2. rewrite (reach_out s1 COH R1 n V W1), (reach_out s2 COH R2 n V W2). auto.
    - intros T1 T2 r d Ir ND Id. destruct (wf_roots WF r Ir) as (_ & V).
      assert (NA : forall s, reach s -> st s r <> Absent).
      { intros s R. induction R.
        - cbn. assert (E : existsb (Nat.eqb r) (roots C) = true).
          { apply existsb_exists. exists r. split; auto. apply Nat.eqb_refl. }
          rewrite E. discriminate.
        - apply (tstep_nonabsent s s'); auto. eapply step_sound; eauto. }
      destruct (failure_confined_proof s1 r AD KN R1) as (_ & _ & D1).
      destruct (failure_confined_proof s2 r AD KN R2) as (_ & _ & D2).
      pose proof (done_results s1 r COH R1 (D1 T1 (NA s1 R1) ND)) as X1.
      pose proof (done_results s2 r COH R2 (D2 T2 (NA s2 R2) ND)) as X2.
      rewrite V in X1, X2. destruct (X1 d Id) as (A1 & B1). destruct (X2 d Id) as (A2 & B2).
      repeat split; auto. congruence.
  Qed.
End Sched.

(* ------------------------------------------------------------------ *)
(* the decidable check implies well-formedness *)
Lemma cfg_wf_sound : forall C nn,
  cfg_wf C nn = true -> (forall n, nn <= n -> deps C n = [] /\ alt C n = None) -> wf C nn.
Proof.
  intros C nn H BEY. unfold cfg_wf in H.
  apply andb_prop in H. destruct H as (H & J). apply andb_prop in H. destruct H as (H & RT).
  assert (NODE : forall n, n < nn ->
     forallb (fun d => (d <? n) && negb (virt C d)) (deps C n) = true /\
     match alt C n with
     | Some a => ((a <? nn) && negb (a =? n) && match alt C a with Some b => b =? n | None => false end
                  && forallb (fun d => d <? n) (deps C a)) = true
     | None => True end).
  { intros n L. pose proof (proj1 (forallb_forall _ _) H n) as X.
    assert (I : In n (seq 0 nn)) by (apply in_seq; lia). specialize (X I).
    apply andb_prop in X. destruct X as (X1 & X2). split; auto. destruct (alt C n); auto. }
  assert (DEP : forall n d, In d (deps C n) -> d < n /\ virt C d = false).
  { intros n d I. destruct (Nat.lt_ge_cases n nn) as [L|G].
    - destruct (NODE n L) as (X & _). pose proof (proj1 (forallb_forall _ _) X d I) as Y.
      apply andb_prop in Y. destruct Y as (Y1 & Y2). apply Nat.ltb_lt in Y1. apply negb_true_iff in Y2. auto.
    - destruct (BEY n G) as (E & _). rewrite E in I. contradiction. }
  assert (ALT : forall n a, alt C n = Some a ->
            a < nn /\ a <> n /\ alt C a = Some n /\ forall d, In d (deps C a) -> d < n).
  { intros n a A. destruct (Nat.lt_ge_cases n nn) as [L|G].
    - destruct (NODE n L) as (_ & X). rewrite A in X.
      apply andb_prop in X. destruct X as (X & X4). apply andb_prop in X. destruct X as (X & X3).
      apply andb_prop in X. destruct X as (X1 & X2). apply Nat.ltb_lt in X1. apply negb_true_iff in X2.
      apply Nat.eqb_neq in X2. repeat split; auto.
      + destruct (alt C a) as [b|]; [|discriminate]. apply Nat.eqb_eq in X3. subst. reflexivity.
      + intros d I. pose proof (proj1 (forallb_forall _ _) X4 d I) as Y. apply Nat.ltb_lt in Y. exact Y.
    - destruct (BEY n G) as (_ & E). rewrite E in A. discriminate. }
  constructor.
  - intros n d I. apply (DEP n d I).
  - intros n d I. apply (DEP n d I).
  - intros n a A. destruct (ALT n a A) as (_ & NE & SY & _). auto.
  - intros n a d A I. destruct (ALT n a A) as (_ & _ & _ & X). auto.
  - intros r I. pose proof (proj1 (forallb_forall _ _) RT r I) as Y. apply andb_prop in Y.
    destruct Y as (Y1 & Y2). apply Nat.ltb_lt in Y1. auto.
  - apply Nat.leb_le. exact J.
Qed.

Lemma mk_cfg_beyond : forall nodes failing rts j kp yl mf n,
  length nodes <= n ->
  deps (mk_cfg nodes failing rts j kp yl mf) n = [] /\ alt (mk_cfg nodes failing rts j kp yl mf) n = None.
Proof. intros. cbn. rewrite nth_overflow; auto. Qed.

