(* C06 — proofs: re-exports the two developments and adds the concrete
   witnesses (refutations of the old protocols, non-vacuity instances). *)
From Coq Require Import List Arith Bool NArith Lia Permutation.
Require Export BobV.C06.Model BobV.C06.ProofsSem BobV.C06.ProofsSched.
Import ListNotations.

(* ------------------------------------------------------------------ *)
(* executions given as label lists are reachable states                *)

Lemma sem_exec_reach : forall c p0 ls s s',
  sreach c p0 s -> sem_exec c s ls = Some s' -> sreach c p0 s'.
Proof.
  intros c p0 ls. induction ls as [|l ls IH]; intros s s' R E; cbn in E.
  - inversion E; subst; auto.
  - destruct (sem_step c s l) eqn:S; try discriminate.
    + apply (IH s0 s'); auto. econstructor; eauto.
    + apply (IH s s'); auto.
Qed.

Lemma exec_reach : forall T run C ls s s',
  reach T run C s -> exec T run C s ls = Some s' -> reach T run C s'.
Proof.
  intros T run C ls. induction ls as [|l ls IH]; intros s s' R E; cbn in E.
  - inversion E; subst; auto.
  - destruct (step T run C s l) eqn:S; try discriminate. apply (IH s0 s'); auto. econstructor; eauto.
Qed.

(* ------------------------------------------------------------------ *)
(* F7: one workspace (10) reached under three sandboxes = three task keys
   0,1,2; build step (Build-Id computed under the lock); node 3 = dispatcher
   task; two job tokens. *)
Definition f7_nodes : list nodeinfo :=
  [ mkNode 10 [] None false true; mkNode 10 [] None false true; mkNode 10 [] None false true;
    mkNode 99 [0; 1; 2] None true false ].
Definition f7_cfg (yl : bool) : cfg := mk_cfg f7_nodes [] [3] 2 false yl false.
Definition f7_schedule : list label := [LTake0 3; LTake0 0; LLock 0; LTake0 1; LTake0 2].

(* old protocol: the two tokens are parked at the workspace lock, the holder
   of the lock waits for a token for its Build-Id sub-task: nothing is enabled *)
Lemma progress_old_protocol_refuted_proof :
  exists s, exec tree run_tree (f7_cfg false) (init tree (f7_cfg false)) f7_schedule = Some s /\
            final_upto tree 4 s = false /\ enabled tree run_tree (f7_cfg false) 4 s = [] /\ free s = 0.
Proof. eexists. split; [vm_compute; reflexivity|]. vm_compute. auto. Qed.

(* the same prefix under the current protocol goes on to the end *)
Definition f7_schedule_new : list label :=
  [LTake0 3; LTake0 0; LLock 0; LTake0 1; LTake0 2; LTake2 0; LBid 0; LTake3 0; LFinish 0;
   LLock 1; LTake2 1; LLock 2; LTake2 2; LDeps 3; LTake1 3].

Lemma f7_new_protocol_completes :
  exists s, exec tree run_tree (f7_cfg true) (init tree (f7_cfg true)) f7_schedule_new = Some s /\
            final_upto tree 4 s = true /\ enabled tree run_tree (f7_cfg true) 4 s = [] /\
            free s = 2 /\ starts (rev (trace s)) = [10].
Proof. eexists. split; [vm_compute; reflexivity|]. vm_compute. auto. Qed.

Lemma f7_wf : forall yl, wf (f7_cfg yl) 4.
Proof.
  intros yl. apply cfg_wf_sound; [destruct yl; vm_compute; reflexivity|].
  intros n L. apply mk_cfg_beyond. exact L.
Qed.

(* ------------------------------------------------------------------ *)
(* keep-going: a failing workspace reached under two task keys is started twice *)
Definition kg_nodes : list nodeinfo :=
  [ mkNode 10 [] None false false; mkNode 10 [] None false false; mkNode 99 [0; 1] None true false ].
Definition kg_cfg (mf : bool) : cfg := mk_cfg kg_nodes [10] [2] 2 true true mf.
Definition kg_schedule : list label :=
  [LTake0 2; LTake0 0; LLock 0; LTake2 0; LTake0 1; LFinish 0; LLock 1; LTake2 1].

Lemma workspace_once_keepgoing_refuted_proof :
  exists s, exec tree run_tree (kg_cfg false) (init tree (kg_cfg false)) kg_schedule = Some s /\
            starts (rev (trace s)) = [10; 10].
Proof. eexists. split; [vm_compute; reflexivity|]. vm_compute. auto. Qed.

Lemma kg_memfail_once :
  exists s, exec tree run_tree (kg_cfg true) (init tree (kg_cfg true)) kg_schedule = Some s /\
            starts (rev (trace s)) = [10] /\ st s 1 = Failed.
Proof. eexists. split; [vm_compute; reflexivity|]. vm_compute. auto. Qed.

(* ------------------------------------------------------------------ *)
(* a diamond: d(0) <- b(1), c(2) <- a(3), dispatcher 4; two complete
   executions with different schedules and job counts *)
Definition dia_nodes : list nodeinfo :=
  [ mkNode 10 [] None false false; mkNode 11 [0] None false true; mkNode 12 [0] None false false;
    mkNode 13 [1; 2] None false true; mkNode 99 [3] None true false ].
Definition dia_cfg (j : nat) : cfg := mk_cfg dia_nodes [] [4] j false true false.

Definition dia_seq : list label :=       (* -j1: strictly one after the other *)
  [LTake0 4; LTake0 3; LTake0 1; LTake0 0; LLock 0; LTake2 0; LFinish 0; LTake0 2; LDeps 1; LTake1 1; LLock 1;
   LTake2 1; LBid 1; LTake3 1; LFinish 1; LLock 2; LTake2 2; LFinish 2; LDeps 3; LTake1 3; LLock 3; LTake2 3;
   LBid 3; LTake3 3; LFinish 3; LDeps 4; LTake1 4].
Definition dia_par : list label :=       (* -j2: b and c run concurrently, c finishes first *)
  [LTake0 4; LTake0 3; LTake0 2; LTake0 1; LTake0 0; LLock 0; LTake2 0; LFinish 0; LDeps 2; LDeps 1; LTake1 2;
   LTake1 1; LLock 2; LLock 1; LTake2 1; LTake2 2; LBid 1; LFinish 2; LTake3 1; LFinish 1; LDeps 3; LTake1 3;
   LLock 3; LTake2 3; LBid 3; LTake3 3; LFinish 3; LDeps 4; LTake1 4].

Lemma dia_two_schedules :
  exists s1 s2,
    exec tree run_tree (dia_cfg 1) (init tree (dia_cfg 1)) dia_seq = Some s1 /\
    exec tree run_tree (dia_cfg 2) (init tree (dia_cfg 2)) dia_par = Some s2 /\
    final_upto tree 5 s1 = true /\ final_upto tree 5 s2 = true /\
    enabled tree run_tree (dia_cfg 1) 5 s1 = [] /\ enabled tree run_tree (dia_cfg 2) 5 s2 = [] /\
    rev (trace s1) <> rev (trace s2) /\
    out s1 13 = out s2 13 /\ out s1 13 = spec tree run_tree (dia_cfg 1) 4 3 /\
    out s1 13 = Some (Node 13 [Some (Node 11 [Some (Node 10 [])]); Some (Node 12 [Some (Node 10 [])])]).
Proof.
  eexists. eexists. split; [vm_compute; reflexivity|]. split; [vm_compute; reflexivity|].
  vm_compute. repeat split; auto. discriminate.
Qed.

Lemma dia_wf : wf (dia_cfg 1) 5 /\ wf (dia_cfg 2) 5.
Proof.
  split; (apply cfg_wf_sound; [vm_compute; reflexivity|]; intros n L; apply mk_cfg_beyond; exact L).
Qed.

Lemma kg_wf : forall mf, wf (kg_cfg mf) 3.
Proof.
  intros mf. apply cfg_wf_sound; [destruct mf; vm_compute; reflexivity|].
  intros n L. apply mk_cfg_beyond. exact L.
Qed.

(* ------------------------------------------------------------------ *)
(* semaphore instances *)
Definition new_sem (r : bool) : semcfg := {| recursive := r; at_grant := true |}.

(* two tokens 7,8; three tasks; the third blocks, is handed the slot of the
   first, a child process borrows and returns a token *)
Definition sem_demo : list slabel :=
  [SAcquire; SAcquire; SAcquire; SRelease; SWake; SRelease; SExtTake; SExtPut 0; SRelease].

Lemma sem_demo_run :
  exists s, sem_exec (new_sem false) (sem_init [7%N; 8%N]) sem_demo = Some s /\
            pipe s = [8%N; 7%N] /\ tokens s = [] /\ acquired s = 0 /\ inside s = 0 /\ reader s = false.
Proof. eexists. split; [vm_compute; reflexivity|]. vm_compute. auto 10. Qed.

(* the schedule that broke the old accounting, under the current one *)
Lemma extjs_schedule_new_protocol :
  exists s, sem_exec (new_sem true) (sem_init []) extjs_schedule = Some s /\
            inside s = 1 /\ blocked s = 1 /\ acquired s = 1 /\ tokens s = [].
Proof. eexists. split; [vm_compute; reflexivity|]. vm_compute. auto. Qed.

(* ------------------------------------------------------------------ *)
(* statements in the form used by Properties.v *)
Lemma jobs_bounded_le : forall T run C nn,
  yieldlock C = true -> wf C nn ->
  forall (s : state T) ns, reach T run C s -> NoDup ns -> (forall n, In n ns -> st s n = Running) ->
  length ns + free s <= jobs C.
Proof.
  intros T run C nn YL WF s ns R ND ALL.
  destruct (jobs_bounded_proof T run C nn YL WF s ns R ND ALL); lia.
Qed.

Lemma workspace_once_all : forall T run C nn,
  yieldlock C = true -> wf C nn ->
  forall (s : state T), reach T run C s ->
  (forall n, st s n = Running -> wasRun s (ws C n) = false) /\
  (forall l s' w, step T run C s l = Some s' -> wasRun s w = true -> wasRun s' w = true) /\
  (memfail C = true \/ keep C = false -> NoDup (starts (rev (trace s)))).
Proof.
  intros T run C nn YL WF s R. split; [|split].
  - apply (reach_runfalse T run C nn YL WF s R).
  - intros l s' w ST. apply (tstep_wasRun_mono T run C s s' w). eapply step_sound; eauto.
  - apply (workspace_once_proof T run C nn YL WF s R).
Qed.

Lemma failure_stops_all : forall T run C nn,
  yieldlock C = true -> wf C nn -> keep C = false ->
  forall (s : state T) w, reach T run C s -> In (EvEnd w false) (trace s) ->
  running s = false /\
  forall l s' w', step T run C s l = Some s' -> trace s' <> EvStart w' :: trace s.
Proof.
  intros T run C nn YL WF K s w R I.
  pose proof (failure_stops_proof T run C nn YL WF s w R K I) as RF. split; auto.
  intros l s' w' ST TR. pose proof (start_needs_running_proof T run C YL s l s' w' R ST TR). congruence.
Qed.

