(* C06 (a) — JobServerSemaphore: invariants of the transition system. *)
From Coq Require Import List Arith Bool NArith Lia Permutation.
Require Import BobV.C06.Model.
Import ListNotations.

Inductive sreach (c : semcfg) (p0 : list N) : sem -> Prop :=
| sr_init : sreach c p0 (sem_init p0)
| sr_step : forall s l s', sreach c p0 s -> sem_step c s l = SOk s' -> sreach c p0 s'.

(* slots that may be in use: tokens held, plus the implicit one in recursive mode *)
Definition implicit (c : semcfg) : nat := if recursive c then 1 else 0.

Record sinv (c : semcfg) (p0 : list N) (s : sem) : Prop := {
  i_perm : Permutation (pipe s ++ tokens s ++ ext s) p0;
  i_blocked : blocked s = waiters s + grants s;
  i_reader : reader s = negb (waiters s =? 0);
  i_acct : acquired s = inside s + grants s;
  i_tok : if recursive c
          then (acquired s = 0 -> tokens s = []) /\ (acquired s > 0 -> length (tokens s) + 1 = acquired s)
               /\ (waiters s > 0 -> acquired s > 0)
          else length (tokens s) = acquired s
}.

Lemma cb_loop_spec : forall w p t g a,
  exists k w' p' t',
    cb_loop w p t g a true = (w', p', t', g + k, a + k) /\
    w = w' + k /\ length t' = length t + k /\
    Permutation (p ++ t) (p' ++ t') /\ (k = 0 -> w = 0 \/ p = []) /\ (t' = [] -> k = 0).
Proof.
  induction w as [|w IH]; intros p t g a.
  - exists 0, 0, p, t. cbn. repeat split; auto; try lia. rewrite !Nat.add_0_r. reflexivity.
  - destruct p as [|b p].
    + exists 0, (S w), [], t. cbn. repeat split; auto; try lia. rewrite !Nat.add_0_r. reflexivity.
    + destruct (IH p (t ++ [b]) (S g) (S a)) as (k & w' & p' & t' & E & Hw & Hl & Hp & _ & Ht).
      exists (S k), w', p', t'. cbn [cb_loop]. rewrite E.
      replace (S g + k) with (g + S k) by lia. replace (S a + k) with (a + S k) by lia.
      repeat split; try lia.
      * rewrite app_length in Hl. cbn in Hl. lia.
      * etransitivity; [|exact Hp]. cbn. rewrite app_assoc.
        apply Permutation_cons_app. rewrite app_nil_r. reflexivity.
      * intros E'. subst t'. rewrite app_length in Hl. cbn in Hl. lia.
Qed.

Lemma rev_cons_inv : forall (l : list N) b r, rev l = b :: r -> l = rev r ++ [b].
Proof. intros l b r H. rewrite <- (rev_involutive l), H. reflexivity. Qed.

Lemma perm_remove_nth : forall (l : list N) i b,
  nth_error l i = Some b -> Permutation l (b :: remove_nth i l).
Proof.
  induction l as [|x l IH]; intros [|i] b H; cbn in *; try discriminate.
  - inversion H; subst. reflexivity.
  - etransitivity; [apply perm_skip, (IH _ _ H)|]. apply perm_swap.
Qed.

Lemma sinv_init : forall c p0, sinv c p0 (sem_init p0).
Proof.
  intros c p0. constructor; cbn; auto.
  - rewrite app_nil_r. reflexivity.
  - destruct (recursive c); auto. repeat split; auto; lia.
Qed.

Lemma pm1 : forall (b : N) x y z, Permutation (x ++ (y ++ [b]) ++ z) ((b :: x) ++ y ++ z).
Proof. intros. rewrite <- app_assoc. cbn. rewrite !app_assoc. symmetry. apply Permutation_middle. Qed.
Lemma pm2 : forall (b : N) x y z, Permutation ((x ++ [b]) ++ y ++ z) (x ++ (y ++ [b]) ++ z).
Proof. intros. rewrite <- !app_assoc. apply Permutation_app_head. cbn. apply Permutation_middle. Qed.
Lemma pm3 : forall (b : N) x y z, Permutation (x ++ y ++ z ++ [b]) ((b :: x) ++ y ++ z).
Proof. intros. rewrite !app_assoc. etransitivity; [apply Permutation_app_comm|]. cbn. rewrite <- !app_assoc. reflexivity. Qed.
Lemma pm4 : forall (b : N) x y z z', Permutation z (b :: z') -> Permutation ((x ++ [b]) ++ y ++ z') (x ++ y ++ z).
Proof. intros. rewrite <- !app_assoc. apply Permutation_app_head. cbn.
  etransitivity; [apply Permutation_middle|]. apply Permutation_app_head. symmetry. exact H. Qed.

Lemma cb_loop_perm : forall w p t g a atg,
  let '(w', p', t', g', a') := cb_loop w p t g a atg in Permutation (p' ++ t') (p ++ t).
Proof.
  induction w as [|w IH]; intros p t g a atg; cbn; [reflexivity|]. destruct p as [|b p]; [reflexivity|].
  specialize (IH p (t ++ [b]) (S g) (if atg then S a else a) atg).
  destruct (cb_loop w p (t ++ [b]) (S g) (if atg then S a else a) atg) as [[[[w' p'] t'] g'] a'].
  etransitivity; [exact IH|]. pose proof (pm1 b p t []) as Q. rewrite !app_nil_r in Q. exact Q.
Qed.

(* conservation holds for both accounting protocols: bytes only move *)
Lemma perm_step : forall c p0 s l s',
  Permutation (pipe s ++ tokens s ++ ext s) p0 -> sem_step c s l = SOk s' ->
  Permutation (pipe s' ++ tokens s' ++ ext s') p0.
Proof.
  intros c p0 s l s' Hp H. destruct l; cbn [sem_step] in H.
  - destruct (recursive c && (acquired s =? 0)).
    + inversion H; subst; exact Hp.
    + destruct (pipe s) as [|b p] eqn:P; inversion H; subst; clear H; cbn [pipe tokens ext]; auto.
      etransitivity; [|exact Hp]. apply pm1.
  - destruct (reader s); [|discriminate].
    pose proof (cb_loop_perm (waiters s) (pipe s) (tokens s) (grants s) (acquired s) (at_grant c)) as G.
    destruct (cb_loop (waiters s) (pipe s) (tokens s) (grants s) (acquired s) (at_grant c)) as [[[[w' p'] t'] g'] a'].
    inversion H; subst; clear H. cbn [pipe tokens ext]. etransitivity; [|exact Hp].
    rewrite !app_assoc. apply Permutation_app_tail. exact G.
  - destruct (grants s); [discriminate|]. destruct (blocked s); [discriminate|]. inversion H; subst; exact Hp.
  - destruct (acquired s); [discriminate|]. destruct (inside s); [discriminate|]. destruct (waiters s).
    + destruct (negb (recursive c) || _).
      * destruct (rev (tokens s)) as [|b r] eqn:RV; [discriminate|]. apply rev_cons_inv in RV.
        inversion H; subst; clear H. cbn [pipe tokens ext]. etransitivity; [|exact Hp]. rewrite RV. apply pm2.
      * inversion H; subst; exact Hp.
    + inversion H; subst; exact Hp.
  - destruct (pipe s) as [|b p] eqn:P; [discriminate|]. inversion H; subst; clear H. cbn [pipe tokens ext].
    etransitivity; [|exact Hp]. apply pm3.
  - destruct (nth_error (ext s) i) as [b|] eqn:E; [|discriminate]. inversion H; subst; clear H. cbn [pipe tokens ext].
    etransitivity; [|exact Hp]. apply pm4. apply (perm_remove_nth _ _ _ E).
Qed.

Lemma sinv_step : forall c p0 s l s',
  at_grant c = true -> sinv c p0 s -> sem_step c s l = SOk s' -> sinv c p0 s'.
Proof.
  intros c p0 s l s' AG [Hp Hb Hr Ha Ht] H.
  pose proof (perm_step c p0 s l s' Hp H) as Hp'.
  destruct l; cbn [sem_step] in H.
  - (* acquire *)
    destruct (recursive c) eqn:R; cbn [andb] in H.
    + destruct Ht as (T0 & T1 & T2). destruct (acquired s =? 0) eqn:E0.
      * apply Nat.eqb_eq in E0. inversion H; subst; clear H.
        constructor; [exact Hp'|cbn; lia|cbn; auto|cbn; lia|].
        rewrite R. cbn. rewrite (T0 E0). cbn. repeat split; intros; try lia; auto.
      * apply Nat.eqb_neq in E0.
        destruct (pipe s) as [|b p] eqn:P; inversion H; subst; clear H.
        -- constructor; [exact Hp'|cbn; lia|cbn; auto|cbn; lia|].
           rewrite R. cbn. repeat split; intros; try lia.
        -- constructor; [exact Hp'|cbn; lia|cbn; auto|cbn; lia|].
           rewrite R. cbn. rewrite app_length. cbn. repeat split; intros; try lia.
    + destruct (pipe s) as [|b p] eqn:P; inversion H; subst; clear H.
      * constructor; [exact Hp'|cbn; lia|cbn; auto|cbn; lia|]. rewrite R. cbn. exact Ht.
      * constructor; [exact Hp'|cbn; lia|cbn; auto|cbn; lia|]. rewrite R. cbn. rewrite app_length. cbn. lia.
  - (* callback *)
    destruct (reader s) eqn:RD; [|discriminate]. rewrite AG in H.
    destruct (cb_loop_spec (waiters s) (pipe s) (tokens s) (grants s) (acquired s))
      as (k & w' & p' & t' & E & Hw & Hl & Hpp & Hk0 & Ht0).
    rewrite E in H. inversion H; subst; clear H.
    constructor; [exact Hp'|cbn; lia|cbn; auto|cbn; lia|]. cbn.
    destruct (recursive c).
    + destruct Ht as (T0 & T1 & T2). repeat split; intros.
      * assert (k = 0) by lia. subst k. assert (A0 : acquired s = 0) by lia.
        destruct t'; auto. rewrite (T0 A0) in Hl. cbn in Hl. lia.
      * destruct (Nat.eq_dec k 0) as [K|K].
        -- subst k. rewrite Hl. assert (A0 : acquired s > 0) by lia. specialize (T1 A0). lia.
        -- assert (W0 : waiters s > 0) by lia. specialize (T2 W0). specialize (T1 T2). lia.
      * assert (W0 : waiters s > 0) by lia. specialize (T2 W0). lia.
    + lia.
  - (* wake *)
    destruct (grants s) as [|g] eqn:G; [discriminate|]. destruct (blocked s) as [|b] eqn:B; [discriminate|].
    rewrite AG in H. inversion H; subst; clear H.
    constructor; [exact Hp'|cbn; lia|cbn; auto|cbn; lia|cbn; exact Ht].
  - (* release *)
    destruct (acquired s) as [|a'] eqn:A; [discriminate|].
    destruct (inside s) as [|i'] eqn:I; [discriminate|].
    destruct (waiters s) as [|w'] eqn:W.
    + destruct (negb (recursive c) || (1 <? S a')) eqn:Cnd.
      * destruct (rev (tokens s)) as [|b r] eqn:RV; [discriminate|].
        apply rev_cons_inv in RV. inversion H; subst; clear H.
        constructor; [exact Hp'|cbn; lia|cbn; auto|cbn; lia|]. cbn.
        rewrite RV, app_length in Ht. cbn in Ht.
        destruct (recursive c); cbn [negb orb] in Cnd.
        -- apply Nat.ltb_lt in Cnd. destruct Ht as (T0 & T1 & T2). assert (A0 : S a' > 0) by lia. specialize (T1 A0).
           repeat split; intros; try lia.
        -- lia.
      * inversion H; subst; clear H. destruct (recursive c) eqn:R; cbn [negb orb] in Cnd; [|discriminate].
        apply Nat.ltb_ge in Cnd. assert (a' = 0) by lia. subst a'.
        constructor; [exact Hp'|cbn; lia|cbn; auto|cbn; lia|]. cbn. rewrite R. destruct Ht as (T0 & T1 & T2).
        assert (A0 : 1 > 0) by lia. specialize (T1 A0). repeat split; intros; try lia.
        destruct (tokens s); auto. cbn in T1. lia.
    + rewrite AG in H. inversion H; subst; clear H.
      constructor; [exact Hp'|cbn; lia| |cbn; lia|].
      * cbn. rewrite Hr. cbn. rewrite andb_true_r. reflexivity.
      * cbn. destruct (recursive c); auto. destruct Ht as (T0 & T1 & T2). repeat split; intros; try lia; auto.
  - (* ext take *)
    destruct (pipe s) as [|b p] eqn:P; [discriminate|]. inversion H; subst; clear H.
    constructor; [exact Hp'|cbn; lia|cbn; auto|cbn; lia|cbn; exact Ht].
  - (* ext put *)
    destruct (nth_error (ext s) i) as [b|] eqn:E; [|discriminate]. inversion H; subst; clear H.
    constructor; [exact Hp'|cbn; lia|cbn; auto|cbn; lia|cbn; exact Ht].
Qed.

Lemma sreach_inv : forall c p0 s, at_grant c = true -> sreach c p0 s -> sinv c p0 s.
Proof.
  intros c p0 s AG R. induction R.
  - apply sinv_init.
  - eapply sinv_step; eauto.
Qed.

(* ---- the named lemmas *)

Lemma tokens_conserved_proof : forall c p0 s,
  sreach c p0 s -> Permutation (pipe s ++ tokens s ++ ext s) p0.
Proof.
  intros c p0 s R. induction R.
  - cbn. rewrite app_nil_r. reflexivity.
  - eapply perm_step; eauto.
Qed.

Lemma acquired_bounded_proof : forall c p0 s,
  at_grant c = true -> sreach c p0 s ->
  inside s + grants s = acquired s /\
  acquired s <= length (tokens s) + implicit c /\
  length (tokens s) <= length p0.
Proof.
  intros c p0 s AG R. destruct (sreach_inv _ _ _ AG R) as [Hp Hb Hr Ha Ht].
  split; [lia|]. split.
  - unfold implicit. destruct (recursive c).
    + destruct Ht as (T0 & T1 & T2). destruct (acquired s); [lia|]. assert (S n > 0) by lia. specialize (T1 H). lia.
    + lia.
  - apply Permutation_length in Hp. rewrite !app_length in Hp. lia.
Qed.

Lemma quiescent_all_returned_proof : forall c p0 s,
  at_grant c = true -> sreach c p0 s -> inside s = 0 -> grants s = 0 ->
  acquired s = 0 /\ tokens s = [] /\ Permutation (pipe s ++ ext s) p0.
Proof.
  intros c p0 s AG R I G. destruct (sreach_inv _ _ _ AG R) as [Hp Hb Hr Ha Ht].
  assert (A : acquired s = 0) by lia.
  assert (T : tokens s = []).
  { destruct (recursive c).
    - destruct Ht as (T0 & _). auto.
    - destruct (tokens s); auto. cbn in Ht. lia. }
  repeat split; auto. rewrite T in Hp. exact Hp.
Qed.

Lemma release_without_acquire_rejected_proof : forall c s,
  acquired s = 0 -> sem_step c s SRelease = SRejected.
Proof. intros c s A. cbn. rewrite A. reflexivity. Qed.

Lemma release_never_crashes_proof : forall c p0 s,
  at_grant c = true -> sreach c p0 s -> sem_step c s SRelease <> SCrash.
Proof.
  intros c p0 s AG R. destruct (sreach_inv _ _ _ AG R) as [Hp Hb Hr Ha Ht].
  cbn [sem_step]. destruct (acquired s) as [|a'] eqn:A; [discriminate|].
  destruct (inside s); [discriminate|]. destruct (waiters s); [|discriminate].
  destruct (negb (recursive c) || (1 <? S a')) eqn:Cnd; [|discriminate].
  destruct (rev (tokens s)) as [|b r] eqn:RV; [|discriminate]. exfalso.
  assert (tokens s = []) by (rewrite <- (rev_involutive (tokens s)), RV; reflexivity).
  rewrite H in Ht. cbn in Ht. destruct (recursive c); cbn [negb orb] in Cnd.
  - apply Nat.ltb_lt in Cnd. destruct Ht as (T0 & T1 & T2). assert (S a' > 0) by lia. specialize (T1 H0). lia.
  - lia.
Qed.

(* no lost wake-up: every blocked task is either already granted a slot (SWake
   is enabled) or counted as a waiter with the pipe reader registered, and then
   any token that arrives in the pipe is turned into a grant by the callback *)
Lemma no_lost_wakeup_proof : forall c p0 s,
  at_grant c = true -> sreach c p0 s ->
  blocked s = waiters s + grants s /\
  (waiters s > 0 -> reader s = true /\
     (pipe s <> [] -> exists s', sem_step c s SCallback = SOk s' /\ grants s' > grants s /\ blocked s' = blocked s)) /\
  (grants s > 0 -> exists s', sem_step c s SWake = SOk s' /\ inside s' = S (inside s)).
Proof.
  intros c p0 s AG R. destruct (sreach_inv _ _ _ AG R) as [Hp Hb Hr Ha Ht].
  split; [exact Hb|]. split.
  - intros W. assert (RD : reader s = true).
    { rewrite Hr. destruct (waiters s); [lia|reflexivity]. }
    split; [exact RD|]. intros P. cbn. rewrite RD, AG.
    destruct (cb_loop_spec (waiters s) (pipe s) (tokens s) (grants s) (acquired s))
      as (k & w' & p' & t' & E & Hw & Hl & Hpp & Hk0 & Ht0).
    rewrite E. eexists. split; [reflexivity|]. cbn. split; [|reflexivity].
    destruct (Nat.eq_dec k 0); [|lia]. destruct (Hk0 e); [lia|contradiction].
  - intros G. cbn. destruct (grants s) as [|g]; [lia|]. destruct (blocked s) as [|b]; [lia|].
    eexists. split; [reflexivity|]. reflexivity.
Qed.

(* ---- why commit 0a01ba7 was needed: with the slot accounted only when the
   waiter resumes, a recursive semaphore hands its implicit slot out twice *)
Definition old_sem : semcfg := {| recursive := true; at_grant := false |}.
Definition extjs_schedule : list slabel := [SAcquire; SAcquire; SRelease; SAcquire; SWake].

Lemma acquired_accounting_old_protocol_refuted_proof :
  exists s, sem_exec old_sem (sem_init []) extjs_schedule = Some s /\
            inside s = 2 /\ tokens s = [] /\ pipe s = [] /\
            sem_step old_sem s SRelease = SCrash.
Proof. eexists. split; [vm_compute; reflexivity|]. vm_compute. auto. Qed.
