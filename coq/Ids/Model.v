(* Ids — model of the Variant-Id computation: pym/bob/input.py
   DigestHasher (83-117) and CoreStep.getDigest (938-975), and of the
   Build-Id digest pym/bob/intermediate.py StepIR.getDigestCoro.
   Definitions only. *)
From Coq Require Import List NArith Bool.
Import ListNotations.
Open Scope N_scope.

Definition str := list N.     (* code points *)
Definition bytes := list N.

(* ---- primitive encoders *)
Definition le32 (n : N) : bytes :=     (* struct.pack("<I", n) *)
  [n mod 256; (n / 256) mod 256; (n / 65536) mod 256; (n / 16777216) mod 256].

Definition u8 (c : N) : bytes :=       (* one code point, UTF-8 *)
  if c <? 128 then [c]
  else if c <? 2048 then [192 + c / 64; 128 + c mod 64]
  else if c <? 65536 then [224 + c / 4096; 128 + (c / 64) mod 64; 128 + c mod 64]
  else [240 + c / 262144; 128 + (c / 4096) mod 64; 128 + (c / 64) mod 64; 128 + c mod 64].

Definition utf8 (s : str) : bytes := flat_map u8 s.
Definition slen (s : str) : N := N.of_nat (length s).
Definition llen {A} (l : list A) : N := N.of_nat (length l).

(* ---- ordering (Python str comparison: code-point lexicographic) *)
Fixpoint str_ltb (a b : str) : bool :=
  match a, b with
  | _, [] => false
  | [], _ :: _ => true
  | x :: a', y :: b' => if x <? y then true else if y <? x then false else str_ltb a' b'
  end.

Fixpoint insert_by {A} (key : A -> str) (x : A) (l : list A) : list A :=
  match l with
  | [] => [x]
  | y :: r => if str_ltb (key y) (key x) then y :: insert_by key x r else x :: l
  end.

Definition sort_by {A} (key : A -> str) (l : list A) : list A :=
  fold_right (insert_by key) [] l.

(* ---- declared inputs of a step *)
Record tool := { t_vid : bytes; t_path : str; t_libs : list str }.

Record stepin := {
  si_fp_sandbox : option bytes;        (* full Variant-Id of the sandbox iff fingerprinted and a sandbox is used *)
  si_script : str;                     (* digest script; [] = none *)
  si_tools : list (str * tool);        (* used tools by name, any order *)
  si_env : list (str * str);           (* digestEnv, any order, keys unique *)
  si_args : list bytes                 (* Variant-Ids (20 or 40 bytes) of the valid arguments, in order *)
}.

Definition zeros20 : bytes := repeat 0 20.

Definition enc_lstr (s : str) : bytes := le32 (slen s) ++ utf8 s.

Definition enc_tool (t : tool) : bytes :=
  firstn 20 (t_vid t) ++ le32 (slen (t_path t)) ++ le32 (llen (t_libs t)) ++ utf8 (t_path t)
  ++ flat_map enc_lstr (t_libs t).

Definition enc_envent (kv : str * str) : bytes :=
  le32 (slen (fst kv)) ++ le32 (slen (snd kv)) ++ utf8 (fst kv ++ snd kv).

Definition enc_script (s : str) : bytes :=
  match s with [] => [0; 0; 0; 0] | _ => enc_lstr s end.

Definition sorted_tools (s : stepin) : list tool := map snd (sort_by fst (si_tools s)).
Definition sorted_env (s : stepin) : list (str * str) := sort_by fst (si_env s).

Definition enc_recipes (s : stepin) : bytes :=
  zeros20 ++ enc_script (si_script s)
  ++ le32 (llen (si_tools s)) ++ flat_map enc_tool (sorted_tools s)
  ++ le32 (llen (si_env s)) ++ flat_map enc_envent (sorted_env s)
  ++ le32 (llen (si_args s)) ++ flat_map (firstn 20) (si_args s).

Definition enc_host (s : stepin) : bytes :=
  (match si_fp_sandbox s with Some v => v | None => [] end) ++ flat_map (skipn 20) (si_args s).

Definition variant_id (H : bytes -> bytes) (s : stepin) : bytes :=
  H (enc_recipes s) ++ (match enc_host s with [] => [] | h => H h end).

(* what the recipe part determines *)
Definition norm_tool (t : tool) : bytes * str * list str := (firstn 20 (t_vid t), t_path t, t_libs t).
Definition core (s : stepin) :=
  (si_script s, map norm_tool (sorted_tools s), sorted_env s, map (firstn 20) (si_args s)).

(* ---- Build-Id: StepIR.getDigestCoro(calculate, forceSandbox=False, hasher=DigestHasher,
        fingerprint, platform, relaxTools=True) *)
Record bidin := {
  bi_sandbox : option bytes;           (* build-id of the sandbox step iff a sandbox is used *)
  bi_script : str;
  bi_tools : list (str * (tool * bool));   (* tool, weak? ; t_vid is here the tool step's build-id *)
  bi_env : list (str * str);
  bi_args : list bytes;                (* build-ids of the valid arguments *)
  bi_platform : bytes;
  bi_fingerprint : bytes
}.

Definition enc_btool (nt : str * (tool * bool)) : bytes :=
  let '(name, (t, weak)) := nt in
  if weak then utf8 name else enc_tool t.

Definition bid_recipes (s : bidin) : bytes :=
  bi_platform s ++ zeros20 ++ enc_script (bi_script s)
  ++ le32 (llen (bi_tools s)) ++ flat_map enc_btool (sort_by fst (bi_tools s))
  ++ le32 (llen (bi_env s)) ++ flat_map enc_envent (sort_by fst (bi_env s))
  ++ le32 (llen (bi_args s)) ++ flat_map (firstn 20) (bi_args s).

Definition bid_host (s : bidin) : bytes :=
  bi_fingerprint s ++ flat_map (skipn 20) (bi_args s).

Definition build_id (H : bytes -> bytes) (s : bidin) : bytes :=
  H (bid_recipes s) ++ (match bid_host s with [] => [] | h => H h end).
