(* C02 — property theorems (statements only; proofs in Proofs.v). *)
From Coq Require Import List NArith Bool Permutation.
Require Import BobV.Common.Sha1 BobV.Ids.Model BobV.Ids.Proofs.
Import ListNotations.
Open Scope N_scope.

(* Strings are hashed as <character count><UTF-8 bytes>; this is uniquely
   decodable although the prefix counts characters and not bytes. *)
Theorem charcount_prefix_uniquely_decodable : forall s r,
  wf_str s -> p_lstr (enc_lstr s ++ r) = Some (s, r).
Proof. exact p_lstr_rt. Qed.

(* The recipe part of the digest determines script, tools (provider variant,
   path, libraries; in name order), the non-weak variables with their values
   and the sequence of input variants: it can be decoded. *)
Theorem enc_recipes_decodes : forall s, wf_stepin s -> dec_recipes (enc_recipes s) = Some (core s).
Proof. exact dec_enc_recipes. Qed.

Theorem enc_recipes_injective : forall a b,
  wf_stepin a -> wf_stepin b -> enc_recipes a = enc_recipes b -> core a = core b.
Proof. exact enc_recipes_injective_proof. Qed.

(* "only if": equal Variant-Ids mean equal executed/consumed content and equal
   host stream — or an explicit SHA-1 collision among the hashed blobs. *)
Theorem variant_id_only_if : forall (H : bytes -> bytes),
  (forall x, length (H x) = 20%nat) -> forall a b,
  wf_stepin a -> wf_stepin b -> variant_id H a = variant_id H b ->
  (core a = core b \/ collision H (enc_recipes a) (enc_recipes b)) /\
  (enc_host a = enc_host b \/ collision H (enc_host a) (enc_host b)).
Proof. exact variant_id_eq_proof. Qed.

(* "if": the id is a function of that content; nothing else enters. *)
Theorem variant_id_if : forall (H : bytes -> bytes) a b,
  core a = core b -> enc_host a = enc_host b -> variant_id H a = variant_id H b.
Proof. exact variant_id_of_core_proof. Qed.

(* Full statement "equal ids => equal sequence of input step variants" is
   FALSE of the faithful model (finding F5): host parts are concatenated
   without position. *)
Theorem variant_id_separates_arg_sequences_refuted :
  exists a b, wf_stepin a /\ wf_stepin b /\ si_args a <> si_args b /\
              forall H, variant_id H a = variant_id H b.
Proof. exact f5_refuted_proof. Qed.

(* ... it holds when no argument carries a host part (no fingerprinted input) *)
Theorem variant_id_separates_arg_sequences_partial : forall (H : bytes -> bytes),
  (forall x, length (H x) = 20%nat) -> forall a b,
  wf_stepin a -> wf_stepin b ->
  Forall (fun x => length x = 20%nat) (si_args a) -> Forall (fun x => length x = 20%nat) (si_args b) ->
  variant_id H a = variant_id H b ->
  si_args a = si_args b \/ collision H (enc_recipes a) (enc_recipes b).
Proof. exact variant_id_args_partial_proof. Qed.

Example variant_id_nonvacuous :
  wf_stepin f5_a /\ length (variant_id sha1 f5_a) = 40%nat /\
  variant_id sha1 {| si_fp_sandbox := None; si_script := [120]; si_tools := []; si_env := []; si_args := [] |}
  <> variant_id sha1 {| si_fp_sandbox := None; si_script := [121]; si_tools := []; si_env := []; si_args := [] |}.
Proof. split; [exact wf_f5_a|]. split; vm_compute; [reflexivity|discriminate]. Qed.
