(* Ids/ClassesProofs — proofs about class linearisation and the merge of
   class contents (Ids/Classes.v). *)
From Coq Require Import List NArith Bool Lia Arith.
Require Import BobV.Ids.Model BobV.Ids.Proofs BobV.Ids.Classes.
Import ListNotations.
Open Scope N_scope.

(* ------------------------------------------------------------------ strings, membership *)
Lemma str_eqb_eq a : forall b, str_eqb a b = true <-> a = b.
Proof.
  induction a as [|x a IH]; intros [|y b]; cbn; split; intros H; try discriminate; auto.
  - apply andb_true_iff in H. destruct H as [H1 H2]. apply N.eqb_eq in H1. apply IH in H2. congruence.
  - inversion H; subst. apply andb_true_iff. split. apply N.eqb_refl. now apply IH.
Qed.

Lemma str_eqb_refl a : str_eqb a a = true.
Proof. now apply str_eqb_eq. Qed.

Lemma str_eqb_neq a b : str_eqb a b = false <-> a <> b.
Proof.
  split.
  - intros H E. apply str_eqb_eq in E. congruence.
  - intros H. destruct (str_eqb a b) eqn:E; auto. apply str_eqb_eq in E. contradiction.
Qed.

Lemma mem_In x l : mem x l = true <-> In x l.
Proof.
  unfold mem. rewrite existsb_exists. split.
  - intros [y [Hy E]]. apply str_eqb_eq in E. now subst.
  - intros H. exists x. split; auto. apply str_eqb_refl.
Qed.

Lemma mem_nIn x l : mem x l = false <-> ~ In x l.
Proof.
  split.
  - intros H I. apply mem_In in I. congruence.
  - intros H. destruct (mem x l) eqn:E; auto. apply mem_In in E. contradiction.
Qed.

Lemma lookup_In t n c : lookup t n = Some c -> In n (map fst t).
Proof.
  induction t as [|[k c'] t IH]; cbn; intros H; try discriminate.
  destruct (str_eqb k n) eqn:E.
  - left. now apply str_eqb_eq.
  - right. auto.
Qed.

Lemma defined_true t n : defined t n = true <-> lookup t n <> None.
Proof. unfold defined. destruct (lookup t n); split; intros; congruence. Qed.

Lemma all_defined_spec t l : all_defined t l = true <-> forall m, In m l -> lookup t m <> None.
Proof.
  unfold all_defined. rewrite forallb_forall. split; intros H m Hm; apply defined_true; auto.
Qed.

Lemma NoDup_app_snoc {A} (l : list A) n : NoDup l -> ~ In n l -> NoDup (l ++ [n]).
Proof.
  induction l as [|x l IH]; cbn; intros Hd Hn.
  - constructor; [intros []|constructor].
  - inversion Hd; subst. constructor.
    + intros Hi. apply in_app_or in Hi. destruct Hi as [Hi|[->|[]]]; auto.
    + apply IH; auto.
Qed.

(* ------------------------------------------------------------------ reachability *)
Lemma reach_trans t a b c : reach t a b -> reach t b c -> reach t a c.
Proof. intros H1 H2. induction H2; auto. eapply reach_step; eauto. Qed.

Lemma reach_edge t a b : edge t a b -> reach t a b.
Proof. intros H. eapply reach_step; [apply reach_refl | exact H]. Qed.

Lemma reach_left t a b c : edge t a b -> reach t b c -> reach t a c.
Proof. intros H1 H2. eapply reach_trans; [apply reach_edge; exact H1 | exact H2]. Qed.

Lemma reach_inv t a c : reach t a c -> a = c \/ exists b, edge t a b /\ reach t b c.
Proof.
  intros H. induction H as [| b c H IH E].
  - now left.
  - right. destruct IH as [-> | [b' [E' R']]].
    + exists c. split; auto. apply reach_refl.
    + exists b'. split; auto. eapply reach_step; eauto.
Qed.

(* ------------------------------------------------------------------ linearisation: invariants *)
Section Lin.
Variable t : table.

(* every class of the list is defined and everything it inherits stands before it *)
Definition ordered (l : list name) : Prop :=
  forall l1 a l2, l = l1 ++ a :: l2 ->
    exists c, lookup t a = Some c /\ incl (succs c) l1.

Lemma ordered_nil : ordered [].
Proof. intros l1 a l2 H. destruct l1; discriminate. Qed.

Lemma snoc_split {A} (l1 : list A) a l2 acc n :
  l1 ++ a :: l2 = acc ++ [n] ->
  (l2 = [] /\ l1 = acc /\ a = n) \/ (exists l2', l2 = l2' ++ [n] /\ acc = l1 ++ a :: l2').
Proof.
  revert acc. induction l1 as [|y l1 IH]; intros [|x acc] H; cbn in H.
  - inversion H; subst. left. auto.
  - inversion H; subst. right. exists acc. auto.
  - inversion H as [[Hy Hr]]. destruct l1; discriminate.
  - inversion H as [[Hy Hr]]. subst y. destruct (IH _ Hr) as [[-> [-> ->]] | [l2' [-> ->]]].
    + left. auto.
    + right. exists l2'. auto.
Qed.

Lemma ordered_snoc acc n c :
  ordered acc -> lookup t n = Some c -> incl (succs c) acc -> ordered (acc ++ [n]).
Proof.
  intros Ho Hl Hi l1 a l2 H. symmetry in H. apply snoc_split in H. destruct H as [[_ [-> ->]] | [l2' [-> ->]]].
  - exists c. split; auto.
  - apply (Ho l1 a l2'). reflexivity.
Qed.

Lemma ordered_defined l a : ordered l -> In a l -> exists c, lookup t a = Some c /\ incl (succs c) l.
Proof.
  intros Ho Hi. apply in_split in Hi. destruct Hi as [l1 [l2 ->]].
  destruct (Ho l1 a l2 eq_refl) as [c [Hc Hs]]. exists c. split; auto.
  intros x Hx. apply in_or_app. left. auto.
Qed.

(* what one successful call of the step function guarantees *)
Definition step_ok (f : list name -> name -> res (list name)) : Prop :=
  forall acc x acc', f acc x = Ok acc' ->
    exists new, acc' = acc ++ new /\
      (forall y, In y new -> reach t x y) /\
      In x acc' /\
      (ordered acc -> ordered acc') /\
      (NoDup acc -> NoDup acc').

Lemma lin_list_ok f : step_ok f ->
  forall l acc acc', lin_list f acc l = Ok acc' ->
    exists new, acc' = acc ++ new /\
      (forall y, In y new -> exists x, In x l /\ reach t x y) /\
      incl l acc' /\
      (ordered acc -> ordered acc') /\
      (NoDup acc -> NoDup acc').
Proof.
  intros Hf l. induction l as [|x l IH]; cbn; intros acc acc' H.
  - inversion H; subst. exists []. rewrite app_nil_r. repeat split; auto.
    + intros y [].
    + intros y [].
  - destruct (f acc x) as [acc1|e] eqn:E; try discriminate.
    destruct (Hf _ _ _ E) as [n1 [-> [R1 [I1 [O1 D1]]]]].
    destruct (IH _ _ H) as [n2 [-> [R2 [I2 [O2 D2]]]]].
    exists (n1 ++ n2). rewrite app_assoc. repeat split; auto.
    + intros y Hy. apply in_app_or in Hy. destruct Hy as [Hy|Hy].
      * exists x. split; [now left | auto].
      * destruct (R2 y Hy) as [x' [Hx' Hr]]. exists x'. split; [now right | auto].
    + intros y [<-|Hy].
      * apply in_or_app. now left.
      * now apply I2.
Qed.

Lemma lin_cls_ok fuel : forall stack, step_ok (lin_cls t fuel stack).
Proof.
  induction fuel as [|f IH]; intros stack acc n acc' H; cbn in H; try discriminate.
  destruct (mem n stack); try discriminate.
  destruct (lookup t n) as [c|] eqn:Hl; try discriminate.
  destruct (all_defined t (succs c)); try discriminate.
  destruct (lin_list (lin_cls t f (n :: stack)) acc (succs c)) as [acc1|e] eqn:E; try discriminate.
  destruct (lin_list_ok _ (IH (n :: stack)) _ _ _ E) as [n1 [-> [R1 [I1 [O1 D1]]]]].
  assert (Rn : forall y, In y n1 -> reach t n y).
  { intros y Hy. destruct (R1 y Hy) as [x [Hx Hr]]. eapply reach_left; [|exact Hr]. exists c. auto. }
  destruct (mem n (acc ++ n1)) eqn:M; inversion H; subst; clear H.
  - exists n1. repeat split; auto. now apply mem_In.
  - exists (n1 ++ [n]). rewrite app_assoc. repeat split; auto.
    + intros y Hy. apply in_app_or in Hy. destruct Hy as [Hy|[<-|[]]]; auto. apply reach_refl.
    + apply in_or_app. right. now left.
    + intros Ho. eapply ordered_snoc; eauto.
    + intros Hd. apply mem_nIn in M. specialize (D1 Hd).
      apply NoDup_app_snoc; auto.
Qed.
End Lin.

(* ------------------------------------------------------------------ consequences of [ordered] *)
Section Ord.
Variable t : table.

Lemma ordered_prefix l1 l2 : ordered t (l1 ++ l2) -> ordered t l1.
Proof.
  intros Ho la a lb H. apply (Ho la a (lb ++ l2)). subst l1. now rewrite <- app_assoc.
Qed.

Lemma edge_fun a b c : edge t a b -> lookup t a = Some c -> In b (succs c).
Proof. intros [c' [H1 H2]] H. congruence. Qed.

(* an ordered list is closed under inheritance *)
Lemma ordered_closed l a b : ordered t l -> In a l -> reach t a b -> In b l.
Proof.
  intros Ho Ha R. induction R as [|b' b R IH E]; auto.
  destruct (ordered_defined t l b' Ho IH) as [c [Hc Hs]]. apply Hs. eapply edge_fun; eauto.
Qed.

(* everything a class inherits, directly or not, stands before it *)
Lemma ordered_ancestors_before l1 a l2 b b' :
  ordered t (l1 ++ a :: l2) -> edge t a b' -> reach t b' b -> In b l1.
Proof.
  intros Ho E R. destruct (Ho l1 a l2 eq_refl) as [c [Hc Hs]].
  apply (ordered_closed l1 b' b); auto.
  - eapply ordered_prefix; eauto.
  - apply Hs. eapply edge_fun; eauto.
Qed.

Lemma ordered_acyclic l a : ordered t l -> NoDup l -> In a l -> ~ cyclic_at t a.
Proof.
  intros Ho Hd Ha [b [E R]]. apply in_split in Ha. destruct Ha as [l1 [l2 ->]].
  assert (In a l1) by (eapply ordered_ancestors_before; eauto).
  apply NoDup_remove_2 in Hd. apply Hd. apply in_or_app. now left.
Qed.
End Ord.

(* ------------------------------------------------------------------ errors *)
Section Errs.
Variable t : table.

(* every class on the stack inherits, in at least one step, the class being visited *)
Definition chain (stack : list name) (n : name) : Prop :=
  forall s, In s stack -> exists b, edge t s b /\ reach t b n.

Definition dangling_below (n : name) : Prop :=
  lookup t n = None \/
  exists a c m, reach t n a /\ lookup t a = Some c /\ In m (succs c) /\ lookup t m = None.

Definition bad (n : name) (e : err) : Prop :=
  e = EFuel \/
  (e = ECycle /\ exists a, reach t n a /\ cyclic_at t a) \/
  (e = EMissing /\ dangling_below n).

Lemma bad_lift n c x e : lookup t n = Some c -> In x (succs c) -> bad x e -> bad n e.
Proof.
  intros Hl Hx. assert (E : edge t n x) by (exists c; auto).
  intros [H | [[H [a [R C]]] | [H D]]].
  - now left.
  - right. left. split; auto. exists a. split; auto. eapply reach_left; eauto.
  - right. right. split; auto. right. destruct D as [D | [a [c' [m [R [L [I N]]]]]]].
    + exists n, c, x. repeat split; auto. apply reach_refl.
    + exists a, c', m. repeat split; auto. eapply reach_left; eauto.
Qed.

Lemma chain_push stack n c x :
  chain stack n -> lookup t n = Some c -> In x (succs c) -> chain (n :: stack) x.
Proof.
  intros Hc Hl Hx s [<-|Hs].
  - exists x. split; [exists c; auto | apply reach_refl].
  - destruct (Hc s Hs) as [b [Eb Rb]]. exists b. split; auto. eapply reach_step; eauto. exists c; auto.
Qed.

Lemma lin_list_err f (P : name -> Prop) :
  (forall acc x e, P x -> f acc x = Err e -> bad x e) ->
  forall l acc e, (forall x, In x l -> P x) -> lin_list f acc l = Err e -> exists x, In x l /\ bad x e.
Proof.
  intros Hf l. induction l as [|x l IH]; cbn; intros acc e HP H; try discriminate.
  destruct (f acc x) as [acc1|e1] eqn:E.
  - destruct (IH _ _ (fun y Hy => HP y (or_intror Hy)) H) as [y [Hy B]]. exists y. split; auto.
  - inversion H; subst. exists x. split; auto. eapply Hf; eauto.
Qed.

Lemma all_defined_false l : all_defined t l = false -> exists m, In m l /\ lookup t m = None.
Proof.
  unfold all_defined. induction l as [|x l IH]; cbn; intros H; try discriminate.
  apply andb_false_iff in H. destruct H as [H|H].
  - exists x. split; auto. unfold defined in H. destruct (lookup t x); congruence.
  - destruct (IH H) as [m [Hm Hn]]. exists m. auto.
Qed.

Lemma lin_cls_err fuel : forall stack acc n e,
  chain stack n -> lin_cls t fuel stack acc n = Err e -> bad n e.
Proof.
  induction fuel as [|f IH]; intros stack acc n e Hc H; cbn in H.
  - inversion H. now left.
  - destruct (mem n stack) eqn:M.
    + inversion H; subst. right. left. split; auto. apply mem_In in M.
      destruct (Hc n M) as [b [E R]]. exists n. split; [apply reach_refl|]. exists b. auto.
    + destruct (lookup t n) as [c|] eqn:Hl.
      2:{ inversion H; subst. right. right. split; auto. now left. }
      destruct (all_defined t (succs c)) eqn:D.
      2:{ inversion H; subst. right. right. split; auto. right.
          destruct (all_defined_false _ D) as [m [Hm Hn]]. exists n, c, m. repeat split; auto. apply reach_refl. }
      destruct (lin_list (lin_cls t f (n :: stack)) acc (succs c)) as [acc1|e1] eqn:E.
      * destruct (mem n acc1); discriminate.
      * inversion H; subst.
        destruct (lin_list_err (lin_cls t f (n :: stack)) (fun x => In x (succs c))
                    (fun acc0 x e0 Hx Hr => IH (n :: stack) acc0 x e0 (chain_push stack n c x Hc Hl Hx) Hr)
                    (succs c) acc e (fun x Hx => Hx) E) as [x [Hx B]].
        eapply bad_lift; eauto.
Qed.

(* ---- fuel *)
Lemma lin_list_nofuel f l : forall acc,
  (forall acc x, In x l -> f acc x <> Err EFuel) -> lin_list f acc l <> Err EFuel.
Proof.
  induction l as [|x l IH]; cbn; intros acc Hf; try discriminate.
  destruct (f acc x) as [acc1|e] eqn:E.
  - apply IH. intros a y Hy. apply Hf. now right.
  - intros H. inversion H; subst. apply (Hf acc x (or_introl eq_refl)). exact E.
Qed.

Lemma lin_cls_nofuel fuel : forall stack acc n,
  NoDup stack -> incl stack (map fst t) -> (length t < fuel + length stack)%nat ->
  lin_cls t fuel stack acc n <> Err EFuel.
Proof.
  induction fuel as [|f IH]; intros stack acc n Hd Hi Hlen.
  - exfalso. pose proof (NoDup_incl_length Hd Hi) as H. rewrite map_length in H. cbn in Hlen. lia.
  - cbn. destruct (mem n stack) eqn:M; try discriminate.
    destruct (lookup t n) as [c|] eqn:Hl; try discriminate.
    destruct (all_defined t (succs c)); try discriminate.
    destruct (lin_list (lin_cls t f (n :: stack)) acc (succs c)) as [acc1|e] eqn:E.
    + destruct (mem n acc1); discriminate.
    + intros H. inversion H; subst. revert E. apply lin_list_nofuel. intros a x _. apply IH.
      * constructor; auto. now apply mem_nIn.
      * intros y [<-|Hy]; auto. eapply lookup_In; eauto.
      * cbn. lia.
Qed.

(* ---- more fuel does not change a result *)
Lemma lin_list_mono f1 f2 l : forall acc R,
  (forall acc x R, In x l -> f1 acc x = R -> R <> Err EFuel -> f2 acc x = R) ->
  lin_list f1 acc l = R -> R <> Err EFuel -> lin_list f2 acc l = R.
Proof.
  induction l as [|x l IH]; cbn; intros acc R Hf H Hn; auto.
  destruct (f1 acc x) as [acc1|e] eqn:E.
  - rewrite (Hf acc x (Ok acc1) (or_introl eq_refl) E) by discriminate.
    apply IH; auto.
  - subst R. rewrite (Hf acc x (Err e) (or_introl eq_refl) E Hn). reflexivity.
Qed.

Lemma lin_cls_mono f : forall f' stack acc n R,
  (f <= f')%nat -> lin_cls t f stack acc n = R -> R <> Err EFuel -> lin_cls t f' stack acc n = R.
Proof.
  induction f as [|f IH]; intros f' stack acc n R Hle H Hn.
  - cbn in H. subst R. contradiction.
  - destruct f' as [|f']; [lia|]. cbn in H |- *.
    destruct (mem n stack); auto.
    destruct (lookup t n) as [c|]; auto.
    destruct (all_defined t (succs c)); auto.
    destruct (lin_list (lin_cls t f (n :: stack)) acc (succs c)) as [acc1|e] eqn:E.
    + rewrite (lin_list_mono _ (lin_cls t f' (n :: stack)) _ _ _
                 (fun a x R' _ Hr Hne => IH f' (n :: stack) a x R' ltac:(lia) Hr Hne) E) by discriminate.
      exact H.
    + subst R. assert (He : Err (A := list name) e <> Err EFuel) by (intros Q; apply Hn; now inversion Q).
      rewrite (lin_list_mono _ (lin_cls t f' (n :: stack)) _ _ _
                 (fun a x R' _ Hr Hne => IH f' (n :: stack) a x R' ltac:(lia) Hr Hne) E He).
      reflexivity.
Qed.
End Errs.

(* ------------------------------------------------------------------ linearise: the statements *)
Lemma linearise_unfold t r l :
  linearise t r = Ok l ->
  all_defined t (succs r) = true /\ lin_list (lin_cls t (lin_fuel t) []) [] (succs r) = Ok l.
Proof. unfold linearise. destruct (all_defined t (succs r)); intros H; [auto | discriminate]. Qed.

Lemma linearise_facts t r l :
  linearise t r = Ok l ->
  NoDup l /\ ordered t l /\ incl (succs r) l /\ (forall y, In y l -> anc t r y).
Proof.
  intros H. apply linearise_unfold in H. destruct H as [_ H].
  destruct (lin_list_ok t _ (lin_cls_ok t (lin_fuel t) []) _ _ _ H) as [new [-> [R [I [O D]]]]].
  cbn in *. repeat split; auto.
  - apply D. constructor.
  - apply O. apply ordered_nil.
Qed.

Lemma linearise_nodup_proof t r l : linearise t r = Ok l -> NoDup l.
Proof. intros H. now apply linearise_facts in H. Qed.

Lemma linearise_sound_proof t r l a : linearise t r = Ok l -> In a l -> anc t r a.
Proof. intros H. apply linearise_facts in H. destruct H as [_ [_ [_ H]]]. auto. Qed.

Lemma linearise_complete_proof t r l a : linearise t r = Ok l -> anc t r a -> In a l.
Proof.
  intros H [s [Hs R]]. apply linearise_facts in H. destruct H as [_ [O [I _]]].
  eapply ordered_closed; eauto.
Qed.

Lemma linearise_ancestors_iff_proof t r l :
  linearise t r = Ok l -> forall a, In a l <-> anc t r a.
Proof. intros H a. split; [eapply linearise_sound_proof | eapply linearise_complete_proof]; eauto. Qed.

(* a class stands after everything it inherits (directly or through other classes) *)
Lemma linearise_bases_first_proof t r l l1 a l2 b :
  linearise t r = Ok l -> l = l1 ++ a :: l2 ->
  (exists b', edge t a b' /\ reach t b' b) -> In b l1.
Proof.
  intros H -> [b' [E R]]. apply linearise_facts in H. destruct H as [_ [O _]].
  eapply ordered_ancestors_before; eauto.
Qed.

Lemma linearise_defined_proof t r l a : linearise t r = Ok l -> In a l -> lookup t a <> None.
Proof.
  intros H Ha. apply linearise_facts in H. destruct H as [_ [O _]].
  destruct (ordered_defined t l a O Ha) as [c [Hc _]]. congruence.
Qed.

Lemma linearise_fuel_proof t r : linearise t r <> Err EFuel.
Proof.
  unfold linearise. destruct (all_defined t (succs r)); try discriminate.
  apply lin_list_nofuel. intros acc x _. apply lin_cls_nofuel.
  - constructor.
  - intros y [].
  - unfold lin_fuel. cbn. lia.
Qed.

Lemma linearise_err t r e :
  linearise t r = Err e ->
  e = EFuel \/
  (e = ECycle /\ exists a, anc t r a /\ cyclic_at t a) \/
  (e = EMissing /\ ~ closed_from t r).
Proof.
  unfold linearise. destruct (all_defined t (succs r)) eqn:D.
  - intros H.
    destruct (lin_list_err t (lin_cls t (lin_fuel t) []) (fun _ => True)
                (fun acc x e0 _ Hr => lin_cls_err t (lin_fuel t) [] acc x e0 (fun s Hs => match Hs with end) Hr)
                (succs r) [] e (fun _ _ => I) H) as [x [Hx B]].
    destruct B as [B | [[B [a [R C]]] | [B Dg]]].
    + now left.
    + right. left. split; auto. exists a. split; auto. exists x. auto.
    + right. right. split; auto. intros [C1 C2]. destruct Dg as [Dg | [a [c [m [R [L [Im N]]]]]]].
      * apply (C1 x Hx Dg).
      * apply (C2 a c m); auto. exists x. auto.
  - intros H. inversion H; subst. right. right. split; auto. intros [C1 _].
    destruct (all_defined_false t _ D) as [m [Hm Hn]]. apply (C1 m Hm Hn).
Qed.

Lemma linearise_ok_closed t r l : linearise t r = Ok l -> closed_from t r.
Proof.
  intros H. pose proof (linearise_facts _ _ _ H) as [_ [O [I _]]]. split.
  - intros s Hs. eapply linearise_defined_proof; eauto.
  - intros a c m Ha Hc Hm. eapply linearise_defined_proof; eauto.
    eapply linearise_complete_proof; eauto.
    destruct Ha as [s [Hs R]]. exists s. split; auto. eapply reach_step; eauto. exists c. auto.
Qed.

Lemma linearise_ok_acyclic t r l a : linearise t r = Ok l -> anc t r a -> ~ cyclic_at t a.
Proof.
  intros H Ha. pose proof (linearise_facts _ _ _ H) as [D [O _]].
  eapply ordered_acyclic; eauto. eapply linearise_complete_proof; eauto.
Qed.

Lemma linearise_ok_iff_proof t r :
  (exists l, linearise t r = Ok l) <-> (closed_from t r /\ ~ exists a, anc t r a /\ cyclic_at t a).
Proof.
  split.
  - intros [l H]. split.
    + eapply linearise_ok_closed; eauto.
    + intros [a [Ha C]]. eapply linearise_ok_acyclic; eauto.
  - intros [C N]. destruct (linearise t r) as [l|e] eqn:E; eauto.
    exfalso. destruct (linearise_err _ _ _ E) as [-> | [[_ X] | [_ X]]]; auto.
    eapply linearise_fuel_proof; eauto.
Qed.

Lemma linearise_cycle_iff_proof t r :
  closed_from t r ->
  (linearise t r = Err ECycle <-> exists a, anc t r a /\ cyclic_at t a).
Proof.
  intros C. split.
  - intros H. destruct (linearise_err _ _ _ H) as [X | [[_ X] | [X _]]]; auto; discriminate.
  - intros [a [Ha Cy]]. destruct (linearise t r) as [l|e] eqn:E.
    + exfalso. eapply linearise_ok_acyclic; eauto.
    + destruct (linearise_err _ _ _ E) as [-> | [[-> _] | [_ X]]]; auto.
      * exfalso. eapply linearise_fuel_proof; eauto.
      * contradiction.
Qed.

Lemma linearise_missing_iff_proof t r :
  (~ exists a, anc t r a /\ cyclic_at t a) ->
  (linearise t r = Err EMissing <-> ~ closed_from t r).
Proof.
  intros N. split.
  - intros H C. assert (X : exists l, linearise t r = Ok l) by (apply linearise_ok_iff_proof; auto).
    destruct X as [l X]. congruence.
  - intros NC. destruct (linearise t r) as [l|e] eqn:E.
    + exfalso. apply NC. eapply linearise_ok_closed; eauto.
    + destruct (linearise_err _ _ _ E) as [-> | [[_ X] | [-> _]]]; auto.
      * exfalso. eapply linearise_fuel_proof; eauto.
      * contradiction.
Qed.

(* ------------------------------------------------------------------ only the ancestors matter *)
Lemma lin_list_ext f1 f2 l : forall acc,
  (forall acc x, In x l -> f1 acc x = f2 acc x) -> lin_list f1 acc l = lin_list f2 acc l.
Proof.
  induction l as [|x l IH]; cbn; intros acc H; auto.
  rewrite <- (H acc x (or_introl eq_refl)). destruct (f1 acc x); auto.
Qed.

Lemma all_defined_ext t t' l :
  (forall m, In m l -> lookup t m = lookup t' m) -> all_defined t l = all_defined t' l.
Proof.
  unfold all_defined. induction l as [|x l IH]; cbn; intros H; auto.
  unfold defined at 1 3. rewrite (H x (or_introl eq_refl)). f_equal. apply IH. intros m Hm. apply H. now right.
Qed.

Lemma lin_cls_agree t t' fuel : forall stack acc n,
  (forall a, reach t n a -> lookup t a = lookup t' a) ->
  lin_cls t fuel stack acc n = lin_cls t' fuel stack acc n.
Proof.
  induction fuel as [|f IH]; intros stack acc n H; cbn; auto.
  destruct (mem n stack); auto.
  rewrite <- (H n (reach_refl t n)).
  destruct (lookup t n) as [c|] eqn:Hl; auto.
  assert (E : forall m, In m (succs c) -> edge t n m) by (intros m Hm; exists c; auto).
  rewrite <- (all_defined_ext t t' (succs c)).
  2:{ intros m Hm. apply H. apply reach_edge. auto. }
  destruct (all_defined t (succs c)); auto.
  rewrite (lin_list_ext (lin_cls t f (n :: stack)) (lin_cls t' f (n :: stack))); auto.
  intros a x Hx. apply IH. intros b Hb. apply H. eapply reach_left; eauto.
Qed.

Definition agree_on_ancestors (t t' : table) (r : cls) : Prop :=
  forall a, anc t r a -> lookup t a = lookup t' a.

Lemma linearise_agree_proof t t' r : agree_on_ancestors t t' r -> linearise t r = linearise t' r.
Proof.
  intros H.
  assert (Hs : forall m, In m (succs r) -> lookup t m = lookup t' m).
  { intros m Hm. apply H. exists m. split; auto. apply reach_refl. }
  pose proof (linearise_fuel_proof t r) as F1. pose proof (linearise_fuel_proof t' r) as F2.
  unfold linearise in *. rewrite <- (all_defined_ext t t' (succs r) Hs) in *.
  destruct (all_defined t (succs r)); auto.
  set (F := Nat.max (lin_fuel t) (lin_fuel t')).
  assert (A : forall tt, (lin_fuel tt <= F)%nat ->
            lin_list (lin_cls tt (lin_fuel tt) []) [] (succs r) <> Err EFuel ->
            lin_list (lin_cls tt (lin_fuel tt) []) [] (succs r) = lin_list (lin_cls tt F []) [] (succs r)).
  { intros tt Hle Hn. symmetry. eapply lin_list_mono; [|reflexivity|exact Hn].
    intros acc x R _ Hr Hne. eapply lin_cls_mono; eauto. }
  rewrite (A t); [|subst F; lia|exact F1]. rewrite (A t'); [|subst F; lia|exact F2].
  apply lin_list_ext. intros acc x Hx. apply lin_cls_agree.
  intros a Ha. apply H. exists x. auto.
Qed.

Lemma lookup_all_agree t t' l :
  (forall a, In a l -> lookup t a = lookup t' a) -> lookup_all t l = lookup_all t' l.
Proof.
  induction l as [|x l IH]; cbn; intros H; auto.
  rewrite (H x (or_introl eq_refl)). f_equal. apply IH. intros a Ha. apply H. now right.
Qed.

Lemma resolve_agree_proof t t' glue r : agree_on_ancestors t t' r -> resolve t glue r = resolve t' glue r.
Proof.
  intros H. unfold resolve. rewrite <- (linearise_agree_proof t t' r H).
  destruct (linearise t r) as [l|e] eqn:E; auto.
  rewrite (lookup_all_agree t t' l); auto.
  intros a Ha. apply H. eapply linearise_sound_proof; eauto.
Qed.

(* ------------------------------------------------------------------ the merge loop *)
Lemma nth_zipd {A} (f : A -> A -> A) (d : A) : f d d = d ->
  forall a b i, nth i (zipd f d a b) d = f (nth i a d) (nth i b d).
Proof.
  intros Hd a. induction a as [|x a IH]; intros b i.
  - cbn [zipd]. revert i. induction b as [|y b IHb]; intros i.
    + destruct i; cbn; auto.
    + destruct i; cbn; auto. rewrite IHb. destruct i; auto.
  - destruct b as [|y b]; cbn [zipd].
    + destruct i; cbn [nth]; auto. rewrite IH. destruct i; auto.
    + destruct i; cbn [nth]; auto.
Qed.

Lemma first_some_cons {A} (o : option A) l : first_some (o :: l) = orelse o (first_some l).
Proof. reflexivity. Qed.

Lemma orelse_assoc {A} (a b c : option A) : orelse (orelse a b) c = orelse a (orelse b c).
Proof. destruct a; reflexivity. Qed.

Lemma dict_get_set d k v k' :
  dict_get (dict_set d k v) k' = if str_eqb k k' then Some v else dict_get d k'.
Proof.
  induction d as [|[k0 v0] d IH]; cbn.
  - reflexivity.
  - destruct (str_eqb k0 k) eqn:E0; cbn.
    + apply str_eqb_eq in E0. subst k0. destruct (str_eqb k k'); reflexivity.
    + destruct (str_eqb k0 k') eqn:E1.
      * apply str_eqb_eq in E1. subst k0. apply str_eqb_neq in E0.
        assert (str_eqb k k' = false) as -> by (apply str_eqb_neq; congruence). reflexivity.
      * exact IH.
Qed.

Definition dict_wf (d : dict) : Prop := NoDup (map fst d).      (* Python dict: keys are unique *)

Lemma dict_get_None d k : ~ In k (map fst d) -> dict_get d k = None.
Proof.
  induction d as [|[k0 v0] d IH]; cbn; intros H; auto.
  destruct (str_eqb k0 k) eqn:E.
  - apply str_eqb_eq in E. exfalso. apply H. now left.
  - apply IH. intros I. apply H. now right.
Qed.

Lemma dict_get_snoc (l : dict) k1 v1 kk :
  dict_get (l ++ [(k1, v1)]) kk = orelse (dict_get l kk) (if str_eqb k1 kk then Some v1 else None).
Proof. induction l as [|[a b] l IHl]; cbn; auto. destruct (str_eqb a kk); auto. Qed.

Lemma dict_get_rev d k : dict_wf d -> dict_get (rev d) k = dict_get d k.
Proof.
  unfold dict_wf. induction d as [|[k0 v0] d IH]; cbn [rev map fst]; intros H; auto.
  inversion H; subst. rewrite dict_get_snoc, IH by auto. cbn [dict_get].
  destruct (str_eqb k0 k) eqn:E.
  - apply str_eqb_eq in E. subst k0. now rewrite dict_get_None.
  - destruct (dict_get d k); reflexivity.
Qed.

Lemma in_keys_set d k v x : In x (map fst (dict_set d k v)) -> In x (map fst d) \/ x = k.
Proof.
  induction d as [|[k0 v0] d IH]; cbn.
  - intros [<-|[]]. now right.
  - destruct (str_eqb k0 k); cbn.
    + intros [<-|H]; auto.
    + intros [<-|H]; auto. destruct (IH H); auto.
Qed.

Lemma dict_set_wf d k v : dict_wf d -> dict_wf (dict_set d k v).
Proof.
  unfold dict_wf. induction d as [|[k0 v0] d IH]; cbn; intros H.
  - constructor; [intros []|constructor].
  - inversion H; subst. destruct (str_eqb k0 k) eqn:E; cbn.
    + constructor; auto.
    + constructor; auto. intros I. apply in_keys_set in I. destruct I as [I| ->]; auto.
      rewrite str_eqb_refl in E. discriminate.
Qed.

Lemma dict_update_wf upd : forall base, dict_wf base -> dict_wf (dict_update base upd).
Proof.
  unfold dict_update. induction upd as [|[k v] u IH]; cbn; intros base H; auto.
  apply IH. now apply dict_set_wf.
Qed.

(* tmp = base.copy(); tmp.update(upd): the entry of [upd] wins *)
Lemma dict_get_update upd base k : dict_wf upd ->
  dict_get (dict_update base upd) k = orelse (dict_get upd k) (dict_get base k).
Proof.
  intros W. rewrite <- (dict_get_rev upd k W). clear W. unfold dict_update. revert base.
  induction upd as [|[k0 v0] u IH]; intros base; cbn [fold_left rev]; auto.
  rewrite IH. cbn [fst snd]. rewrite dict_get_set, dict_get_snoc, orelse_assoc.
  destruct (str_eqb k0 k); reflexivity.
Qed.

(* ------------------------------------------------------------------ sets *)
Lemma str_ltb_false_eq x y : str_ltb x y = false -> str_ltb y x = false -> x = y.
Proof.
  intros H1 H2. destruct (str_ltb_total x y) as [H | [H | H]]; congruence.
Qed.

Lemma In_set_insert x l z : In z (set_insert x l) <-> z = x \/ In z l.
Proof.
  induction l as [|y l IH]; cbn.
  - intuition auto.
  - destruct (str_ltb x y) eqn:E1; cbn.
    + intuition auto.
    + destruct (str_ltb y x) eqn:E2; cbn.
      * rewrite IH. intuition auto.
      * assert (x = y) by (apply str_ltb_false_eq; auto). subst y. intuition auto.
Qed.

Lemma In_set_norm l z : In z (set_norm l) <-> In z l.
Proof.
  induction l as [|x l IH]; cbn; [tauto|]. rewrite In_set_insert, IH. intuition auto.
Qed.

Definition lt_s (a b : str) : Prop := str_ltb a b = true.
Definition sset (l : list str) : Prop := Sorted.StronglySorted lt_s l.

Lemma set_insert_sorted x l : sset l -> sset (set_insert x l).
Proof.
  unfold sset. induction l as [|y l IH]; cbn; intros H.
  - repeat constructor.
  - inversion H as [|? ? Hs Hf]; subst. destruct (str_ltb x y) eqn:E1.
    + constructor; auto. constructor; auto.
      eapply Forall_impl; [|exact Hf]. intros a Ha. eapply str_ltb_trans; eauto.
    + destruct (str_ltb y x) eqn:E2; auto.
      constructor; auto. apply Forall_forall. intros z Hz. apply In_set_insert in Hz.
      destruct Hz as [-> | Hz]; auto. rewrite Forall_forall in Hf. auto.
Qed.

Lemma set_norm_sorted l : sset (set_norm l).
Proof. induction l; cbn; [constructor | now apply set_insert_sorted]. Qed.

Lemma sset_ext a : forall b, sset a -> sset b -> (forall x, In x a <-> In x b) -> a = b.
Proof.
  unfold sset. induction a as [|x a IH]; intros [|y b] Ha Hb H; auto.
  - exfalso. apply (H y). now left.
  - exfalso. apply (H x). now left.
  - inversion Ha as [|? ? Sa Fa]; inversion Hb as [|? ? Sb Fb]; subst.
    rewrite Forall_forall in Fa, Fb.
    assert (x = y).
    { destruct (proj1 (H x) (or_introl eq_refl)) as [E|I]; auto.
      destruct (proj2 (H y) (or_introl eq_refl)) as [E|I']; auto.
      pose proof (Fb _ I) as L1. pose proof (Fa _ I') as L2. unfold lt_s in *.
      rewrite (str_ltb_asym _ _ L1) in L2. discriminate. }
    subst y. f_equal. apply IH; auto. intros z. split; intros Hz.
    + destruct (proj1 (H z) (or_intror Hz)) as [E|I]; auto. subst z.
      pose proof (Fa _ Hz) as L. unfold lt_s in L. rewrite str_ltb_irrefl in L. discriminate.
    + destruct (proj2 (H z) (or_intror Hz)) as [E|I]; auto. subst z.
      pose proof (Fb _ Hz) as L. unfold lt_s in L. rewrite str_ltb_irrefl in L. discriminate.
Qed.

Lemma set_norm_canonical_proof a b : (forall x, In x a <-> In x b) -> set_norm a = set_norm b.
Proof.
  intros H. apply sset_ext; try apply set_norm_sorted. intros x. rewrite !In_set_norm. apply H.
Qed.

(* ------------------------------------------------------------------ the loop as a fold *)
Section Fold.
(* [ms] in loop order (most derived class first) *)
Fixpoint concat_map {A B} (f : A -> list B) (l : list A) : list B :=
  match l with [] => [] | x :: r => f x ++ concat_map f r end.

Lemma fold_sources ms : forall s,
  m_sources (fold_left merge_step ms s) = m_sources s ++ concat_map m_sources ms.
Proof. induction ms as [|m ms IH]; intros s; cbn; [now rewrite app_nil_r | rewrite IH; cbn; now rewrite app_assoc]. Qed.

Lemma concat_map_snoc {A B} (f : A -> list B) l x : concat_map f (l ++ [x]) = concat_map f l ++ f x.
Proof. induction l; cbn; [now rewrite app_nil_r | rewrite IHl; now rewrite app_assoc]. Qed.

Lemma fold_deps ms : forall s,
  m_deps (fold_left merge_step ms s) = concat_map m_deps (rev ms) ++ m_deps s.
Proof.
  induction ms as [|m ms IH]; intros s; cbn; auto.
  rewrite IH, concat_map_snoc. cbn. now rewrite app_assoc.
Qed.

Lemma fold_varSelf ms : forall s,
  m_varSelf (fold_left merge_step ms s) = concat_map m_varSelf (rev ms) ++ m_varSelf s.
Proof.
  induction ms as [|m ms IH]; intros s; cbn; auto.
  rewrite IH, concat_map_snoc. cbn. now rewrite app_assoc.
Qed.

Lemma fold_varPrivate ms : forall s,
  m_varPrivate (fold_left merge_step ms s) = concat_map m_varPrivate (rev ms) ++ m_varPrivate s.
Proof.
  induction ms as [|m ms IH]; intros s; cbn; auto.
  rewrite IH, concat_map_snoc. cbn. now rewrite app_assoc.
Qed.

Lemma fold_tools ms i : forall s,
  nth i (m_tools (fold_left merge_step ms s)) [] =
  nth i (m_tools s) [] ++ concat_map (fun m => nth i (m_tools m) []) ms.
Proof.
  induction ms as [|m ms IH]; intros s; cbn [fold_left concat_map]; [now rewrite app_nil_r|].
  rewrite IH. cbn [merge_step m_tools]. rewrite (nth_zipd (@app str) []) by reflexivity. now rewrite app_assoc.
Qed.

Lemma fold_sets ms i : forall s,
  nth i (m_sets (fold_left merge_step ms s)) [] =
  nth i (m_sets s) [] ++ concat_map (fun m => nth i (m_sets m) []) ms.
Proof.
  induction ms as [|m ms IH]; intros s; cbn [fold_left concat_map]; [now rewrite app_nil_r|].
  rewrite IH. cbn [merge_step m_sets]. rewrite (nth_zipd (@app str) []) by reflexivity. now rewrite app_assoc.
Qed.

Lemma fold_scalars ms i : forall s,
  nth i (m_scalars (fold_left merge_step ms s)) None =
  first_some (nth i (m_scalars s) None :: map (fun m => nth i (m_scalars m) None) ms).
Proof.
  induction ms as [|m ms IH]; intros s; cbn [fold_left map].
  - cbn. now destruct (nth i (m_scalars s) None).
  - rewrite IH. cbn [merge_step m_scalars]. rewrite (nth_zipd orelse None) by reflexivity.
    rewrite !first_some_cons. now rewrite orelse_assoc.
Qed.

Definition dicts_wf (m : mstate) : Prop := forall i, dict_wf (nth i (m_dicts m) []).

Lemma merge_step_wf s c : dicts_wf c -> dicts_wf (merge_step s c).
Proof.
  intros Hc i. cbn [merge_step m_dicts]. rewrite (nth_zipd dict_update []) by reflexivity.
  apply dict_update_wf. apply Hc.
Qed.

Lemma fold_dicts ms i k : forall s, dicts_wf s -> Forall dicts_wf ms ->
  dict_get (nth i (m_dicts (fold_left merge_step ms s)) []) k =
  first_some (dict_get (nth i (m_dicts s) []) k :: map (fun m => dict_get (nth i (m_dicts m) []) k) ms).
Proof.
  induction ms as [|m ms IH]; intros s Ws Wm; cbn [fold_left map].
  - cbn. now destruct (dict_get (nth i (m_dicts s) []) k).
  - inversion Wm; subst. rewrite IH; auto.
    2:{ now apply merge_step_wf. }
    cbn [merge_step m_dicts]. rewrite (nth_zipd dict_update []) by reflexivity.
    rewrite dict_get_update by apply Ws.
    rewrite !first_some_cons. now rewrite orelse_assoc.
Qed.
End Fold.

Lemma In_concat_map {A B} (f : A -> list B) l y : In y (concat_map f l) <-> exists x, In x l /\ In y (f x).
Proof.
  induction l as [|x l IH]; cbn.
  - split; [tauto | intros [x [[] _]]].
  - rewrite in_app_iff, IH. split.
    + intros [H | [x' [H1 H2]]]; eauto.
    + intros [x' [[<- | H1] H2]]; eauto.
Qed.

Lemma concat_map_map {A B C} (g : A -> B) (f : B -> list C) l : concat_map f (map g l) = concat_map (fun x => f (g x)) l.
Proof. induction l; cbn; congruence. Qed.

(* ------------------------------------------------------------------ lookup_all *)
Lemma lookup_all_app t a b : lookup_all t (a ++ b) = lookup_all t a ++ lookup_all t b.
Proof. unfold lookup_all. apply flat_map_app. Qed.

Lemma lookup_all_rev t l : lookup_all t (rev l) = rev (lookup_all t l).
Proof.
  induction l as [|x l IH]; cbn [rev]; auto.
  rewrite lookup_all_app, IH. cbn. destruct (lookup t x); cbn; [reflexivity | now rewrite app_nil_r].
Qed.

Lemma In_lookup_all t l c : In c (lookup_all t l) <-> exists a, In a l /\ lookup t a = Some c.
Proof.
  unfold lookup_all. rewrite in_flat_map. split; intros [a [Ha H]]; exists a; split; auto.
  - destruct (lookup t a); [destruct H as [<-|[]]; auto | destruct H].
  - rewrite H. now left.
Qed.

(* ------------------------------------------------------------------ override laws for [resolve] *)
Definition cls_wf (c : cls) : Prop := forall i, dict_wf (nth i (c_dicts c) []).
Definition classes_of (t : table) (x : resolved) : list cls := lookup_all t (rs_order x).

Lemma resolve_inv t glue r x :
  resolve t glue r = Ok x ->
  exists l, linearise t r = Ok l /\ rs_order x = l /\
            x = assemble glue l (lookup_all t l) r (merge_all (lookup_all t l) r).
Proof.
  unfold resolve. destruct (linearise t r) as [l|e]; intros H; inversion H; subst.
  exists l. cbn. auto.
Qed.

Lemma m_init_dicts_wf c : cls_wf c -> dicts_wf (m_init c).
Proof. intros H i. apply H. Qed.

Lemma nth_map_set_norm i l : nth i (map set_norm l) [] = set_norm (nth i l []).
Proof. change (@nil str) with (set_norm []) at 1. apply map_nth. Qed.

(* dict-like keys: the recipe's own entry wins, then the classes from the most derived to the base *)
Lemma resolve_dict_law_proof t glue r x i k :
  resolve t glue r = Ok x -> cls_wf r -> (forall c, In c (classes_of t x) -> cls_wf c) ->
  dict_get (nth i (m_dicts (rs_m x)) []) k =
  first_some (dict_get (nth i (c_dicts r) []) k ::
              map (fun c => dict_get (nth i (c_dicts c) []) k) (rev (classes_of t x))).
Proof.
  intros H Wr Wc. destruct (resolve_inv _ _ _ _ H) as [l [_ [Ho ->]]]. unfold classes_of in *. cbn in Wc |- *.
  unfold merge_all. rewrite fold_dicts.
  - cbn [m_init m_dicts]. f_equal. rewrite map_map. reflexivity.
  - now apply m_init_dicts_wf.
  - apply Forall_forall. intros m Hm. apply in_map_iff in Hm. destruct Hm as [c [<- Hc]].
    apply m_init_dicts_wf. apply Wc. now apply in_rev.
Qed.

Lemma first_some_snoc {A} (L : list (option A)) d : orelse (first_some L) d = first_some (L ++ [d]).
Proof.
  induction L as [|o L IH]; cbn [first_some fold_right app].
  - now destruct d.
  - fold (first_some L). fold (first_some (L ++ [d])). rewrite <- IH. apply orelse_assoc.
Qed.

Lemma resolve_scalar_law_proof t glue r x i :
  resolve t glue r = Ok x ->
  nth i (m_scalars (rs_m x)) None =
  first_some (nth i (c_scalars r) None ::
              map (fun c => nth i (c_scalars c) None) (rev (classes_of t x)) ++ [nth i scalar_defaults None]).
Proof.
  intros H. destruct (resolve_inv _ _ _ _ H) as [l [_ [Ho ->]]]. unfold classes_of.
  cbn [rs_m assemble finish m_scalars rs_order].
  rewrite (nth_zipd orelse None) by reflexivity. unfold merge_all. rewrite fold_scalars.
  cbn [m_init m_scalars]. rewrite map_map. rewrite app_comm_cons. apply first_some_snoc.
Qed.

(* set-like keys: union over the recipe and all ancestors *)
Lemma resolve_set_law_proof t glue r x i v :
  resolve t glue r = Ok x ->
  (In v (nth i (m_sets (rs_m x)) []) <->
   In v (nth i (c_sets r) []) \/ exists a c, In a (rs_order x) /\ lookup t a = Some c /\ In v (nth i (c_sets c) [])).
Proof.
  intros H. destruct (resolve_inv _ _ _ _ H) as [l [_ [Ho ->]]]. cbn.
  rewrite nth_map_set_norm, In_set_norm. unfold merge_all. rewrite fold_sets, in_app_iff.
  cbn [m_init m_sets]. rewrite concat_map_map, In_concat_map. split.
  - intros [A | [c [Hc Hv]]]; auto. right. apply in_rev in Hc. apply In_lookup_all in Hc.
    destruct Hc as [a [Ha Hl]]. exists a, c. auto.
  - intros [A | [a [c [Ha [Hl Hv]]]]]; auto. right. exists c. split; auto.
    apply in_rev. rewrite rev_involutive. apply In_lookup_all. eauto.
Qed.

Lemma resolve_set_canonical_proof t glue r x i :
  resolve t glue r = Ok x -> sset (nth i (m_sets (rs_m x)) []).
Proof.
  intros H. destruct (resolve_inv _ _ _ _ H) as [l [_ [Ho ->]]]. cbn.
  rewrite nth_map_set_norm. apply set_norm_sorted.
Qed.

(* tool lists: own entries, then those of the classes from the most derived to the base *)
Lemma resolve_tools_law_proof t glue r x i :
  resolve t glue r = Ok x ->
  nth i (m_tools (rs_m x)) [] =
  nth i (c_tools r) [] ++ concat_map (fun c => nth i (c_tools c) []) (rev (classes_of t x)).
Proof.
  intros H. destruct (resolve_inv _ _ _ _ H) as [l [_ [Ho ->]]]. unfold classes_of. cbn.
  unfold merge_all. rewrite fold_tools. cbn [m_init m_tools]. now rewrite concat_map_map.
Qed.

(* dependencies and variable layers: classes in linearisation order, then the recipe *)
Lemma resolve_deps_law_proof t glue r x :
  resolve t glue r = Ok x ->
  m_deps (rs_m x) = concat_map c_deps (classes_of t x) ++ c_deps r /\
  m_varSelf (rs_m x) = concat_map (fun c => dict_nonempty (c_varSelf c)) (classes_of t x) ++ dict_nonempty (c_varSelf r) /\
  m_varPrivate (rs_m x) = concat_map (fun c => dict_nonempty (c_varPrivate c)) (classes_of t x) ++ dict_nonempty (c_varPrivate r) /\
  m_sources (rs_m x) = c_sources r ++ concat_map c_sources (rev (classes_of t x)).
Proof.
  intros H. destruct (resolve_inv _ _ _ _ H) as [l [_ [Ho ->]]]. unfold classes_of. cbn.
  unfold merge_all. rewrite fold_deps, fold_varSelf, fold_varPrivate, fold_sources.
  rewrite <- !map_rev, rev_involutive, !concat_map_map. cbn [m_init m_deps m_varSelf m_varPrivate m_sources].
  auto.
Qed.

(* scripts: fragments of the ancestors in linearisation order, then the recipe's *)
Lemma resolve_scripts_law_proof t glue r x :
  resolve t glue r = Ok x ->
  let all := classes_of t x ++ [r] in
  let lg := rs_lang x in
  rs_lang x = sel_lang all r /\
  rs_checkout x = merge_scripts (glue lg) (map (fun c => sel lg (c_checkout c)) all) /\
  rs_build x = merge_scripts (glue lg) (map (fun c => sel lg (c_build c)) all) /\
  (snd (fst (merge_scripts (glue lg) (map (fun c => sel lg (c_package c)) all))) <> None ->
   rs_package x = merge_scripts (glue lg) (map (fun c => sel lg (c_package c)) all)) /\
  rs_scms x = flat_map c_scms all /\ rs_asserts x = flat_map c_asserts all /\
  rs_codet x = forallb (co_det lg) all.
Proof.
  intros H. destruct (resolve_inv _ _ _ _ H) as [l [_ [Ho ->]]]. unfold classes_of.
  cbn [rs_order rs_lang rs_checkout rs_build rs_package rs_scms rs_asserts rs_codet assemble].
  repeat split; auto.
  - intros N. destruct (snd (fst (merge_scripts _ _))); [reflexivity | contradiction].
  - generalize (co_det (sel_lang (lookup_all t l ++ [r]) r)). intros f.
    induction (lookup_all t l ++ [r]) as [|c L IH]; cbn [map forallb]; congruence.
Qed.

Lemma merge_scripts_main_proof glue fs :
  snd (fst (merge_scripts glue fs)) =
  join_scripts glue (map (fun f => fst (f_main f)) fs ++ map (fun f => fst (f_final f)) (rev fs)).
Proof. reflexivity. Qed.

(* ------------------------------------------------------------------ the loop in place *)
Lemma oid_eqb_eq a b : oid_eqb a b = true <-> a = b.
Proof.
  destruct a, b; cbn; split; intros H; try discriminate; try (inversion H; subst; apply str_eqb_refl).
  - apply str_eqb_eq in H. congruence.
  - apply str_eqb_eq in H. congruence.
Qed.

Lemma oid_dec (a b : oid) : a = b \/ a <> b.
Proof.
  destruct (oid_eqb a b) eqn:E.
  - left. now apply oid_eqb_eq.
  - right. intros H. apply oid_eqb_eq in H. congruence.
Qed.

Lemma hget_hset_same h o m : hget (hset h o m) o = m.
Proof.
  induction h as [|[k m'] h IH]; cbn.
  - assert (oid_eqb o o = true) as -> by now apply oid_eqb_eq. reflexivity.
  - destruct (oid_eqb k o) eqn:E; cbn; rewrite E; auto.
Qed.

Lemma hget_hset_other h o m o' : o <> o' -> hget (hset h o m) o' = hget h o'.
Proof.
  intros N. induction h as [|[k m'] h IH]; cbn.
  - destruct (oid_eqb o o') eqn:E; auto. apply oid_eqb_eq in E. contradiction.
  - destruct (oid_eqb k o) eqn:E; cbn.
    + apply oid_eqb_eq in E. subst k. destruct (oid_eqb o o') eqn:E'; auto.
      apply oid_eqb_eq in E'. contradiction.
    + destruct (oid_eqb k o'); auto.
Qed.

Definition inplace_step (self : oid) (h : heap) (n : name) : heap :=
  hset h self (merge_step (hget h self) (hget h (OC n))).

Lemma inplace_fold self ns : (forall n, self <> OC n) -> forall h,
  hget (fold_left (inplace_step self) ns h) self
    = fold_left merge_step (map (fun n => hget h (OC n)) ns) (hget h self) /\
  (forall o, o <> self -> hget (fold_left (inplace_step self) ns h) o = hget h o).
Proof.
  intros Hs. induction ns as [|n ns IH]; intros h; cbn [fold_left map]; auto.
  destruct (IH (inplace_step self h n)) as [I1 I2]. split.
  - rewrite I1. unfold inplace_step at 2. rewrite hget_hset_same. f_equal.
    apply map_ext. intros m. unfold inplace_step. apply hget_hset_other. apply Hs.
  - intros o Ho. rewrite I2 by auto. unfold inplace_step. apply hget_hset_other. auto.
Qed.

Definition heap_init (t : table) (h : heap) : Prop :=
  forall n c, lookup t n = Some c -> hget h (OC n) = m_init c.

Lemma heap_of_init t rs : heap_init t (heap_of t rs).
Proof.
  intros n c. unfold heap_of. induction t as [|[k c'] t IH]; cbn; intros H; try discriminate.
  destruct (str_eqb k n); [congruence | auto].
Qed.

Lemma heap_of_recipe t rs n r : lookup rs n = Some r -> hget (heap_of t rs) (OR n) = m_init r.
Proof.
  unfold heap_of. induction t as [|[k c'] t IH]; cbn; auto.
  induction rs as [|[k r'] rs IH]; cbn; intros H; try discriminate.
  destruct (str_eqb k n); [congruence | auto].
Qed.

Lemma map_hget_classes t h l :
  heap_init t h -> (forall a, In a l -> lookup t a <> None) ->
  map (fun n => hget h (OC n)) l = map m_init (lookup_all t l).
Proof.
  intros Hi. induction l as [|x l IH]; cbn; intros D; auto.
  destruct (lookup t x) as [c|] eqn:E.
  - cbn. rewrite (Hi x c E). f_equal. apply IH. intros a Ha. apply D. now right.
  - exfalso. apply (D x); auto.
Qed.

Lemma merge_inplace_spec t h rn r l :
  heap_init t h -> hget h (OR rn) = m_init r -> linearise t r = Ok l ->
  hget (merge_inplace h (OR rn) l) (OR rn) = merge_all (lookup_all t l) r /\
  (forall o, o <> OR rn -> hget (merge_inplace h (OR rn) l) o = hget h o).
Proof.
  intros Hi Hr Hl. unfold merge_inplace.
  destruct (inplace_fold (OR rn) (rev l) (fun n => ltac:(discriminate)) h) as [I1 I2]. split; auto.
  change (fun (h0 : heap) (n : name) => hset h0 (OR rn) (merge_step (hget h0 (OR rn)) (hget h0 (OC n))))
    with (inplace_step (OR rn)).
  rewrite I1, Hr. unfold merge_all. f_equal.
  rewrite (map_hget_classes t h (rev l) Hi).
  - now rewrite lookup_all_rev.
  - intros a Ha. apply in_rev in Ha. eapply linearise_defined_proof; eauto.
Qed.

Lemma resolve_inplace_spec t glue h rn r :
  heap_init t h -> hget h (OR rn) = m_init r ->
  res_map fst (resolve_inplace t glue h rn r) = resolve t glue r /\
  (forall x h', resolve_inplace t glue h rn r = Ok (x, h') ->
     hget h' (OR rn) = merge_all (classes_of t x) r /\
     (forall o, o <> OR rn -> hget h' o = hget h o)).
Proof.
  intros Hi Hr. unfold resolve_inplace, resolve. destruct (linearise t r) as [l|e] eqn:E; cbn.
  - destruct (merge_inplace_spec t h rn r l Hi Hr E) as [M1 M2]. split.
    + now rewrite M1.
    + intros x h' H. inversion H; subst. unfold classes_of. cbn. auto.
  - split; auto. intros x h' H. discriminate.
Qed.

(* resolving two recipes in either order: same results, same heap, classes untouched *)
Lemma resolve_inplace_commute_proof t glue h n1 r1 n2 r2 x1 h1 x2 h12 :
  heap_init t h -> hget h (OR n1) = m_init r1 -> hget h (OR n2) = m_init r2 -> n1 <> n2 ->
  resolve_inplace t glue h n1 r1 = Ok (x1, h1) ->
  resolve_inplace t glue h1 n2 r2 = Ok (x2, h12) ->
  resolve t glue r1 = Ok x1 /\ resolve t glue r2 = Ok x2 /\
  exists h2 h21,
    resolve_inplace t glue h n2 r2 = Ok (x2, h2) /\
    resolve_inplace t glue h2 n1 r1 = Ok (x1, h21) /\
    (forall o, hget h12 o = hget h21 o) /\
    (forall n, hget h12 (OC n) = hget h (OC n)).
Proof.
  intros Hi H1 H2 Hn A B.
  assert (N12 : OR n2 <> OR n1) by (intros Q; inversion Q; congruence).
  assert (N21 : OR n1 <> OR n2) by (intros Q; inversion Q; congruence).
  destruct (resolve_inplace_spec t glue h n1 r1 Hi H1) as [S1 F1].
  destruct (F1 _ _ A) as [G1 Fr1].
  assert (Hi1 : heap_init t h1). { intros n c Hc. rewrite Fr1 by discriminate. auto. }
  assert (H2' : hget h1 (OR n2) = m_init r2) by (rewrite Fr1; auto).
  destruct (resolve_inplace_spec t glue h1 n2 r2 Hi1 H2') as [S2 F2].
  destruct (F2 _ _ B) as [G2 Fr2].
  rewrite A in S1. rewrite B in S2. cbn in S1, S2.
  (* the other order *)
  destruct (resolve_inplace_spec t glue h n2 r2 Hi H2) as [S3 F3].
  destruct (resolve_inplace t glue h n2 r2) as [[x2' h2]|e] eqn:C; cbn in S3; [|congruence].
  assert (x2' = x2) by congruence. subst x2'.
  destruct (F3 _ _ eq_refl) as [G3 Fr3].
  assert (Hi2 : heap_init t h2). { intros n c Hc. rewrite Fr3 by discriminate. auto. }
  assert (H1' : hget h2 (OR n1) = m_init r1) by (rewrite Fr3; auto).
  destruct (resolve_inplace_spec t glue h2 n1 r1 Hi2 H1') as [S4 F4].
  destruct (resolve_inplace t glue h2 n1 r1) as [[x1' h21]|e] eqn:D; cbn in S4; [|congruence].
  assert (x1' = x1) by congruence. subst x1'.
  destruct (F4 _ _ eq_refl) as [G4 Fr4].
  repeat split; auto. exists h2, h21. repeat split; auto.
  - intros o. destruct (oid_dec o (OR n2)) as [-> | O2].
    + rewrite G2, Fr4, G3 by auto. reflexivity.
    + rewrite Fr2 by auto. destruct (oid_dec o (OR n1)) as [-> | O1].
      * rewrite G1, G4. reflexivity.
      * rewrite Fr1, Fr4, Fr3 by auto. reflexivity.
  - intros n. rewrite Fr2, Fr1 by discriminate. reflexivity.
Qed.
