(* Ids/ClassesProofs — proofs about class linearisation and the merge of
   class contents (Ids/Classes.v). *)
From Coq Require Import List NArith Bool Lia Arith.
Require Import BobV.Ids.Model BobV.Ids.Proofs BobV.Ids.Classes.
Import ListNotations.
Open Scope N_scope.

(* ------------------------------------------------------------------ strings, membership *)
Lemma str_eqb_eq a : forall b, str_eqb a b = true <-> a = b.
Proof.
  induction a as [|x a IH]; intros [|y b]; cbn; split; intros H; try discriminate; auto.
  - apply andb_true_iff in H. destruct H as [H1 H2]. apply N.eqb_eq in H1. apply IH in H2. congruence.
  - inversion H; subst. apply andb_true_iff. split. apply N.eqb_refl. now apply IH.
Qed.

Lemma str_eqb_refl a : str_eqb a a = true.
Proof. now apply str_eqb_eq. Qed.

Lemma str_eqb_neq a b : str_eqb a b = false <-> a <> b.
Proof.
  split.
  - intros H E. apply str_eqb_eq in E. congruence.
  - intros H. destruct (str_eqb a b) eqn:E; auto. apply str_eqb_eq in E. contradiction.
Qed.

Lemma mem_In x l : mem x l = true <-> In x l.
Proof.
  unfold mem. rewrite existsb_exists. split.
  - intros [y [Hy E]]. apply str_eqb_eq in E. now subst.
  - intros H. exists x. split; auto. apply str_eqb_refl.
Qed.

Lemma mem_nIn x l : mem x l = false <-> ~ In x l.
Proof.
  split.
  - intros H I. apply mem_In in I. congruence.
  - intros H. destruct (mem x l) eqn:E; auto. apply mem_In in E. contradiction.
Qed.

Lemma lookup_In t n c : lookup t n = Some c -> In n (map fst t).
Proof.
  induction t as [|[k c'] t IH]; cbn; intros H; try discriminate.
  destruct (str_eqb k n) eqn:E.
  - left. now apply str_eqb_eq.
  - right. auto.
Qed.

Lemma defined_true t n : defined t n = true <-> lookup t n <> None.
Proof. unfold defined. destruct (lookup t n); split; intros; congruence. Qed.

Lemma all_defined_spec t l : all_defined t l = true <-> forall m, In m l -> lookup t m <> None.
Proof.
  unfold all_defined. rewrite forallb_forall. split; intros H m Hm; apply defined_true; auto.
Qed.

Lemma NoDup_app_snoc {A} (l : list A) n : NoDup l -> ~ In n l -> NoDup (l ++ [n]).
Proof.
  induction l as [|x l IH]; cbn; intros Hd Hn.
  - constructor; [intros []|constructor].
  - inversion Hd; subst. constructor.
    + intros Hi. apply in_app_or in Hi. destruct Hi as [Hi|[->|[]]]; auto.
    + apply IH; auto.
Qed.

(* ------------------------------------------------------------------ reachability *)
Lemma reach_trans t a b c : reach t a b -> reach t b c -> reach t a c.
Proof. intros H1 H2. induction H2; auto. eapply reach_step; eauto. Qed.

Lemma reach_edge t a b : edge t a b -> reach t a b.
Proof. intros H. eapply reach_step; [apply reach_refl | exact H]. Qed.

Lemma reach_left t a b c : edge t a b -> reach t b c -> reach t a c.
Proof. intros H1 H2. eapply reach_trans; [apply reach_edge; exact H1 | exact H2]. Qed.

Lemma reach_inv t a c : reach t a c -> a = c \/ exists b, edge t a b /\ reach t b c.
Proof.
  intros H. induction H as [| b c H IH E].
  - now left.
  - right. destruct IH as [-> | [b' [E' R']]].
    + exists c. split; auto. apply reach_refl.
    + exists b'. split; auto. eapply reach_step; eauto.
Qed.

(* ------------------------------------------------------------------ linearisation: invariants *)
Section Lin.
Variable t : table.

(* every class of the list is defined and everything it inherits stands before it *)
Definition ordered (l : list name) : Prop :=
  forall l1 a l2, l = l1 ++ a :: l2 ->
    exists c, lookup t a = Some c /\ incl (succs c) l1.

Lemma ordered_nil : ordered [].
Proof. intros l1 a l2 H. destruct l1; discriminate. Qed.

Lemma snoc_split {A} (l1 : list A) a l2 acc n :
  l1 ++ a :: l2 = acc ++ [n] ->
  (l2 = [] /\ l1 = acc /\ a = n) \/ (exists l2', l2 = l2' ++ [n] /\ acc = l1 ++ a :: l2').
Proof.
  revert acc. induction l1 as [|y l1 IH]; intros [|x acc] H; cbn in H.
  - inversion H; subst. left. auto.
  - inversion H; subst. right. exists acc. auto.
  - inversion H as [[Hy Hr]]. destruct l1; discriminate.
  - inversion H as [[Hy Hr]]. subst y. destruct (IH _ Hr) as [[-> [-> ->]] | [l2' [-> ->]]].
    + left. auto.
    + right. exists l2'. auto.
Qed.

Lemma ordered_snoc acc n c :
  ordered acc -> lookup t n = Some c -> incl (succs c) acc -> ordered (acc ++ [n]).
Proof.
  intros Ho Hl Hi l1 a l2 H. symmetry in H. apply snoc_split in H. destruct H as [[_ [-> ->]] | [l2' [-> ->]]].
  - exists c. split; auto.
  - apply (Ho l1 a l2'). reflexivity.
Qed.

Lemma ordered_defined l a : ordered l -> In a l -> exists c, lookup t a = Some c /\ incl (succs c) l.
Proof.
  intros Ho Hi. apply in_split in Hi. destruct Hi as [l1 [l2 ->]].
  destruct (Ho l1 a l2 eq_refl) as [c [Hc Hs]]. exists c. split; auto.
  intros x Hx. apply in_or_app. left. auto.
Qed.

(* what one successful call of the step function guarantees *)
Definition step_ok (f : list name -> name -> res (list name)) : Prop :=
  forall acc x acc', f acc x = Ok acc' ->
    exists new, acc' = acc ++ new /\
      (forall y, In y new -> reach t x y) /\
      In x acc' /\
      (ordered acc -> ordered acc') /\
      (NoDup acc -> NoDup acc').

Lemma lin_list_ok f : step_ok f ->
  forall l acc acc', lin_list f acc l = Ok acc' ->
    exists new, acc' = acc ++ new /\
      (forall y, In y new -> exists x, In x l /\ reach t x y) /\
      incl l acc' /\
      (ordered acc -> ordered acc') /\
      (NoDup acc -> NoDup acc').
Proof.
  intros Hf l. induction l as [|x l IH]; cbn; intros acc acc' H.
  - inversion H; subst. exists []. rewrite app_nil_r. repeat split; auto.
    + intros y [].
    + intros y [].
  - destruct (f acc x) as [acc1|e] eqn:E; try discriminate.
    destruct (Hf _ _ _ E) as [n1 [-> [R1 [I1 [O1 D1]]]]].
    destruct (IH _ _ H) as [n2 [-> [R2 [I2 [O2 D2]]]]].
    exists (n1 ++ n2). rewrite app_assoc. repeat split; auto.
    + intros y Hy. apply in_app_or in Hy. destruct Hy as [Hy|Hy].
      * exists x. split; [now left | auto].
      * destruct (R2 y Hy) as [x' [Hx' Hr]]. exists x'. split; [now right | auto].
    + intros y [<-|Hy].
      * apply in_or_app. now left.
      * now apply I2.
Qed.

Lemma lin_cls_ok fuel : forall stack, step_ok (lin_cls t fuel stack).
Proof.
  induction fuel as [|f IH]; intros stack acc n acc' H; cbn in H; try discriminate.
  destruct (mem n stack); try discriminate.
  destruct (lookup t n) as [c|] eqn:Hl; try discriminate.
  destruct (all_defined t (succs c)); try discriminate.
  destruct (lin_list (lin_cls t f (n :: stack)) acc (succs c)) as [acc1|e] eqn:E; try discriminate.
  destruct (lin_list_ok _ (IH (n :: stack)) _ _ _ E) as [n1 [-> [R1 [I1 [O1 D1]]]]].
  assert (Rn : forall y, In y n1 -> reach t n y).
  { intros y Hy. destruct (R1 y Hy) as [x [Hx Hr]]. eapply reach_left; [|exact Hr]. exists c. auto. }
  destruct (mem n (acc ++ n1)) eqn:M; inversion H; subst; clear H.
  - exists n1. repeat split; auto. now apply mem_In.
  - exists (n1 ++ [n]). rewrite app_assoc. repeat split; auto.
    + intros y Hy. apply in_app_or in Hy. destruct Hy as [Hy|[<-|[]]]; auto. apply reach_refl.
    + apply in_or_app. right. now left.
    + intros Ho. eapply ordered_snoc; eauto.
    + intros Hd. apply mem_nIn in M. specialize (D1 Hd).
      apply NoDup_app_snoc; auto.
Qed.
End Lin.

(* ------------------------------------------------------------------ consequences of [ordered] *)
Section Ord.
Variable t : table.

Lemma ordered_prefix l1 l2 : ordered t (l1 ++ l2) -> ordered t l1.
Proof.
  intros Ho la a lb H. apply (Ho la a (lb ++ l2)). subst l1. now rewrite <- app_assoc.
Qed.

Lemma edge_fun a b c : edge t a b -> lookup t a = Some c -> In b (succs c).
Proof. intros [c' [H1 H2]] H. congruence. Qed.

(* an ordered list is closed under inheritance *)
Lemma ordered_closed l a b : ordered t l -> In a l -> reach t a b -> In b l.
Proof.
  intros Ho Ha R. induction R as [|b' b R IH E]; auto.
  destruct (ordered_defined t l b' Ho IH) as [c [Hc Hs]]. apply Hs. eapply edge_fun; eauto.
Qed.

(* everything a class inherits, directly or not, stands before it *)
Lemma ordered_ancestors_before l1 a l2 b b' :
  ordered t (l1 ++ a :: l2) -> edge t a b' -> reach t b' b -> In b l1.
Proof.
  intros Ho E R. destruct (Ho l1 a l2 eq_refl) as [c [Hc Hs]].
  apply (ordered_closed l1 b' b); auto.
  - eapply ordered_prefix; eauto.
  - apply Hs. eapply edge_fun; eauto.
Qed.

Lemma ordered_acyclic l a : ordered t l -> NoDup l -> In a l -> ~ cyclic_at t a.
Proof.
  intros Ho Hd Ha [b [E R]]. apply in_split in Ha. destruct Ha as [l1 [l2 ->]].
  assert (In a l1) by (eapply ordered_ancestors_before; eauto).
  apply NoDup_remove_2 in Hd. apply Hd. apply in_or_app. now left.
Qed.
End Ord.

(* ------------------------------------------------------------------ errors *)
Section Errs.
Variable t : table.

(* every class on the stack inherits, in at least one step, the class being visited *)
Definition chain (stack : list name) (n : name) : Prop :=
  forall s, In s stack -> exists b, edge t s b /\ reach t b n.

Definition dangling_below (n : name) : Prop :=
  lookup t n = None \/
  exists a c m, reach t n a /\ lookup t a = Some c /\ In m (succs c) /\ lookup t m = None.

Definition bad (n : name) (e : err) : Prop :=
  e = EFuel \/
  (e = ECycle /\ exists a, reach t n a /\ cyclic_at t a) \/
  (e = EMissing /\ dangling_below n).

Lemma bad_lift n c x e : lookup t n = Some c -> In x (succs c) -> bad x e -> bad n e.
Proof.
  intros Hl Hx. assert (E : edge t n x) by (exists c; auto).
  intros [H | [[H [a [R C]]] | [H D]]].
  - now left.
  - right. left. split; auto. exists a. split; auto. eapply reach_left; eauto.
  - right. right. split; auto. right. destruct D as [D | [a [c' [m [R [L [I N]]]]]]].
    + exists n, c, x. repeat split; auto. apply reach_refl.
    + exists a, c', m. repeat split; auto. eapply reach_left; eauto.
Qed.

Lemma chain_push stack n c x :
  chain stack n -> lookup t n = Some c -> In x (succs c) -> chain (n :: stack) x.
Proof.
  intros Hc Hl Hx s [<-|Hs].
  - exists x. split; [exists c; auto | apply reach_refl].
  - destruct (Hc s Hs) as [b [Eb Rb]]. exists b. split; auto. eapply reach_step; eauto. exists c; auto.
Qed.

Lemma lin_list_err f (P : name -> Prop) :
  (forall acc x e, P x -> f acc x = Err e -> bad x e) ->
  forall l acc e, (forall x, In x l -> P x) -> lin_list f acc l = Err e -> exists x, In x l /\ bad x e.
Proof.
  intros Hf l. induction l as [|x l IH]; cbn; intros acc e HP H; try discriminate.
  destruct (f acc x) as [acc1|e1] eqn:E.
  - destruct (IH _ _ (fun y Hy => HP y (or_intror Hy)) H) as [y [Hy B]]. exists y. split; auto.
  - inversion H; subst. exists x. split; auto. eapply Hf; eauto.
Qed.

Lemma all_defined_false l : all_defined t l = false -> exists m, In m l /\ lookup t m = None.
Proof.
  unfold all_defined. induction l as [|x l IH]; cbn; intros H; try discriminate.
  apply andb_false_iff in H. destruct H as [H|H].
  - exists x. split; auto. unfold defined in H. destruct (lookup t x); congruence.
  - destruct (IH H) as [m [Hm Hn]]. exists m. auto.
Qed.

Lemma lin_cls_err fuel : forall stack acc n e,
  chain stack n -> lin_cls t fuel stack acc n = Err e -> bad n e.
Proof.
  induction fuel as [|f IH]; intros stack acc n e Hc H; cbn in H.
  - inversion H. now left.
  - destruct (mem n stack) eqn:M.
    + inversion H; subst. right. left. split; auto. apply mem_In in M.
      destruct (Hc n M) as [b [E R]]. exists n. split; [apply reach_refl|]. exists b. auto.
    + destruct (lookup t n) as [c|] eqn:Hl.
      2:{ inversion H; subst. right. right. split; auto. now left. }
      destruct (all_defined t (succs c)) eqn:D.
      2:{ inversion H; subst. right. right. split; auto. right.
          destruct (all_defined_false _ D) as [m [Hm Hn]]. exists n, c, m. repeat split; auto. apply reach_refl. }
      destruct (lin_list (lin_cls t f (n :: stack)) acc (succs c)) as [acc1|e1] eqn:E.
      * destruct (mem n acc1); discriminate.
      * inversion H; subst.
        destruct (lin_list_err (lin_cls t f (n :: stack)) (fun x => In x (succs c))
                    (fun acc0 x e0 Hx Hr => IH (n :: stack) acc0 x e0 (chain_push stack n c x Hc Hl Hx) Hr)
                    (succs c) acc e (fun x Hx => Hx) E) as [x [Hx B]].
        eapply bad_lift; eauto.
Qed.

(* ---- fuel *)
Lemma lin_list_nofuel f l : forall acc,
  (forall acc x, In x l -> f acc x <> Err EFuel) -> lin_list f acc l <> Err EFuel.
Proof.
  induction l as [|x l IH]; cbn; intros acc Hf; try discriminate.
  destruct (f acc x) as [acc1|e] eqn:E.
  - apply IH. intros a y Hy. apply Hf. now right.
  - intros H. inversion H; subst. apply (Hf acc x (or_introl eq_refl)). exact E.
Qed.

Lemma lin_cls_nofuel fuel : forall stack acc n,
  NoDup stack -> incl stack (map fst t) -> (length t < fuel + length stack)%nat ->
  lin_cls t fuel stack acc n <> Err EFuel.
Proof.
  induction fuel as [|f IH]; intros stack acc n Hd Hi Hlen.
  - exfalso. pose proof (NoDup_incl_length Hd Hi) as H. rewrite map_length in H. cbn in Hlen. lia.
  - cbn. destruct (mem n stack) eqn:M; try discriminate.
    destruct (lookup t n) as [c|] eqn:Hl; try discriminate.
    destruct (all_defined t (succs c)); try discriminate.
    destruct (lin_list (lin_cls t f (n :: stack)) acc (succs c)) as [acc1|e] eqn:E.
    + destruct (mem n acc1); discriminate.
    + intros H. inversion H; subst. revert E. apply lin_list_nofuel. intros a x _. apply IH.
      * constructor; auto. now apply mem_nIn.
      * intros y [<-|Hy]; auto. eapply lookup_In; eauto.
      * cbn. lia.
Qed.

(* ---- more fuel does not change a result *)
Lemma lin_list_mono f1 f2 l : forall acc R,
  (forall acc x R, In x l -> f1 acc x = R -> R <> Err EFuel -> f2 acc x = R) ->
  lin_list f1 acc l = R -> R <> Err EFuel -> lin_list f2 acc l = R.
Proof.
  induction l as [|x l IH]; cbn; intros acc R Hf H Hn; auto.
  destruct (f1 acc x) as [acc1|e] eqn:E.
  - rewrite (Hf acc x (Ok acc1) (or_introl eq_refl) E) by discriminate.
    apply IH; auto.
  - subst R. rewrite (Hf acc x (Err e) (or_introl eq_refl) E Hn). reflexivity.
Qed.

Lemma lin_cls_mono f : forall f' stack acc n R,
  (f <= f')%nat -> lin_cls t f stack acc n = R -> R <> Err EFuel -> lin_cls t f' stack acc n = R.
Proof.
  induction f as [|f IH]; intros f' stack acc n R Hle H Hn.
  - cbn in H. subst R. contradiction.
  - destruct f' as [|f']; [lia|]. cbn in H |- *.
    destruct (mem n stack); auto.
    destruct (lookup t n) as [c|]; auto.
    destruct (all_defined t (succs c)); auto.
    destruct (lin_list (lin_cls t f (n :: stack)) acc (succs c)) as [acc1|e] eqn:E.
    + rewrite (lin_list_mono _ (lin_cls t f' (n :: stack)) _ _ _
                 (fun a x R' _ Hr Hne => IH f' (n :: stack) a x R' ltac:(lia) Hr Hne) E) by discriminate.
      exact H.
    + subst R. assert (He : Err (A := list name) e <> Err EFuel) by (intros Q; apply Hn; now inversion Q).
      rewrite (lin_list_mono _ (lin_cls t f' (n :: stack)) _ _ _
                 (fun a x R' _ Hr Hne => IH f' (n :: stack) a x R' ltac:(lia) Hr Hne) E He).
      reflexivity.
Qed.
End Errs.

(* ------------------------------------------------------------------ linearise: the statements *)
Lemma linearise_unfold t r l :
  linearise t r = Ok l ->
  all_defined t (succs r) = true /\ lin_list (lin_cls t (lin_fuel t) []) [] (succs r) = Ok l.
Proof. unfold linearise. destruct (all_defined t (succs r)); intros H; [auto | discriminate]. Qed.

Lemma linearise_facts t r l :
  linearise t r = Ok l ->
  NoDup l /\ ordered t l /\ incl (succs r) l /\ (forall y, In y l -> anc t r y).
Proof.
  intros H. apply linearise_unfold in H. destruct H as [_ H].
  destruct (lin_list_ok t _ (lin_cls_ok t (lin_fuel t) []) _ _ _ H) as [new [-> [R [I [O D]]]]].
  cbn in *. repeat split; auto.
  - apply D. constructor.
  - apply O. apply ordered_nil.
Qed.

Lemma linearise_nodup_proof t r l : linearise t r = Ok l -> NoDup l.
Proof. intros H. now apply linearise_facts in H. Qed.

Lemma linearise_sound_proof t r l a : linearise t r = Ok l -> In a l -> anc t r a.
Proof. intros H. apply linearise_facts in H. destruct H as [_ [_ [_ H]]]. auto. Qed.

Lemma linearise_complete_proof t r l a : linearise t r = Ok l -> anc t r a -> In a l.
Proof.
  intros H [s [Hs R]]. apply linearise_facts in H. destruct H as [_ [O [I _]]].
  eapply ordered_closed; eauto.
Qed.

Lemma linearise_ancestors_iff_proof t r l :
  linearise t r = Ok l -> forall a, In a l <-> anc t r a.
Proof. intros H a. split; [eapply linearise_sound_proof | eapply linearise_complete_proof]; eauto. Qed.

(* a class stands after everything it inherits (directly or through other classes) *)
Lemma linearise_bases_first_proof t r l l1 a l2 b :
  linearise t r = Ok l -> l = l1 ++ a :: l2 ->
  (exists b', edge t a b' /\ reach t b' b) -> In b l1.
Proof.
  intros H -> [b' [E R]]. apply linearise_facts in H. destruct H as [_ [O _]].
  eapply ordered_ancestors_before; eauto.
Qed.

Lemma linearise_defined_proof t r l a : linearise t r = Ok l -> In a l -> lookup t a <> None.
Proof.
  intros H Ha. apply linearise_facts in H. destruct H as [_ [O _]].
  destruct (ordered_defined t l a O Ha) as [c [Hc _]]. congruence.
Qed.

Lemma linearise_fuel_proof t r : linearise t r <> Err EFuel.
Proof.
  unfold linearise. destruct (all_defined t (succs r)); try discriminate.
  apply lin_list_nofuel. intros acc x _. apply lin_cls_nofuel.
  - constructor.
  - intros y [].
  - unfold lin_fuel. cbn. lia.
Qed.

Lemma linearise_err t r e :
  linearise t r = Err e ->
  e = EFuel \/
  (e = ECycle /\ exists a, anc t r a /\ cyclic_at t a) \/
  (e = EMissing /\ ~ closed_from t r).
Proof.
  unfold linearise. destruct (all_defined t (succs r)) eqn:D.
  - intros H.
    destruct (lin_list_err t (lin_cls t (lin_fuel t) []) (fun _ => True)
                (fun acc x e0 _ Hr => lin_cls_err t (lin_fuel t) [] acc x e0 (fun s Hs => match Hs with end) Hr)
                (succs r) [] e (fun _ _ => I) H) as [x [Hx B]].
    destruct B as [B | [[B [a [R C]]] | [B Dg]]].
    + now left.
    + right. left. split; auto. exists a. split; auto. exists x. auto.
    + right. right. split; auto. intros [C1 C2]. destruct Dg as [Dg | [a [c [m [R [L [Im N]]]]]]].
      * apply (C1 x Hx Dg).
      * apply (C2 a c m); auto. exists x. auto.
  - intros H. inversion H; subst. right. right. split; auto. intros [C1 _].
    destruct (all_defined_false t _ D) as [m [Hm Hn]]. apply (C1 m Hm Hn).
Qed.

Lemma linearise_ok_closed t r l : linearise t r = Ok l -> closed_from t r.
Proof.
  intros H. pose proof (linearise_facts _ _ _ H) as [_ [O [I _]]]. split.
  - intros s Hs. eapply linearise_defined_proof; eauto.
  - intros a c m Ha Hc Hm. eapply linearise_defined_proof; eauto.
    eapply linearise_complete_proof; eauto.
    destruct Ha as [s [Hs R]]. exists s. split; auto. eapply reach_step; eauto. exists c. auto.
Qed.

Lemma linearise_ok_acyclic t r l a : linearise t r = Ok l -> anc t r a -> ~ cyclic_at t a.
Proof.
  intros H Ha. pose proof (linearise_facts _ _ _ H) as [D [O _]].
  eapply ordered_acyclic; eauto. eapply linearise_complete_proof; eauto.
Qed.

Lemma linearise_ok_iff_proof t r :
  (exists l, linearise t r = Ok l) <-> (closed_from t r /\ ~ exists a, anc t r a /\ cyclic_at t a).
Proof.
  split.
  - intros [l H]. split.
    + eapply linearise_ok_closed; eauto.
    + intros [a [Ha C]]. eapply linearise_ok_acyclic; eauto.
  - intros [C N]. destruct (linearise t r) as [l|e] eqn:E; eauto.
    exfalso. destruct (linearise_err _ _ _ E) as [-> | [[_ X] | [_ X]]]; auto.
    eapply linearise_fuel_proof; eauto.
Qed.

Lemma linearise_cycle_iff_proof t r :
  closed_from t r ->
  (linearise t r = Err ECycle <-> exists a, anc t r a /\ cyclic_at t a).
Proof.
  intros C. split.
  - intros H. destruct (linearise_err _ _ _ H) as [X | [[_ X] | [X _]]]; auto; discriminate.
  - intros [a [Ha Cy]]. destruct (linearise t r) as [l|e] eqn:E.
    + exfalso. eapply linearise_ok_acyclic; eauto.
    + destruct (linearise_err _ _ _ E) as [-> | [[-> _] | [_ X]]]; auto.
      * exfalso. eapply linearise_fuel_proof; eauto.
      * contradiction.
Qed.

Lemma linearise_missing_iff_proof t r :
  (~ exists a, anc t r a /\ cyclic_at t a) ->
  (linearise t r = Err EMissing <-> ~ closed_from t r).
Proof.
  intros N. split.
  - intros H C. assert (X : exists l, linearise t r = Ok l) by (apply linearise_ok_iff_proof; auto).
    destruct X as [l X]. congruence.
  - intros NC. destruct (linearise t r) as [l|e] eqn:E.
    + exfalso. apply NC. eapply linearise_ok_closed; eauto.
    + destruct (linearise_err _ _ _ E) as [-> | [[_ X] | [-> _]]]; auto.
      * exfalso. eapply linearise_fuel_proof; eauto.
      * contradiction.
Qed.

(* ------------------------------------------------------------------ only the ancestors matter *)
Lemma lin_list_ext f1 f2 l : forall acc,
  (forall acc x, In x l -> f1 acc x = f2 acc x) -> lin_list f1 acc l = lin_list f2 acc l.
Proof.
  induction l as [|x l IH]; cbn; intros acc H; auto.
  rewrite <- (H acc x (or_introl eq_refl)). destruct (f1 acc x); auto.
Qed.

Lemma all_defined_ext t t' l :
  (forall m, In m l -> lookup t m = lookup t' m) -> all_defined t l = all_defined t' l.
Proof.
  unfold all_defined. induction l as [|x l IH]; cbn; intros H; auto.
  unfold defined at 1 3. rewrite (H x (or_introl eq_refl)). f_equal. apply IH. intros m Hm. apply H. now right.
Qed.

Lemma lin_cls_agree t t' fuel : forall stack acc n,
  (forall a, reach t n a -> lookup t a = lookup t' a) ->
  lin_cls t fuel stack acc n = lin_cls t' fuel stack acc n.
Proof.
  induction fuel as [|f IH]; intros stack acc n H; cbn; auto.
  destruct (mem n stack); auto.
  rewrite <- (H n (reach_refl t n)).
  destruct (lookup t n) as [c|] eqn:Hl; auto.
  assert (E : forall m, In m (succs c) -> edge t n m) by (intros m Hm; exists c; auto).
  rewrite <- (all_defined_ext t t' (succs c)).
  2:{ intros m Hm. apply H. apply reach_edge. auto. }
  destruct (all_defined t (succs c)); auto.
  rewrite (lin_list_ext (lin_cls t f (n :: stack)) (lin_cls t' f (n :: stack))); auto.
  intros a x Hx. apply IH. intros b Hb. apply H. eapply reach_left; eauto.
Qed.

Definition agree_on_ancestors (t t' : table) (r : cls) : Prop :=
  forall a, anc t r a -> lookup t a = lookup t' a.

Lemma linearise_agree_proof t t' r : agree_on_ancestors t t' r -> linearise t r = linearise t' r.
Proof.
  intros H.
  assert (Hs : forall m, In m (succs r) -> lookup t m = lookup t' m).
  { intros m Hm. apply H. exists m. split; auto. apply reach_refl. }
  pose proof (linearise_fuel_proof t r) as F1. pose proof (linearise_fuel_proof t' r) as F2.
  unfold linearise in *. rewrite <- (all_defined_ext t t' (succs r) Hs).
  destruct (all_defined t (succs r)); auto.
  set (F := Nat.max (lin_fuel t) (lin_fuel t')).
  assert (A : forall tt, (lin_fuel tt <= F)%nat ->
            lin_list (lin_cls tt (lin_fuel tt) []) [] (succs r) <> Err EFuel ->
            lin_list (lin_cls tt (lin_fuel tt) []) [] (succs r) = lin_list (lin_cls tt F []) [] (succs r)).
  { intros tt Hle Hn. symmetry. eapply lin_list_mono; [|reflexivity|exact Hn].
    intros acc x R _ Hr Hne. eapply lin_cls_mono; eauto. }
  rewrite (A t) by (auto; subst F; lia). rewrite (A t') by (auto; subst F; lia).
  apply lin_list_ext. intros acc x Hx. apply lin_cls_agree.
  intros a Ha. apply H. exists x. auto.
Qed.

Lemma lookup_all_agree t t' l :
  (forall a, In a l -> lookup t a = lookup t' a) -> lookup_all t l = lookup_all t' l.
Proof.
  induction l as [|x l IH]; cbn; intros H; auto.
  rewrite (H x (or_introl eq_refl)). f_equal. apply IH. intros a Ha. apply H. now right.
Qed.

Lemma resolve_agree_proof t t' glue r : agree_on_ancestors t t' r -> resolve t glue r = resolve t' glue r.
Proof.
  intros H. unfold resolve. rewrite <- (linearise_agree_proof t t' r H).
  destruct (linearise t r) as [l|e] eqn:E; auto.
  rewrite (lookup_all_agree t t' l); auto.
  intros a Ha. apply H. eapply linearise_sound_proof; eauto.
Qed.
