(* C03 — property theorems (statements only; proofs in Proofs.v). *)
From Coq Require Import List NArith Bool Permutation.
Require Import BobV.Common.Sha1 BobV.Ids.Model BobV.Ids.Proofs.
Import ListNotations.
Open Scope N_scope.

(* The order in which tools and variables are presented (dict / set iteration
   order, hash seed, parse order) cannot matter. *)
Theorem variant_id_order_independent : forall H a b,
  si_fp_sandbox a = si_fp_sandbox b -> si_script a = si_script b -> si_args a = si_args b ->
  Permutation (si_tools a) (si_tools b) -> NoDup (map fst (si_tools a)) ->
  Permutation (si_env a) (si_env b) -> NoDup (map fst (si_env a)) ->
  variant_id H a = variant_id H b.
Proof. exact variant_id_order_independent_proof. Qed.

Theorem sorting_is_canonical : forall (A : Type) (key : A -> str) l1 l2,
  Permutation l1 l2 -> NoDup (map key l1) -> sort_by key l1 = sort_by key l2.
Proof. exact @sort_by_perm_eq_proof. Qed.

(* The id is a function of the declared inputs only: the model has no other
   argument (no path, time, counter), and of those inputs only [core] and the
   host stream matter. *)
Theorem variant_id_pure : forall (H : bytes -> bytes) a b,
  core a = core b -> enc_host a = enc_host b -> variant_id H a = variant_id H b.
Proof. exact variant_id_of_core_proof. Qed.

(* The Build-Id ignores which variant (and path, libraries) of a weakly used
   tool is installed: only its name enters. *)
Theorem build_id_relaxes_weak_tools : forall H a b,
  bi_script a = bi_script b -> bi_env a = bi_env b -> bi_args a = bi_args b ->
  bi_platform a = bi_platform b -> bi_fingerprint a = bi_fingerprint b ->
  map relax (bi_tools a) = map relax (bi_tools b) ->
  build_id H a = build_id H b.
Proof. exact build_id_relaxes_weak_proof. Qed.

Example order_independent_nonvacuous :
  variant_id sha1 {| si_fp_sandbox := None; si_script := [120]; si_tools := [];
                     si_env := [([66], [49]); ([65], [50])]; si_args := [] |}
  = variant_id sha1 {| si_fp_sandbox := None; si_script := [120]; si_tools := [];
                       si_env := [([65], [50]); ([66], [49])]; si_args := [] |}.
Proof. vm_compute. reflexivity. Qed.
