(* C03/C02 at the class level — property theorems about class resolution
   (Ids/Classes.v models Recipe.__resolveClassesOrder and Recipe.resolveClasses).
   Statements only; proofs in Ids/ClassesProofs.v. *)
From Coq Require Import List NArith Bool.
Require Import BobV.Ids.Model BobV.Ids.Classes BobV.Ids.ClassesProofs.
Import ListNotations.
Open Scope N_scope.

(* ================================================================== (a) linearisation *)

(* every class is inherited only once *)
Theorem linearise_no_class_twice : forall t r l, linearise t r = Ok l -> NoDup l.
Proof. exact linearise_nodup_proof. Qed.
Print Assumptions linearise_no_class_twice.

(* the result holds exactly the classes reachable through inherit / the anonymous multiPackage base *)
Theorem linearise_exactly_the_ancestors : forall t r l,
  linearise t r = Ok l -> forall a, In a l <-> anc t r a.
Proof. exact linearise_ancestors_iff_proof. Qed.
Print Assumptions linearise_exactly_the_ancestors.

(* a class stands after every class it inherits, directly or through other classes: it overrides its bases *)
Theorem linearise_bases_before_derived : forall t r l l1 a l2 b,
  linearise t r = Ok l -> l = l1 ++ a :: l2 ->
  (exists b', edge t a b' /\ reach t b' b) -> In b l1.
Proof. exact linearise_bases_first_proof. Qed.
Print Assumptions linearise_bases_before_derived.

(* a result exists iff every named class exists and no inheritance cycle is reachable *)
Theorem linearise_succeeds_iff : forall t r,
  (exists l, linearise t r = Ok l) <-> (closed_from t r /\ ~ exists a, anc t r a /\ cyclic_at t a).
Proof. exact linearise_ok_iff_proof. Qed.
Print Assumptions linearise_succeeds_iff.

(* "Cyclic class inheritence" is reported iff a cycle is reachable (all named classes existing) *)
Theorem linearise_cycle_error_iff : forall t r,
  closed_from t r ->
  (linearise t r = Err ECycle <-> exists a, anc t r a /\ cyclic_at t a).
Proof. exact linearise_cycle_iff_proof. Qed.
Print Assumptions linearise_cycle_error_iff.

Theorem linearise_missing_error_iff : forall t r,
  (~ exists a, anc t r a /\ cyclic_at t a) ->
  (linearise t r = Err EMissing <-> ~ closed_from t r).
Proof. exact linearise_missing_iff_proof. Qed.
Print Assumptions linearise_missing_error_iff.

(* the fuel of the model (number of table entries + 1 = bound on the recursion depth) always suffices,
   and more fuel never changes a result *)
Theorem linearise_never_out_of_fuel : forall t r, linearise t r <> Err EFuel.
Proof. exact linearise_fuel_proof. Qed.
Print Assumptions linearise_never_out_of_fuel.

Theorem lin_cls_fuel_monotone : forall t f f' stack acc n R,
  (f <= f')%nat -> lin_cls t f stack acc n = R -> R <> Err EFuel -> lin_cls t f' stack acc n = R.
Proof. exact lin_cls_mono. Qed.
Print Assumptions lin_cls_fuel_monotone.

(* ================================================================== (b) purity *)

(* the resolved recipe is a function of the recipe and of its inherit closure: classes (and anonymous
   base classes of other recipes) that are no ancestors may be added, removed or changed at will *)
Theorem resolve_depends_only_on_ancestors : forall t t' glue r,
  (forall a, anc t r a -> lookup t a = lookup t' a) ->
  resolve t glue r = resolve t' glue r.
Proof. exact resolve_agree_proof. Qed.
Print Assumptions resolve_depends_only_on_ancestors.

(* the loop as Python runs it, in place on a heap of objects, computes [resolve] and writes no object but
   the recipe that is being resolved: class objects keep their state *)
Theorem resolve_inplace_is_resolve_and_frames : forall t glue h rn r,
  heap_init t h -> hget h (OR rn) = m_init r ->
  res_map fst (resolve_inplace t glue h rn r) = resolve t glue r /\
  (forall x h', resolve_inplace t glue h rn r = Ok (x, h') ->
     hget h' (OR rn) = merge_all (classes_of t x) r /\
     (forall o, o <> OR rn -> hget h' o = hget h o)).
Proof. exact resolve_inplace_spec. Qed.
Print Assumptions resolve_inplace_is_resolve_and_frames.

(* two recipes resolved in either order (the order in which the recipe files were read): same resolved
   recipes, equal to the pure [resolve]; same final heap; every class object unchanged *)
Theorem resolve_inplace_commutes : forall t glue h n1 r1 n2 r2 x1 h1 x2 h12,
  heap_init t h -> hget h (OR n1) = m_init r1 -> hget h (OR n2) = m_init r2 -> n1 <> n2 ->
  resolve_inplace t glue h n1 r1 = Ok (x1, h1) ->
  resolve_inplace t glue h1 n2 r2 = Ok (x2, h12) ->
  resolve t glue r1 = Ok x1 /\ resolve t glue r2 = Ok x2 /\
  exists h2 h21,
    resolve_inplace t glue h n2 r2 = Ok (x2, h2) /\
    resolve_inplace t glue h2 n1 r1 = Ok (x1, h21) /\
    (forall o, hget h12 o = hget h21 o) /\
    (forall n, hget h12 (OC n) = hget h (OC n)).
Proof. exact resolve_inplace_commute_proof. Qed.
Print Assumptions resolve_inplace_commutes.

Theorem initial_heap_is_initial : forall t rs,
  heap_init t (heap_of t rs) /\ forall n r, lookup rs n = Some r -> hget (heap_of t rs) (OR n) = m_init r.
Proof. exact (fun t rs => conj (heap_of_init t rs) (heap_of_recipe t rs)). Qed.
Print Assumptions initial_heap_is_initial.

(* ================================================================== (c) override laws *)

(* provideTools / provideVars / metaEnvironment / *AuditFiles (position i): the recipe's own entry wins,
   then the classes from the last of the linearisation (most derived) to the first *)
Theorem dict_keys_most_derived_wins : forall t glue r x i k,
  resolve t glue r = Ok x -> cls_wf r -> (forall c, In c (classes_of t x) -> cls_wf c) ->
  dict_get (nth i (m_dicts (rs_m x)) []) k =
  first_some (dict_get (nth i (c_dicts r) []) k ::
              map (fun c => dict_get (nth i (c_dicts c) []) k) (rev (classes_of t x))).
Proof. exact resolve_dict_law_proof. Qed.
Print Assumptions dict_keys_most_derived_wins.

(* root shared relocatable jobServer packageDepends provideSandbox *NetAccess, plugin properties:
   first value that is not None in the same order, then the built-in default *)
Theorem scalar_keys_first_not_none : forall t glue r x i,
  resolve t glue r = Ok x ->
  nth i (m_scalars (rs_m x)) None =
  first_some (nth i (c_scalars r) None ::
              map (fun c => nth i (c_scalars c) None) (rev (classes_of t x)) ++ [nth i scalar_defaults None]).
Proof. exact resolve_scalar_law_proof. Qed.
Print Assumptions scalar_keys_first_not_none.

(* *Vars, *VarsWeak, provideDeps: union over the recipe and all ancestors, in canonical form *)
Theorem set_keys_are_unions : forall t glue r x i v,
  resolve t glue r = Ok x ->
  (In v (nth i (m_sets (rs_m x)) []) <->
   In v (nth i (c_sets r) []) \/
   exists a c, In a (rs_order x) /\ lookup t a = Some c /\ In v (nth i (c_sets c) [])).
Proof. exact resolve_set_law_proof. Qed.
Print Assumptions set_keys_are_unions.

Theorem set_keys_canonical : forall t glue r x i,
  resolve t glue r = Ok x -> sset (nth i (m_sets (rs_m x)) []).
Proof. exact resolve_set_canonical_proof. Qed.
Print Assumptions set_keys_canonical.

Theorem set_norm_canonical : forall a b, (forall x, In x a <-> In x b) -> set_norm a = set_norm b.
Proof. exact set_norm_canonical_proof. Qed.
Print Assumptions set_norm_canonical.

(* scripts, SCMs, asserts: the ancestors in linearisation order, then the recipe *)
Theorem scripts_in_linearisation_order : forall t glue r x,
  resolve t glue r = Ok x ->
  let all := classes_of t x ++ [r] in
  let lg := rs_lang x in
  rs_lang x = sel_lang all r /\
  rs_checkout x = merge_scripts (glue lg) (map (fun c => sel lg (c_checkout c)) all) /\
  rs_build x = merge_scripts (glue lg) (map (fun c => sel lg (c_build c)) all) /\
  (snd (fst (merge_scripts (glue lg) (map (fun c => sel lg (c_package c)) all))) <> None ->
   rs_package x = merge_scripts (glue lg) (map (fun c => sel lg (c_package c)) all)) /\
  rs_scms x = flat_map c_scms all /\ rs_asserts x = flat_map c_asserts all /\
  rs_codet x = forallb (co_det lg) all.
Proof. exact resolve_scripts_law_proof. Qed.
Print Assumptions scripts_in_linearisation_order.

(* main script: Script fragments in that order, then the Finalize fragments in the reverse order *)
Theorem main_script_shape : forall glue fs,
  snd (fst (merge_scripts glue fs)) =
  join_scripts glue (map (fun f => fst (f_main f)) fs ++ map (fun f => fst (f_final f)) (rev fs)).
Proof. exact merge_scripts_main_proof. Qed.
Print Assumptions main_script_shape.

(* the six tool lists: own entries, then most derived class ... base class *)
Theorem tool_lists_own_then_derived_to_base : forall t glue r x i,
  resolve t glue r = Ok x ->
  nth i (m_tools (rs_m x)) [] =
  nth i (c_tools r) [] ++ concat_map (fun c => nth i (c_tools c) []) (rev (classes_of t x)).
Proof. exact resolve_tools_law_proof. Qed.
Print Assumptions tool_lists_own_then_derived_to_base.

(* dependencies and the environment / privateEnvironment layers: base ... derived, then the recipe *)
Theorem deps_and_env_layers_base_to_derived : forall t glue r x,
  resolve t glue r = Ok x ->
  m_deps (rs_m x) = concat_map c_deps (classes_of t x) ++ c_deps r /\
  m_varSelf (rs_m x) = concat_map (fun c => dict_nonempty (c_varSelf c)) (classes_of t x) ++ dict_nonempty (c_varSelf r) /\
  m_varPrivate (rs_m x) = concat_map (fun c => dict_nonempty (c_varPrivate c)) (classes_of t x) ++ dict_nonempty (c_varPrivate r) /\
  m_sources (rs_m x) = c_sources r ++ concat_map c_sources (rev (classes_of t x)).
Proof. exact resolve_deps_law_proof. Qed.
Print Assumptions deps_and_env_layers_base_to_derived.

(* ================================================================== non-vacuity *)
Definition nA : name := [65].
Definition nB : name := [66].
Definition nC : name := [67].
Definition nX : name := [114; 35; 49].           (* "r#1" *)
Definition kK : str := [75].
Definition ex_table : table :=
  [ (nA, sample_cls [] None [97] kK [97] [116; 97] [86; 65]);
    (nB, sample_cls [nA] None [98] kK [98] [116; 98] [86; 66]);
    (nC, sample_cls [nA] None [99] kK [99] [116; 99] [86; 65]);
    (nX, sample_cls [nB] None [120] [88] [120] [116; 120] [86; 88]) ].
Definition ex_glue (l : lang) : str := [59].

(* a diamond (B and C inherit A) with repeated names in the inherit list *)
Example diamond_nonvacuous :
  linearise ex_table (with_inherit cls0 [nB; nC; nA; nB] None) = Ok [nA; nB; nC].
Proof. vm_compute. reflexivity. Qed.
Print Assumptions diamond_nonvacuous.

(* the anonymous base class of a multiPackage comes first *)
Example anon_base_nonvacuous :
  linearise ex_table (with_inherit cls0 [nC] (Some nX)) = Ok [nA; nB; nX; nC].
Proof. vm_compute. reflexivity. Qed.
Print Assumptions anon_base_nonvacuous.

Definition ex_cyclic : table :=
  [ (nA, with_inherit cls0 [nB] None); (nB, with_inherit cls0 [nC; nA] None); (nC, cls0) ].

Example cycle_nonvacuous :
  linearise ex_cyclic (with_inherit cls0 [nC; nA] None) = Err ECycle /\
  linearise ex_cyclic (with_inherit cls0 [nC] None) = Ok [nC] /\
  linearise ex_cyclic (with_inherit cls0 [nC; [90]] None) = Err EMissing.
Proof. vm_compute. repeat split; reflexivity. Qed.
Print Assumptions cycle_nonvacuous.

(* resolution of a recipe over the diamond: own provideVars entry wins over C over B over A, buildVars is the
   sorted union, buildTools are own, C, B, A, the build script joins A, B, C, own *)
Example resolve_nonvacuous :
  match resolve ex_table ex_glue (sample_cls [nB; nC] None [114] kK [114] [116; 114] [86; 90]) with
  | Ok x => rs_order x = [nA; nB; nC] /\
            dict_get (nth 1 (m_dicts (rs_m x)) []) kK = Some [114] /\
            nth 3 (m_sets (rs_m x)) [] = [[86; 65]; [86; 66]; [86; 90]] /\
            nth 2 (m_tools (rs_m x)) [] = [[116; 114]; [116; 99]; [116; 98]; [116; 97]] /\
            snd (fst (rs_build x)) = Some [97; 59; 98; 59; 99; 59; 114]
  | Err _ => False
  end /\
  match resolve ex_table ex_glue (with_inherit cls0 [nB; nC] None) with
  | Ok x => dict_get (nth 1 (m_dicts (rs_m x)) []) kK = Some [99]
  | Err _ => False
  end.
Proof. vm_compute. repeat split; reflexivity. Qed.
Print Assumptions resolve_nonvacuous.

(* resolving two recipes in place, in both orders *)
Example inplace_nonvacuous :
  let r1 := sample_cls [nB; nC] None [114] kK [114] [116; 114] [86; 90] in
  let r2 := with_inherit cls0 [nC] (Some nX) in
  let h := heap_of ex_table [([49], r1); ([50], r2)] in
  match resolve_inplace ex_table ex_glue h [49] r1 with
  | Ok (x1, h1) =>
    match resolve_inplace ex_table ex_glue h1 [50] r2 with
    | Ok (x2, h12) => resolve ex_table ex_glue r1 = Ok x1 /\ resolve ex_table ex_glue r2 = Ok x2 /\
                      hget h12 (OC nA) = m_init (sample_cls [] None [97] kK [97] [116; 97] [86; 65]) /\
                      m_tools (hget h12 (OR [49])) = [[]; []; [[116; 114]; [116; 99]; [116; 98]; [116; 97]]]
    | Err _ => False
    end
  | Err _ => False
  end.
Proof. vm_compute. repeat split; reflexivity. Qed.
Print Assumptions inplace_nonvacuous.
