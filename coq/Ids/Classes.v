(* Ids/Classes — model of class resolution: pym/bob/input.py
   Recipe.__resolveClassesOrder (2291-2309), Recipe.resolveClasses (2330-2453),
   mergeScripts (147-166), pym/bob/utils.py joinScripts.  Definitions only.

   Input of the model is the state of the Recipe objects (classes, anonymous
   multiPackage base classes, recipes) after Recipe.__init__ and before any
   resolveClasses call; output is the state of a recipe object after its
   resolveClasses call.  Values that the merge treats as opaque (tool specs,
   SCM specs, dependency entries, scalar settings) are canonical renderings
   (strings) made by the harness.

   Names: classes are looked up by name in one table.  The anonymous base
   classes of multiPackage recipes are objects in Python (not in
   RecipeSet.__classes); their generated names contain '#', which no class
   name can (RECIPE_NAME_SCHEMA), so they live in the same table here and
   [c_anon] refers to them by that name.  Precondition of the correspondence:
   no [c_inherit] entry contains '#'. *)
From Coq Require Import List NArith Bool.
Require Import BobV.Common.Cases BobV.Ids.Model.
Import ListNotations.
Open Scope N_scope.

Definition name := str.
Definition dict := list (str * str).       (* Python dict: insertion order, unique keys *)

Fixpoint str_eqb (a b : str) : bool :=
  match a, b with
  | [], [] => true
  | x :: a', y :: b' => N.eqb x y && str_eqb a' b'
  | _, _ => false
  end.

Definition mem (x : str) (l : list str) : bool := existsb (str_eqb x) l.

Inductive err := ECycle | EMissing | EFuel.
Inductive res (A : Type) := Ok (a : A) | Err (e : err).
Arguments Ok {A} a.
Arguments Err {A} e.

Inductive lang := Bash | Pwsh.

(* one script fragment after IncludeHelper.resolve: (content, digest), both None when absent *)
Definition frag := (option str * option str)%type.
Record frags := { f_setup : frag; f_main : frag; f_final : frag }.

Record cls := {
  c_inherit : list name;                 (* __inherit *)
  c_anon : option name;                  (* __anonBaseClass *)
  c_lang : option lang;                  (* __scriptLanguage *)
  c_dfltLang : lang;                     (* __defaultScriptLanguage *)
  c_checkout : frags * frags;            (* fetchScripts: (bash, pwsh) *)
  c_build : frags * frags;
  c_package : frags * frags;
  c_codet : option bool;                 (* __checkoutDeterministic *)
  c_updateIf : option str;               (* __checkoutUpdateIf: None = False *)
  c_scms : list str;                     (* __checkoutSCMs *)
  c_asserts : list str;                  (* __checkoutAsserts *)
  c_fp : str;                            (* fingerprintScriptList / VarsList / If of this object *)
  c_sources : list str;                  (* __sources *)
  c_deps : list str;                     (* __deps *)
  c_scalars : list (option str);         (* root shared relocatable jobServer packageDepends provideSandbox
                                            buildNetAccess packageNetAccess, then plugin properties *)
  c_dicts : list dict;                   (* provideTools provideVars metaEnv checkoutAuditFiles buildAuditFiles
                                            packageAuditFiles *)
  c_sets : list (list str);              (* provideDeps checkoutVars checkoutVarsWeak buildVars buildVarsWeak
                                            packageVars packageVarsWeak *)
  c_varSelf : dict;                      (* __varSelf *)
  c_varPrivate : dict;                   (* __varPrivate *)
  c_tools : list (list str)              (* __toolDepCheckout …Weak Build …Weak Package …Weak *)
}.

Definition table := list (name * cls).

Fixpoint lookup (t : table) (n : name) : option cls :=
  match t with
  | [] => None
  | (k, c) :: r => if str_eqb k n then Some c else lookup r n
  end.

(* ------------------------------------------------------------------ order
   __resolveClassesOrder.  [acc] is the list that the outermost call finally
   returns: every `ret.append(cls)` is paired with `visited.add(clsName)` and
   the sub-results are concatenated in call order, so `visited` is exactly the
   set of elements of the accumulated result. *)
Definition succs (c : cls) : list name :=
  match c_anon c with Some a => a :: c_inherit c | None => c_inherit c end.

Definition defined (t : table) (n : name) : bool :=
  match lookup t n with Some _ => true | None => false end.

(* subInherit = [ getClass(c) for c in cls.__inherit ] is evaluated before any recursion *)
Definition all_defined (t : table) (l : list name) : bool := forallb (defined t) l.

Fixpoint lin_list (f : list name -> name -> res (list name)) (acc : list name) (l : list name)
  : res (list name) :=
  match l with
  | [] => Ok acc
  | x :: r => match f acc x with Err e => Err e | Ok acc' => lin_list f acc' r end
  end.

Fixpoint lin_cls (t : table) (fuel : nat) (stack acc : list name) (n : name) : res (list name) :=
  match fuel with
  | O => Err EFuel
  | S f =>
    if mem n stack then Err ECycle else
    match lookup t n with
    | None => Err EMissing
    | Some c =>
      if all_defined t (succs c) then
        match lin_list (lin_cls t f (n :: stack)) acc (succs c) with
        | Err e => Err e
        | Ok acc' => if mem n acc' then Ok acc' else Ok (acc' ++ [n])
        end
      else Err EMissing
    end
  end.

Definition lin_fuel (t : table) : nat := S (length t).

(* the recipe itself ("<recipe>") is on the stack but can never be inherited *)
Definition linearise (t : table) (r : cls) : res (list name) :=
  if all_defined t (succs r) then lin_list (lin_cls t (lin_fuel t) []) [] (succs r)
  else Err EMissing.

(* ------------------------------------------------------------------ scripts *)
Definition nonempty (o : option str) : list str :=
  match o with Some (c :: s) => [c :: s] | _ => [] end.

Fixpoint join (glue : str) (l : list str) : str :=
  match l with
  | [] => []
  | [x] => x
  | x :: r => x ++ glue ++ join glue r
  end.

(* utils.joinScripts: None and "" are dropped; None when nothing is left *)
Definition join_scripts (glue : str) (l : list (option str)) : option str :=
  match flat_map nonempty l with [] => None | ss => Some (join glue ss) end.

Definition nl : str := [10].
Definition script3 := (option str * option str * option str)%type.   (* (setup, main, digest) *)

Definition merge_scripts (glue : str) (fs : list frags) : script3 :=
  (join_scripts glue (map (fun f => fst (f_setup f)) fs),
   join_scripts glue (map (fun f => fst (f_main f)) fs ++ map (fun f => fst (f_final f)) (rev fs)),
   join_scripts nl [ join_scripts nl (map (fun f => snd (f_setup f)) fs);
                     join_scripts nl (map (fun f => snd (f_main f)) fs);
                     join_scripts nl (map (fun f => snd (f_final f)) fs) ]).

Definition sel {A} (l : lang) (p : A * A) : A := match l with Bash => fst p | Pwsh => snd p end.

Definition orelse {A} (a b : option A) : option A := match a with Some _ => a | None => b end.
Definition first_some {A} (l : list (option A)) : option A := fold_right orelse None l.
Definition is_none {A} (o : option A) : bool := match o with None => true | Some _ => false end.

Definition co_det (l : lang) (c : cls) : bool :=
  match c_codet c with
  | Some b => b
  | None => let f := sel l (c_checkout c) in is_none (fst (f_main f)) && is_none (fst (f_final f))
  end.

(* ------------------------------------------------------------------ merge loop *)
(* positional combination; missing positions count as the neutral element [d] *)
Fixpoint zipd {A} (f : A -> A -> A) (d : A) (a b : list A) : list A :=
  match a with
  | [] => map (f d) b
  | x :: a' => match b with
               | [] => f x d :: zipd f d a' []
               | y :: b' => f x y :: zipd f d a' b'
               end
  end.

Fixpoint dict_get (d : dict) (k : str) : option str :=
  match d with
  | [] => None
  | (k', v) :: r => if str_eqb k' k then Some v else dict_get r k
  end.

Fixpoint dict_set (d : dict) (k v : str) : dict :=
  match d with
  | [] => [(k, v)]
  | (k', v') :: r => if str_eqb k' k then (k', v) :: r else (k', v') :: dict_set r k v
  end.

(* tmp = base.copy(); tmp.update(upd) *)
Definition dict_update (base upd : dict) : dict :=
  fold_left (fun d kv => dict_set d (fst kv) (snd kv)) upd base.

(* canonical form of a set: strictly increasing list (the dumps sort) *)
Fixpoint set_insert (x : str) (l : list str) : list str :=
  match l with
  | [] => [x]
  | y :: r => if str_ltb x y then x :: l else if str_ltb y x then y :: set_insert x r else l
  end.
Definition set_norm (l : list str) : list str := fold_right set_insert [] l.

(* the fields of an object that the `for cls in reversed(inherit)` loop changes *)
Record mstate := {
  m_sources : list str;
  m_deps : list str;
  m_scalars : list (option str);
  m_dicts : list dict;
  m_sets : list (list str);
  m_varSelf : list dict;          (* after `[ self.__varSelf ] if self.__varSelf else []` *)
  m_varPrivate : list dict;
  m_tools : list (list str)
}.

Definition dict_nonempty (d : dict) : list dict := match d with [] => [] | _ => [d] end.

Definition m_init (c : cls) : mstate :=
  {| m_sources := c_sources c; m_deps := c_deps c; m_scalars := c_scalars c; m_dicts := c_dicts c;
     m_sets := c_sets c; m_varSelf := dict_nonempty (c_varSelf c);
     m_varPrivate := dict_nonempty (c_varPrivate c); m_tools := c_tools c |}.

(* one iteration of the loop body: [s] = self, [c] = cls *)
Definition merge_step (s c : mstate) : mstate :=
  {| m_sources := m_sources s ++ m_sources c;                       (* extend *)
     m_deps := m_deps c ++ m_deps s;                                (* self.__deps[0:0] = cls.__deps *)
     m_scalars := zipd orelse None (m_scalars s) (m_scalars c);     (* if self.x is None: self.x = cls.x *)
     m_dicts := zipd dict_update [] (m_dicts c) (m_dicts s);        (* tmp = cls.x.copy(); tmp.update(self.x) *)
     m_sets := zipd (@app str) [] (m_sets s) (m_sets c);            (* self.x |= cls.x *)
     m_varSelf := m_varSelf c ++ m_varSelf s;                       (* insert(0, cls.x) if cls.x *)
     m_varPrivate := m_varPrivate c ++ m_varPrivate s;
     m_tools := zipd (@app str) [] (m_tools s) (m_tools c) |}.      (* extend *)

(* [classes] in linearisation order; the loop runs over reversed(inherit) *)
Definition merge_all (classes : list cls) (r : cls) : mstate :=
  fold_left merge_step (map m_init (rev classes)) (m_init r).

(* ------------------------------------------------------------------ result *)
Record resolved := {
  rs_order : list name;
  rs_lang : lang;
  rs_checkout : script3;
  rs_build : script3;
  rs_package : script3;
  rs_codet : bool;
  rs_updateIf : list (str * option str * bool);
  rs_scms : list str;
  rs_asserts : list str;
  rs_fp : list str;
  rs_m : mstate                   (* sets canonical, scalar defaults applied *)
}.

(* hex of sha1("") : the constant of `the package step must always be valid` *)
Definition sha1_empty_hex : str :=
  [100;97;51;57;97;51;101;101;53;101;54;98;52;98;48;100;51;50;53;53;98;102;101;102;57;53;54;48;49;56;57;48;
   97;102;100;56;48;55;48;57].

Definition s_true : str := [116;114;117;101].
Definition s_false : str := [102;97;108;115;101].
(* relocatable -> True, jobServer -> False, packageDepends -> False *)
Definition scalar_defaults : list (option str) := [None; None; Some s_true; Some s_false; Some s_false].

Definition finish (m : mstate) : mstate :=
  {| m_sources := m_sources m; m_deps := m_deps m;
     m_scalars := zipd orelse None (m_scalars m) scalar_defaults;
     m_dicts := m_dicts m; m_sets := map set_norm (m_sets m);
     m_varSelf := m_varSelf m; m_varPrivate := m_varPrivate m; m_tools := m_tools m |}.

Definition lookup_all (t : table) (l : list name) : list cls :=
  flat_map (fun n => match lookup t n with Some c => [c] | None => [] end) l.

Definition sel_lang (all : list cls) (r : cls) : lang :=
  match first_some (map c_lang (rev all)) with Some l => l | None => c_dfltLang r end.

(* everything of resolveClasses except the merge loop; [m] = state of self after the loop *)
Definition assemble (glue : lang -> str) (order : list name) (classes : list cls) (r : cls) (m : mstate)
  : resolved :=
  let all := classes ++ [r] in
  let lg := sel_lang all r in
  let g := glue lg in
  let dets := map (co_det lg) all in
  let pk := merge_scripts g (map (fun c => sel lg (c_package c)) all) in
  {| rs_order := order;
     rs_lang := lg;
     rs_checkout := merge_scripts g (map (fun c => sel lg (c_checkout c)) all);
     rs_build := merge_scripts g (map (fun c => sel lg (c_build c)) all);
     rs_package := match snd (fst pk) with
                   | None => (None, Some [], Some sha1_empty_hex)
                   | Some _ => pk
                   end;
     rs_codet := forallb (fun b => b) dets;
     rs_updateIf := flat_map (fun cd => match c_updateIf (fst cd) with
                                        | None => []
                                        | Some cond => [(cond, fst (f_main (sel lg (c_checkout (fst cd)))), snd cd)]
                                        end) (combine all dets);
     rs_scms := flat_map c_scms all;
     rs_asserts := flat_map c_asserts all;
     rs_fp := map c_fp all;
     rs_m := finish m |}.

Definition resolve (t : table) (glue : lang -> str) (r : cls) : res resolved :=
  match linearise t r with
  | Err e => Err e
  | Ok order => let classes := lookup_all t order in
                Ok (assemble glue order classes r (merge_all classes r))
  end.

(* ------------------------------------------------------------------ in place
   The same loop the way Python runs it: every object (class or recipe) has
   its mutable fields in a heap; an iteration reads `cls` from the CURRENT
   heap and writes `self`.  Granularity: one cell per object.  That two
   objects never share one list/set/dict OBJECT (a reference copied instead
   of the contents: seeded defect C03-2) holds in this model by construction;
   for the implementation it is what the direct oracle of
   harness/props/ids_classes.py observes (class objects dumped before and
   after all recipes were resolved, recipes resolved in several orders). *)
Inductive oid := OC (n : name) | OR (n : name).

Definition oid_eqb (a b : oid) : bool :=
  match a, b with
  | OC x, OC y => str_eqb x y
  | OR x, OR y => str_eqb x y
  | _, _ => false
  end.

Definition heap := list (oid * mstate).

Definition m_empty : mstate :=
  {| m_sources := []; m_deps := []; m_scalars := []; m_dicts := []; m_sets := []; m_varSelf := [];
     m_varPrivate := []; m_tools := [] |}.

Fixpoint hget (h : heap) (o : oid) : mstate :=
  match h with
  | [] => m_empty
  | (k, m) :: r => if oid_eqb k o then m else hget r o
  end.

Fixpoint hset (h : heap) (o : oid) (m : mstate) : heap :=
  match h with
  | [] => [(o, m)]
  | (k, m') :: r => if oid_eqb k o then (k, m) :: r else (k, m') :: hset r o m
  end.

Definition merge_inplace (h : heap) (self : oid) (order : list name) : heap :=
  fold_left (fun h n => hset h self (merge_step (hget h self) (hget h (OC n)))) (rev order) h.

Definition heap_of (t : table) (recipes : list (name * cls)) : heap :=
  map (fun nc => (OC (fst nc), m_init (snd nc))) t ++ map (fun nc => (OR (fst nc), m_init (snd nc))) recipes.

Definition resolve_inplace (t : table) (glue : lang -> str) (h : heap) (rn : name) (r : cls)
  : res (resolved * heap) :=
  match linearise t r with
  | Err e => Err e
  | Ok order => let h' := merge_inplace h (OR rn) order in
                Ok (assemble glue order (lookup_all t order) r (hget h' (OR rn)), h')
  end.

Definition res_map {A B} (f : A -> B) (x : res A) : res B :=
  match x with Ok a => Ok (f a) | Err e => Err e end.

(* ------------------------------------------------------------------ boolean equality (case files) *)
Definition eqb_ostr : option str -> option str -> bool := eqb_option eqb_str.
Definition eqb_script3 (a b : script3) : bool :=
  eqb_ostr (fst (fst a)) (fst (fst b)) && eqb_ostr (snd (fst a)) (snd (fst b)) && eqb_ostr (snd a) (snd b).
Definition eqb_dict : dict -> dict -> bool := eqb_list (eqb_prod eqb_str eqb_str).
Definition eqb_lang (a b : lang) : bool :=
  match a, b with Bash, Bash => true | Pwsh, Pwsh => true | _, _ => false end.
Definition eqb_err (a b : err) : bool :=
  match a, b with ECycle, ECycle => true | EMissing, EMissing => true | EFuel, EFuel => true | _, _ => false end.
Definition eqb_upd (a b : str * option str * bool) : bool :=
  eqb_str (fst (fst a)) (fst (fst b)) && eqb_ostr (snd (fst a)) (snd (fst b)) && Bool.eqb (snd a) (snd b).

(* one boolean per field, in this order: order lang checkout build package codet updateIf scms asserts fp
   sources deps scalars dicts sets varSelf varPrivate tools *)
Definition field_eqs (a b : resolved) : list bool :=
  [ eqb_strs (rs_order a) (rs_order b);
    eqb_lang (rs_lang a) (rs_lang b);
    eqb_script3 (rs_checkout a) (rs_checkout b);
    eqb_script3 (rs_build a) (rs_build b);
    eqb_script3 (rs_package a) (rs_package b);
    Bool.eqb (rs_codet a) (rs_codet b);
    eqb_list eqb_upd (rs_updateIf a) (rs_updateIf b);
    eqb_strs (rs_scms a) (rs_scms b);
    eqb_strs (rs_asserts a) (rs_asserts b);
    eqb_strs (rs_fp a) (rs_fp b);
    eqb_strs (m_sources (rs_m a)) (m_sources (rs_m b));
    eqb_strs (m_deps (rs_m a)) (m_deps (rs_m b));
    eqb_list eqb_ostr (m_scalars (rs_m a)) (m_scalars (rs_m b));
    eqb_list eqb_dict (m_dicts (rs_m a)) (m_dicts (rs_m b));
    eqb_list eqb_strs (m_sets (rs_m a)) (m_sets (rs_m b));
    eqb_list eqb_dict (m_varSelf (rs_m a)) (m_varSelf (rs_m b));
    eqb_list eqb_dict (m_varPrivate (rs_m a)) (m_varPrivate (rs_m b));
    eqb_list eqb_strs (m_tools (rs_m a)) (m_tools (rs_m b)) ].

Definition eqb_res (a b : res resolved) : bool :=
  match a, b with
  | Ok x, Ok y => forallb (fun v => v) (field_eqs x y)
  | Err e, Err f => eqb_err e f
  | _, _ => false
  end.

(* diagnosis of a mismatch: which fields differ (empty list on an Ok/Err mismatch) *)
Definition res_diff (a b : res resolved) : list bool :=
  match a, b with Ok x, Ok y => field_eqs x y | _, _ => [] end.

(* ------------------------------------------------------------------ relations used in the statements *)
Definition edge (t : table) (a b : name) : Prop := exists c, lookup t a = Some c /\ In b (succs c).

Inductive reach (t : table) (a : name) : name -> Prop :=
| reach_refl : reach t a a
| reach_step b c : reach t a b -> edge t b c -> reach t a c.

(* a is an ancestor of the recipe r (r itself is not in the table) *)
Definition anc (t : table) (r : cls) (a : name) : Prop := exists s, In s (succs r) /\ reach t s a.
Definition cyclic_at (t : table) (a : name) : Prop := exists b, edge t a b /\ reach t b a.
(* all names mentioned by the recipe and its ancestors are defined *)
Definition closed_from (t : table) (r : cls) : Prop :=
  (forall s, In s (succs r) -> lookup t s <> None) /\
  (forall a c m, anc t r a -> lookup t a = Some c -> In m (succs c) -> lookup t m <> None).

(* ------------------------------------------------------------------ samples for the Examples *)
Definition no_frags : frags := {| f_setup := (None, None); f_main := (None, None); f_final := (None, None) |}.
Definition cls0 : cls :=
  {| c_inherit := []; c_anon := None; c_lang := None; c_dfltLang := Bash;
     c_checkout := (no_frags, no_frags); c_build := (no_frags, no_frags); c_package := (no_frags, no_frags);
     c_codet := None; c_updateIf := None; c_scms := []; c_asserts := []; c_fp := []; c_sources := [];
     c_deps := []; c_scalars := []; c_dicts := []; c_sets := []; c_varSelf := []; c_varPrivate := [];
     c_tools := [] |}.

Definition with_inherit (c : cls) (inh : list name) (anon : option name) : cls :=
  {| c_inherit := inh; c_anon := anon; c_lang := c_lang c; c_dfltLang := c_dfltLang c;
     c_checkout := c_checkout c; c_build := c_build c; c_package := c_package c; c_codet := c_codet c;
     c_updateIf := c_updateIf c; c_scms := c_scms c; c_asserts := c_asserts c; c_fp := c_fp c;
     c_sources := c_sources c; c_deps := c_deps c; c_scalars := c_scalars c; c_dicts := c_dicts c;
     c_sets := c_sets c; c_varSelf := c_varSelf c; c_varPrivate := c_varPrivate c; c_tools := c_tools c |}.

(* a class whose only content is: build script fragment [s], provideVars {k: v}, buildTools [tl], buildVars [bv] *)
Definition sample_cls (inh : list name) (anon : option name) (s : str) (k v : str) (tl bv : str) : cls :=
  {| c_inherit := inh; c_anon := anon; c_lang := None; c_dfltLang := Bash;
     c_checkout := (no_frags, no_frags);
     c_build := ({| f_setup := (None, None); f_main := (Some s, Some s); f_final := (None, None) |}, no_frags);
     c_package := (no_frags, no_frags);
     c_codet := None; c_updateIf := None; c_scms := []; c_asserts := []; c_fp := []; c_sources := [s];
     c_deps := []; c_scalars := []; c_dicts := [[]; [(k, v)]]; c_sets := [[]; []; []; [bv]];
     c_varSelf := []; c_varPrivate := []; c_tools := [[]; []; [tl]] |}.
