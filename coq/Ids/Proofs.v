(* Ids — proofs about the Variant-Id / Build-Id encodings. *)
From Coq Require Import List NArith ZArith Bool Lia ZifyBool ZifyN Permutation Sorted.
Require Import BobV.Ids.Model.
Import ListNotations.
Open Scope N_scope.
Ltac Zify.zify_post_hook ::= Z.div_mod_to_equations.

(* ------------------------------------------------------------------ le32 *)
Definition de32 (l : bytes) : option (N * bytes) :=
  match l with
  | a :: b :: c :: d :: r => Some (a + 256 * b + 65536 * c + 16777216 * d, r)
  | _ => None
  end.

Lemma de32_le32 n r : n < 4294967296 -> de32 (le32 n ++ r) = Some (n, r).
Proof.
  intros Hn. unfold le32, de32. cbn [app]. f_equal. f_equal. lia.
Qed.

Lemma le32_length n : length (le32 n) = 4%nat.
Proof. reflexivity. Qed.

(* ------------------------------------------------------------------ utf-8 *)
Definition valid_cp (c : N) : Prop := c < 1114112.

Definition u8_decode (l : bytes) : option (N * bytes) :=
  match l with
  | [] => None
  | b1 :: r =>
    if b1 <? 128 then Some (b1, r)
    else if b1 <? 224 then
      match r with b2 :: r' => Some ((b1 - 192) * 64 + (b2 - 128), r') | _ => None end
    else if b1 <? 240 then
      match r with b2 :: b3 :: r' => Some ((b1 - 224) * 4096 + (b2 - 128) * 64 + (b3 - 128), r') | _ => None end
    else
      match r with
      | b2 :: b3 :: b4 :: r' => Some ((b1 - 240) * 262144 + (b2 - 128) * 4096 + (b3 - 128) * 64 + (b4 - 128), r')
      | _ => None
      end
  end.

Lemma u8_roundtrip c r : valid_cp c -> u8_decode (u8 c ++ r) = Some (c, r).
Proof.
  unfold valid_cp, u8. intros Hc.
  destruct (c <? 128) eqn:E1.
  - cbn [app u8_decode]. now rewrite E1.
  - destruct (c <? 2048) eqn:E2.
    + cbn [app u8_decode].
      assert (H1 : (192 + c / 64 <? 128) = false) by lia.
      assert (H2 : (192 + c / 64 <? 224) = true) by lia.
      rewrite H1, H2. f_equal. f_equal. lia.
    + destruct (c <? 65536) eqn:E3.
      * cbn [app u8_decode].
        assert (H1 : (224 + c / 4096 <? 128) = false) by lia.
        assert (H2 : (224 + c / 4096 <? 224) = false) by lia.
        assert (H3 : (224 + c / 4096 <? 240) = true) by lia.
        rewrite H1, H2, H3. f_equal. f_equal. lia.
      * cbn [app u8_decode].
        assert (H1 : (240 + c / 262144 <? 128) = false) by lia.
        assert (H2 : (240 + c / 262144 <? 224) = false) by lia.
        assert (H3 : (240 + c / 262144 <? 240) = false) by lia.
        rewrite H1, H2, H3. f_equal. f_equal. lia.
Qed.

Fixpoint decode_n (n : nat) (l : bytes) : option (str * bytes) :=
  match n with
  | O => Some ([], l)
  | S n' =>
    match u8_decode l with
    | None => None
    | Some (c, r) =>
      match decode_n n' r with
      | None => None
      | Some (s, r') => Some (c :: s, r')
      end
    end
  end.

Definition valid_str (s : str) : Prop := Forall valid_cp s.

Lemma decode_n_utf8 s r : valid_str s -> decode_n (length s) (utf8 s ++ r) = Some (s, r).
Proof.
  induction 1 as [|c s Hc Hs IH]; [reflexivity|].
  cbn [length decode_n utf8 flat_map]. rewrite <- app_assoc.
  rewrite u8_roundtrip by exact Hc.
  unfold utf8 in IH. now rewrite IH.
Qed.

Lemma utf8_app a b : utf8 (a ++ b) = utf8 a ++ utf8 b.
Proof. unfold utf8. now rewrite flat_map_app. Qed.

(* ------------------------------------------------------------------ parsers with round trips *)
Definition small (n : N) : Prop := n < 4294967296.
Definition wf_str (s : str) : Prop := valid_str s /\ small (slen s).

Definition obind {A B} (o : option (A * bytes)) (f : A -> bytes -> option B) : option B :=
  match o with Some (a, r) => f a r | None => None end.

Definition p_lstr (l : bytes) : option (str * bytes) :=
  obind (de32 l) (fun n r => decode_n (N.to_nat n) r).

Lemma p_lstr_rt s r : wf_str s -> p_lstr (enc_lstr s ++ r) = Some (s, r).
Proof.
  intros [Hv Hs]. unfold p_lstr, enc_lstr. rewrite <- app_assoc.
  rewrite de32_le32 by exact Hs. cbn [obind]. unfold slen. rewrite Nat2N.id.
  now apply decode_n_utf8.
Qed.

Definition p_take (n : nat) (l : bytes) : option (bytes * bytes) :=
  if Nat.leb n (length l) then Some (firstn n l, skipn n l) else None.

Lemma p_take_rt x r : p_take (length x) (x ++ r) = Some (x, r).
Proof.
  unfold p_take. rewrite app_length.
  assert (H : Nat.leb (length x) (length x + length r) = true) by (apply Nat.leb_le; lia).
  rewrite H. f_equal. f_equal.
  - rewrite firstn_app, Nat.sub_diag, firstn_all. cbn. now rewrite app_nil_r.
  - rewrite skipn_app, Nat.sub_diag, skipn_all. reflexivity.
Qed.

Fixpoint p_many {A} (p : bytes -> option (A * bytes)) (n : nat) (l : bytes) : option (list A * bytes) :=
  match n with
  | O => Some ([], l)
  | S n' => obind (p l) (fun x r => obind (p_many p n' r) (fun xs r' => Some (x :: xs, r')))
  end.

Lemma p_many_rt {A B} (enc : A -> bytes) (f : A -> B) (p : bytes -> option (B * bytes)) (wf : A -> Prop) :
  (forall x r, wf x -> p (enc x ++ r) = Some (f x, r)) ->
  forall xs r, Forall wf xs -> p_many p (length xs) (flat_map enc xs ++ r) = Some (map f xs, r).
Proof.
  intros Hp xs r Hxs. induction Hxs as [|x xs Hx Hxs IH]; [reflexivity|].
  cbn [length flat_map p_many map]. rewrite <- app_assoc. rewrite Hp by exact Hx.
  cbn [obind]. rewrite IH. reflexivity.
Qed.

(* ---- tools *)
Definition wf_tool (t : tool) : Prop :=
  (20 <= length (t_vid t))%nat /\ wf_str (t_path t) /\ Forall wf_str (t_libs t) /\ small (llen (t_libs t)).

Definition p_tool (l : bytes) : option ((bytes * str * list str) * bytes) :=
  obind (p_take 20 l) (fun vid r1 =>
  obind (de32 r1) (fun lp r2 =>
  obind (de32 r2) (fun nl r3 =>
  obind (decode_n (N.to_nat lp) r3) (fun path r4 =>
  obind (p_many p_lstr (N.to_nat nl) r4) (fun libs r5 => Some ((vid, path, libs), r5)))))).

Lemma firstn20_length (v : bytes) : (20 <= length v)%nat -> length (firstn 20 v) = 20%nat.
Proof. intros H. rewrite firstn_length. lia. Qed.

Lemma p_tool_rt t r : wf_tool t -> p_tool (enc_tool t ++ r) = Some (norm_tool t, r).
Proof.
  intros (Hv & [Hpv Hps] & Hl & Hn). unfold p_tool, enc_tool, norm_tool.
  repeat rewrite <- app_assoc.
  rewrite <- (firstn20_length _ Hv) at 1. rewrite p_take_rt. cbn [obind].
  rewrite de32_le32 by exact Hps. cbn [obind].
  rewrite de32_le32 by exact Hn. cbn [obind].
  unfold slen, llen. rewrite !Nat2N.id.
  rewrite decode_n_utf8 by exact Hpv. cbn [obind].
  rewrite (p_many_rt enc_lstr (fun x => x) p_lstr wf_str p_lstr_rt _ _ Hl).
  cbn [obind]. now rewrite map_id.
Qed.

(* ---- environment entries *)
Definition wf_ent (kv : str * str) : Prop := wf_str (fst kv) /\ wf_str (snd kv).

Definition p_ent (l : bytes) : option ((str * str) * bytes) :=
  obind (de32 l) (fun lk r1 =>
  obind (de32 r1) (fun lv r2 =>
  obind (decode_n (N.to_nat lk) r2) (fun k r3 =>
  obind (decode_n (N.to_nat lv) r3) (fun v r4 => Some ((k, v), r4))))).

Lemma p_ent_rt kv r : wf_ent kv -> p_ent (enc_envent kv ++ r) = Some (kv, r).
Proof.
  destruct kv as [k v]. intros [[Hkv Hks] [Hvv Hvs]]. unfold p_ent, enc_envent. cbn [fst snd] in *.
  repeat rewrite <- app_assoc.
  rewrite de32_le32 by exact Hks. cbn [obind].
  rewrite de32_le32 by exact Hvs. cbn [obind].
  unfold slen. rewrite !Nat2N.id. rewrite utf8_app, <- app_assoc.
  rewrite decode_n_utf8 by exact Hkv. cbn [obind].
  rewrite decode_n_utf8 by exact Hvv. reflexivity.
Qed.

(* ---- sorting is a permutation *)
Lemma insert_by_perm {A} (key : A -> str) x l : Permutation (insert_by key x l) (x :: l).
Proof.
  induction l as [|y l IH]; cbn [insert_by]; [reflexivity|].
  destruct (str_ltb (key y) (key x)); [|reflexivity].
  rewrite IH. apply perm_swap.
Qed.

Lemma sort_by_perm {A} (key : A -> str) l : Permutation (sort_by key l) l.
Proof.
  induction l as [|x l IH]; cbn [sort_by fold_right]; [reflexivity|].
  rewrite insert_by_perm. now constructor.
Qed.

Lemma sort_by_length {A} (key : A -> str) (l : list A) : length (sort_by key l) = length l.
Proof. apply Permutation_length, sort_by_perm. Qed.

(* ---- the recipe part decodes to [core] *)
Definition wf_stepin (s : stepin) : Prop :=
  wf_str (si_script s) /\
  Forall wf_tool (map snd (si_tools s)) /\ small (llen (si_tools s)) /\
  Forall wf_ent (si_env s) /\ small (llen (si_env s)) /\
  Forall (fun a => (20 <= length a)%nat) (si_args s) /\ small (llen (si_args s)).

Definition dec_recipes (l : bytes) :=
  obind (p_take 20 l) (fun _ r0 =>
  obind (p_lstr r0) (fun script r1 =>
  obind (de32 r1) (fun nt r2 =>
  obind (p_many p_tool (N.to_nat nt) r2) (fun tools r3 =>
  obind (de32 r3) (fun ne r4 =>
  obind (p_many p_ent (N.to_nat ne) r4) (fun env r5 =>
  obind (de32 r5) (fun na r6 =>
  obind (p_many (p_take 20) (N.to_nat na) r6) (fun args r7 =>
  match r7 with [] => Some (script, tools, env, args) | _ => None end)))))))).

Lemma enc_script_lstr s : enc_script s = enc_lstr s.
Proof. destruct s; reflexivity. Qed.

Lemma dec_enc_recipes s : wf_stepin s -> dec_recipes (enc_recipes s) = Some (core s).
Proof.
  intros (Hs & Ht & Hnt & He & Hne & Ha & Hna).
  unfold dec_recipes, enc_recipes, core. rewrite enc_script_lstr.
  change zeros20 with (repeat 0 20).
  replace (p_take 20 (repeat 0 20 ++ _)) with (Some (repeat 0 20, enc_lstr (si_script s) ++ le32 (llen (si_tools s)) ++ flat_map enc_tool (sorted_tools s) ++ le32 (llen (si_env s)) ++ flat_map enc_envent (sorted_env s) ++ le32 (llen (si_args s)) ++ flat_map (firstn 20) (si_args s)))
    by (symmetry; apply (p_take_rt (repeat 0 20))).
  cbn [obind]. rewrite p_lstr_rt by exact Hs. cbn [obind].
  rewrite de32_le32 by exact Hnt. cbn [obind].
  assert (Hlt : N.to_nat (llen (si_tools s)) = length (sorted_tools s)).
  { unfold llen, sorted_tools. rewrite Nat2N.id, map_length, sort_by_length. reflexivity. }
  rewrite Hlt.
  assert (Ht' : Forall wf_tool (sorted_tools s)).
  { unfold sorted_tools. eapply Permutation_Forall; [apply Permutation_map, Permutation_sym, sort_by_perm | exact Ht]. }
  rewrite (p_many_rt enc_tool norm_tool p_tool wf_tool p_tool_rt _ _ Ht').
  cbn [obind]. rewrite de32_le32 by exact Hne. cbn [obind].
  assert (Hle : N.to_nat (llen (si_env s)) = length (sorted_env s)).
  { unfold llen, sorted_env. rewrite Nat2N.id, sort_by_length. reflexivity. }
  rewrite Hle.
  assert (He' : Forall wf_ent (sorted_env s)).
  { unfold sorted_env. eapply Permutation_Forall; [apply Permutation_sym, sort_by_perm | exact He]. }
  rewrite (p_many_rt enc_envent (fun x => x) p_ent wf_ent p_ent_rt _ _ He').
  cbn [obind]. rewrite map_id. rewrite de32_le32 by exact Hna. cbn [obind].
  unfold llen. rewrite Nat2N.id.
  rewrite <- (app_nil_r (flat_map (firstn 20) (si_args s))).
  rewrite (p_many_rt (firstn 20) (firstn 20) (p_take 20) (fun a => (20 <= length a)%nat)).
  - reflexivity.
  - intros x r Hx. rewrite <- (firstn20_length _ Hx) at 1. apply p_take_rt.
  - exact Ha.
Qed.

Lemma enc_recipes_injective_proof a b :
  wf_stepin a -> wf_stepin b -> enc_recipes a = enc_recipes b -> core a = core b.
Proof.
  intros Ha Hb E. apply dec_enc_recipes in Ha. apply dec_enc_recipes in Hb.
  rewrite E in Ha. congruence.
Qed.

(* ------------------------------------------------------------------ the id as a whole *)
Definition collision (H : bytes -> bytes) (x y : bytes) : Prop := x <> y /\ H x = H y.

Lemma bytes_eq_dec (x y : bytes) : {x = y} + {x <> y}.
Proof. apply list_eq_dec, N.eq_dec. Qed.

Section WithHash.
  Variable H : bytes -> bytes.
  Hypothesis Hlen : forall x, length (H x) = 20%nat.

  Lemma app_inv_len {A} (a b c d : list A) : length a = length c -> a ++ b = c ++ d -> a = c /\ b = d.
  Proof.
    revert c. induction a as [|x a IH]; intros [|y c] Hl E; try discriminate; cbn in *.
    - auto.
    - inversion E; subst. destruct (IH c) as [-> ->]; auto.
  Qed.

  Definition tail_of (h : bytes) : bytes := match h with [] => [] | _ => H h end.

  Lemma tail_of_eq x y : tail_of x = tail_of y -> x = y \/ collision H x y.
  Proof.
    unfold tail_of. destruct x as [|a x], y as [|b y]; intros E; auto.
    - exfalso. apply (f_equal (@length N)) in E. rewrite Hlen in E. discriminate.
    - exfalso. apply (f_equal (@length N)) in E. rewrite Hlen in E. discriminate.
    - destruct (bytes_eq_dec (a :: x) (b :: y)); [left|right; split]; auto.
  Qed.

  Lemma variant_id_eq_proof a b :
    wf_stepin a -> wf_stepin b -> variant_id H a = variant_id H b ->
    (core a = core b \/ collision H (enc_recipes a) (enc_recipes b)) /\
    (enc_host a = enc_host b \/ collision H (enc_host a) (enc_host b)).
  Proof.
    intros Wa Wb E. unfold variant_id in E.
    assert (T : forall h, match h with [] => [] | n :: l => H (n :: l) end = tail_of h) by (intros [|? ?]; reflexivity).
    rewrite !T in E.
    apply app_inv_len in E; [|now rewrite !Hlen]. destruct E as [E1 E2]. split.
    - destruct (bytes_eq_dec (enc_recipes a) (enc_recipes b)) as [e|n].
      + left. now apply enc_recipes_injective_proof.
      + right. split; assumption.
    - apply tail_of_eq. exact E2.
  Qed.

  (* converse: the id is a function of [core] and the host stream *)
  Definition enc_ntool (t : bytes * str * list str) : bytes :=
    let '(v, p, l) := t in v ++ le32 (slen p) ++ le32 (llen l) ++ utf8 p ++ flat_map enc_lstr l.

  Lemma enc_tool_norm t : enc_tool t = enc_ntool (norm_tool t).
  Proof. reflexivity. Qed.

  Lemma flat_map_map {A B} (f : A -> B) (g : B -> bytes) l : flat_map g (map f l) = flat_map (fun x => g (f x)) l.
  Proof. induction l; cbn; congruence. Qed.

  Lemma flat_map_id (l : list bytes) : flat_map (fun x => x) l = concat l.
  Proof. induction l; cbn; congruence. Qed.

  Lemma enc_recipes_of_core a b : core a = core b -> enc_recipes a = enc_recipes b.
  Proof.
    unfold core. intros E.
    pose proof (f_equal (fun t => fst (fst (fst t))) E) as E1.
    pose proof (f_equal (fun t => snd (fst (fst t))) E) as E2.
    pose proof (f_equal (fun t => snd (fst t)) E) as E3.
    pose proof (f_equal snd E) as E4. cbn [fst snd] in E1, E2, E3, E4. clear E.
    unfold enc_recipes.
    assert (L1 : llen (si_tools a) = llen (si_tools b)).
    { unfold llen. f_equal. apply (f_equal (@length _)) in E2. unfold sorted_tools in E2.
      rewrite !map_length, !sort_by_length in E2. exact E2. }
    assert (L2 : llen (si_env a) = llen (si_env b)).
    { unfold llen. f_equal. apply (f_equal (@length _)) in E3. unfold sorted_env in E3.
      rewrite !sort_by_length in E3. exact E3. }
    assert (L3 : llen (si_args a) = llen (si_args b)).
    { unfold llen. f_equal. apply (f_equal (@length _)) in E4. rewrite !map_length in E4. exact E4. }
    assert (T : flat_map enc_tool (sorted_tools a) = flat_map enc_tool (sorted_tools b)).
    { transitivity (flat_map enc_ntool (map norm_tool (sorted_tools a))).
      - rewrite flat_map_map. reflexivity.
      - rewrite E2, flat_map_map. reflexivity. }
    assert (A : flat_map (firstn 20) (si_args a) = flat_map (firstn 20) (si_args b)).
    { transitivity (flat_map (fun x => x) (map (firstn 20) (si_args a))).
      - rewrite flat_map_map. reflexivity.
      - rewrite E4, flat_map_map. reflexivity. }
    now rewrite E1, L1, L2, L3, T, E3, A.
  Qed.

  Lemma variant_id_of_core_proof a b :
    core a = core b -> enc_host a = enc_host b -> variant_id H a = variant_id H b.
  Proof. intros E1 E2. unfold variant_id. now rewrite (enc_recipes_of_core a b E1), E2. Qed.
End WithHash.

(* ------------------------------------------------------------------ ordering *)
Lemma str_ltb_irrefl a : str_ltb a a = false.
Proof. induction a as [|x a IH]; simpl; [reflexivity|]. now rewrite N.ltb_irrefl. Qed.

Lemma str_ltb_trans : forall a b d, str_ltb a b = true -> str_ltb b d = true -> str_ltb a d = true.
Proof.
  induction a as [|x a IH]; intros [|y b] [|z d]; simpl; try congruence.
  destruct (x <? y) eqn:E1, (y <? x) eqn:E2, (y <? z) eqn:E3, (z <? y) eqn:E4, (x <? z) eqn:E5, (z <? x) eqn:E6;
    try rewrite N.ltb_lt in *; try rewrite N.ltb_ge in *; try lia; try congruence; intros; eauto.
Qed.

Lemma str_ltb_total a : forall b, str_ltb a b = true \/ a = b \/ str_ltb b a = true.
Proof.
  induction a as [|x a IH]; intros [|y b]; simpl; auto.
  destruct (x <? y) eqn:E1; auto. destruct (y <? x) eqn:E2; auto.
  rewrite N.ltb_ge in *. assert (x = y) by lia. subst.
  destruct (IH b) as [H|[H|H]]; auto. subst; auto.
Qed.

Lemma str_ltb_asym a b : str_ltb a b = true -> str_ltb b a = false.
Proof.
  intros H. destruct (str_ltb b a) eqn:E; [|reflexivity].
  pose proof (str_ltb_trans _ _ _ H E) as T. rewrite str_ltb_irrefl in T. discriminate.
Qed.

Section Sorting.
  Context {A : Type} (key : A -> str).
  Definition le_k (x y : A) : Prop := str_ltb (key y) (key x) = false.

  Lemma le_k_trans x y z : le_k x y -> le_k y z -> le_k x z.
  Proof.
    unfold le_k. intros H1 H2. destruct (str_ltb (key z) (key x)) eqn:E; [|reflexivity].
    destruct (str_ltb_total (key y) (key x)) as [T|[T|T]].
    - congruence.
    - rewrite T in H2. congruence.
    - pose proof (str_ltb_trans _ _ _ E T). congruence.
  Qed.

  Lemma insert_by_sorted x l : StronglySorted le_k l -> StronglySorted le_k (insert_by key x l).
  Proof.
    induction 1 as [|y l Hs IH Hy]; cbn [insert_by].
    - constructor; constructor.
    - destruct (str_ltb (key y) (key x)) eqn:E.
      + constructor; [exact IH|].
        eapply Permutation_Forall; [apply Permutation_sym, insert_by_perm|].
        constructor; [|exact Hy]. unfold le_k. now apply str_ltb_asym.
      + constructor; [constructor; assumption|].
        constructor; [exact E|].
        eapply Forall_impl; [|exact Hy]. intros z Hz. eapply le_k_trans; [exact E|exact Hz].
  Qed.

  Lemma sort_by_sorted l : StronglySorted le_k (sort_by key l).
  Proof. induction l; cbn [sort_by fold_right]; [constructor|now apply insert_by_sorted]. Qed.

  Lemma sorted_perm_unique l1 : forall l2,
    StronglySorted le_k l1 -> StronglySorted le_k l2 -> Permutation l1 l2 ->
    NoDup (map key l1) -> l1 = l2.
  Proof.
    induction l1 as [|x l1 IH]; intros l2 S1 S2 P N.
    - apply Permutation_nil in P. now subst.
    - destruct l2 as [|y l2]; [apply Permutation_sym, Permutation_nil in P; discriminate|].
      assert (x = y) as ->.
      { inversion S1 as [|? ? S1' F1]; inversion S2 as [|? ? S2' F2]; subst.
        assert (Ix : In x (y :: l2)) by (eapply Permutation_in; [exact P|now left]).
        assert (Iy : In y (x :: l1)) by (eapply Permutation_in; [apply Permutation_sym; exact P|now left]).
        destruct Ix as [->|Ix]; [reflexivity|]. destruct Iy as [->|Iy]; [reflexivity|].
        rewrite Forall_forall in F1, F2. pose proof (F1 _ Iy) as L1. pose proof (F2 _ Ix) as L2.
        unfold le_k in L1, L2.
        destruct (str_ltb_total (key x) (key y)) as [T|[T|T]]; try congruence.
        (* equal keys, both in x :: l1 : contradiction with NoDup *)
        exfalso. inversion N as [|? ? Nx _]; subst. apply Nx. rewrite T. now apply in_map. }
      f_equal. apply IH.
      + now inversion S1.
      + now inversion S2.
      + now apply Permutation_cons_inv in P.
      + now inversion N.
  Qed.

  Lemma sort_by_perm_eq_proof l1 l2 :
    Permutation l1 l2 -> NoDup (map key l1) -> sort_by key l1 = sort_by key l2.
  Proof.
    intros P N. apply sorted_perm_unique; try apply sort_by_sorted.
    - rewrite sort_by_perm, P. symmetry. apply sort_by_perm.
    - eapply Permutation_NoDup; [|exact N]. apply Permutation_map, Permutation_sym, sort_by_perm.
  Qed.
End Sorting.

Lemma variant_id_order_independent_proof H a b :
  si_fp_sandbox a = si_fp_sandbox b -> si_script a = si_script b -> si_args a = si_args b ->
  Permutation (si_tools a) (si_tools b) -> NoDup (map fst (si_tools a)) ->
  Permutation (si_env a) (si_env b) -> NoDup (map fst (si_env a)) ->
  variant_id H a = variant_id H b.
Proof.
  intros E1 E2 E3 P1 N1 P2 N2.
  assert (T : sorted_tools a = sorted_tools b).
  { unfold sorted_tools. f_equal. now apply sort_by_perm_eq_proof. }
  assert (V : sorted_env a = sorted_env b) by (now apply sort_by_perm_eq_proof).
  assert (L1 : llen (si_tools a) = llen (si_tools b)) by (unfold llen; f_equal; now apply Permutation_length).
  assert (L2 : llen (si_env a) = llen (si_env b)) by (unfold llen; f_equal; now apply Permutation_length).
  unfold variant_id, enc_recipes, enc_host. now rewrite E1, E2, E3, T, V, L1, L2.
Qed.

(* ------------------------------------------------------------------ argument sequences *)
Lemma map_firstn20_exact (l1 l2 : list bytes) :
  Forall (fun a => length a = 20%nat) l1 -> Forall (fun a => length a = 20%nat) l2 ->
  map (firstn 20) l1 = map (firstn 20) l2 -> l1 = l2.
Proof.
  intros F1. revert l2. induction F1 as [|x l1 Hx F1 IH]; intros [|y l2] F2 E; try discriminate; [reflexivity|].
  inversion F2 as [|? ? Hy F2']; subst. cbn [map] in E.
  pose proof (f_equal (@hd bytes []) E) as E1. pose proof (f_equal (@tl bytes) E) as E2. cbn [hd tl] in E1, E2.
  assert (Ex : firstn 20 x = x) by (rewrite <- Hx; apply firstn_all).
  assert (Ey : firstn 20 y = y) by (rewrite <- Hy; apply firstn_all).
  rewrite Ex, Ey in E1. subst. f_equal. now apply IH.
Qed.

Lemma variant_id_args_partial_proof H (Hlen : forall x, length (H x) = 20%nat) a b :
  wf_stepin a -> wf_stepin b ->
  Forall (fun x => length x = 20%nat) (si_args a) -> Forall (fun x => length x = 20%nat) (si_args b) ->
  variant_id H a = variant_id H b ->
  si_args a = si_args b \/ collision H (enc_recipes a) (enc_recipes b).
Proof.
  intros Wa Wb Fa Fb E. destruct (variant_id_eq_proof H Hlen a b Wa Wb E) as [[C|C] _]; [left|now right].
  apply (f_equal snd) in C. cbn [core snd] in C. now apply map_firstn20_exact.
Qed.

Definition f5_a : stepin :=
  {| si_fp_sandbox := None; si_script := [120]; si_tools := []; si_env := [];
     si_args := [repeat 1 20 ++ repeat 9 20; repeat 2 20] |}.
Definition f5_b : stepin :=
  {| si_fp_sandbox := None; si_script := [120]; si_tools := []; si_env := [];
     si_args := [repeat 1 20; repeat 2 20 ++ repeat 9 20] |}.

Lemma wf_f5_a : wf_stepin f5_a.
Proof.
  unfold wf_stepin, wf_str, valid_str, valid_cp, small, f5_a; cbn.
  repeat split; repeat constructor; try lia.
Qed.
Lemma wf_f5_b : wf_stepin f5_b.
Proof.
  unfold wf_stepin, wf_str, valid_str, valid_cp, small, f5_b; cbn.
  repeat split; repeat constructor; try lia.
Qed.

Lemma f5_refuted_proof :
  exists a b, wf_stepin a /\ wf_stepin b /\ si_args a <> si_args b /\
              forall H, variant_id H a = variant_id H b.
Proof.
  exists f5_a, f5_b. split; [exact wf_f5_a|]. split; [exact wf_f5_b|]. split.
  - unfold f5_a, f5_b; cbn. intros E. inversion E.
  - intros H. reflexivity.
Qed.

(* ------------------------------------------------------------------ Build-Id *)
Lemma enc_btool_weak n t1 t2 : enc_btool (n, (t1, true)) = enc_btool (n, (t2, true)).
Proof. reflexivity. Qed.

Definition relax (nt : str * (tool * bool)) : str * option tool :=
  let '(n, (t, w)) := nt in (n, if w then None else Some t).

Lemma enc_btool_relax x y : relax x = relax y -> enc_btool x = enc_btool y.
Proof.
  destruct x as [n1 [t1 w1]], y as [n2 [t2 w2]]. unfold relax. intros E.
  destruct w1, w2; inversion E; subst; reflexivity.
Qed.

Definition enc_rtool (x : str * option tool) : bytes :=
  match snd x with None => utf8 (fst x) | Some t => enc_tool t end.

Lemma enc_btool_rtool x : enc_btool x = enc_rtool (relax x).
Proof. destruct x as [n [t w]]. destruct w; reflexivity. Qed.

Lemma relax_fst x : fst (relax x) = fst x.
Proof. destruct x as [n [t w]]. reflexivity. Qed.

Lemma insert_by_map {A B} (f : A -> B) (k : A -> str) (k' : B -> str) :
  (forall z, k' (f z) = k z) ->
  forall x l, map f (insert_by k x l) = insert_by k' (f x) (map f l).
Proof.
  intros Hk x l. induction l as [|y l IH]; cbn [insert_by map]; [reflexivity|].
  rewrite !Hk. destruct (str_ltb (k y) (k x)); cbn [map]; now rewrite ?IH.
Qed.

Lemma sort_by_map {A B} (f : A -> B) (k : A -> str) (k' : B -> str) :
  (forall z, k' (f z) = k z) -> forall l, map f (sort_by k l) = sort_by k' (map f l).
Proof.
  intros Hk l. induction l as [|x l IH]; [reflexivity|].
  cbn [sort_by fold_right map]. fold (sort_by k l). fold (sort_by k' (map f l)).
  rewrite (insert_by_map f k k' Hk). now rewrite IH.
Qed.

Lemma flat_map_map' {A B} (f : A -> B) (g : B -> bytes) l : flat_map g (map f l) = flat_map (fun x => g (f x)) l.
Proof. induction l; cbn; congruence. Qed.

Lemma build_id_relaxes_weak_proof H a b :
  bi_script a = bi_script b -> bi_env a = bi_env b -> bi_args a = bi_args b ->
  bi_platform a = bi_platform b -> bi_fingerprint a = bi_fingerprint b ->
  map relax (bi_tools a) = map relax (bi_tools b) ->
  build_id H a = build_id H b.
Proof.
  intros E1 E2 E3 E4 E5 R.
  assert (L : llen (bi_tools a) = llen (bi_tools b)).
  { unfold llen. f_equal. apply (f_equal (@length _)) in R. now rewrite !map_length in R. }
  assert (T : flat_map enc_btool (sort_by fst (bi_tools a)) = flat_map enc_btool (sort_by fst (bi_tools b))).
  { transitivity (flat_map enc_rtool (map relax (sort_by fst (bi_tools a)))).
    - rewrite flat_map_map'. apply flat_map_ext. intros x. apply enc_btool_rtool.
    - rewrite (sort_by_map relax fst fst relax_fst), R, <- (sort_by_map relax fst fst relax_fst).
      rewrite flat_map_map'. apply flat_map_ext. intros x. symmetry. apply enc_btool_rtool. }
  unfold build_id, bid_recipes, bid_host. now rewrite E1, E2, E3, E4, E5, L, T.
Qed.
