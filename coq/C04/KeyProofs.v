(* C04 — the cache key determines its inputs, or exhibits a SHA-1 collision. *)
From Coq Require Import List NArith Bool Lia PeanoNat.
Require Import BobV.Ids.Model BobV.Ids.Proofs BobV.C04.KeyModel.
Import ListNotations.
Open Scope N_scope.

Definition wf_file (f : str * bytes) : Prop := wf_str (fst f) /\ length (snd f) = 20%nat.

Definition wf_keyin (k : keyin) : Prop :=
  length (ki_bobhash k) = 20%nat /\ Forall wf_file (ki_files k)
  /\ Forall wf_ent (ki_rootenv k) /\ small (llen (ki_rootenv k)).

Definition p_file (l : bytes) : option ((str * bytes) * bytes) :=
  obind (p_lstr l) (fun n r => obind (p_take 20 r) (fun d r' => Some ((n, d), r'))).

Lemma p_file_rt f r : wf_file f -> p_file (enc_file f ++ r) = Some (f, r).
Proof.
  destruct f as [n d]. intros [Hn Hd]. cbn [fst snd] in *. unfold p_file, enc_file. cbn [fst snd].
  change (le32 (slen n) ++ utf8 n ++ d) with (le32 (slen n) ++ utf8 n ++ d).
  replace ((le32 (slen n) ++ utf8 n ++ d) ++ r) with (enc_lstr n ++ d ++ r)
    by (unfold enc_lstr; now rewrite <- !app_assoc).
  rewrite p_lstr_rt by exact Hn. cbn [obind]. rewrite <- Hd. rewrite p_take_rt. reflexivity.
Qed.

Lemma enc_file_nonempty f : enc_file f <> [].
Proof. destruct f as [n d]. unfold enc_file, le32. cbn. discriminate. Qed.

Lemma files_bytes_injective : forall a b,
  Forall wf_file a -> Forall wf_file b -> files_bytes a = files_bytes b -> a = b.
Proof.
  unfold files_bytes. induction a as [|x a IH]; intros b Ha Hb E.
  - destruct b as [|y b]; [reflexivity|]. cbn [flat_map] in E. symmetry in E.
    apply app_eq_nil in E as [E _]. now apply enc_file_nonempty in E.
  - destruct b as [|y b].
    + cbn [flat_map] in E. apply app_eq_nil in E as [E _]. now apply enc_file_nonempty in E.
    + inversion Ha as [|? ? Hx Ha']; subst. inversion Hb as [|? ? Hy Hb']; subst. cbn [flat_map] in E.
      pose proof (p_file_rt x (flat_map enc_file a) Hx) as P1.
      pose proof (p_file_rt y (flat_map enc_file b) Hy) as P2.
      rewrite E in P1. rewrite P1 in P2. injection P2 as -> E'.
      f_equal. now apply IH.
Qed.

Section KeyHash.
  Variable H : bytes -> bytes.
  Hypothesis Hlen : forall x, length (H x) = 20%nat.

  Definition dec_key (l : bytes) :=
    obind (p_take 20 l) (fun bh r1 =>
    obind (p_take 20 r1) (fun fd r2 =>
    obind (de32 r2) (fun n r3 =>
    obind (p_many p_ent (N.to_nat n) r3) (fun ents r4 => Some (bh, fd, ents, r4))))).

  Lemma dec_key_rt k : wf_keyin k ->
    dec_key (key_bytes H k) =
    Some (ki_bobhash k, H (files_bytes (ki_files k)), ki_rootenv k, [if ki_sandbox k then 1 else 0]).
  Proof.
    intros (Hb & _ & He & Hs). unfold dec_key, key_bytes.
    rewrite <- Hb at 1. rewrite p_take_rt. cbn [obind].
    rewrite <- (Hlen (files_bytes (ki_files k))) at 1. rewrite p_take_rt. cbn [obind].
    rewrite de32_le32 by exact Hs. cbn [obind]. unfold llen. rewrite Nat2N.id.
    rewrite (p_many_rt enc_envent (fun x => x) p_ent wf_ent p_ent_rt _ _ He). cbn [obind].
    now rewrite map_id.
  Qed.

  (* P2: equal cache keys have equal inputs (Bob hash, set of files read with
     their digests, root environment, sandbox switch) or exhibit a collision *)
  Lemma cache_key_complete_proof a b :
    wf_keyin a -> wf_keyin b -> cache_key H a = cache_key H b ->
    a = b \/ collision H (key_bytes H a) (key_bytes H b)
          \/ collision H (files_bytes (ki_files a)) (files_bytes (ki_files b)).
  Proof.
    intros Ha Hb E. unfold cache_key in E.
    destruct (bytes_eq_dec (key_bytes H a) (key_bytes H b)) as [Ek|Nk]; [|right; left; split; assumption].
    pose proof (dec_key_rt a Ha) as Da. pose proof (dec_key_rt b Hb) as Db.
    rewrite Ek in Da. rewrite Da in Db. injection Db as E1 E2 E3 E4.
    destruct (bytes_eq_dec (files_bytes (ki_files a)) (files_bytes (ki_files b))) as [Ef|Nf];
      [|right; right; split; assumption].
    left. destruct Ha as (_ & Fa & _), Hb as (_ & Fb & _).
    apply files_bytes_injective in Ef; [|assumption|assumption].
    destruct a as [ab af ae asb], b as [bb bf be bsb]. cbn in *. subst.
    f_equal. destruct asb, bsb; congruence.
  Qed.
End KeyHash.

(* decidable well-formedness, for concrete instances *)
Definition str_okb (s : str) : bool := forallb (fun c => c <? 1114112) s && (slen s <? 4294967296).
Definition keyin_okb (k : keyin) : bool :=
  Nat.eqb (length (ki_bobhash k)) 20
  && forallb (fun f => str_okb (fst f) && Nat.eqb (length (snd f)) 20) (ki_files k)
  && forallb (fun kv => str_okb (fst kv) && str_okb (snd kv)) (ki_rootenv k)
  && (llen (ki_rootenv k) <? 4294967296).

Lemma str_okb_sound s : str_okb s = true -> wf_str s.
Proof.
  unfold str_okb. rewrite andb_true_iff, forallb_forall, N.ltb_lt. intros [H1 H2]. split; [|exact H2].
  apply Forall_forall. intros c Hc. apply N.ltb_lt. now apply H1.
Qed.

Lemma keyin_okb_sound k : keyin_okb k = true -> wf_keyin k.
Proof.
  unfold keyin_okb. rewrite !andb_true_iff, !forallb_forall, N.ltb_lt, Nat.eqb_eq.
  intros [[[H1 H2] H3] H4]. repeat split; auto.
  - apply Forall_forall. intros f Hf. apply H2 in Hf. apply andb_true_iff in Hf as [A B].
    split; [now apply str_okb_sound | now apply Nat.eqb_eq].
  - apply Forall_forall. intros kv Hkv. apply H3 in Hkv. apply andb_true_iff in Hkv as [A B].
    split; now apply str_okb_sound.
Qed.
