(* C04 — the package calculation of Recipe.prepare (pym/bob/input.py 2514-2935)
   written in the tracked reader calculus of Model.v, for the environment /
   tool / sandbox / dependency flow of generated recipes.  Definitions only.

   Covered: environment layers of classes and recipe, dependency conditions,
   per-dependency environment overrides, use: result/deps/environment/tools/
   sandbox, forward, inherit: false, provided variables/tools/deps/sandbox,
   tool environments, privateEnvironment, metaEnvironment (substituted),
   step environments (digest and weak), used tools, variant-id / result-id
   *equalities* (structural ids), touched sets.
   Not covered: YAML parsing and class linearisation (done by the harness,
   tied through the real RecipeSet), the string parser (C17), SCMs,
   fingerprints, plugins, multiPackage, aliases, tool remapping, refDeref. *)
From Coq Require Import List NArith Bool.
Require Import BobV.Common.Cases BobV.C04.Model.
Import ListNotations.
Open Scope N_scope.

(* ---- syntax of generated recipes *)
Inductive piece := PLit (s : str) | PVar (x : str) | PVarDef (x : str) (d : str).
Definition tmpl := list piece.
Inductive cond := CTmpl (t : tmpl) | CToolDef (t : str) | CEq (a b : tmpl) | CNot (c : cond).

Record dep := {
  d_name : str; d_if : option cond; d_env : list (str * tmpl);
  d_result : bool; d_deps : bool; d_envu : bool; d_tools : bool; d_sandbox : bool;
  d_forward : bool; d_inherit : bool }.

Record toolspec := { ts_path : tmpl; ts_libs : list tmpl; ts_env : list (str * tmpl) }.

Record recipe := {
  r_name : str;
  r_env : list (list (str * tmpl));       (* environment: classes first, recipe last *)
  r_private : list (list (str * tmpl));
  r_meta : list (str * tmpl);
  r_deps : list dep;
  r_checkout : option str;                (* digest script identities *)
  r_build : str;
  r_package : str;
  r_cvars : list str;                     (* checkoutVars; all lists sorted, cumulative as in Recipe.__init__ *)
  r_bvars : list str; r_ball : list str;   (* buildVars; buildVars + buildVarsWeak *)
  r_pvars : list str; r_pall : list str;
  r_btools : list str;                    (* buildTools + weak (toolDepBuild) *)
  r_ptools : list str;                    (* + packageTools + weak (toolDepPackage) *)
  r_ptools_weak : list str;               (* toolDepPackageWeak (weak and not strong) *)
  r_provide_vars : list (str * tmpl);
  r_provide_tools : list (str * toolspec);
  r_provide_deps : list str;
  r_provide_sandbox : option (list str * list (str * tmpl)) }.

Record project := { pj_recipes : list recipe; pj_sandbox : bool }.

(* ---- calculated packages *)
Inductive pkg := Pkg {
  p_name : str;
  p_vidC : option idt; p_vidB : idt; p_vidP : idt;
  p_cenv : list (str * str); p_cdig : list (str * str);
  p_benv : list (str * str); p_bdig : list (str * str);
  p_penv : list (str * str); p_pdig : list (str * str);
  p_btools : list (str * idt); p_ptools : list (str * idt);
  p_weak : list (str * idt);              (* weak tools of the package step *)
  p_sandbox : option idt;
  p_direct : list pkg; p_indirect : list pkg;
  p_provenv : list (str * str); p_provtools : list (str * idt);
  p_provdeps : list pkg; p_provsb : option idt;
  p_meta : list (str * str) }.

Definition kvar (x : str) : key := (0, x).
Definition ktool (t : str) : key := (1, t).
Definition ksandbox : key := (2, []).
Definition kalias : key := (3, []).

Fixpoint alookup {A} (x : str) (l : list (str * A)) : option A :=
  match l with [] => None | (y, v) :: q => if eqb_str x y then Some v else alookup x q end.

Definition pair_idt (kv : str * str) : idt := Nd [L (fst kv); L (snd kv)].
Definition opt_idt (o : option idt) : idt := match o with Some v => Nd [v] | None => Nd [] end.

(* tool value = what CoreTool.resultId is computed from *)
Definition tool_val (vid : idt) (path : str) (libs : list str) (env : list (str * str)) : idt :=
  Nd [vid; L path; Nd (map L libs); Nd (map pair_idt env)].
Definition unpair (x : idt) : list (str * str) :=
  match x with Nd [L k; L v] => [(k, v)] | _ => [] end.
Definition tool_env (t : idt) : list (str * str) :=
  match t with Nd [_; _; _; Nd e] => flat_map unpair e | _ => [] end.
(* what CoreStep.getDigest takes of a tool: provider variant id, path, libs (not the name, not the environment) *)
Definition tool_contrib (t : idt) : idt :=
  match t with Nd [vid; path; libs; _] => Nd [vid; path; libs] | _ => t end.
(* sandbox value = what CoreSandbox.resultId is computed from *)
Definition sb_val (vid : idt) (paths : list str) (env : list (str * str)) : idt :=
  Nd [vid; Nd (map L paths); Nd (map pair_idt env)].
Definition sb_env (s : idt) : list (str * str) :=
  match s with Nd [_; _; Nd e] => flat_map unpair e | _ => [] end.
Definition sb_idpart (s : idt) : idt :=          (* part of a user's result id: variant id and paths *)
  match s with Nd [vid; paths; _] => Nd [vid; paths] | _ => s end.

Definition step_vid (script : str) (tools : list (str * idt)) (denv : list (str * str)) (args : list idt) : idt :=
  Nd [L script; Nd (map (fun nt => tool_contrib (snd nt)) tools); Nd (map pair_idt denv); Nd args].

(* CoreStep.getResultId of the package step *)
Definition pkg_rid (sandbox_enabled : bool) (p : pkg) : idt :=
  Nd [p_vidP p;
      (if sandbox_enabled then match p_sandbox p with Some s => Nd [sb_idpart s] | None => Nd [] end else Nd []);
      Nd (map (fun nt => tool_contrib (snd nt)) (p_weak p));
      Nd (map pair_idt (p_provenv p));
      Nd (map (fun nt => Nd [L (fst nt); snd nt]) (p_provtools p));
      Nd (map p_vidP (p_provdeps p));
      opt_idt (p_provsb p)].

Definition is_false (v : str) : bool :=
  eqb_str v [] || eqb_str v [48] || eqb_str v [102; 97; 108; 115; 101].     (* "", "0", "false" *)
Definition s_true : str := [116; 114; 117; 101].
Definition s_false : str := [102; 97; 108; 115; 101].

Section Interp.
  Variable pj : project.

  Definition P := prog pkg.

  (* env[x] / env.get(x): always touches, the local assignments shadow the input *)
  Definition rd_var (lenv : list (str * str)) (x : str) (k : option str -> P) : P :=
    Read (kvar x) (fun o =>
      k (match alookup x lenv with
         | Some v => Some v
         | None => match o with Some (L s) => Some s | _ => None end
         end)).

  Definition rd_tool (ltools : list (str * idt)) (t : str) (k : option idt -> P) : P :=
    Read (ktool t) (fun o => k (match alookup t ltools with Some v => Some v | None => o end)).

  Fixpoint subst (lenv : list (str * str)) (t : tmpl) (acc : str) (k : str -> P) : P :=
    match t with
    | [] => k acc
    | PLit s :: t' => subst lenv t' (acc ++ s) k
    | PVar x :: t' =>
        rd_var lenv x (fun o => match o with Some v => subst lenv t' (acc ++ v) k | None => Fail end)
    | PVarDef x d :: t' =>
        rd_var lenv x (fun o =>
          subst lenv t' (acc ++ match o with Some [] => d | Some v => v | None => d end) k)
    end.

  Fixpoint subst_dict (lenv : list (str * str)) (d : list (str * tmpl)) (acc : list (str * str))
           (k : list (str * str) -> P) : P :=
    match d with
    | [] => k (rev acc)
    | (x, t) :: d' => subst lenv t [] (fun v => subst_dict lenv d' ((x, v) :: acc) k)
    end.

  Fixpoint subst_list (lenv : list (str * str)) (l : list tmpl) (acc : list str) (k : list str -> P) : P :=
    match l with
    | [] => k (rev acc)
    | t :: l' => subst lenv t [] (fun v => subst_list lenv l' (v :: acc) k)
    end.

  (* the value of a condition string; its truth is [negb (is_false v)] *)
  Fixpoint cond_val (lenv : list (str * str)) (ltools : list (str * idt)) (c : cond) (k : str -> P) : P :=
    match c with
    | CTmpl t => subst lenv t [] k
    | CToolDef t => rd_tool ltools t (fun o => k (match o with Some _ => s_true | None => s_false end))
    | CEq a b => subst lenv a [] (fun va => subst lenv b [] (fun vb => k (if eqb_str va vb then s_true else s_false)))
    | CNot c' => cond_val lenv ltools c' (fun v => k (if is_false v then s_true else s_false))
    end.

  (* environment layers: each dict is substituted as a whole, then applied *)
  Fixpoint layers (lenv : list (str * str)) (ls : list (list (str * tmpl))) (k : list (str * str) -> P) : P :=
    match ls with
    | [] => k lenv
    | d :: ls' => subst_dict lenv d [] (fun vals => layers (vals ++ lenv) ls' k)
    end.

  Record st := {
    s_env : list (str * str); s_tools : list (str * idt); s_sb : option idt;
    s_denv : list (str * str); s_dtools : list (str * idt); s_dsb : option idt;
    s_direct : list pkg;            (* in order *)
    s_indraw : list pkg;
    s_results : list pkg; s_usedres : list str;
    s_resolved : list str }.

  Definition overlay (inh : bool) (s : st) (ovs : list (str * str)) : list (key * option idt) :=
    map (fun kv => (kvar (fst kv), Some (L (snd kv)))) ovs
    ++ (if inh then map (fun kv => (kvar (fst kv), Some (L (snd kv)))) (s_denv s)
                    ++ map (fun kv => (ktool (fst kv), Some (snd kv))) (s_dtools s)
        else [])
    ++ [(ksandbox, if inh then s_dsb s else None); (kalias, None)].

  Definition after_dep (d : dep) (s : st) (p : pkg) : st :=
    let name := p_name p in
    let use_res := d_result d && negb (smem name (s_usedres s)) in
    let sb := if d_sandbox d then p_provsb p else None in
    let sbenv := match sb with Some v => if pj_sandbox pj then sb_env v else [] | None => [] end in
    let penv := if d_envu d then p_provenv p else [] in
    let ptools := if d_tools d then p_provtools p else [] in
    {| s_env := sbenv ++ penv ++ s_env s;
       s_tools := ptools ++ s_tools s;
       s_sb := match sb with Some v => Some v | None => s_sb s end;
       s_denv := if d_forward d then sbenv ++ penv ++ s_denv s else s_denv s;
       s_dtools := if d_forward d then ptools ++ s_dtools s else s_dtools s;
       s_dsb := if d_forward d then match sb with Some v => Some v | None => s_dsb s end else s_dsb s;
       s_direct := s_direct s ++ [p];
       s_indraw := s_indraw s ++ (if d_deps d then p_provdeps p else []);
       s_results := if use_res then s_results s ++ [p] else s_results s;
       s_usedres := if use_res then name :: s_usedres s else s_usedres s;
       s_resolved := s_resolved s |}.

  Fixpoint deps_loop (ds : list dep) (s : st) (k : st -> P) : P :=
    match ds with
    | [] => k s
    | d :: ds' =>
        let go (ok : bool) : P :=
          let s1 := {| s_env := s_env s; s_tools := s_tools s; s_sb := s_sb s; s_denv := s_denv s;
                       s_dtools := s_dtools s; s_dsb := s_dsb s; s_direct := s_direct s; s_indraw := s_indraw s;
                       s_results := s_results s; s_usedres := s_usedres s;
                       s_resolved := d_name d :: s_resolved s |} in
          if negb ok then deps_loop ds' s1 k else
          subst_dict (s_env s) (d_env d) [] (fun ovs =>
            Call (d_name d) (d_inherit d) (overlay (d_inherit d) s1 ovs) (fun p =>
              if smem (p_name p) (map p_name (s_direct s1)) then Fail
              else deps_loop ds' (after_dep d s1 p) k)) in
        match d_if d with
        | None => go true
        | Some c => cond_val (s_env s) (s_tools s) c (fun v => go (negb (is_false v)))
        end
    end.

  (* UniquePackageList *)
  Fixpoint uniq_add (acc : list pkg) (l : list pkg) : option (list pkg) :=
    match l with
    | [] => Some acc
    | p :: q =>
        match find (fun x => eqb_str (p_name x) (p_name p)) acc with
        | None => uniq_add (acc ++ [p]) q
        | Some x => if idt_eqb (p_vidP x) (p_vidP p) then uniq_add acc q else None
        end
    end.

  (* filter of indirect packages; returns (indirect, results, usedres) *)
  Fixpoint ind_filter (raw : list pkg) (tracked : list pkg) (ind : list pkg) (results : list pkg) (used : list str)
    : option (list pkg * list pkg) :=
    match raw with
    | [] => Some (ind, results)
    | q :: raw' =>
        let name := p_name q in
        let useres := negb (smem name used) in
        let results' := if useres then results ++ [q] else results in
        let used' := if useres then name :: used else used in
        match find (fun x => eqb_str (p_name x) name) tracked with
        | None => ind_filter raw' (tracked ++ [q]) (ind ++ [q]) results' used'
        | Some x => if idt_eqb (p_vidP x) (p_vidP q) then ind_filter raw' tracked ind results' used' else None
        end
    end.

  Fixpoint rd_tools (ltools : list (str * idt)) (names : list str) (acc : list (str * option idt))
           (k : list (str * option idt) -> P) : P :=
    match names with
    | [] => k (rev acc)
    | t :: q => rd_tool ltools t (fun o => rd_tools ltools q ((t, o) :: acc) k)
    end.

  Fixpoint rd_vars (lenv : list (str * str)) (names : list str) (acc : list (str * str))
           (k : list (str * str) -> P) : P :=
    match names with
    | [] => k (rev acc)
    | x :: q => rd_var lenv x (fun o => rd_vars lenv q (match o with Some v => (x, v) :: acc | None => acc end) k)
    end.

  Fixpoint prov_tools (lenv : list (str * str)) (vid : idt) (l : list (str * toolspec)) (acc : list (str * idt))
           (k : list (str * idt) -> P) : P :=
    match l with
    | [] => k (rev acc)
    | (n, ts) :: q =>
        subst lenv (ts_path ts) [] (fun path =>
        subst_list lenv (ts_libs ts) [] (fun libs =>
        subst_dict lenv (ts_env ts) [] (fun env =>
        prov_tools lenv vid q ((n, tool_val vid path libs env) :: acc) k)))
    end.

  Definition sel (names : list str) (vals : list (str * str)) : list (str * str) :=
    flat_map (fun x => match alookup x vals with Some v => [(x, v)] | None => [] end) names.
  Definition selt (names : list str) (vals : list (str * option idt)) : list (str * idt) :=
    flat_map (fun x => match alookup x vals with Some (Some v) => [(x, v)] | _ => [] end) names.

  Definition finish (r : recipe) (s : st) : P :=
    if negb (forallb (fun n => smem n (s_resolved s)) (r_provide_deps r)) then Fail else
    match uniq_add [] (flat_map (fun p => if smem (p_name p) (r_provide_deps r) then p :: p_provdeps p else [])
                                (s_direct s)) with
    | None => Fail
    | Some provdeps =>
    match ind_filter (s_indraw s) (s_direct s) [] (s_results s) (s_usedres s) with
    | None => Fail
    | Some (indirect, results) =>
    rd_tools (s_tools s) (r_ptools r) [] (fun tvals =>
    let env1 := flat_map (fun nt => match snd nt with Some v => tool_env v | None => [] end) tvals ++ s_env s in
    layers env1 (r_private r) (fun env2 =>
    subst_dict env2 (r_meta r) [] (fun meta =>
    let env3 := [([66;79;66;95;82;69;67;73;80;69;95;78;65;77;69], r_name r);
                 ([66;79;66;95;80;65;67;75;65;71;69;95;78;65;77;69], r_name r)] ++ meta ++ env2 in
    rd_vars env3 (r_pall r) [] (fun vals =>
    if negb (forallb (fun nt => match snd nt with Some _ => true | None => false end) tvals) then Fail else
    let ctools := [] in
    let btools := selt (r_btools r) tvals in
    let ptools := selt (r_ptools r) tvals in
    let cdig := sel (r_cvars r) vals in
    let bdig := sel (r_bvars r) vals in
    let pdig := sel (r_pvars r) vals in
    let benv := sel (r_ball r) vals in
    let penv := sel (r_pall r) vals in
    let vidC := match r_checkout r with Some sc => Some (step_vid sc ctools cdig []) | None => None end in
    let vidB := step_vid (r_build r) btools bdig
                  ((match vidC with Some v => [v] | None => [] end) ++ map p_vidP results) in
    let vidP := step_vid (r_package r) ptools pdig [vidB] in
    subst_dict env3 (r_provide_vars r) [] (fun provenv =>
    prov_tools env3 vidP (r_provide_tools r) [] (fun provtools =>
    let fin (provsb : option idt) : P :=
      Ret {| p_name := r_name r; p_vidC := vidC; p_vidB := vidB; p_vidP := vidP;
             p_cenv := cdig; p_cdig := cdig; p_benv := benv; p_bdig := bdig; p_penv := penv; p_pdig := pdig;
             p_btools := btools; p_ptools := ptools; p_weak := selt (r_ptools_weak r) tvals;
             p_sandbox := s_sb s;
             p_direct := s_direct s; p_indirect := indirect;
             p_provenv := provenv; p_provtools := provtools; p_provdeps := provdeps; p_provsb := provsb;
             p_meta := meta |} in
    match r_provide_sandbox r with
    | None => fin None
    | Some (paths, envt) => subst_dict env3 envt [] (fun sbe => fin (Some (sb_val vidP paths sbe)))
    end))))))
    end
    end.

  Definition prepare (r : recipe) : P :=
    Read ksandbox (fun osb =>
    Read kalias (fun _ =>
    layers [] (r_env r) (fun env0 =>
    deps_loop (r_deps r)
      {| s_env := env0; s_tools := []; s_sb := osb; s_denv := env0; s_dtools := []; s_dsb := osb;
         s_direct := []; s_indraw := []; s_results := []; s_usedres := []; s_resolved := [] |}
      (finish r)))).

  Definition body_of (name : str) : P :=
    match find (fun r => eqb_str (r_name r) name) (pj_recipes pj) with
    | Some r => prepare r
    | None => Fail
    end.
End Interp.

(* ---- running a project *)
Definition root_env (vars : list (str * str)) : env :=
  fun k => match k with
           | (0, x) => match alookup x vars with Some v => Some (L v) | None => None end
           | _ => None
           end.

Definition fuel_of (pj : project) : nat := S (S (length (pj_recipes pj))).

Definition fp_inst (k : key) (v : idt) : idt := v.

Definition run_plain (pj : project) (vars : list (str * str)) : res pkg :=
  call pkg (root_env vars) (body_of pj) (fuel_of pj) [] [] (root_env vars).

Definition run_memo (pj : project) (vars : list (str * str)) : mres pkg :=
  callm pkg (pkg_rid (pj_sandbox pj)) fp_inst (root_env vars) (body_of pj) true true (fuel_of pj) [] mempty []
        (root_env vars).

(* ---- observable views, as universal trees, in the traversal order of props/c04_dump.py *)
Definition strs_idt (l : list str) : idt := Nd (map L l).
Definition env_idt (l : list (str * str)) : idt := Nd (map pair_idt l).
Definition toolobs (nt : str * idt) : idt :=
  match snd nt with
  | Nd [_; path; libs; env] => Nd [L (fst nt); path; libs; env]
  | x => Nd [L (fst nt); x]
  end.

Definition join_path (path : list str) : str :=
  match path with
  | [] => []
  | x :: q => fold_left (fun acc y => acc ++ [47] ++ y) q x
  end.

Definition node_idt (sandbox_enabled : bool) (path : list str) (p : pkg) : idt :=
  Nd [L (join_path path); L (p_name p);
      strs_idt (map p_name (p_direct p)); strs_idt (map p_name (p_indirect p));
      (match p_vidC p with Some _ => Nd [env_idt (p_cenv p); env_idt (p_cdig p)] | None => Nd [] end);
      Nd [env_idt (p_benv p); env_idt (p_bdig p); Nd (map toolobs (p_btools p))];
      Nd [env_idt (p_penv p); env_idt (p_pdig p); Nd (map toolobs (p_ptools p))];
      (match p_sandbox p with
       | Some (Nd [_; paths; env]) => if sandbox_enabled then Nd [paths; env] else Nd []
       | _ => Nd [] end);
      env_idt (p_meta p); env_idt (p_provenv p);
      Nd (map toolobs (p_provtools p)); strs_idt (map p_name (p_provdeps p));
      (match p_provsb p with Some (Nd [_; paths; env]) => Nd [paths; env] | _ => Nd [] end)].

(* depth first, direct dependencies then indirect ones (not already seen by name); [fuel] bounds the depth *)
Fixpoint walk (fuel : nat) (se : bool) (path : list str) (p : pkg) : list (idt * idt * idt) :=
  match fuel with
  | O => []
  | S f =>
      let here := path ++ [p_name p] in
      let kids := p_direct p ++ filter (fun q => negb (smem (p_name q) (map p_name (p_direct p)))) (p_indirect p) in
      (node_idt se here p, p_vidP p, pkg_rid se p) :: flat_map (walk f se here) kids
  end.

Fixpoint class_of (x : idt) (seen : list idt) (i : N) : N :=
  match seen with
  | [] => i
  | y :: q => if idt_eqb x y then i else class_of x q (N.succ i)
  end.

(* first-occurrence numbering of the equivalence classes of a list of ids *)
Fixpoint classes (l : list idt) (seen : list idt) : list N :=
  match l with
  | [] => []
  | x :: q =>
      let c := class_of x seen 0 in
      c :: classes q (if N.eqb c (N.of_nat (length seen)) then seen ++ [x] else seen)
  end.

Record tree_view := { tv_nodes : list idt; tv_vid : list N; tv_rid : list N }.

Definition tree_of (pj : project) (root : pkg) : tree_view :=
  let l := flat_map (walk (fuel_of pj) (pj_sandbox pj) []) (p_direct root) in
  {| tv_nodes := map (fun x => fst (fst x)) l;
     tv_vid := classes (map (fun x => snd (fst x)) l) [];
     tv_rid := classes (map snd l) [] |}.

(* ---- memo tables *)
Fixpoint str_ltb (a b : str) : bool :=
  match a, b with
  | _, [] => false
  | [], _ :: _ => true
  | x :: a', y :: b' => if x <? y then true else if y <? x then false else str_ltb a' b'
  end.
Fixpoint insert_kv {A} (x : str * A) (l : list (str * A)) : list (str * A) :=
  match l with
  | [] => [x]
  | y :: q => if str_ltb (fst y) (fst x) then y :: insert_kv x q else x :: l
  end.
Definition sort_kv {A} (l : list (str * A)) : list (str * A) := fold_right insert_kv [] l.

Definition snap_part (tag : N) (s : snap) : list (str * option idt) :=
  sort_kv (flat_map (fun kv => if N.eqb (fst (fst kv)) tag then [(snd (fst kv), snd kv)] else []) s).

(* one entry: touched variables with values, touched tool names (value present?), sandbox present?;
   the tool/sandbox values themselves are compared as equivalence classes *)
Definition entry_idt (x : entry pkg) : idt :=
  Nd [Nd (map (fun kv => Nd [L (fst kv); match snd kv with Some (L v) => Nd [L v] | _ => Nd [] end])
              (snap_part 0 (en_snap x)));
      Nd (map (fun kv => Nd [L (fst kv); match snd kv with Some _ => L [1] | None => L [0] end])
              (snap_part 1 (en_snap x)));
      (match snap_part 2 (en_snap x) with (_, Some _) :: _ => L [1] | _ => L [0] end);
      strs_idt (map fst (sort_kv (map (fun n => (n, tt)) (en_sub x))))].

Definition entry_vals (x : entry pkg) : list idt :=
  flat_map (fun kv => match snd kv with Some v => [v] | None => [] end) (snap_part 1 (en_snap x))
  ++ flat_map (fun kv => match snd kv with Some v => [v] | None => [] end) (snap_part 2 (en_snap x)).

Definition entries_of (M : mstate pkg) (r : str) : list (entry pkg) :=
  rev (filter (fun x => eqb_str (en_recipe x) r) (ms_match M)).

Record memo_view := { mv_tabs : list idt; mv_vals : list N; mv_rid : list N }.

Definition memo_of (pj : project) (M : mstate pkg) (names : list str) : memo_view :=
  let es := flat_map (entries_of M) names in
  {| mv_tabs := map (fun r => Nd [L r; Nd (map entry_idt (entries_of M r))]) names;
     mv_vals := classes (flat_map entry_vals es) [];
     mv_rid := classes (map (fun x => pkg_rid (pj_sandbox pj) (en_res x)) es) [] |}.

(* ---- the check evaluated by the harness *)
Inductive verdict := VErr | VFuel | VOk (t : tree_view) (m : memo_view).

Definition model_run (pj : project) (vars : list (str * str)) (names : list str) : verdict :=
  match run_plain pj vars with
  | Err => VErr
  | OutOfFuel => VFuel
  | Ok (root, _, _) =>
      match run_memo pj vars with
      | (Ok _, M) => VOk (tree_of pj root) (memo_of pj M names)
      | (Err, _) => VErr
      | (OutOfFuel, _) => VFuel
      end
  end.

Definition eqb_Ns : list N -> list N -> bool := eqb_list N.eqb.
Definition eqb_idts : list idt -> list idt -> bool := eqb_list idt_eqb.

Definition verdict_eqb (a b : verdict) : bool :=
  match a, b with
  | VErr, VErr => true
  | VFuel, VFuel => true
  | VOk t m, VOk t' m' =>
      eqb_idts (tv_nodes t) (tv_nodes t') && eqb_Ns (tv_vid t) (tv_vid t') && eqb_Ns (tv_rid t) (tv_rid t')
      && eqb_idts (mv_tabs m) (mv_tabs m') && eqb_Ns (mv_vals m) (mv_vals m') && eqb_Ns (mv_rid m) (mv_rid m')
  | _, _ => false
  end.

(* which parts differ (for diagnostics): 1 nodes, 2 vid classes, 3 rid classes, 4 memo tables, 5 memo value classes, 6 memo result ids *)
Definition verdict_diff (a b : verdict) : list N :=
  match a, b with
  | VOk t m, VOk t' m' =>
      (if eqb_idts (tv_nodes t) (tv_nodes t') then [] else [1]) ++ (if eqb_Ns (tv_vid t) (tv_vid t') then [] else [2])
      ++ (if eqb_Ns (tv_rid t) (tv_rid t') then [] else [3]) ++ (if eqb_idts (mv_tabs m) (mv_tabs m') then [] else [4])
      ++ (if eqb_Ns (mv_vals m) (mv_vals m') then [] else [5]) ++ (if eqb_Ns (mv_rid m) (mv_rid m') then [] else [6])
  | VErr, VErr => [] | VFuel, VFuel => []
  | _, _ => [0]
  end.
