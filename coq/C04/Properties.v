(* C04 — property theorems about the in-memory caches of the package
   calculation (touched-key memoisation, merge by result id) and the YAML
   cache.  Only statements, each closed by [exact] of a lemma from Proofs.v,
   and non-vacuity examples.  The cache key theorems are in KeyProperties.v. *)
From Coq Require Import List NArith Bool.
Require Import BobV.Common.Cases BobV.C04.Model BobV.C04.Proofs BobV.C04.Examples.
Import ListNotations.
Open Scope N_scope.

(* P1. A tracked computation depends on its environment only through the keys
   it touched: an environment that agrees on them gives the same result AND
   the same touched set. *)
Theorem read_determinacy : forall (A : Type) (c : comp A) (e e' : env) (t : list key),
  agree_on (snd (run c e t)) e e' -> run c e' t = run c e t.
Proof. intros A. exact (@read_determinacy_proof A). Qed.

(* Env.touched is a stack of sets and every lookup touches all of them: each
   outer set receives exactly the keys the innermost one receives. *)
Theorem touch_stack_is_union : forall (A : Type) (c : comp A) (e : env) (ts : list (list key)),
  run_stack c e ts = (fst (run c e []), map (fun s => union s (snd (run c e []))) ts).
Proof. intros A. exact (@touch_stack_is_union_proof A). Qed.

(* P1. The same for whole package calculations with nested dependency
   calculations (environment derived with overrides, or not inherited): result,
   touched set and sub-tree set depend on the input only through touched keys. *)
Theorem prepare_determinacy : forall (R : Type) (genv : env) (body : str -> prog R)
    (m : nat) (st : list str) (r : str) (e e' : env) (a : R) (t : list key) (sub : list str),
  call R genv body m st r e = Ok (a, t, sub) -> agree_on t e e' ->
  call R genv body m st r e' = Ok (a, t, sub).
Proof. exact prepare_determinacy_proof. Qed.

(* ... and on the package stack only through the cycle check that
   Recipe.prepare repeats on a memo hit (stack.intersects(m.subTreePackages)). *)
Theorem stack_only_through_cycle_check : forall (R : Type) (genv : env) (body : str -> prog R)
    (m : nat) (st : list str) (r : str) (e : env) (a : R) (t : list key) (sub : list str),
  call R genv body m st r e = Ok (a, t, sub) ->
  forall (st' : list str) (e' : env), agree_on t e e' -> smem r st' = false ->
  call R genv body m st' r e' = if sintersects (r :: st') sub then Err else Ok (a, t, sub).
Proof. exact call_stack_env. Qed.

(* P1. Transparency of the memo table of Recipe.prepare, with touch
   propagation on a hit, WITHOUT the merge by result id: for every history of
   calculations, started from an empty table, every answer (package, touched
   set, sub-tree set, or the cyclic/parse error) is the answer of the
   calculation with every cache disabled.  [fp_determines]: what the matcher
   stores of a value (for tools and the sandbox: their result id) determines
   the value — C02's territory, named here as a hypothesis. *)
Theorem memo_transparent_without_merge : forall (R : Type) (rid : R -> idt) (fp : key -> idt -> idt)
    (genv : env) (body : str -> prog R),
  fp_determines fp ->
  forall (n : nat) (cs : list (str * env)),
  (forall o, In o (history_plain R genv body n cs) -> o <> OutOfFuel) ->
  history_memo R rid fp genv body true false n mempty cs = history_plain R genv body n cs.
Proof.
  intros R rid fp genv body Hfp n cs Hne.
  exact (memo_transparent_proof R rid fp genv body false Hfp (fun H => False_ind _ (diff_false_true H))
           n cs mempty (inv_empty R fp genv body) Hne).
Qed.

(* P1. ... and WITH the merge (__corePackagesById.setdefault), as implemented:
   transparent provided the result id determines the calculated package among
   the packages of one recipe ([rid_determines_subtree]).  The implementation
   does NOT satisfy this hypothesis (known findings "merge-by-result-id"); see
   merge_needs_rid_determines below. *)
Theorem memo_transparent : forall (R : Type) (rid : R -> idt) (fp : key -> idt -> idt)
    (genv : env) (body : str -> prog R),
  fp_determines fp -> rid_determines_subtree R rid genv body ->
  forall (n : nat) (cs : list (str * env)),
  (forall o, In o (history_plain R genv body n cs) -> o <> OutOfFuel) ->
  history_memo R rid fp genv body true true n mempty cs = history_plain R genv body n cs.
Proof.
  intros R rid fp genv body Hfp Hrid n cs Hne.
  exact (memo_transparent_proof R rid fp genv body true Hfp (fun _ => Hrid)
           n cs mempty (inv_empty R fp genv body) Hne).
Qed.

(* P2. YAML cache: under the stat assumption every cached load returns the
   parsed data and the content digest of the uncached load, for every history
   of sessions (including Bob updates, which purge the table). *)
Theorem yaml_cache_transparent : forall (data : Type) (parse : list N -> list N -> data)
    (H : list N -> list N) (evs : list yevent) (cur : list N),
  stat_faithful (y_loads evs) ->
  y_run data parse H cur (yempty data) evs = y_plain data parse H cur evs.
Proof. exact yaml_cache_transparent_proof. Qed.

(* P2. The file list whose digest enters the key of the persisted package tree
   (YamlCache.__files) covers ALL files loaded in the invocation, each with the
   digest of its current content — files served from the hot table included,
   not only the re-parsed ones.  (This list is the [ki_files] input of
   cache_key_complete in KeyProperties.v.) *)
Theorem files_cover_all_loads : forall (data : Type) (parse : list N -> list N -> data)
    (H : list N -> list N) (evs : list yevent) (cur : list N),
  stat_faithful (y_loads evs) ->
  y_files data evs (y_run data parse H cur (yempty data) evs) [] = y_session H evs [].
Proof. exact files_cover_all_loads_proof. Qed.

(* ---------------------------------------------------------------- non-vacuity *)

(* the computation reads X and Y but not Z: changing Z changes nothing, and
   both X and Y are recorded *)
Example read_determinacy_nonvacuous :
  let e := env_of [(kX, v1); (kY, v2); (kZ, v1)] in
  let e' := env_of [(kX, v1); (kY, v2); (kZ, v2)] in
  agree_on (snd (run c_xy e [])) e e' /\ run c_xy e [] = (Nd [v1; v2], [kX; kY]) /\ e kZ <> e' kZ.
Proof.
  cbv zeta. split; [|split; [vm_compute; reflexivity | vm_compute; discriminate]].
  intros k Hk. vm_compute in Hk. destruct Hk as [<-|[<-|[]]]; reflexivity.
Qed.

(* three reaches of "p" (X=1, X=2, X=1 with an unrelated Z): the third one is
   a memo hit, the second one is not, and all answers are the plain ones *)
Example memo_transparent_nonvacuous :
  history_memo idt rid_id fp_id e_empty body1 true true 5 mempty [(nRoot, e_empty)]
  = history_plain idt e_empty body1 5 [(nRoot, e_empty)]
  /\ history_plain idt e_empty body1 5 [(nRoot, e_empty)]
     = [Ok (Nd [Nd [L nC; v1]; Nd [L nP; Nd [L nC; v1]]; Nd [L nP; Nd [L nC; v2]]; Nd [L nP; Nd [L nC; v1]]],
            [kX], [nC; nP])]
  /\ length (ms_match (snd (callm idt rid_id fp_id e_empty body1 true true 5 [] mempty nRoot e_empty))) = 5%nat.
Proof. vm_compute. repeat split. Qed.

(* the hypotheses of memo_transparent are satisfiable (here: the result id is the package itself) *)
Example memo_transparent_hypotheses_satisfiable :
  fp_determines fp_id /\ rid_determines_subtree idt rid_id e_empty body1.
Proof.
  split.
  - intros k a b H. exact H.
  - intros r m st e a t s m' st' e' a' t' s' _ _ H. exact H.
Qed.

(* P1 guard: WITHOUT m.touch on a memo hit the snapshot of "p" misses X (read
   only by the memoised "c"), so "p" under X=2 is answered with the package of
   X=1: transparency fails.  The statement above is therefore not vacuous. *)
Example touch_propagation_needed :
  history_memo idt rid_id fp_id e_empty body1 false true 5 mempty [(nRoot, e_empty)]
  <> history_plain idt e_empty body1 5 [(nRoot, e_empty)].
Proof. intro H. vm_compute in H. discriminate H. Qed.

(* the merge by result id is NOT transparent when the result id does not
   determine the package (here: a part the id does not cover, like
   metaEnvironment or the dependency list in the implementation) ... *)
Example merge_needs_rid_determines :
  history_memo idt rid_first fp_id e_empty body2 true true 5 mempty [(nRoot, e_empty)]
  <> history_plain idt e_empty body2 5 [(nRoot, e_empty)]
  /\ ~ rid_determines_subtree idt rid_first e_empty body2.
Proof.
  split.
  - intro H. vm_compute in H. discriminate H.
  - intro Hd.
    assert (E : Nd [L nLib; v1] = Nd [L nLib; v2]).
    { apply (Hd nLib 2%nat [] (env_of [(kX, v1)]) (Nd [L nLib; v1]) [kX] []
                     2%nat [] (env_of [(kX, v2)]) (Nd [L nLib; v2]) [kX] []); vm_compute; reflexivity. }
    discriminate E.
Qed.

(* ... while the same recipes without the merge are transparent *)
Example merge_off_is_transparent :
  history_memo idt rid_first fp_id e_empty body2 true false 5 mempty [(nRoot, e_empty)]
  = history_plain idt e_empty body2 5 [(nRoot, e_empty)].
Proof. vm_compute. reflexivity. Qed.

(* a matcher that does not store enough of the touched values is not transparent *)
Example fp_needs_determines :
  history_memo idt rid_id fp_const e_empty body1 true true 5 mempty [(nRoot, e_empty)]
  <> history_plain idt e_empty body1 5 [(nRoot, e_empty)].
Proof. intro H. vm_compute in H. discriminate H. Qed.

(* the cycle check: "p" reaches itself when X is set; the error is the same
   with and without the memo table, also when the table already knows "p" *)
Example cycle_error_is_transparent :
  let h := [(nP, e_empty); (nP, env_of [(kX, v1)])] in
  history_memo idt rid_id fp_id e_empty body3 true true 5 mempty h = history_plain idt e_empty body3 5 h
  /\ history_plain idt e_empty body3 5 h = [Ok (L nP, [kX], []); Err].
Proof. vm_compute. split; reflexivity. Qed.

Example yaml_cache_nonvacuous :
  stat_faithful (y_loads y_hist_ok)
  /\ y_run (list N) y_parse y_hash [0] (yempty (list N)) y_hist_ok = y_plain (list N) y_parse y_hash [0] y_hist_ok
  /\ length (yc_tab (list N) (snd (fst (fold_left
        (fun s ev => y_step (list N) y_parse y_hash (fst (fst s)) (snd (fst s)) ev)
        (firstn 6 y_hist_ok) ([0], yempty (list N), None))))) = 2%nat.
Proof.
  split; [|split; vm_compute; reflexivity].
  intros n s c c' H1 H2. vm_compute in H1, H2.
  repeat match goal with
         | H : _ \/ _ |- _ => destruct H as [H|H]
         | H : False |- _ => destruct H
         end; congruence.
Qed.

(* the stat assumption is needed: same name and stat record, different content *)
Example yaml_stat_assumption_needed :
  ~ stat_faithful (y_loads y_hist_bad)
  /\ y_run (list N) y_parse y_hash [0] (yempty (list N)) y_hist_bad <> y_plain (list N) y_parse y_hash [0] y_hist_bad.
Proof.
  split.
  - intro Hs. assert (E : [5; 5] = [5; 6]).
    { apply (Hs [97] [10]); vm_compute; auto. }
    discriminate E.
  - intro H. vm_compute in H. discriminate H.
Qed.

(* the list really contains the hot hit: file a (unchanged, served from the table) and the edited b *)
Example files_cover_all_loads_nonvacuous :
  y_files (list N) y_hist_two (y_run (list N) y_parse y_hash [0] (yempty (list N)) y_hist_two) []
  = [([97], [5; 5]); ([98], [7])].
Proof. vm_compute. reflexivity. Qed.

(* guard: a cache that forgets the digest of hot hits does not satisfy the statement
   (then the key would cover the re-parsed files only) *)
Example hot_hit_digest_needed :
  y_files (list N) y_hist_two (y_run_forget [0] (yempty (list N)) y_hist_two) [] <> y_session y_hash y_hist_two [].
Proof. intro H. vm_compute in H. discriminate H. Qed.
