(* C04 — property theorems about the key of the persisted package cache
   (.bob-packages*.pickle) and of the query graph cache (.bob-tree.sqlite3).
   Only statements and non-vacuity examples. *)
From Coq Require Import List NArith Bool Lia.
Require Import BobV.Ids.Model BobV.Ids.Proofs BobV.C04.KeyModel BobV.C04.KeyProofs.
Import ListNotations.
Open Scope N_scope.

(* P2. The cache key determines everything it is computed from — the Bob source
   hash, the set of files the parser read with the digests of their contents,
   the root environment (defaults, config files, -D) and the sandbox switch —
   or the two keys exhibit a SHA-1 collision (collision-extraction form; SHA-1
   is never assumed injective). *)
Theorem cache_key_complete : forall (H : bytes -> bytes),
  (forall x, length (H x) = 20%nat) ->
  forall a b : keyin, wf_keyin a -> wf_keyin b -> cache_key H a = cache_key H b ->
  a = b \/ collision H (key_bytes H a) (key_bytes H b)
        \/ collision H (files_bytes (ki_files a)) (files_bytes (ki_files b)).
Proof. exact cache_key_complete_proof. Qed.

(* the list of (file name, content digest) pairs is encoded injectively: a file
   appearing, disappearing or changing its digest changes the hashed bytes *)
Theorem files_digest_input_injective : forall a b : list (str * bytes),
  Forall wf_file a -> Forall wf_file b -> files_bytes a = files_bytes b -> a = b.
Proof. exact files_bytes_injective. Qed.

(* ---------------------------------------------------------------- non-vacuity *)
Definition k0 : keyin :=
  {| ki_bobhash := repeat 7 20;
     ki_files := [([100; 46; 121], repeat 1 20); ([114; 47; 233; 46; 121], repeat 2 20)];
     ki_rootenv := [([65], [49]); ([66], [8364; 32])];
     ki_sandbox := true |}.
Definition k1 : keyin :=       (* the same without the second file *)
  {| ki_bobhash := repeat 7 20;
     ki_files := [([100; 46; 121], repeat 1 20)];
     ki_rootenv := [([65], [49]); ([66], [8364; 32])];
     ki_sandbox := true |}.

Example cache_key_nonvacuous :
  wf_keyin k0 /\ wf_keyin k1 /\ k0 <> k1
  /\ dec_key (key_bytes (fun _ => repeat 0 20) k0)
     = Some (ki_bobhash k0, repeat 0 20, ki_rootenv k0, [1]).
Proof.
  split; [apply keyin_okb_sound; vm_compute; reflexivity|].
  split; [apply keyin_okb_sound; vm_compute; reflexivity|].
  split; [discriminate|vm_compute; reflexivity].
Qed.
