(* C04 — package graph caches are transparent.  Generic part of the model.

   Anchors (pym/bob):
     stringparser.py  Env.touched / __touch / touchReset / touch / touchedKeys / derive / detach
     input.py         Recipe.prepare: memo lookup over __corePackagesByMatch (2522-2533),
                      m.touch on a hit (2527), cycle check on a hit (2525),
                      merge by result id __corePackagesById.setdefault (2921-2928),
                      PackageMatcher (3120-3151)
     input.py         RecipeSet.generatePackages cache key (4366-4375), YamlCache (4403-4503)

   Definitions only.  Strings are lists of code points, keys of the tracked
   environments are tagged names (tag 0 = variable, 1 = tool, 2 = sandbox,
   3 = package alias name), values are trees [idt] (a variable value is a leaf,
   tools and sandboxes are the structures their result id is computed from). *)
From Coq Require Import List NArith Bool.
Require Import BobV.Common.Cases.
Import ListNotations.
Open Scope N_scope.

Definition str := list N.

Inductive idt := L (s : str) | Nd (l : list idt).

Fixpoint idt_eqb (a b : idt) : bool :=
  match a, b with
  | L s, L s' => eqb_str s s'
  | Nd l, Nd l' =>
      (fix go (x y : list idt) : bool :=
         match x, y with
         | [], [] => true
         | p :: x', q :: y' => idt_eqb p q && go x' y'
         | _, _ => false
         end) l l'
  | _, _ => false
  end.

Definition key := (N * str)%type.
Definition keyb (a b : key) : bool := N.eqb (fst a) (fst b) && eqb_str (snd a) (snd b).

Definition env := key -> option idt.

(* ---- finite sets as duplicate free lists in insertion order *)
Fixpoint kmem (k : key) (t : list key) : bool :=
  match t with [] => false | x :: r => keyb k x || kmem k r end.
Definition add (k : key) (t : list key) : list key := if kmem k t then t else t ++ [k].
Definition union (t s : list key) : list key := fold_left (fun acc k => add k acc) s t.

Fixpoint smem (r : str) (l : list str) : bool :=
  match l with [] => false | x :: q => eqb_str r x || smem r q end.
Definition sadd (r : str) (l : list str) : list str := if smem r l then l else l ++ [r].
Definition sunion (a b : list str) : list str := fold_left (fun acc r => sadd r acc) b a.
Definition sintersects (a b : list str) : bool := existsb (fun r => smem r b) a.

Definition agree_on (t : list key) (e e' : env) : Prop := forall k, In k t -> e k = e' k.

(* ---- 1. the tracked reader: every lookup is recorded (Env.__getitem__/get/__contains__) *)
Inductive comp (A : Type) :=
| CRet (a : A)
| CRead (k : key) (f : option idt -> comp A).
Arguments CRet {A} a.
Arguments CRead {A} k f.

Fixpoint run {A} (c : comp A) (e : env) (t : list key) : A * list key :=
  match c with
  | CRet a => (a, t)
  | CRead k f => run (f (e k)) e (add k t)
  end.

(* Env.touched is a *stack* of sets: touchReset pushes an empty set, every
   lookup adds the key to all sets of the stack (Env.__touch). *)
Fixpoint run_stack {A} (c : comp A) (e : env) (ts : list (list key)) : A * list (list key) :=
  match c with
  | CRet a => (a, ts)
  | CRead k f => run_stack (f (e k)) e (map (add k) ts)
  end.

(* ---- 2. package calculations: reads, nested calculations of dependencies, failure *)
Inductive prog (R : Type) :=
| Ret (a : R)
| Fail                                   (* ParseError *)
| Read (k : key) (f : option idt -> prog R)
| Call (r : str) (inh : bool) (ov : list (key * option idt)) (f : R -> prog R).
Arguments Ret {R} a.
Arguments Fail {R}.
Arguments Read {R} k f.
Arguments Call {R} r inh ov f.

Inductive outcome (A : Type) := Ok (a : A) | Err | OutOfFuel.
Arguments Ok {A} a.
Arguments Err {A}.
Arguments OutOfFuel {A}.

Fixpoint ov_lookup (k : key) (ov : list (key * option idt)) : option (option idt) :=
  match ov with
  | [] => None
  | (k', o) :: r => if keyb k k' then Some o else ov_lookup k r
  end.

Section Sem.
  Variable R : Type.
  Variable rid : R -> idt.                 (* result id of a computed package *)
  Variable fp : key -> idt -> idt.         (* what PackageMatcher stores of a value (tools: resultId) *)
  Variable genv : env.                     (* root environment, used for "inherit: false" *)
  Variable body : str -> prog R.           (* the recipes *)

  (* environment handed to a dependency: derive(overrides) of the own
     environment, or of the root environment when nothing is inherited *)
  Definition callee_env (inh : bool) (ov : list (key * option idt)) (e : env) : env :=
    fun k => match ov_lookup k ov with
             | Some o => o
             | None => if inh then e k else genv k
             end.

  Definition res := outcome (R * list key * list str).

  (* body of one calculation; [t] = own touched set (touched[-1]), [sub] = subTreePackages.
     Touches of a dependency that inherited the environment also land in
     the own set (shared sets of the touched stack). *)
  Fixpoint runp (cf : str -> env -> res) (p : prog R) (e : env) (t : list key) (sub : list str) : res :=
    match p with
    | Ret a => Ok (a, t, sub)
    | Fail => Err
    | Read k f => runp cf (f (e k)) e (add k t) sub
    | Call r inh ov f =>
        match cf r (callee_env inh ov e) with
        | Ok (a, tc, subc) => runp cf (f a) e (if inh then union t tc else t) (sunion sub (r :: subc))
        | Err => Err
        | OutOfFuel => OutOfFuel
        end
    end.

  (* plain calculation (every cache disabled); [st] = PackageStack *)
  Fixpoint call (n : nat) (st : list str) (r : str) (e : env) : res :=
    match n with
    | O => OutOfFuel
    | S m => if smem r st then Err else runp (call m (r :: st)) (body r) e [] []
    end.

  (* ---- memoised calculation *)
  Definition snap := list (key * option idt).
  Record entry := { en_recipe : str; en_snap : snap; en_res : R; en_sub : list str }.
  Record mstate := { ms_match : list entry; ms_byid : list (str * R) }.
  Definition mempty : mstate := {| ms_match := []; ms_byid := [] |}.

  Definition mksnap (t : list key) (e : env) : snap :=
    map (fun k => (k, option_map (fp k) (e k))) t.

  Definition snap_matches (s : snap) (e : env) : bool :=
    forallb (fun kv => eqb_option idt_eqb (snd kv) (option_map (fp (fst kv)) (e (fst kv)))) s.

  Fixpoint find_match (r : str) (e : env) (l : list entry) : option entry :=
    match l with
    | [] => None
    | x :: q => if eqb_str (en_recipe x) r && snap_matches (en_snap x) e then Some x else find_match r e q
    end.

  Fixpoint find_byid (r : str) (i : idt) (l : list (str * R)) : option R :=
    match l with
    | [] => None
    | (r', a) :: q => if eqb_str r' r && idt_eqb (rid a) i then Some a else find_byid r i q
    end.

  Definition mres := (res * mstate)%type.

  (* switches: [touch_hit] = m.touch(inputEnv, inputTools) on a memo hit;
     [merge] = __corePackagesById.setdefault.  The implementation is (true, true). *)
  Variable touch_hit : bool.
  Variable merge : bool.

  Fixpoint runm (cf : mstate -> str -> env -> mres) (p : prog R) (e : env) (t : list key)
           (sub : list str) (M : mstate) : mres :=
    match p with
    | Ret a => (Ok (a, t, sub), M)
    | Fail => (Err, M)
    | Read k f => runm cf (f (e k)) e (add k t) sub M
    | Call r inh ov f =>
        match cf M r (callee_env inh ov e) with
        | (Ok (a, tc, subc), M1) =>
            runm cf (f a) e (if inh then union t tc else t) (sunion sub (r :: subc)) M1
        | (Err, M1) => (Err, M1)
        | (OutOfFuel, M1) => (OutOfFuel, M1)
        end
    end.

  Fixpoint callm (n : nat) (st : list str) (M : mstate) (r : str) (e : env) : mres :=
    match n with
    | O => (OutOfFuel, M)
    | S m =>
        if smem r st then (Err, M) else
        match find_match r e (ms_match M) with
        | Some x =>
            if sintersects (r :: st) (en_sub x) then (Err, M)
            else (Ok (en_res x, if touch_hit then map fst (en_snap x) else [], en_sub x), M)
        | None =>
            match runm (fun M' => callm m (r :: st) M') (body r) e [] [] M with
            | (Ok (a, t, sub), M1) =>
                let old := if merge then find_byid r (rid a) (ms_byid M1) else None in
                let a' := match old with Some a0 => a0 | None => a end in
                (Ok (a', t, sub),
                 {| ms_match := {| en_recipe := r; en_snap := mksnap t e; en_res := a'; en_sub := sub |}
                                :: ms_match M1;
                    ms_byid := match old with Some _ => ms_byid M1 | None => (r, a) :: ms_byid M1 end |})
            | other => other
            end
        end
    end.

  (* a history of calculations requested one after the other in one process *)
  Definition history_plain (n : nat) (cs : list (str * env)) : list res :=
    map (fun c => call n [] (fst c) (snd c)) cs.

  Fixpoint history_memo (n : nat) (M : mstate) (cs : list (str * env)) : list res :=
    match cs with
    | [] => []
    | c :: q => let '(o, M') := callm n [] M (fst c) (snd c) in o :: history_memo n M' q
    end.
End Sem.

Arguments en_recipe {R} e.
Arguments en_snap {R} e.
Arguments en_res {R} e.
Arguments en_sub {R} e.
Arguments ms_match {R} m.
Arguments ms_byid {R} m.
Arguments mempty {R}.

(* ---- 3. persistent layers *)

(* YamlCache: table name -> (stat, digest, data); purged when the Bob hash changes *)
Section Yaml.
  Variable data : Type.
  Variable parse : list N -> list N -> data.   (* Bob version (input hash), file content *)
  Variable H : list N -> list N.               (* SHA-1 *)

  Record yentry := { y_name : str; y_stat : list N; y_digest : list N; y_data : data }.
  Record ycache := { yc_vsn : option (list N); yc_tab : list yentry }.

  Inductive yevent :=
  | YOpen (vsn : list N)                                   (* YamlCache.open of a Bob with this input hash *)
  | YLoad (name : str) (stat : list N) (content : list N). (* loadYaml of an existing file *)

  Fixpoint y_find (name : str) (stat : list N) (l : list yentry) : option yentry :=
    match l with
    | [] => None
    | x :: q => if eqb_str (y_name x) name && eqb_str (y_stat x) stat then Some x else y_find name stat q
    end.

  Definition y_put (x : yentry) (l : list yentry) : list yentry :=   (* INSERT OR REPLACE, name is the key *)
    x :: filter (fun y => negb (eqb_str (y_name y) (y_name x))) l.

  (* one step; the answer of a load is (data, digest recorded for the cache key) *)
  Definition y_step (cur : list N) (c : ycache) (ev : yevent) : (list N * ycache * option (data * list N)) :=
    match ev with
    | YOpen vsn =>
        (vsn,
         match yc_vsn c with
         | Some v => if eqb_str v vsn then c else {| yc_vsn := Some vsn; yc_tab := [] |}
         | None => {| yc_vsn := Some vsn; yc_tab := [] |}
         end, None)
    | YLoad name stat content =>
        match y_find name stat (yc_tab c) with
        | Some x => (cur, c, Some (y_data x, y_digest x))
        | None =>
            let d := parse cur content in
            let x := {| y_name := name; y_stat := stat; y_digest := H content; y_data := d |} in
            (cur, {| yc_vsn := yc_vsn c; yc_tab := y_put x (yc_tab c) |}, Some (d, H content))
        end
    end.

  Fixpoint y_run (cur : list N) (c : ycache) (evs : list yevent) : list (option (data * list N)) :=
    match evs with
    | [] => []
    | ev :: q => let '(cur', c', o) := y_step cur c ev in o :: y_run cur' c' q
    end.

  (* the same without any cache *)
  Fixpoint y_plain (cur : list N) (evs : list yevent) : list (option (data * list N)) :=
    match evs with
    | [] => []
    | YOpen vsn :: q => None :: y_plain vsn q
    | YLoad name stat content :: q => Some (parse cur content, H content) :: y_plain cur q
    end.

  (* the (name, stat, content) observations of a history *)
  Fixpoint y_loads (evs : list yevent) : list (str * list N * list N) :=
    match evs with
    | [] => []
    | YOpen _ :: q => y_loads q
    | YLoad name stat content :: q => (name, stat, content) :: y_loads q
    end.

  Definition yempty : ycache := {| yc_vsn := None; yc_tab := [] |}.

  (* YamlCache.__files at the end of a history: (name, digest) of every answer
     given since the last open — re-parsed files AND files served from the hot
     table alike.  Its digest (YamlCache.close) is the file part of the cache key. *)
  Fixpoint y_files (evs : list yevent) (outs : list (option (data * list N))) (acc : list (str * list N))
    : list (str * list N) :=
    match evs, outs with
    | YOpen _ :: q, _ :: o => y_files q o []
    | YLoad name _ _ :: q, Some (_, d) :: o => y_files q o (acc ++ [(name, d)])
    | YLoad _ _ _ :: q, None :: o => y_files q o acc
    | _, _ => acc
    end.

  (* every file loaded since the last open, with the digest of its current content *)
  Fixpoint y_session (evs : list yevent) (acc : list (str * list N)) : list (str * list N) :=
    match evs with
    | [] => acc
    | YOpen _ :: q => y_session q []
    | YLoad name _ content :: q => y_session q (acc ++ [(name, H content)])
    end.
End Yaml.

