(* C04 — concrete instances used by the non-vacuity examples.  Definitions only. *)
From Coq Require Import List NArith Bool.
Require Import BobV.Common.Cases BobV.C04.Model.
Import ListNotations.
Open Scope N_scope.

Definition kX : key := (0, [88]).      (* variable X *)
Definition kY : key := (0, [89]).
Definition kZ : key := (0, [90]).
Definition env_of (l : list (key * idt)) : env :=
  fun k => match find (fun kv => keyb k (fst kv)) l with Some kv => Some (snd kv) | None => None end.

Definition v1 : idt := L [49].
Definition v2 : idt := L [50].

(* reads X, and Y only when X is set *)
Definition c_xy : comp idt :=
  CRead kX (fun ox => match ox with
                      | Some x => CRead kY (fun oy => CRet (Nd [x; match oy with Some y => y | None => L [] end]))
                      | None => CRet (L [])
                      end).

(* recipes: "c" reads X; "p" depends on "c"; "root" reaches c with X=1, then p with X=1 and p with X=2 *)
Definition nC : str := [99].
Definition nP : str := [112].
Definition nRoot : str := [114].
Definition nLib : str := [108].

Definition body1 (r : str) : prog idt :=
  if eqb_str r nC then Read kX (fun o => Ret (match o with Some v => Nd [L nC; v] | None => Nd [L nC] end))
  else if eqb_str r nP then Call nC true [] (fun a => Ret (Nd [L nP; a]))
  else if eqb_str r nRoot then
    Call nC true [(kX, Some v1)] (fun a0 =>
    Call nP true [(kX, Some v1)] (fun a1 =>
    Call nP true [(kX, Some v2)] (fun a2 =>
    Call nP true [(kX, Some v1); (kZ, Some v2)] (fun a3 => Ret (Nd [a0; a1; a2; a3])))))
  else Fail.

Definition fp_id (k : key) (v : idt) : idt := v.
Definition rid_id (a : idt) : idt := a.
Definition e_empty : env := fun _ => None.

(* "lib" has a meta part (second component) that its result id does not cover *)
Definition rid_first (a : idt) : idt := match a with Nd (x :: _) => x | _ => a end.
Definition body2 (r : str) : prog idt :=
  if eqb_str r nLib then Read kX (fun o => Ret (Nd [L nLib; match o with Some v => v | None => L [] end]))
  else if eqb_str r nRoot then
    Call nLib true [(kX, Some v1)] (fun a1 =>
    Call nLib true [(kX, Some v2)] (fun a2 => Ret (Nd [L nRoot; a1; a2])))
  else Fail.

(* a matcher that stores nothing of the values *)
Definition fp_const (k : key) (v : idt) : idt := L [].

(* a recipe that reaches itself: cyclic *)
Definition body3 (r : str) : prog idt :=
  if eqb_str r nP then Read kX (fun o => match o with
                                         | Some _ => Call nP true [(kX, None)] (fun a => Ret (Nd [a]))
                                         | None => Ret (L nP)
                                         end)
  else Fail.

(* YAML cache histories *)
Definition y_parse (vsn content : list N) : list N := vsn ++ content.
Definition y_hash (content : list N) : list N := rev content.
Definition y_hist_ok : list yevent :=
  [YOpen [1]; YLoad [97] [10] [5; 5]; YLoad [98] [11] [6];
   YOpen [1]; YLoad [97] [10] [5; 5]; YLoad [98] [12] [7];
   YOpen [2]; YLoad [97] [10] [5; 5]].
(* same name, same stat record, different content *)
Definition y_hist_bad : list yevent :=
  [YOpen [1]; YLoad [97] [10] [5; 5]; YOpen [1]; YLoad [97] [10] [5; 6]].

(* a YAML cache that does not record the digest of a file served from the hot
   table (the answer carries an empty digest) *)
Fixpoint y_run_forget (cur : list N) (c : ycache (list N)) (evs : list yevent) : list (option (list N * list N)) :=
  match evs with
  | [] => []
  | ev :: q =>
      let '(cur', c', o) := y_step (list N) y_parse y_hash cur c ev in
      let o' := match ev, o with
                | YLoad name stat _, Some (d, dg) =>
                    match y_find (list N) name stat (yc_tab (list N) c) with Some _ => Some (d, []) | None => Some (d, dg) end
                | _, _ => o
                end in
      o' :: y_run_forget cur' c' q
  end.
(* two sessions; in the second one b is edited (new stat), a is served from the table *)
Definition y_hist_two : list yevent :=
  [YOpen [1]; YLoad [97] [10] [5; 5]; YLoad [98] [11] [6]; YOpen [1]; YLoad [97] [10] [5; 5]; YLoad [98] [12] [7]].
