(* C04 — the key of the persisted package cache (.bob-packages*.pickle) and of
   the query graph cache (.bob-tree.sqlite3):
     pym/bob/input.py  RecipeSet.generatePackages (4366-4375), YamlCache.close (4442-4447).
   Definitions only; the byte encoders are those of the Ids model. *)
From Coq Require Import List NArith Bool.
Require Import BobV.Ids.Model.
Import ListNotations.
Open Scope N_scope.

Record keyin := {
  ki_bobhash : bytes;                  (* BOB_INPUT_HASH *)
  ki_files : list (str * bytes);       (* every file read by the parser: name, SHA-1 of its content; sorted by name *)
  ki_rootenv : list (str * str);       (* root environment (defaults, config files, -D), sorted *)
  ki_sandbox : bool                    (* sandboxEnabled *)
}.

Definition enc_file (f : str * bytes) : bytes := le32 (slen (fst f)) ++ utf8 (fst f) ++ snd f.
Definition files_bytes (fs : list (str * bytes)) : bytes := flat_map enc_file fs.

Definition key_bytes (H : bytes -> bytes) (k : keyin) : bytes :=
  ki_bobhash k ++ H (files_bytes (ki_files k))
  ++ le32 (llen (ki_rootenv k)) ++ flat_map enc_envent (ki_rootenv k)
  ++ [if ki_sandbox k then 1 else 0].

Definition cache_key (H : bytes -> bytes) (k : keyin) : bytes := H (key_bytes H k).
