(* C04 — proofs about the tracked reader, the memoised package calculation
   and the YAML cache.  (The cache key encoding is in KeyProofs.v.) *)
From Coq Require Import List NArith Bool Lia PeanoNat.
Require Import BobV.Common.Cases BobV.C04.Model.
Import ListNotations.
Open Scope N_scope.

(* ------------------------------------------------------------------ equalities *)
Lemma eqb_str_spec (a b : str) : eqb_str a b = true <-> a = b.
Proof.
  unfold eqb_str. revert b. induction a as [|x a IH]; destruct b as [|y b]; cbn; split; intro Hx;
    try reflexivity; try discriminate.
  - apply andb_true_iff in Hx as [H1 H2]. apply N.eqb_eq in H1. apply IH in H2. now subst.
  - injection Hx as -> ->. apply andb_true_iff. split; [apply N.eqb_refl | now apply IH].
Qed.

Lemma eqb_str_refl a : eqb_str a a = true.
Proof. now apply eqb_str_spec. Qed.

Lemma keyb_spec (a b : key) : keyb a b = true <-> a = b.
Proof.
  destruct a as [t s], b as [t' s']. unfold keyb. cbn. rewrite andb_true_iff, N.eqb_eq, eqb_str_spec.
  split; [intros [-> ->]; reflexivity | intro Hx; injection Hx as -> ->; auto].
Qed.

Lemma keyb_refl a : keyb a a = true.
Proof. now apply keyb_spec. Qed.

Section IdtInd.
  Variable P : idt -> Prop.
  Hypothesis HL : forall s, P (L s).
  Hypothesis HN : forall l, Forall P l -> P (Nd l).
  Fixpoint idt_ind' (x : idt) : P x :=
    match x with
    | L s => HL s
    | Nd l => HN l ((fix go (l : list idt) : Forall P l :=
                       match l with
                       | [] => Forall_nil P
                       | y :: r => Forall_cons y (idt_ind' y) (go r)
                       end) l)
    end.
End IdtInd.

Lemma idt_eqb_spec : forall a b, idt_eqb a b = true <-> a = b.
Proof.
  induction a as [s|l IH] using idt_ind'; destruct b as [s'|l']; cbn; try (split; discriminate).
  - rewrite eqb_str_spec. split; [intros ->; reflexivity | intro Hx; now injection Hx].
  - revert l'. induction IH as [|x l Hx _ IHl]; destruct l' as [|y l']; try (split; [discriminate|intro Hy; discriminate]).
    + split; reflexivity.
    + rewrite andb_true_iff, Hx. specialize (IHl l'). rewrite IHl.
      split; [intros [-> Hy]; injection Hy as ->; reflexivity | intro Hy; injection Hy as -> ->; auto].
Qed.

Lemma idt_eqb_refl a : idt_eqb a a = true.
Proof. now apply idt_eqb_spec. Qed.

(* ------------------------------------------------------------------ list sets *)
Lemma kmem_In k t : kmem k t = true <-> In k t.
Proof.
  induction t as [|x r IH]; cbn; [split; [discriminate|tauto]|].
  rewrite orb_true_iff, IH, keyb_spec. split; intros [Hx|Hx]; auto.
Qed.

Lemma In_add k k' t : In k (add k' t) <-> k = k' \/ In k t.
Proof.
  unfold add. destruct (kmem k' t) eqn:E.
  - apply kmem_In in E. split; [auto | intros [->|Hx]; auto].
  - rewrite in_app_iff. cbn. split; [intros [Hx|[Hx|[]]]; auto | intros [Hx|Hx]; auto].
Qed.

Lemma In_union k t s : In k (union t s) <-> In k t \/ In k s.
Proof.
  unfold union. revert t. induction s as [|x s IH]; intro t; cbn; [tauto|].
  rewrite IH, In_add. split; [intros [[->|Hx]|Hx]; auto | intros [Hx|[->|Hx]]; auto].
Qed.

Lemma smem_In r l : smem r l = true <-> In r l.
Proof.
  induction l as [|x q IH]; cbn; [split; [discriminate|tauto]|].
  rewrite orb_true_iff, IH, eqb_str_spec. split; intros [Hx|Hx]; auto.
Qed.

Lemma smem_false r l : smem r l = false <-> ~ In r l.
Proof. rewrite <- smem_In. destruct (smem r l); split; congruence. Qed.

Lemma In_sadd r r' l : In r (sadd r' l) <-> r = r' \/ In r l.
Proof.
  unfold sadd. destruct (smem r' l) eqn:E.
  - apply smem_In in E. split; [auto | intros [->|Hx]; auto].
  - rewrite in_app_iff. cbn. split; [intros [Hx|[Hx|[]]]; auto | intros [Hx|Hx]; auto].
Qed.

Lemma In_sunion r a b : In r (sunion a b) <-> In r a \/ In r b.
Proof.
  unfold sunion. revert a. induction b as [|x b IH]; intro a; cbn; [tauto|].
  rewrite IH, In_sadd. split; [intros [[->|Hx]|Hx]; auto | intros [Hx|[->|Hx]]; auto].
Qed.

Lemma sintersects_true a b : sintersects a b = true <-> exists r, In r a /\ In r b.
Proof.
  unfold sintersects. rewrite existsb_exists. split; intros [r [H1 H2]]; exists r; split; auto; now apply smem_In.
Qed.

Lemma sintersects_false a b : sintersects a b = false <-> forall r, In r a -> ~ In r b.
Proof.
  split.
  - intros Hx r H1 H2. assert (sintersects a b = true) by (apply sintersects_true; eauto). congruence.
  - intro Hx. destruct (sintersects a b) eqn:E; [|reflexivity].
    apply sintersects_true in E as [r [H1 H2]]. exfalso. eapply Hx; eauto.
Qed.

(* ------------------------------------------------------------------ 1. tracked reader *)
Lemma run_mono {A} (c : comp A) e : forall t k, In k t -> In k (snd (run c e t)).
Proof.
  induction c as [a|k' f IH]; intros t k Hk; cbn; [exact Hk|].
  apply IH. apply In_add. auto.
Qed.

Lemma read_determinacy_proof {A} (c : comp A) (e e' : env) :
  forall t, agree_on (snd (run c e t)) e e' -> run c e' t = run c e t.
Proof.
  induction c as [a|k f IH]; intros t Hag; cbn in *; [reflexivity|].
  assert (Hk : e k = e' k).
  { apply Hag. apply run_mono. apply In_add. auto. }
  rewrite <- Hk. apply IH. exact Hag.
Qed.

(* every set of the stack receives exactly the keys the innermost one receives *)
Lemma touch_stack_is_union_proof {A} (c : comp A) e :
  forall ts, run_stack c e ts =
             (fst (run c e []), map (fun s => union s (snd (run c e []))) ts).
Proof.
  assert (G : forall t0 ts,
             run_stack c e (map (fun s => union s t0) ts) =
             (fst (run c e t0), map (fun s => union s (snd (run c e t0))) ts)).
  { induction c as [a|k f IH]; intros t0 ts; cbn; [reflexivity|].
    rewrite map_map.
    assert (Hm : map (fun s => add k (union s t0)) ts = map (fun s => union s (add k t0)) ts).
    { apply map_ext. intro s. unfold add at 2. destruct (kmem k t0) eqn:E.
      - unfold add. assert (kmem k (union s t0) = true) as ->; [|reflexivity].
        apply kmem_In, In_union. right. now apply kmem_In.
      - unfold union. rewrite fold_left_app. reflexivity. }
    rewrite Hm. apply IH. }
  intro ts. specialize (G [] ts).
  assert (Hid : map (fun s : list key => union s []) ts = ts).
  { rewrite <- (map_id ts) at 2. apply map_ext. reflexivity. }
  rewrite Hid in G. exact G.
Qed.

(* ------------------------------------------------------------------ 2. package calculations *)
Section SemProofs.
  Variable R : Type.
  Variable rid : R -> idt.
  Variable fp : key -> idt -> idt.
  Variable genv : env.
  Variable body : str -> prog R.

  Notation res := (res R).
  Notation runp := (runp R genv).
  Notation call := (call R genv body).

  Lemma runp_mono cf p e : forall t sub a t' sub',
    runp cf p e t sub = Ok (a, t', sub') -> incl t t' /\ incl sub sub'.
  Proof.
    induction p as [a0| |k f IH|r inh ov f IH]; intros t sub a t' sub' Hr; cbn [Model.runp] in Hr.
    - injection Hr as -> -> ->. split; apply incl_refl.
    - discriminate.
    - apply IH in Hr as [H1 H2]. split; [|exact H2]. intros x Hx. apply H1, In_add. auto.
    - destruct (cf r (callee_env genv inh ov e)) as [[[a1 tc] subc]| |] eqn:E; try discriminate.
      apply IH in Hr as [H1 H2]. split.
      + intros x Hx. apply H1. destruct inh; [apply In_union; auto | exact Hx].
      + intros x Hx. apply H2, In_sunion. auto.
  Qed.

  (* touched set of an inheriting dependency lands in the own set *)
  Lemma runp_callee_touch cf p e : forall t sub a t' sub',
    runp cf p e t sub = Ok (a, t', sub') -> True.
  Proof. trivial. Qed.

  (* more fuel does not change a finished calculation *)
  Lemma runp_cf_mono (cf cf' : str -> env -> res) :
    (forall r e o, cf r e = o -> o <> OutOfFuel -> cf' r e = o) ->
    forall p e t sub o, runp cf p e t sub = o -> o <> OutOfFuel -> runp cf' p e t sub = o.
  Proof.
    intros Hcf. induction p as [a0| |k f IH|r inh ov f IH]; intros e t sub o Hr Hne; cbn [Model.runp] in *; auto.
    destruct (cf r (callee_env genv inh ov e)) as [[[a1 tc] subc]| |] eqn:E.
    - rewrite (Hcf _ _ _ E) by discriminate. now apply IH.
    - rewrite (Hcf _ _ _ E) by discriminate. exact Hr.
    - congruence.
  Qed.

  Lemma call_mono_S : forall m st r e o, call m st r e = o -> o <> OutOfFuel -> call (S m) st r e = o.
  Proof.
    induction m as [|m IH]; intros st r e o Hc Hne; [cbn in Hc; congruence|].
    cbn [Model.call] in Hc |- *. destruct (smem r st); [exact Hc|].
    eapply runp_cf_mono; [|exact Hc|exact Hne]. intros r' e' o' H1 H2. now apply IH.
  Qed.

  Lemma call_mono : forall m m' st r e o, (m <= m')%nat -> call m st r e = o -> o <> OutOfFuel -> call m' st r e = o.
  Proof.
    intros m m' st r e o Hle. induction Hle as [|m' Hle IH]; intros Hc Hne; [exact Hc|].
    apply call_mono_S; auto.
  Qed.

  Lemma call_det m m' st r e o o' :
    call m st r e = o -> call m' st r e = o' -> o <> OutOfFuel -> o' <> OutOfFuel -> o = o'.
  Proof.
    intros H1 H2 N1 N2.
    pose proof (call_mono m (Nat.max m m') st r e o (Nat.le_max_l _ _) H1 N1) as A.
    pose proof (call_mono m' (Nat.max m m') st r e o' (Nat.le_max_r _ _) H2 N2) as B.
    congruence.
  Qed.

  Lemma runp_fuel_mono m m' S p e t sub o :
    (m <= m')%nat -> runp (call m S) p e t sub = o -> o <> OutOfFuel -> runp (call m' S) p e t sub = o.
  Proof.
    intros Hle. apply runp_cf_mono. intros r' e' o' H1 H2. eapply call_mono; eauto.
  Qed.

  (* a finished calculation never met its own stack *)
  Lemma call_ok_disjoint : forall m st r e a t sub,
    call m st r e = Ok (a, t, sub) -> smem r st = false /\ sintersects (r :: st) sub = false.
  Proof.
    induction m as [|m IH]; intros st r e a t sub Hc; [discriminate|].
    cbn [Model.call] in Hc. destruct (smem r st) eqn:Er; [discriminate|]. split; [reflexivity|].
    set (S0 := r :: st) in *.
    assert (G : forall p t0 sub0, runp (call m S0) p e t0 sub0 = Ok (a, t, sub) ->
                                  sintersects S0 sub0 = false -> sintersects S0 sub = false).
    { induction p as [a0| |k f IHp|r' inh ov f IHp]; intros t0 sub0 Hr Hd; cbn [Model.runp] in Hr.
      - injection Hr as -> -> ->. exact Hd.
      - discriminate.
      - eapply IHp; eauto.
      - destruct (call m S0 r' (callee_env genv inh ov e)) as [[[a1 tc] subc]| |] eqn:E; try discriminate.
        apply IH in E as [E1 E2]. eapply IHp; [exact Hr|].
        apply sintersects_false. intros x Hx Hin. apply In_sunion in Hin as [Hin|[<-|Hin]].
        + eapply sintersects_false in Hd; eauto.
        + apply smem_false in E1. contradiction.
        + eapply sintersects_false in E2; [apply E2; exact Hin|]. right. exact Hx. }
    eapply G; [exact Hc|]. apply sintersects_false. intros x _ [].
  Qed.

  Lemma callee_env_agree inh ov e e' tc :
    (inh = true -> agree_on tc e e') ->
    agree_on tc (callee_env genv inh ov e) (callee_env genv inh ov e').
  Proof.
    intros Hag k Hk. unfold callee_env. destruct (ov_lookup k ov); [reflexivity|].
    destruct inh; [apply Hag; auto | reflexivity].
  Qed.

  (* Determinacy: the result depends on the environment only through the
     touched keys, and on the stack only through the cycle check. *)
  Lemma call_stack_env : forall m st r e a t sub,
    call m st r e = Ok (a, t, sub) ->
    forall st' e', agree_on t e e' -> smem r st' = false ->
      call m st' r e' = if sintersects (r :: st') sub then Err else Ok (a, t, sub).
  Proof.
    induction m as [|m IH]; intros st r e a t sub Hc st' e' Hag Hr'; [discriminate|].
    cbn [Model.call] in Hc |- *. destruct (smem r st) eqn:Er; [discriminate|]. rewrite Hr'.
    set (S0 := r :: st) in *. set (S1 := r :: st').
    assert (G : forall p t0 sub0, runp (call m S0) p e t0 sub0 = Ok (a, t, sub) ->
                sintersects S1 sub0 = false ->
                runp (call m S1) p e' t0 sub0 = if sintersects S1 sub then Err else Ok (a, t, sub)).
    { induction p as [a0| |k f IHp|r' inh ov f IHp]; intros t0 sub0 Hr Hd; cbn [Model.runp] in Hr |- *.
      - injection Hr as -> -> ->. rewrite Hd. reflexivity.
      - discriminate.
      - assert (Hk : e k = e' k).
        { apply Hag. apply runp_mono in Hr as [H1 _]. apply H1, In_add. auto. }
        rewrite <- Hk. now apply IHp.
      - destruct (call m S0 r' (callee_env genv inh ov e)) as [[[a1 tc] subc]| |] eqn:E; try discriminate.
        pose proof (runp_mono _ _ _ _ _ _ _ _ Hr) as [Ht Hs].
        pose proof (call_ok_disjoint _ _ _ _ _ _ _ E) as [D1 D2].
        destruct (smem r' S1) eqn:Em.
        + (* the dependency is on the new stack: cyclic *)
          assert (call m S1 r' (callee_env genv inh ov e') = Err) as ->.
          { destruct m; [discriminate|]. cbn [Model.call]. now rewrite Em. }
          assert (sintersects S1 sub = true) as ->; [|reflexivity].
          apply sintersects_true. exists r'. split; [now apply smem_In|].
          apply Hs, In_sunion. right. left. reflexivity.
        + assert (Hag' : agree_on tc (callee_env genv inh ov e) (callee_env genv inh ov e')).
          { apply callee_env_agree. intros -> k Hk. apply Hag, Ht, In_union. auto. }
          rewrite (IH _ _ _ _ _ _ E S1 _ Hag' Em).
          destruct (sintersects (r' :: S1) subc) eqn:Ei.
          * assert (sintersects S1 sub = true) as ->; [|reflexivity].
            apply sintersects_true in Ei as [x [[<-|Hx] Hin]].
            -- exfalso. eapply sintersects_false in D2; [apply D2; exact Hin|]. left. reflexivity.
            -- apply sintersects_true. exists x. split; [exact Hx|].
               apply Hs, In_sunion. right. right. exact Hin.
          * apply IHp; [exact Hr|].
            apply sintersects_false. intros x Hx Hin. apply In_sunion in Hin as [Hin|[<-|Hin]].
            -- eapply sintersects_false in Hd; eauto.
            -- apply smem_false in Em. contradiction.
            -- eapply sintersects_false in Ei; [apply Ei; exact Hin|]. right. exact Hx. }
    apply G; [exact Hc|]. apply sintersects_false. intros x _ [].
  Qed.

  (* P1: agreeing on the touched keys gives the same result and the same touches *)
  Lemma prepare_determinacy_proof m st r e e' a t sub :
    call m st r e = Ok (a, t, sub) -> agree_on t e e' -> call m st r e' = Ok (a, t, sub).
  Proof.
    intros Hc Hag. pose proof (call_ok_disjoint _ _ _ _ _ _ _ Hc) as [D1 D2].
    rewrite (call_stack_env _ _ _ _ _ _ _ Hc st e' Hag D1), D2. reflexivity.
  Qed.
End SemProofs.

(* ------------------------------------------------------------------ 3. memoisation *)
Section MemoProofs.
  Variable R : Type.
  Variable rid : R -> idt.
  Variable fp : key -> idt -> idt.
  Variable genv : env.
  Variable body : str -> prog R.
  Variable merge : bool.

  Notation res := (res R).
  Notation runp := (runp R genv).
  Notation call := (call R genv body).
  Notation runm := (runm R genv).
  Notation callm := (callm R rid fp genv body true merge).
  Notation mstate := (mstate R).
  Notation entry := (entry R).

  (* what the matcher stores determines the value (tools: result id -> tool) *)
  Definition fp_determines : Prop := forall k a b, fp k a = fp k b -> a = b.

  (* the result id determines the calculated package (among the packages of one recipe) *)
  Definition rid_determines_subtree : Prop :=
    forall r m st e a t s m' st' e' a' t' s',
      call m st r e = Ok (a, t, s) -> call m' st' r e' = Ok (a', t', s') -> rid a = rid a' -> a = a'.

  Hypothesis Hfp : fp_determines.
  Hypothesis Hrid : merge = true -> rid_determines_subtree.

  Lemma find_match_spec r e l x :
    find_match R fp r e l = Some x -> In x l /\ en_recipe x = r /\ snap_matches fp (en_snap x) e = true.
  Proof.
    induction l as [|y q IH]; cbn; [discriminate|].
    destruct (eqb_str (en_recipe y) r && snap_matches fp (en_snap y) e) eqn:E.
    - intro Hx. injection Hx as <-. apply andb_true_iff in E as [E1 E2]. apply eqb_str_spec in E1. auto.
    - intro Hx. apply IH in Hx as [H1 H2]. auto.
  Qed.

  Lemma find_byid_spec r i l a :
    find_byid R rid r i l = Some a -> In (r, a) l /\ rid a = i.
  Proof.
    induction l as [|[r' a'] q IH]; cbn; [discriminate|].
    destruct (eqb_str r' r && idt_eqb (rid a') i) eqn:E.
    - intro Hx. injection Hx as <-. apply andb_true_iff in E as [E1 E2].
      apply eqb_str_spec in E1. apply idt_eqb_spec in E2. subst. auto.
    - intro Hx. apply IH in Hx as [H1 H2]. auto.
  Qed.

  Lemma mksnap_keys t e : map fst (mksnap fp t e) = t.
  Proof. unfold mksnap. rewrite map_map. cbn. apply map_id. Qed.

  Lemma snap_matches_agree t e0 e : snap_matches fp (mksnap fp t e0) e = true -> agree_on t e0 e.
  Proof.
    unfold snap_matches, mksnap. rewrite forallb_forall. intros Hx k Hk.
    specialize (Hx (k, option_map (fp k) (e0 k))). cbn in Hx.
    assert (Hin : In (k, option_map (fp k) (e0 k)) (map (fun k0 => (k0, option_map (fp k0) (e0 k0))) t)).
    { apply in_map_iff. exists k. auto. }
    apply Hx in Hin. destruct (e0 k) as [a|], (e k) as [b|]; cbn in Hin; try discriminate; [|reflexivity].
    apply idt_eqb_spec in Hin. f_equal. exact (Hfp k a b Hin).
  Qed.

  Definition entry_ok (x : entry) : Prop :=
    exists m st e, call m st (en_recipe x) e = Ok (en_res x, map fst (en_snap x), en_sub x)
                   /\ en_snap x = mksnap fp (map fst (en_snap x)) e.
  Definition byid_ok (ra : str * R) : Prop :=
    exists m st e t s, call m st (fst ra) e = Ok (snd ra, t, s).
  Definition inv (M : mstate) : Prop := Forall entry_ok (ms_match M) /\ Forall byid_ok (ms_byid M).

  Lemma inv_empty : inv mempty.
  Proof. split; constructor. Qed.

  (* a memo hit answers what the plain calculation answers *)
  Lemma hit_sound x r e st :
    entry_ok x -> en_recipe x = r -> snap_matches fp (en_snap x) e = true -> smem r st = false ->
    exists m, call m st r e =
              if sintersects (r :: st) (en_sub x) then Err else Ok (en_res x, map fst (en_snap x), en_sub x).
  Proof.
    intros (m & st0 & e0 & Hc & Hs) <- Hm Hst. exists m.
    eapply call_stack_env; [exact Hc| |exact Hst].
    apply snap_matches_agree. rewrite <- Hs. exact Hm.
  Qed.

  Definition spec (n : nat) (st : list str) (M : mstate) (r : str) (e : env) : Prop :=
    forall o M', callm n st M r e = (o, M') ->
      inv M' /\ (o <> OutOfFuel -> exists m, call m st r e = o) /\ (call n st r e <> OutOfFuel -> o <> OutOfFuel).

  Lemma runm_spec n S0 e :
    (forall M r' e', inv M -> spec n S0 M r' e') ->
    forall p t sub M o M', inv M ->
      runm (fun M0 => callm n S0 M0) p e t sub M = (o, M') ->
      inv M' /\ (o <> OutOfFuel -> exists m, runp (call m S0) p e t sub = o)
             /\ (runp (call n S0) p e t sub <> OutOfFuel -> o <> OutOfFuel).
  Proof.
    intros Hcf. induction p as [a0| |k f IHp|r' inh ov f IHp]; intros t sub M o M' HM Hr; cbn [Model.runm] in Hr.
    - injection Hr as <- <-. split; [exact HM|]. split; [intros _; exists O; reflexivity|discriminate].
    - injection Hr as <- <-. split; [exact HM|]. split; [intros _; exists O; reflexivity|discriminate].
    - cbn [Model.runp]. eapply IHp; eauto.
    - destruct (callm n S0 M r' (callee_env genv inh ov e)) as [oc M1] eqn:Ec.
      destruct (Hcf M r' _ HM _ _ Ec) as (I1 & C1 & C2).
      destruct oc as [[[a1 tc] subc]| |].
      + destruct (IHp a1 _ _ _ _ _ I1 Hr) as (I2 & P1 & P2). split; [exact I2|]. split.
        * intro Hne. destruct (C1 ltac:(discriminate)) as [m1 Hm1]. destruct (P1 Hne) as [m2 Hm2].
          exists (Nat.max m1 m2). cbn [Model.runp].
          rewrite (call_mono R genv body m1 (Nat.max m1 m2) _ _ _ _ (Nat.le_max_l _ _) Hm1) by discriminate.
          eapply runp_fuel_mono; [apply Nat.le_max_r|exact Hm2|exact Hne].
        * cbn [Model.runp]. intro Hn.
          destruct (call n S0 r' (callee_env genv inh ov e)) as [[[a2 tc2] subc2]| |] eqn:En; try congruence.
          -- destruct (C1 ltac:(discriminate)) as [m1 Hm1].
             assert (Heq : Ok (a2, tc2, subc2) = Ok (a1, tc, subc)).
             { eapply call_det; [exact En|exact Hm1| |]; discriminate. }
             injection Heq as -> -> ->. apply P2. exact Hn.
          -- destruct (C1 ltac:(discriminate)) as [m1 Hm1].
             assert (Heq : @Err (R * list key * list str) = Ok (a1, tc, subc)).
             { eapply call_det; [exact En|exact Hm1| |]; discriminate. }
             discriminate.
      + injection Hr as <- <-. split; [exact I1|]. split; [|discriminate].
        intros _. destruct (C1 ltac:(discriminate)) as [m1 Hm1]. exists m1. cbn [Model.runp]. now rewrite Hm1.
      + injection Hr as <- <-. split; [exact I1|]. split; [congruence|].
        cbn [Model.runp]. intro Hn.
        destruct (call n S0 r' (callee_env genv inh ov e)) eqn:En; try congruence; exfalso; apply C2; congruence.
  Qed.

  Lemma callm_spec : forall n st M r e, inv M -> spec n st M r e.
  Proof.
    induction n as [|n IH]; intros st M r e HM o M' Hc.
    - cbn in Hc. injection Hc as <- <-. split; [exact HM|]. split; [intro Hn; congruence | cbn; congruence].
    - cbn [Model.callm] in Hc. cbn [Model.call]. destruct (smem r st) eqn:Er.
      { injection Hc as <- <-. split; [exact HM|]. split; [|discriminate].
        intros _. exists 1%nat. cbn. now rewrite Er. }
      destruct (find_match R fp r e (ms_match M)) as [x|] eqn:Ef.
      + (* hit *)
        apply find_match_spec in Ef as (Hin & Hrx & Hmx).
        assert (Hx : entry_ok x). { destruct HM as [HM _]. rewrite Forall_forall in HM. auto. }
        destruct (hit_sound x r e st Hx Hrx Hmx Er) as [m Hm].
        destruct (sintersects (r :: st) (en_sub x)); injection Hc as <- <-;
          (split; [exact HM|]); (split; [intros _; exists m; exact Hm|discriminate]).
      + (* miss: calculate, merge by result id, remember *)
        destruct (runm (fun M0 => callm n (r :: st) M0) (body r) e [] [] M) as [o1 M1] eqn:Erm.
        destruct (runm_spec n (r :: st) e (fun M0 r' e' H0 => IH (r :: st) M0 r' e' H0) _ _ _ _ _ _ HM Erm)
          as (I1 & P1 & P2).
        destruct o1 as [[[a t] sub]| |].
        * destruct (P1 ltac:(discriminate)) as [m Hm].
          assert (Hplain : call (S m) st r e = Ok (a, t, sub)).
          { cbn [Model.call]. now rewrite Er. }
          set (old := if merge then find_byid R rid r (rid a) (ms_byid M1) else None) in Hc.
          assert (Hold : forall a0, old = Some a0 -> a0 = a).
          { intros a0 Ho. unfold old in Ho. destruct merge eqn:Emg; [|discriminate].
            apply find_byid_spec in Ho as [Hin Hid].
            destruct I1 as [_ I1]. rewrite Forall_forall in I1. destruct (I1 _ Hin) as (m0 & st0 & e0 & t0 & s0 & H0).
            cbn in H0. symmetry. eapply (Hrid eq_refl); [exact Hplain|exact H0|]. now symmetry. }
          assert (Ha' : match old with Some a0 => a0 | None => a end = a).
          { destruct old as [a0|]; [now apply Hold|reflexivity]. }
          injection Hc as <- <-. rewrite Ha'. split; [|split].
          -- destruct I1 as [I1a I1b]. split; cbn.
             ++ constructor; [|exact I1a]. exists (S m), st, e. cbn. rewrite mksnap_keys. split; [exact Hplain|reflexivity].
             ++ destruct old; [exact I1b|]. constructor; [|exact I1b]. exists (S m), st, e, t, sub. exact Hplain.
          -- intros _. exists (S m). exact Hplain.
          -- discriminate.
        * injection Hc as <- <-. split; [exact I1|]. split; [|discriminate].
          intros _. destruct (P1 ltac:(discriminate)) as [m Hm]. exists (S m). cbn [Model.call]. now rewrite Er.
        * injection Hc as <- <-. split; [exact I1|]. split; [congruence|]. exact P2.
  Qed.

  (* P1: for every history of calculations the memoised one answers what the
     plain one answers: results, touched sets and sub-tree sets *)
  Lemma memo_transparent_proof n : forall cs M,
    inv M ->
    (forall o, In o (history_plain R genv body n cs) -> o <> OutOfFuel) ->
    history_memo R rid fp genv body true merge n M cs = history_plain R genv body n cs.
  Proof.
    induction cs as [|[r e] q IH]; intros M HM Hne; [reflexivity|].
    cbn [Model.history_memo history_plain map fst snd] in *.
    destruct (callm n [] M r e) as [o M'] eqn:Ec.
    destruct (callm_spec n [] M r e HM _ _ Ec) as (I1 & C1 & C2).
    assert (Hp : call n [] r e <> OutOfFuel) by (apply Hne; left; reflexivity).
    specialize (C2 Hp). destruct (C1 C2) as [m Hm].
    f_equal.
    - eapply call_det; [exact Hm|reflexivity|exact C2|exact Hp].
    - apply IH; [exact I1|]. intros o' Ho'. apply Hne. right. exact Ho'.
  Qed.
End MemoProofs.

(* ------------------------------------------------------------------ 4. YAML cache *)
Section YamlProofs.
  Variable data : Type.
  Variable parse : list N -> list N -> data.
  Variable H : list N -> list N.

  (* the stat assumption: within the history, a file name with an unchanged
     stat record (ctime, mtime, dev, inode, mode, size, schema tag) has unchanged content *)
  Definition stat_faithful (l : list (str * list N * list N)) : Prop :=
    forall n s c c', In (n, s, c) l -> In (n, s, c') l -> c = c'.

  Definition yinv (cur : list N) (c : ycache data) (past : list (str * list N * list N)) : Prop :=
    (yc_vsn data c = Some cur \/ yc_vsn data c = None) /\
    forall x, In x (yc_tab data c) ->
      exists content, In (y_name data x, y_stat data x, content) past
                      /\ y_digest data x = H content /\ y_data data x = parse cur content.

  Lemma y_find_spec name stat l x :
    y_find data name stat l = Some x -> In x l /\ y_name data x = name /\ y_stat data x = stat.
  Proof.
    induction l as [|y q IH]; cbn; [discriminate|].
    destruct (eqb_str (y_name data y) name && eqb_str (y_stat data y) stat) eqn:E.
    - intro Hx. injection Hx as <-. apply andb_true_iff in E as [E1 E2].
      apply eqb_str_spec in E1. apply eqb_str_spec in E2. auto.
    - intro Hx. apply IH in Hx as (H1 & H2 & H3). auto.
  Qed.

  Lemma yaml_cache_transparent_gen : forall evs cur c past,
    yinv cur c past -> stat_faithful (past ++ y_loads evs) ->
    y_run data parse H cur c evs = y_plain data parse H cur evs.
  Proof.
    induction evs as [|ev q IH]; intros cur c past Hinv Hsf; [reflexivity|].
    destruct ev as [vsn|name stat content]; cbn [y_run y_step y_plain y_loads] in *.
    - f_equal. apply IH with (past := past); [|exact Hsf].
      destruct Hinv as [Hv Ht]. destruct (yc_vsn data c) as [v|] eqn:Ev.
      + destruct (eqb_str v vsn) eqn:E.
        * apply eqb_str_spec in E. subst v. destruct Hv as [Hv|Hv]; [|discriminate].
          injection Hv as <-. split; [left; exact Ev|exact Ht].
        * split; [left; reflexivity|intros x []].
      + split; [left; reflexivity|intros x []].
    - destruct (y_find data name stat (yc_tab data c)) as [x|] eqn:Ef.
      + apply y_find_spec in Ef as (Hin & Hn & Hs). destruct Hinv as [Hv Ht].
        destruct (Ht _ Hin) as (c0 & Hp & Hd & Hdat). rewrite Hn, Hs in Hp.
        assert (c0 = content).
        { eapply Hsf; [apply in_app_iff; left; exact Hp|apply in_app_iff; right; left; reflexivity]. }
        subst c0. rewrite Hd, Hdat. f_equal.
        apply IH with (past := past ++ [(name, stat, content)]).
        * split; [exact Hv|]. intros y Hy. destruct (Ht _ Hy) as (cy & H1 & H2 & H3).
          exists cy. split; [apply in_app_iff; auto|auto].
        * rewrite <- app_assoc. exact Hsf.
      + f_equal. apply IH with (past := past ++ [(name, stat, content)]).
        * destruct Hinv as [Hv Ht]. split; [exact Hv|]. cbn. intros y [<-|Hy].
          -- cbn. exists content. split; [apply in_app_iff; right; left; reflexivity|auto].
          -- apply filter_In in Hy as [Hy _]. destruct (Ht _ Hy) as (cy & H1 & H2 & H3).
             exists cy. split; [apply in_app_iff; auto|auto].
        * rewrite <- app_assoc. exact Hsf.
  Qed.

  Lemma yaml_cache_transparent_proof evs cur :
    stat_faithful (y_loads evs) ->
    y_run data parse H cur (yempty data) evs = y_plain data parse H cur evs.
  Proof.
    intro Hsf. apply yaml_cache_transparent_gen with (past := []); [|exact Hsf].
    split; [right; reflexivity|intros x []].
  Qed.
  (* the file list that enters the cache key covers ALL files loaded in the
     session with the digests of their current contents, hot hits included *)
  Lemma y_files_plain : forall evs cur acc,
    y_files data evs (y_plain data parse H cur evs) acc = y_session H evs acc.
  Proof.
    induction evs as [|ev q IH]; intros cur acc; [reflexivity|].
    destruct ev as [vsn|name stat content]; cbn [y_plain y_files y_session]; apply IH.
  Qed.

  Lemma files_cover_all_loads_proof evs cur :
    stat_faithful (y_loads evs) ->
    y_files data evs (y_run data parse H cur (yempty data) evs) [] = y_session H evs [].
  Proof.
    intro Hsf. rewrite (yaml_cache_transparent_proof evs cur Hsf). apply y_files_plain.
  Qed.
End YamlProofs.
