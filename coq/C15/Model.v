(* C15 — shared package store (pym/bob/share.py: LocalShare, OpenLocked,
   sameWorkspace/checkUnused; builder._useSharedPackage/_installSharedPackage
   link handling) as a labelled transition system.  Definitions only.

   A state is a small file-system model of the store (visible package
   directories, repo.json ON DISK, the workspace symlinks of the projects), a
   logical clock for mtimes and any number of processes.  Every process runs a
   list of operations (install / use / gc / unlink) and is at a control point
   [pcT]; one [step] performs the next externally visible action of the real
   code (an open, a flock, a json.dump, a rename, ...) together with the pure
   computation that follows it.  Python's buffered writes are explicit: after
   seek(0)/truncate() the file on disk is EMPTY ([st_rtrunc]/[d_trunc]; readers
   see [disk_repo]/[disk_meta]) and the text of the following json.dump sits in
   the buffer of the writer ([p_meta]/[p_pmeta] with [p_dirty]; the hidden
   content field of a truncated file already shows it); OpenLocked.__exit__
   flushes the buffer of the process to the file, then unlocks.

   The advisory locks are a function of the control points ([repo_mode],
   [pkg_lock]): a process holds a lock exactly while it is inside the
   corresponding `with OpenLocked(...)` block.  Lock acquisition steps are
   blocking: [step] returns [None] while the lock table forbids them. *)
From Coq Require Import List NArith Bool Arith Permutation Sorted.
Import ListNotations.
Open Scope N_scope.

(* ------------------------------------------------------------------ assoc lists (Python dicts keep insertion order) *)
Fixpoint lookup {A} (k : N) (l : list (N * A)) : option A :=
  match l with
  | [] => None
  | (k', v) :: r => if k =? k' then Some v else lookup k r
  end.

Fixpoint remove_key {A} (k : N) (l : list (N * A)) : list (N * A) :=
  match l with
  | [] => []
  | (k', v) :: r => if k =? k' then remove_key k r else (k', v) :: remove_key k r
  end.

(* d[k] = v : in place when present, appended otherwise *)
Fixpoint set_key {A} (k : N) (v : A) (l : list (N * A)) : list (N * A) :=
  match l with
  | [] => [(k, v)]
  | (k', v') :: r => if k =? k' then (k, v) :: r else (k', v') :: set_key k v r
  end.

Definition has_key {A} (k : N) (l : list (N * A)) : bool :=
  match lookup k l with Some _ => true | None => false end.

Definition memN (k : N) (l : list N) : bool := existsb (N.eqb k) l.

Definition sum_sizes (l : list (N * N)) : N := fold_right (fun e a => snd e + a) 0 l.

(* ------------------------------------------------------------------ files *)
Record pmeta := { m_hash : N; m_size : N; m_users : list N }.          (* pkg.json *)

(* a package directory: audit.json.gz, workspace/ (its content hash), pkg.json
   on disk ([None]: not written yet, or truncated with the new text buffered) *)
Record pdir := { d_audit : bool; d_tree : option N; d_meta : option pmeta; d_trunc : bool; d_mtime : N }.

Definition set_dmeta (d : pdir) (m : option pmeta) (trunc : bool) (t : N) : pdir :=
  {| d_audit := d_audit d; d_tree := d_tree d; d_meta := m; d_trunc := trunc; d_mtime := t |}.

(* what open(pkg.json).read() returns *)
Definition disk_meta (d : pdir) : option pmeta := if d_trunc d then None else d_meta d.

(* ------------------------------------------------------------------ programs *)
Inductive okind := KInstall | KUse | KGc | KUnlink.

Record op := {
  o_kind : okind;
  o_pkg : N;          (* build-id *)
  o_ws : N;           (* workspace of the project *)
  o_tree : N;         (* install: hash of the tree as it arrives at the destination *)
  o_size : N;         (* install: its size *)
  o_expect : N;       (* install: sharedHash argument (BobState result hash) *)
  o_link : bool;      (* install: builder uses shared packages (symlinks the workspace afterwards) *)
  o_used : bool;      (* gc: pruneUsed   (bob clean --shared --used) *)
  o_unused : bool;    (* gc: pruneUnused (--all-unused) *)
  o_dry : bool        (* gc: dryRun *)
}.

Definition dummy_op : op :=
  {| o_kind := KUnlink; o_pkg := 0; o_ws := 0; o_tree := 0; o_size := 0; o_expect := 0; o_link := false;
     o_used := false; o_unused := false; o_dry := false |}.

Inductive failure :=
| FHash       (* BuildError "shared package hash changed at destination" *)
| FType       (* TypeError: repoSize <= None *)
| FNoEnt      (* a file that must exist is missing (unreachable, see no_spurious_failure) *)
| FCorrupt.   (* pkg.json of a visible package unreadable (unreachable) *)

Inductive result :=
| RInstall (installed : bool)
| RUse (found : bool)
| RGc (size : option N) (removed : list N)
| RUnlink
| RFail (f : failure).

Inductive pcT :=
| PDone
| IStart | ICopy | IMeta | IRename | IOpenRepo | ICreateRepo | ILockRepo | IWrite | IUnlock | IClose | IFinish
| UOpenRepo | ULockRepo | UOpenPkg | ULockPkg | UWrite | UUnlockPkg | UClosePkg | UUnlockRepo | UUnlink | ULink | UUnshare
| GStart | GLock | GScan | GScanLock | GScanUnlock | GMove | GUnlock | GClose | GClean
| XUnlink.

(* candidate tuple of gc: (pkgUnused, pkgTime, size, pkg) *)
Record cand := { c_unused : bool; c_mtime : N; c_size : N; c_id : N }.

Record proc := {
  p_quota : option N;            (* share.quota of this project's configuration *)
  p_auto : bool;                 (* share.autoClean *)
  p_ops : list op;               (* head = operation in progress *)
  p_pc : pcT;
  p_res : list result;           (* results of completed operations, newest first *)
  p_tmp : option pdir;           (* <tmpDir>/pkg of install *)
  p_attic : list N;              (* packages moved to the attic of gc *)
  p_meta : list (N * N);         (* repoMeta["pkgs"] in memory *)
  p_dirty : bool;                (* a json.dump is buffered, the file on disk is truncated *)
  p_size : N;                    (* repoSize *)
  p_inst : bool;                 (* install: wasInstalled *)
  p_pmeta : pmeta;               (* use: pkg.json in memory *)
  p_todo : list (N * N);         (* gc: packages still to scan *)
  p_cands : list cand;           (* gc: candidates *)
  p_queue : list cand;           (* gc: sorted(candidates) not yet visited *)
  p_done : list cand;            (* gc: candidates collected so far (progress callback) *)
  p_scan : N                     (* gc: package whose pkg.json is open *)
}.

Definition cur (pr : proc) : op := hd dummy_op (p_ops pr).

Definition start_pc (ops : list op) : pcT :=
  match ops with
  | [] => PDone
  | o :: _ => match o_kind o with KInstall => IStart | KUse => UOpenRepo | KGc => GStart | KUnlink => XUnlink end
  end.

Definition no_meta : pmeta := {| m_hash := 0; m_size := 0; m_users := [] |}.

Definition mk_proc (quota : option N) (auto : bool) (ops : list op) : proc :=
  {| p_quota := quota; p_auto := auto; p_ops := ops; p_pc := start_pc ops; p_res := [];
     p_tmp := None; p_attic := []; p_meta := []; p_dirty := false; p_size := 0; p_inst := false;
     p_pmeta := no_meta; p_todo := []; p_cands := []; p_queue := []; p_done := []; p_scan := 0 |}.

(* --- field updates *)
Definition set_pc (pr : proc) (pc : pcT) : proc :=
  {| p_quota := p_quota pr; p_auto := p_auto pr; p_ops := p_ops pr; p_pc := pc; p_res := p_res pr;
     p_tmp := p_tmp pr; p_attic := p_attic pr; p_meta := p_meta pr; p_dirty := p_dirty pr; p_size := p_size pr;
     p_inst := p_inst pr; p_pmeta := p_pmeta pr; p_todo := p_todo pr; p_cands := p_cands pr;
     p_queue := p_queue pr; p_done := p_done pr; p_scan := p_scan pr |}.

Definition set_tmp (pr : proc) (t : option pdir) : proc :=
  {| p_quota := p_quota pr; p_auto := p_auto pr; p_ops := p_ops pr; p_pc := p_pc pr; p_res := p_res pr;
     p_tmp := t; p_attic := p_attic pr; p_meta := p_meta pr; p_dirty := p_dirty pr; p_size := p_size pr;
     p_inst := p_inst pr; p_pmeta := p_pmeta pr; p_todo := p_todo pr; p_cands := p_cands pr;
     p_queue := p_queue pr; p_done := p_done pr; p_scan := p_scan pr |}.

Definition set_attic (pr : proc) (a : list N) : proc :=
  {| p_quota := p_quota pr; p_auto := p_auto pr; p_ops := p_ops pr; p_pc := p_pc pr; p_res := p_res pr;
     p_tmp := p_tmp pr; p_attic := a; p_meta := p_meta pr; p_dirty := p_dirty pr; p_size := p_size pr;
     p_inst := p_inst pr; p_pmeta := p_pmeta pr; p_todo := p_todo pr; p_cands := p_cands pr;
     p_queue := p_queue pr; p_done := p_done pr; p_scan := p_scan pr |}.

(* in-memory repoMeta, dirty flag and repoSize *)
Definition set_repo_mem (pr : proc) (l : list (N * N)) (dirty : bool) (sz : N) : proc :=
  {| p_quota := p_quota pr; p_auto := p_auto pr; p_ops := p_ops pr; p_pc := p_pc pr; p_res := p_res pr;
     p_tmp := p_tmp pr; p_attic := p_attic pr; p_meta := l; p_dirty := dirty; p_size := sz;
     p_inst := p_inst pr; p_pmeta := p_pmeta pr; p_todo := p_todo pr; p_cands := p_cands pr;
     p_queue := p_queue pr; p_done := p_done pr; p_scan := p_scan pr |}.

Definition set_inst (pr : proc) (b : bool) : proc :=
  {| p_quota := p_quota pr; p_auto := p_auto pr; p_ops := p_ops pr; p_pc := p_pc pr; p_res := p_res pr;
     p_tmp := p_tmp pr; p_attic := p_attic pr; p_meta := p_meta pr; p_dirty := p_dirty pr; p_size := p_size pr;
     p_inst := b; p_pmeta := p_pmeta pr; p_todo := p_todo pr; p_cands := p_cands pr;
     p_queue := p_queue pr; p_done := p_done pr; p_scan := p_scan pr |}.

Definition set_pmeta (pr : proc) (m : pmeta) (dirty : bool) : proc :=
  {| p_quota := p_quota pr; p_auto := p_auto pr; p_ops := p_ops pr; p_pc := p_pc pr; p_res := p_res pr;
     p_tmp := p_tmp pr; p_attic := p_attic pr; p_meta := p_meta pr; p_dirty := dirty; p_size := p_size pr;
     p_inst := p_inst pr; p_pmeta := m; p_todo := p_todo pr; p_cands := p_cands pr;
     p_queue := p_queue pr; p_done := p_done pr; p_scan := p_scan pr |}.

(* gc locals *)
Definition set_gc (pr : proc) (todo : list (N * N)) (cands queue done : list cand) (scan : N) : proc :=
  {| p_quota := p_quota pr; p_auto := p_auto pr; p_ops := p_ops pr; p_pc := p_pc pr; p_res := p_res pr;
     p_tmp := p_tmp pr; p_attic := p_attic pr; p_meta := p_meta pr; p_dirty := p_dirty pr; p_size := p_size pr;
     p_inst := p_inst pr; p_pmeta := p_pmeta pr; p_todo := todo; p_cands := cands;
     p_queue := queue; p_done := done; p_scan := scan |}.

(* the operation in progress returns [r]; the next one starts *)
Definition finish (pr : proc) (r : result) : proc :=
  {| p_quota := p_quota pr; p_auto := p_auto pr; p_ops := tl (p_ops pr); p_pc := start_pc (tl (p_ops pr));
     p_res := r :: p_res pr;
     p_tmp := None; p_attic := []; p_meta := p_meta pr; p_dirty := false; p_size := p_size pr;
     p_inst := p_inst pr; p_pmeta := p_pmeta pr; p_todo := p_todo pr; p_cands := p_cands pr;
     p_queue := p_queue pr; p_done := p_done pr; p_scan := p_scan pr |}.

(* ------------------------------------------------------------------ global state *)
Record state := {
  st_dir : bool;                       (* the store directory exists *)
  st_store : list (N * pdir);          (* visible package directories, by build-id *)
  st_repo : option (list (N * N));     (* repo.json: None = no file; Some [] also stands for the empty file *)
  st_rtrunc : bool;                    (* repo.json is truncated on disk, its next text is buffered *)
  st_links : list (N * N);             (* workspace -> package its symlink points to *)
  st_clk : N;
  st_log : list (bool * N);            (* history: (true, p) = p renamed into the store, (false, p) = p moved to an attic *)
  st_procs : list proc
}.

Definition init (dir : bool) (procs : list proc) : state :=
  {| st_dir := dir; st_store := []; st_repo := None; st_rtrunc := false; st_links := []; st_clk := 0; st_log := [];
     st_procs := procs |}.

(* what open(repo.json).read() returns *)
Definition disk_repo (s : state) : option (list (N * N)) :=
  match st_repo s with
  | None => None
  | Some l => Some (if st_rtrunc s then [] else l)
  end.

Fixpoint set_nth {A} (l : list A) (i : nat) (x : A) : list A :=
  match l, i with
  | [], _ => []
  | _ :: r, O => x :: r
  | y :: r, S i' => y :: set_nth r i' x
  end.

Definition upd_proc (s : state) (i : nat) (pr : proc) : state :=
  {| st_dir := st_dir s; st_store := st_store s; st_repo := st_repo s; st_rtrunc := st_rtrunc s; st_links := st_links s;
     st_clk := st_clk s; st_log := st_log s; st_procs := set_nth (st_procs s) i pr |}.

Definition with_store (s : state) (st : list (N * pdir)) : state :=
  {| st_dir := st_dir s; st_store := st; st_repo := st_repo s; st_rtrunc := st_rtrunc s; st_links := st_links s;
     st_clk := st_clk s; st_log := st_log s; st_procs := st_procs s |}.

Definition with_repo (s : state) (r : option (list (N * N))) (trunc : bool) : state :=
  {| st_dir := st_dir s; st_store := st_store s; st_repo := r; st_rtrunc := trunc; st_links := st_links s;
     st_clk := st_clk s; st_log := st_log s; st_procs := st_procs s |}.

Definition with_links (s : state) (l : list (N * N)) : state :=
  {| st_dir := st_dir s; st_store := st_store s; st_repo := st_repo s; st_rtrunc := st_rtrunc s; st_links := l;
     st_clk := st_clk s; st_log := st_log s; st_procs := st_procs s |}.

Definition with_dir (s : state) : state :=
  {| st_dir := true; st_store := st_store s; st_repo := st_repo s; st_rtrunc := st_rtrunc s; st_links := st_links s;
     st_clk := st_clk s; st_log := st_log s; st_procs := st_procs s |}.

Definition with_log (s : state) (e : bool * N) : state :=
  {| st_dir := st_dir s; st_store := st_store s; st_repo := st_repo s; st_rtrunc := st_rtrunc s; st_links := st_links s;
     st_clk := st_clk s; st_log := st_log s ++ [e]; st_procs := st_procs s |}.

Definition tick (s : state) : state :=
  {| st_dir := st_dir s; st_store := st_store s; st_repo := st_repo s; st_rtrunc := st_rtrunc s; st_links := st_links s;
     st_clk := st_clk s + 1; st_log := st_log s; st_procs := st_procs s |}.

(* ------------------------------------------------------------------ lock table (derived from the control points) *)
(* repo.json: Some true = exclusive, Some false = shared *)
Definition repo_mode (pc : pcT) : option bool :=
  match pc with
  | IWrite | IUnlock | GScan | GScanLock | GScanUnlock | GMove | GUnlock => Some true
  | UOpenPkg | ULockPkg | UWrite | UUnlockPkg | UClosePkg | UUnlockRepo => Some false
  | _ => None
  end.

(* <pkg>/pkg.json *)
Definition pkg_lock (pr : proc) : option (N * bool) :=
  match p_pc pr with
  | UWrite | UUnlockPkg => Some (o_pkg (cur pr), true)
  | GScanUnlock => Some (p_scan pr, false)
  | _ => None
  end.

Definition lock_table (s : state) : list (option bool * option (N * bool)) :=
  map (fun pr => (repo_mode (p_pc pr), pkg_lock pr)) (st_procs s).

Definition repo_free_x (s : state) : bool :=
  forallb (fun pr => match repo_mode (p_pc pr) with None => true | Some _ => false end) (st_procs s).

Definition repo_free_s (s : state) : bool :=
  forallb (fun pr => match repo_mode (p_pc pr) with Some true => false | _ => true end) (st_procs s).

Definition pkg_free_x (s : state) (q : N) : bool :=
  forallb (fun pr => match pkg_lock pr with Some (q', _) => negb (q' =? q) | None => true end) (st_procs s).

Definition pkg_free_s (s : state) (q : N) : bool :=
  forallb (fun pr => match pkg_lock pr with Some (q', true) => negb (q' =? q) | _ => true end) (st_procs s).

(* ------------------------------------------------------------------ gc helpers *)
Definition g_used (pr : proc) : bool := match o_kind (cur pr) with KGc => o_used (cur pr) | _ => false end.
Definition g_unused (pr : proc) : bool := match o_kind (cur pr) with KGc => o_unused (cur pr) | _ => false end.
Definition g_dry (pr : proc) : bool := match o_kind (cur pr) with KGc => o_dry (cur pr) | _ => false end.
(* newPkg: only the automatic gc of installSharedPackage passes it *)
Definition is_newpkg (pr : proc) (q : N) : bool :=
  match o_kind (cur pr) with KInstall => o_pkg (cur pr) =? q | _ => false end.

(* sameWorkspace(user, <q>/workspace): the user's workspace is a symlink to q's workspace *)
Definition links_to (links : list (N * N)) (q w : N) : bool :=
  match lookup w links with Some q' => q' =? q | None => false end.

(* checkUnused *)
Definition check_unused (links : list (N * N)) (users : list N) (q : N) : bool :=
  forallb (fun w => negb (links_to links q w)) users.

(* sorted(candidates): tuples (bool, int, int, str) compare lexicographically, False < True *)
Definition bool_ltb (a b : bool) : bool := negb a && b.

Definition cand_leb (a b : cand) : bool :=
  if bool_ltb (c_unused a) (c_unused b) then true
  else if bool_ltb (c_unused b) (c_unused a) then false
  else if c_mtime a <? c_mtime b then true
  else if c_mtime b <? c_mtime a then false
  else if c_size a <? c_size b then true
  else if c_size b <? c_size a then false
  else c_id a <=? c_id b.

Fixpoint insert_cand (c : cand) (l : list cand) : list cand :=
  match l with
  | [] => [c]
  | x :: r => if cand_leb c x then c :: x :: r else x :: insert_cand c r
  end.

Definition sort_cands (l : list cand) : list cand := fold_right insert_cand [] l.

(* the test at the head of the collection loop.
   None = TypeError (repoSize <= None); Some true = break; Some false = collect *)
Definition gc_break (pr : proc) (c : cand) : option bool :=
  if negb (c_unused c) || negb (g_unused pr) then
    match p_quota pr with
    | None => None
    | Some q => Some (p_size pr <=? q)
    end
  else Some false.

(* where the collection loop goes next: inl = failure *)
Definition move_next (pr : proc) : proc + failure :=
  match p_queue pr with
  | [] => inl (set_pc pr GUnlock)
  | c :: _ => match gc_break pr c with
              | None => inr FType
              | Some true => inl (set_pc pr GUnlock)
              | Some false => inl (set_pc pr GMove)
              end
  end.

(* after a package has been scanned (or skipped) *)
Definition after_scan (pr : proc) : proc + failure :=
  match p_todo pr with
  | _ :: _ => inl (set_pc pr GScan)
  | [] => move_next (set_gc pr [] (p_cands pr) (sort_cands (p_cands pr)) [] (p_scan pr))
  end.

(* gc returns [sz]: either the `bob clean --shared` operation is complete or
   installSharedPackage continues behind its automatic gc *)
Definition gc_return (pr : proc) (sz : option N) : proc :=
  match o_kind (cur pr) with
  | KGc => finish pr (RGc sz (map c_id (p_done pr)))
  | _ => set_pc pr IFinish
  end.

(* useSharedPackage returns: either the builder continues with its symlink
   handling or installSharedPackage ("somebody was faster") returns False *)
Definition use_return (pr : proc) (found : bool) : proc :=
  match o_kind (cur pr) with
  | KInstall => set_pc (set_inst (set_tmp pr None) false) IFinish
  | _ => set_pc (set_inst pr found) (if found then UUnlink else UUnshare)
  end.

(* an exception leaves the `with OpenLocked(repo.json)` block of a writer:
   __exit__ flushes what was buffered *)
Definition flush_repo (s : state) (pr : proc) : state :=
  if p_dirty pr then with_repo s (Some (p_meta pr)) false else s.

Definition commit (s : state) (i : nat) (r : proc + failure) (pr0 : proc) : state :=
  match r with
  | inl pr => upd_proc s i pr
  | inr f => upd_proc (flush_repo s pr0) i (finish pr0 (RFail f))
  end.

(* ------------------------------------------------------------------ one step of process i *)
Definition step (s : state) (i : nat) : option state :=
  match nth_error (st_procs s) i with
  | None => None
  | Some pr =>
    let o := cur pr in
    let p := o_pkg o in
    let w := o_ws o in
    match p_pc pr with
    | PDone => None

    (* ---------------- installSharedPackage *)
    | IStart =>          (* the package was built in a regular workspace directory (a stale sharing link is
                            gone); os.path.isdir(sharedPath): was somebody faster? -> record us as user *)
        let s1 := with_links s (remove_key w (st_links s)) in
        if has_key p (st_store s) then Some (upd_proc s1 i (set_pc pr UOpenRepo))
        else Some (upd_proc s1 i (set_pc pr ICopy))
    | ICopy =>           (* makedirs, mkdtemp, copy audit + workspace, hashDirectoryWithSize, compare *)
        if o_tree o =? o_expect o
        then Some (upd_proc (with_dir s) i (set_pc (set_tmp pr (Some {| d_audit := true; d_tree := Some (o_tree o);
                                                             d_meta := None; d_trunc := false; d_mtime := 0 |})) IMeta))
        else Some (upd_proc (with_dir s) i (finish pr (RFail FHash)))
    | IMeta =>           (* json.dump -> <tmp>/pkg/pkg.json *)
        match p_tmp pr with
        | None => None
        | Some d =>
            Some (upd_proc s i (set_pc (set_tmp pr (Some (set_dmeta d
                     (Some {| m_hash := o_expect o; m_size := o_size o; m_users := [w] |}) false (st_clk s)))) IRename))
        end
    | IRename =>         (* os.rename(tmp/pkg, sharedPath); ENOTEMPTY/EEXIST: lost the race *)
        match p_tmp pr with
        | None => None
        | Some d =>
            if has_key p (st_store s) then Some (upd_proc s i (set_pc pr UOpenRepo))
            else Some (upd_proc (with_log (with_store s (st_store s ++ [(p, d)])) (true, p)) i
                         (set_pc (set_tmp pr None) IOpenRepo))
        end
    | IOpenRepo =>       (* __addPackage: open(repo.json, "r+") *)
        match st_repo s with
        | None => Some (upd_proc s i (set_pc pr ICreateRepo))
        | Some _ => Some (upd_proc s i (set_pc pr ILockRepo))
        end
    | ICreateRepo =>     (* open(repo.json, "x+"); FileExistsError: open "r+" again *)
        match st_repo s with
        | None => Some (upd_proc (with_repo s (Some []) false) i (set_pc pr ILockRepo))
        | Some _ => Some (upd_proc s i (set_pc pr IOpenRepo))
        end
    | ILockRepo =>       (* flock(LOCK_EX), then update(): read (empty file = {});
                            meta["pkgs"][id] = size; seek(0); truncate() *)
        if repo_free_x s then
          match disk_repo s with
          | Some l0 =>
              let l := set_key p (o_size o) l0 in
              Some (upd_proc (with_repo s (Some l) true) i (set_pc (set_repo_mem pr l true (sum_sizes l)) IWrite))
          | None => Some (upd_proc s i (finish pr (RFail FNoEnt)))
          end
        else None
    | IWrite =>          (* json.dump: the text goes into the buffer of the file object *)
        Some (upd_proc s i (set_pc pr IUnlock))
    | IUnlock =>         (* __exit__: flush, then unlock *)
        Some (upd_proc (with_repo s (Some (p_meta pr)) false) i
                (set_pc (set_repo_mem pr (p_meta pr) false (p_size pr)) IClose))
    | IClose =>          (* close; tmpDir removed; quota check *)
        let over := match p_quota pr with Some q => q <? p_size pr | None => false end in
        Some (upd_proc s i (set_pc (set_inst pr true) (if over && p_auto pr then GStart else IFinish)))
    | IFinish =>         (* builder._installSharedPackage: removePath(workspace); symlink *)
        let s1 := if o_link o then with_links s (set_key w p (st_links s)) else s in
        Some (upd_proc s1 i (finish pr (RInstall (p_inst pr))))

    (* ---------------- useSharedPackage (+ builder._useSharedPackage) *)
    | UOpenRepo =>       (* open(repo.json, "a"): creates the still missing file; fails without store directory *)
        if st_dir s then
          match st_repo s with
          | None => Some (upd_proc (with_repo s (Some []) false) i (set_pc pr ULockRepo))
          | Some _ => Some (upd_proc s i (set_pc pr ULockRepo))
          end
        else Some (upd_proc s i (use_return pr false))
    | ULockRepo =>       (* flock(LOCK_SH) *)
        if repo_free_s s then Some (upd_proc s i (set_pc pr UOpenPkg)) else None
    | UOpenPkg =>        (* open(<pkg>/pkg.json, "r+") *)
        if has_key p (st_store s) then Some (upd_proc s i (set_pc pr ULockPkg))
        else Some (upd_proc s i (use_return pr false))
    | ULockPkg =>        (* flock(LOCK_EX); isdir(path); json.load; not yet a user: users.append, seek(0), truncate() *)
        if pkg_free_x s p then
          match lookup p (st_store s) with
          | None => Some (upd_proc s i (use_return pr false))
          | Some d =>
              match disk_meta d with
              | None => Some (upd_proc s i (finish pr (RFail FCorrupt)))
              | Some m =>
                  if memN w (m_users m) then Some (upd_proc s i (set_pc (set_pmeta pr m false) UWrite))
                  else
                    let m' := {| m_hash := m_hash m; m_size := m_size m; m_users := m_users m ++ [w] |} in
                    Some (upd_proc (with_store s (set_key p (set_dmeta d (Some m') true (d_mtime d)) (st_store s))) i
                            (set_pc (set_pmeta pr m' true) UWrite))
              end
          end
        else None
    | UWrite =>          (* json.dump into the buffer  |  already a user: os.utime(pkg.json) *)
        if p_dirty pr then Some (upd_proc s i (set_pc pr UUnlockPkg))
        else
          match lookup p (st_store s) with
          | None => None
          | Some d => Some (upd_proc (with_store s (set_key p (set_dmeta d (d_meta d) (d_trunc d) (st_clk s)) (st_store s))) i
                              (set_pc pr UUnlockPkg))
          end
    | UUnlockPkg =>      (* __exit__ of pkg.json: flush, unlock *)
        if p_dirty pr then
          match lookup p (st_store s) with
          | None => None
          | Some d => Some (upd_proc (with_store s (set_key p (set_dmeta d (Some (p_pmeta pr)) false (st_clk s)) (st_store s))) i
                              (set_pc (set_pmeta pr (p_pmeta pr) false) UClosePkg))
          end
        else Some (upd_proc s i (set_pc pr UClosePkg))
    | UClosePkg =>       (* close *)
        Some (upd_proc s i (set_pc pr UUnlockRepo))
    | UUnlockRepo =>     (* __exit__ of repo.json; return path, sharedHash *)
        Some (upd_proc s i (use_return pr true))
    | UUnlink =>         (* builder: already shared at the same location: done; else remove the old workspace *)
        if links_to (st_links s) p w then Some (upd_proc s i (finish pr (RUse true)))
        else Some (upd_proc (with_links s (remove_key w (st_links s))) i (set_pc pr ULink))
    | ULink =>           (* os.symlink(sharedWorkspace, prettyPackagePath) *)
        Some (upd_proc (with_links s (set_key w p (st_links s))) i (finish pr (RUse true)))
    | UUnshare =>        (* no shared package: remove a defunct sharing link *)
        Some (upd_proc (with_links s (remove_key w (st_links s))) i (finish pr (RUse false)))

    (* ---------------- gc *)
    | GStart =>
        match p_quota pr, g_unused pr with
        | None, false => Some (upd_proc s i (gc_return (set_gc pr [] [] [] [] 0) None))
        | _, _ =>
            match st_repo s with
            | None => Some (upd_proc s i (gc_return (set_repo_mem (set_gc pr [] [] [] [] 0) (p_meta pr) false 0) (Some 0)))
            | Some _ => Some (upd_proc s i (set_pc (set_gc pr [] [] [] [] 0) GLock))
            end
        end
    | GLock =>           (* mkdtemp attic; open r+; flock(LOCK_EX); read *)
        if repo_free_x s then
          match disk_repo s with
          | Some l => let pr1 := set_gc (set_repo_mem pr l false 0) l [] [] [] 0 in
                      Some (commit s i (after_scan pr1) pr1)
          | None => Some (upd_proc s i (finish pr (RFail FNoEnt)))
          end
        else None
    | GScan =>           (* repoSize += size; open(<pkg>/pkg.json, "r"); FileNotFoundError: pass *)
        match p_todo pr with
        | [] => None
        | (q, sz) :: rest =>
            let pr1 := set_repo_mem pr (p_meta pr) (p_dirty pr) (p_size pr + sz) in
            if has_key q (st_store s)
            then Some (upd_proc s i (set_pc (set_gc pr1 (p_todo pr) (p_cands pr) (p_queue pr) (p_done pr) q) GScanLock))
            else Some (commit s i (after_scan (set_gc pr1 rest (p_cands pr) (p_queue pr) (p_done pr) q)) pr)
        end
    | GScanLock =>       (* flock(LOCK_SH); json.load; fstat; checkUnused and pkgPath != newPkg *)
        match p_todo pr with
        | [] => None
        | (q, sz) :: rest =>
            if pkg_free_s s q then
              match lookup q (st_store s) with
              | None => None
              | Some d =>
                  match disk_meta d with
                  | None => Some (upd_proc (flush_repo s pr) i (finish pr (RFail FCorrupt)))
                  | Some m =>
                      let un := check_unused (st_links s) (m_users m) q && negb (is_newpkg pr q) in
                      let cs := if un || g_used pr
                                then p_cands pr ++ [{| c_unused := un; c_mtime := d_mtime d; c_size := sz; c_id := q |}]
                                else p_cands pr in
                      Some (upd_proc s i (set_pc (set_gc pr rest cs (p_queue pr) (p_done pr) q) GScanUnlock))
                  end
              end
            else None
        end
    | GScanUnlock =>     (* __exit__ of pkg.json *)
        Some (commit s i (after_scan pr) pr)
    | GMove =>           (* repoSize -= size; progress(); rename to attic; del; seek/truncate/json.dump (buffered) *)
        match p_queue pr with
        | [] => None
        | c :: rest =>
            let q := c_id c in
            let pr1 := set_gc (set_repo_mem pr (p_meta pr) (p_dirty pr) (p_size pr - c_size c))
                              (p_todo pr) (p_cands pr) rest (p_done pr ++ [c]) (p_scan pr) in
            if g_dry pr then Some (commit s i (move_next pr1) pr1)
            else if has_key q (st_store s) then
              let pr2 := set_attic (set_repo_mem pr1 (remove_key q (p_meta pr)) true (p_size pr1)) (p_attic pr ++ [q]) in
              Some (commit (with_log (with_repo (with_store s (remove_key q (st_store s))) (Some (p_meta pr2)) true) (false, q))
                           i (move_next pr2) pr2)
            else Some (upd_proc (flush_repo s pr) i (finish pr (RFail FNoEnt)))
        end
    | GUnlock =>         (* __exit__ of repo.json: flush, unlock *)
        Some (upd_proc (flush_repo s pr) i (set_pc (set_repo_mem pr (p_meta pr) false (p_size pr)) GClose))
    | GClose =>          (* close *)
        Some (upd_proc s i (set_pc pr GClean))
    | GClean =>          (* attic removed; return repoSize *)
        Some (upd_proc s i (gc_return (set_attic pr []) (Some (p_size pr))))

    (* ---------------- the project removes / unshares its workspace *)
    | XUnlink =>
        Some (upd_proc (with_links s (remove_key w (st_links s))) i (finish pr RUnlink))
    end
  end.

(* ------------------------------------------------------------------ schedules *)
Inductive action := Step (i : nat) | Tick.

Definition act (s : state) (a : action) : state :=
  match a with
  | Tick => tick s
  | Step i => match step s i with Some s' => s' | None => s end
  end.

Definition run (s : state) (sched : list action) : state := fold_left act sched s.

Definition reachable (dir : bool) (procs : list proc) (s : state) : Prop := exists sched, s = run (init dir procs) sched.

(* ------------------------------------------------------------------ observation (what the harness compares after every step) *)
Definition pc_code (pc : pcT) : N :=
  match pc with
  | PDone => 0
  | IStart => 1 | ICopy => 2 | IMeta => 3 | IRename => 4 | IOpenRepo => 5 | ICreateRepo => 6 | ILockRepo => 7
  | IWrite => 8 | IUnlock => 9 | IFinish => 10
  | UOpenRepo => 11 | ULockRepo => 12 | UOpenPkg => 13 | ULockPkg => 14 | UWrite => 15 | UUnlockPkg => 16
  | UUnlockRepo => 17 | UUnlink => 18 | ULink => 19 | UUnshare => 20
  | GStart => 21 | GLock => 22 | GScan => 23 | GScanLock => 24 | GScanUnlock => 25 | GMove => 26 | GUnlock => 27
  | GClean => 28
  | XUnlink => 29
  | IClose => 30 | UClosePkg => 31 | GClose => 32
  end.

Definition enc_bool (b : bool) : N := if b then 1 else 0.
Definition enc_list (l : list N) : list N := N.of_nat (length l) :: l.

Definition enc_dir (d : pdir) : list N :=
  enc_bool (d_audit d) ::
  match d_tree d with None => [0] | Some h => [1; h] end ++
  match disk_meta d with
  | None => [0]
  | Some m => [1; m_hash m; m_size m] ++ enc_list (m_users m) ++ [d_mtime d]
  end.

Fixpoint insert_key {A} (e : N * A) (l : list (N * A)) : list (N * A) :=
  match l with
  | [] => [e]
  | x :: r => if fst e <=? fst x then e :: x :: r else x :: insert_key e r
  end.
Definition sort_keys {A} (l : list (N * A)) : list (N * A) := fold_right insert_key [] l.

Fixpoint insertN (e : N) (l : list N) : list N :=
  match l with
  | [] => [e]
  | x :: r => if e <=? x then e :: x :: r else x :: insertN e r
  end.
Definition sortN (l : list N) : list N := fold_right insertN [] l.

Definition enc_failure (f : failure) : N :=
  match f with FHash => 1 | FType => 2 | FNoEnt => 3 | FCorrupt => 4 end.

Definition enc_result (r : result) : list N :=
  match r with
  | RInstall b => [1; enc_bool b]
  | RUse b => [2; enc_bool b]
  | RGc None l => [3; 0] ++ enc_list l
  | RGc (Some n) l => [3; 1; n] ++ enc_list l
  | RUnlink => [4]
  | RFail f => [5; enc_failure f]
  end.

Definition enc_proc (pr : proc) : list N :=
  pc_code (p_pc pr) :: N.of_nat (length (p_res pr)) :: flat_map enc_result (p_res pr) ++
  match p_tmp pr with None => [0] | Some d => 1 :: enc_dir d end ++
  enc_list (sortN (p_attic pr)).

Definition observe (s : state) : list N :=
  enc_bool (st_dir s) :: N.of_nat (length (st_store s)) :: flat_map (fun e => fst e :: enc_dir (snd e)) (sort_keys (st_store s)) ++
  match disk_repo s with
  | None => [0]
  | Some l => 1 :: N.of_nat (length l) :: flat_map (fun e => [fst e; snd e]) l
  end ++
  N.of_nat (length (st_links s)) :: flat_map (fun e => [fst e; snd e]) (sort_keys (st_links s)) ++
  N.of_nat (length (st_log s)) :: flat_map (fun e => [enc_bool (fst e); snd e]) (st_log s) ++
  flat_map enc_proc (st_procs s).

Definition cks_mod : N := 2305843009213693951.   (* 2^61 - 1 *)
Definition checksum (l : list N) : N :=
  fold_left (fun acc x => (acc * 1000003 + x + 1) mod cks_mod) l 7.

(* per action: 1 if the step was refused (blocked, finished, no such process), then the checksum of the state *)
Fixpoint trace (s : state) (sched : list action) : list N :=
  match sched with
  | [] => []
  | a :: r =>
      let refused := match a with Step i => match step s i with None => 1 | Some _ => 0 end | Tick => 0 end in
      let s' := act s a in
      refused :: checksum (observe s') :: trace s' r
  end.

Fixpoint trace_full (s : state) (sched : list action) : list (list N) :=
  match sched with
  | [] => []
  | a :: r => let s' := act s a in observe s' :: trace_full s' r
  end.

(* run process i until it has completed its current operation (bounded) *)
Fixpoint steps_of (i : nat) (n : nat) : list action :=
  match n with O => [] | S n' => Step i :: steps_of i n' end.

(* ------------------------------------------------------------------ vocabulary of the property statements *)
Definition wf_procs (procs : list proc) : Prop :=
  forall pr, In pr procs -> exists q a ops, pr = mk_proc q a ops.

(* repo.json as last written (what a reader sees once the writer has left its `with` block) *)
Definition pkgs (s : state) : list (N * N) := match st_repo s with Some l => l | None => [] end.

(* installers between their rename and their repo.json update *)
Definition pend (pc : pcT) : bool :=
  match pc with IOpenRepo | ICreateRepo | ILockRepo => true | _ => false end.

(* control points of gc between reading repo.json and leaving the collection loop *)
Definition gphase (pc : pcT) : bool :=
  match pc with GScan | GScanLock | GScanUnlock | GMove => true | _ => false end.

(* the next step of process g moves package q from the store into its attic *)
Definition collects (s : state) (g : nat) (q : N) : Prop :=
  exists pr c rest, nth_error (st_procs s) g = Some pr /\ p_pc pr = GMove /\ p_queue pr = c :: rest /\
                    c_id c = q /\ g_dry pr = false.

(* ... and that gc was not asked to remove used packages (no --used) *)
Definition not_forced (s : state) (g : nat) : Prop :=
  exists pr, nth_error (st_procs s) g = Some pr /\ g_used pr = false.

(* workspace w is recorded in pkg.json of the installed package q *)
Definition recorded (s : state) (q w : N) : Prop :=
  exists d m, lookup q (st_store s) = Some d /\ d_meta d = Some m /\ In w (m_users m).

(* workspace w uses q: its symlink points to q, or the share API has just
   handed q to its project, whose builder is about to create the link *)
Definition uses (s : state) (w q : N) : Prop :=
  lookup w (st_links s) = Some q \/
  exists j pr, nth_error (st_procs s) j = Some pr /\ o_ws (cur pr) = w /\ o_pkg (cur pr) = q /\
               (p_pc pr = UUnlink \/ p_pc pr = ULink \/ (p_pc pr = IFinish /\ o_link (cur pr) = true)).

(* the next step of gc process g takes the shared lock on q's pkg.json (it
   holds the repository lock exclusively) and decides whether q is unused *)
Definition scans (s : state) (g : nat) (q : N) : Prop :=
  exists pr sz rest, nth_error (st_procs s) g = Some pr /\ p_pc pr = GScanLock /\ p_todo pr = (q, sz) :: rest /\
                     pkg_free_s s q = true.

Definition ops_left (s : state) (g : nat) : nat :=
  match nth_error (st_procs s) g with Some pr => length (p_ops pr) | None => O end.

Definition count_log (e : bool * N) (l : list (bool * N)) : nat :=
  length (filter (fun x => Bool.eqb (fst x) (fst e) && (snd x =? snd e)) l).

(* sum of the sizes of a list of candidates *)
Definition sizes (l : list cand) : N := fold_right (fun c a => c_size c + a) 0 l.

(* the collection loop does not stop in front of candidate c when the repository size is sz *)
Definition must_go (quota : option N) (all_unused : bool) (c : cand) (sz : N) : bool :=
  if negb (c_unused c) || negb all_unused
  then match quota with Some q => negb (sz <=? q) | None => false end
  else true.

Definition cand_le (a b : cand) : Prop := cand_leb a b = true.

(* bookkeeping of the collection loop of a gc run (control points GMove, GUnlock) *)
Definition move_ok (pr : proc) : Prop :=
  Permutation (p_done pr ++ p_queue pr) (p_cands pr) /\
  StronglySorted cand_le (p_done pr ++ p_queue pr) /\
  sizes (p_queue pr) <= p_size pr /\
  (forall pre c post, p_done pr = pre ++ c :: post ->
     must_go (p_quota pr) (g_unused pr) c (p_size pr + sizes (c :: post)) = true) /\
  (p_pc pr = GMove -> exists c rest, p_queue pr = c :: rest /\ must_go (p_quota pr) (g_unused pr) c (p_size pr) = true) /\
  (p_pc pr = GUnlock -> p_queue pr = [] \/
     exists c rest, p_queue pr = c :: rest /\ must_go (p_quota pr) (g_unused pr) c (p_size pr) = false).

(* what is known about every candidate *)
Definition cands_ok (pr : proc) : Prop :=
  forall c, In c (p_cands pr) ->
    (c_unused c = true -> is_newpkg pr (c_id c) = false) /\ (g_used pr = false -> c_unused c = true).
