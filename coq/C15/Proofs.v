(* C15 — proofs about the LTS of Model.v: invariants over all interleavings,
   by induction on the schedule. *)
From Coq Require Import List NArith Bool Arith Lia Permutation Sorted.
Require Import BobV.C15.Model.
Import ListNotations.
Open Scope N_scope.

(* ------------------------------------------------------------------ association lists *)
Lemma lookup_set_key_same : forall A k (v : A) l, lookup k (set_key k v l) = Some v.
Proof.
  induction l as [|[k' v'] r IH]; cbn; [rewrite N.eqb_refl; reflexivity|].
  destruct (k =? k') eqn:E; cbn; rewrite ?N.eqb_refl, ?E; auto.
Qed.

Lemma lookup_set_key_other : forall A k k' (v : A) l, k' <> k -> lookup k' (set_key k v l) = lookup k' l.
Proof.
  induction l as [|[k2 v2] r IH]; intros Hne; cbn.
  - destruct (k' =? k) eqn:E; [apply N.eqb_eq in E; congruence|reflexivity].
  - destruct (k =? k2) eqn:E; cbn.
    + apply N.eqb_eq in E; subst k2.
      destruct (k' =? k) eqn:E2; [apply N.eqb_eq in E2; congruence|reflexivity].
    + destruct (k' =? k2); auto.
Qed.

Lemma lookup_remove_key_same : forall A k (l : list (N * A)), lookup k (remove_key k l) = None.
Proof.
  induction l as [|[k' v'] r IH]; cbn; auto.
  destruct (k =? k') eqn:E; cbn; rewrite ?E; auto.
Qed.

Lemma lookup_remove_key_other : forall A k k' (l : list (N * A)), k' <> k -> lookup k' (remove_key k l) = lookup k' l.
Proof.
  induction l as [|[k2 v2] r IH]; intros Hne; cbn; auto.
  destruct (k =? k2) eqn:E; cbn.
  - apply N.eqb_eq in E; subst k2. destruct (k' =? k) eqn:E2; [apply N.eqb_eq in E2; congruence|auto].
  - destruct (k' =? k2); auto.
Qed.

Lemma lookup_app_new : forall A k (v : A) l, lookup k l = None -> lookup k (l ++ [(k, v)]) = Some v.
Proof.
  induction l as [|[k2 v2] r IH]; cbn; intros H; [rewrite N.eqb_refl; reflexivity|].
  destruct (k =? k2); [discriminate|auto].
Qed.

Lemma lookup_app_other : forall A k k' (v : A) l, k' <> k -> lookup k' (l ++ [(k, v)]) = lookup k' l.
Proof.
  induction l as [|[k2 v2] r IH]; cbn; intros H.
  - destruct (k' =? k) eqn:E; [apply N.eqb_eq in E; congruence|reflexivity].
  - destruct (k' =? k2); auto.
Qed.

Lemma has_key_lookup : forall A k (l : list (N * A)), has_key k l = true <-> exists v, lookup k l = Some v.
Proof.
  unfold has_key; intros; destruct (lookup k l); split; intros H; eauto; try discriminate.
  destruct H; discriminate.
Qed.

Lemma has_key_false : forall A k (l : list (N * A)), has_key k l = false <-> lookup k l = None.
Proof. unfold has_key; intros; destruct (lookup k l); split; intros; congruence. Qed.

Lemma lookup_In : forall A k (v : A) l, lookup k l = Some v -> In (k, v) l.
Proof.
  induction l as [|[k2 v2] r IH]; cbn; intros H; [discriminate|].
  destruct (k =? k2) eqn:E; [apply N.eqb_eq in E; inversion H; subst; auto|auto].
Qed.

Lemma In_keys_lookup : forall A k (l : list (N * A)), In k (map fst l) <-> exists v, lookup k l = Some v.
Proof.
  induction l as [|[k2 v2] r IH]; cbn; split; intros H.
  - destruct H.
  - destruct H; discriminate.
  - destruct (k =? k2) eqn:E; eauto. destruct H as [H|H]; [subst; rewrite N.eqb_refl in E; discriminate|apply IH; auto].
  - destruct (k =? k2) eqn:E; [apply N.eqb_eq in E; auto|right; apply IH; auto].
Qed.

Lemma NoDup_lookup_In : forall A k (v : A) l, NoDup (map fst l) -> In (k, v) l -> lookup k l = Some v.
Proof.
  induction l as [|[k2 v2] r IH]; cbn; intros ND H; [destruct H|].
  inversion ND; subst. destruct H as [H|H].
  - inversion H; subst. rewrite N.eqb_refl; reflexivity.
  - destruct (k =? k2) eqn:E; [|auto].
    apply N.eqb_eq in E; subst. exfalso; apply H2. apply in_map_iff; exists (k2, v); auto.
Qed.

Lemma keys_set_key_In : forall A k k' (v : A) l, In k' (map fst (set_key k v l)) <-> k' = k \/ In k' (map fst l).
Proof.
  induction l as [|[k2 v2] r IH]; cbn; [intuition|].
  destruct (k =? k2) eqn:E; cbn.
  - apply N.eqb_eq in E; subst; intuition.
  - rewrite IH; intuition.
Qed.

Lemma NoDup_set_key : forall A k (v : A) l, NoDup (map fst l) -> NoDup (map fst (set_key k v l)).
Proof.
  induction l as [|[k2 v2] r IH]; cbn; intros ND; [constructor; auto; constructor|].
  inversion ND; subst.
  destruct (k =? k2) eqn:E; cbn.
  - apply N.eqb_eq in E; subst; constructor; auto.
  - constructor; auto. rewrite keys_set_key_In. intros [H|H]; [subst; rewrite N.eqb_refl in E; discriminate|auto].
Qed.

Lemma keys_remove_key_In : forall A k k' (l : list (N * A)), In k' (map fst (remove_key k l)) <-> k' <> k /\ In k' (map fst l).
Proof.
  induction l as [|[k2 v2] r IH]; cbn; [intuition|].
  destruct (k =? k2) eqn:E; cbn.
  - apply N.eqb_eq in E; subst. rewrite IH. intuition. subst; tauto.
  - rewrite IH. assert (k2 <> k) by (intros ->; rewrite N.eqb_refl in E; discriminate). intuition; subst; auto.
Qed.

Lemma NoDup_remove_key : forall A k (l : list (N * A)), NoDup (map fst l) -> NoDup (map fst (remove_key k l)).
Proof.
  induction l as [|[k2 v2] r IH]; cbn; intros ND; auto.
  inversion ND; subst. destruct (k =? k2); auto.
  cbn; constructor; auto. rewrite keys_remove_key_In; tauto.
Qed.

Lemma In_remove_key : forall A k k' (v : A) l, In (k', v) (remove_key k l) <-> k' <> k /\ In (k', v) l.
Proof.
  induction l as [|[k2 v2] r IH]; cbn; [intuition|].
  destruct (k =? k2) eqn:E; cbn.
  - apply N.eqb_eq in E; subst. rewrite IH. split.
    + intros [? ?]; auto.
    + intros [Hne [Heq|Hin]]; [inversion Heq; subst; congruence|auto].
  - assert (k2 <> k) by (intros ->; rewrite N.eqb_refl in E; discriminate).
    rewrite IH. split.
    + intros [Heq|[? ?]]; [inversion Heq; subst; auto|auto].
    + intros [Hne [Heq|Hin]]; auto.
Qed.


(* ------------------------------------------------------------------ lists of processes *)
Lemma nth_error_set_nth_same : forall A (l : list A) i x y, nth_error l i = Some y -> nth_error (set_nth l i x) i = Some x.
Proof. induction l; destruct i; cbn; intros; try discriminate; eauto. Qed.

Lemma nth_error_set_nth_other : forall A (l : list A) i j x, i <> j -> nth_error (set_nth l i x) j = nth_error l j.
Proof. induction l; destruct i, j; cbn; intros; try congruence; auto. Qed.

Lemma set_nth_length : forall A (l : list A) i x, length (set_nth l i x) = length l.
Proof. induction l; destruct i; cbn; intros; auto. Qed.

Definition proc_at (s : state) (i : nat) (pr : proc) : Prop := nth_error (st_procs s) i = Some pr.

Lemma proc_at_upd : forall s i pr0 pr j prj,
  proc_at s i pr0 -> proc_at (upd_proc s i pr) j prj ->
  (j = i /\ prj = pr) \/ (j <> i /\ proc_at s j prj).
Proof.
  unfold proc_at; intros s i pr0 pr j prj H0 H. cbn in H.
  destruct (Nat.eq_dec i j) as [->|Hne].
  - rewrite (nth_error_set_nth_same _ _ _ _ _ H0) in H. inversion H; auto.
  - rewrite nth_error_set_nth_other in H by auto. right; split; auto.
Qed.

Lemma forallb_set_nth : forall A (f : A -> bool) l i x,
  forallb f l = true -> f x = true -> forallb f (set_nth l i x) = true.
Proof.
  induction l; destruct i; cbn; intros; auto; apply andb_true_iff in H; destruct H; apply andb_true_iff; auto.
Qed.

Lemma forallb_nth : forall A (f : A -> bool) l i x, forallb f l = true -> nth_error l i = Some x -> f x = true.
Proof.
  intros. rewrite forallb_forall in H. apply H. eapply nth_error_In; eauto.
Qed.

(* ------------------------------------------------------------------ control points after the helper functions *)
Lemma repo_mode_start : forall ops, repo_mode (start_pc ops) = None.
Proof. destruct ops as [|o r]; cbn; auto. destruct (o_kind o); reflexivity. Qed.

Definition pc_pkg_lock (pc : pcT) : bool :=
  match pc with UWrite | UUnlockPkg | GScanUnlock => true | _ => false end.

Lemma pkg_lock_none : forall pr, pc_pkg_lock (p_pc pr) = false -> pkg_lock pr = None.
Proof. unfold pkg_lock; intros pr; destruct (p_pc pr); cbn; intros; congruence. Qed.

Lemma pc_pkg_lock_start : forall ops, pc_pkg_lock (start_pc ops) = false.
Proof. destruct ops as [|o r]; cbn; auto. destruct (o_kind o); reflexivity. Qed.

Lemma finish_pc : forall pr r, p_pc (finish pr r) = start_pc (tl (p_ops pr)).
Proof. reflexivity. Qed.

Lemma use_return_pc : forall pr b,
  p_pc (use_return pr b) = IFinish \/ p_pc (use_return pr b) = UUnlink \/ p_pc (use_return pr b) = UUnshare.
Proof. unfold use_return; intros; destruct (o_kind (cur pr)); cbn; auto; destruct b; auto. Qed.

Lemma gc_return_pc : forall pr sz,
  p_pc (gc_return pr sz) = IFinish \/ p_pc (gc_return pr sz) = start_pc (tl (p_ops pr)).
Proof. unfold gc_return; intros; destruct (o_kind (cur pr)); cbn; auto. Qed.

Lemma move_next_inl : forall pr pr', move_next pr = inl pr' ->
  (pr' = set_pc pr GUnlock \/ pr' = set_pc pr GMove).
Proof.
  unfold move_next; intros pr pr' H. destruct (p_queue pr); [inversion H; auto|].
  destruct (gc_break pr c) as [[|]|]; inversion H; auto.
Qed.

Lemma after_scan_inl : forall pr pr', after_scan pr = inl pr' ->
  pr' = set_pc pr GScan \/
  (p_todo pr = [] /\ (pr' = set_pc (set_gc pr [] (p_cands pr) (sort_cands (p_cands pr)) [] (p_scan pr)) GUnlock \/
                      pr' = set_pc (set_gc pr [] (p_cands pr) (sort_cands (p_cands pr)) [] (p_scan pr)) GMove)).
Proof.
  unfold after_scan; intros pr pr' H. destruct (p_todo pr); [|inversion H; auto].
  right; split; auto. apply move_next_inl in H; auto.
Qed.

(* ------------------------------------------------------------------ case analysis of one step *)
Ltac step_cases H pr Hpr Hpc :=
  unfold step, commit in H;
  match type of H with context [nth_error ?l ?i] => destruct (nth_error l i) as [pr|] eqn:Hpr; [|discriminate H] end;
  destruct (p_pc pr) eqn:Hpc;
  repeat (match type of H with
          | context [if ?b then _ else _] => destruct b eqn:?
          | context [match ?x with _ => _ end] => destruct x eqn:?
          end);
  try discriminate H; inversion H; clear H.

Ltac simp_st :=
  cbn [st_store st_repo st_rtrunc st_links st_clk st_log st_procs upd_proc with_store with_repo with_links with_log
       p_pc p_ops p_res p_tmp p_attic p_meta p_dirty p_size p_inst p_pmeta p_todo p_cands p_queue p_done p_scan
       p_quota p_auto set_pc set_tmp set_attic set_repo_mem set_inst set_pmeta set_gc finish] in *.

(* the list of processes changes only at position i *)
Lemma step_procs : forall s i s', step s i = Some s' ->
  exists pr pr', proc_at s i pr /\ st_procs s' = set_nth (st_procs s) i pr'.
Proof.
  intros s i s' H. step_cases H pr Hpr Hpc; subst; unfold flush_repo;
    repeat match goal with |- context [if ?b then _ else _] => destruct b end;
    simp_st; eexists; eexists; (split; [exact Hpr|reflexivity]).
Qed.

Lemma step_proc_at_other : forall s i s' j prj, step s i = Some s' -> j <> i ->
  (proc_at s' j prj <-> proc_at s j prj).
Proof.
  intros s i s' j prj H Hne. destruct (step_procs _ _ _ H) as (pr & pr' & Hp & Heq).
  unfold proc_at. rewrite Heq. rewrite nth_error_set_nth_other by auto. tauto.
Qed.

Lemma step_proc_at_self : forall s i s', step s i = Some s' ->
  exists pr pr', proc_at s i pr /\ proc_at s' i pr'.
Proof.
  intros s i s' H. destruct (step_procs _ _ _ H) as (pr & pr' & Hp & Heq).
  exists pr, pr'. split; auto. unfold proc_at. rewrite Heq. eapply nth_error_set_nth_same; eauto.
Qed.

(* ------------------------------------------------------------------ the lock table excludes *)
Definition excl_repo (s : state) : Prop :=
  forall i j pi pj, i <> j -> proc_at s i pi -> proc_at s j pj ->
    repo_mode (p_pc pi) = Some true -> repo_mode (p_pc pj) = None.

Definition lock_evolves (m m' : option bool) (free_x free_s : bool) : Prop :=
  match m, m' with
  | None, Some true => free_x = true
  | None, Some false => free_s = true
  | None, None => True
  | Some a, Some b => a = b
  | Some _, None => True
  end.

Lemma step_repo_mode : forall s i s' pr pr', step s i = Some s' -> proc_at s i pr -> proc_at s' i pr' ->
  lock_evolves (repo_mode (p_pc pr)) (repo_mode (p_pc pr')) (repo_free_x s) (repo_free_s s).
Proof.
  intros s i s' pr0 pr' H Hp0 Hp'. unfold proc_at in *.
  step_cases H pr Hpr Hpc; subst; inversion Hp0; subst pr0; clear Hp0;
    unfold flush_repo in Hp';
    repeat match type of Hp' with context [if ?b then _ else _] => destruct b end;
    simp_st; rewrite (nth_error_set_nth_same _ _ _ _ _ Hpr) in Hp'; inversion Hp'; subst pr'; clear Hp';
    rewrite Hpc; simp_st; unfold lock_evolves; cbn [repo_mode];
    rewrite ?repo_mode_start; auto;
    try (match goal with |- context [use_return ?p ?b] => destruct (use_return_pc p b) as [E|[E|E]]; rewrite E; cbn; auto end);
    try (match goal with |- context [gc_return ?p ?b] => destruct (gc_return_pc p b) as [E|E]; rewrite E; rewrite ?repo_mode_start; cbn; auto end);
    try (match goal with E : after_scan _ = inl _ |- _ => apply after_scan_inl in E; destruct E as [E|[_ [E|E]]]; subst; cbn; auto end);
    try (match goal with E : move_next _ = inl _ |- _ => apply move_next_inl in E; destruct E as [E|E]; subst; cbn; auto end).
Qed.

Lemma excl_repo_init : forall procs, (forall pr, In pr procs -> repo_mode (p_pc pr) = None) -> excl_repo (init procs).
Proof.
  intros procs H i j pi pj _ _ Hj _. apply H. eapply nth_error_In; exact Hj.
Qed.

Lemma excl_repo_step : forall s i s', excl_repo s -> step s i = Some s' -> excl_repo s'.
Proof.
  intros s i s' Inv H a b pa pb Hab Ha Hb Hm.
  destruct (step_proc_at_self _ _ _ H) as (pr & pr' & Hp & Hp').
  pose proof (step_repo_mode _ _ _ _ _ H Hp Hp') as Hev.
  destruct (Nat.eq_dec a i) as [->|Hai]; destruct (Nat.eq_dec b i) as [->|Hbi]; try congruence.
  - assert (pa = pr') by (unfold proc_at in *; congruence); subst pa.
    apply (step_proc_at_other _ _ _ b pb H) in Hb; auto.
    rewrite Hm in Hev. destruct (repo_mode (p_pc pr)) as [m|] eqn:Em; cbn in Hev.
    + subst m. eapply Inv; eauto.
    + unfold repo_free_x in Hev. pose proof (forallb_nth _ _ _ _ _ Hev Hb) as Hf. cbn in Hf.
      destruct (repo_mode (p_pc pb)); [discriminate|reflexivity].
  - assert (pb = pr') by (unfold proc_at in *; congruence); subst pb.
    apply (step_proc_at_other _ _ _ a pa H) in Ha; auto.
    assert (Hn : repo_mode (p_pc pr) = None) by (eapply Inv; eauto).
    rewrite Hn in Hev. destruct (repo_mode (p_pc pr')) as [[|]|] eqn:Em'; cbn in Hev; auto.
    + unfold repo_free_x in Hev. pose proof (forallb_nth _ _ _ _ _ Hev Ha) as Hf. cbn in Hf. rewrite Hm in Hf; discriminate.
    + unfold repo_free_s in Hev. pose proof (forallb_nth _ _ _ _ _ Hev Ha) as Hf. cbn in Hf. rewrite Hm in Hf; discriminate.
  - apply (step_proc_at_other _ _ _ a pa H) in Ha; auto. apply (step_proc_at_other _ _ _ b pb H) in Hb; auto.
    eapply Inv; eauto.
Qed.

(* a shared holder and an exclusive holder never coexist *)
Lemma excl_repo_shared : forall s i j pi pj, excl_repo s -> i <> j -> proc_at s i pi -> proc_at s j pj ->
  repo_mode (p_pc pi) = Some false -> repo_mode (p_pc pj) <> Some true.
Proof.
  intros s i j pi pj Inv Hne Hi Hj Hm Hx. rewrite (Inv j i pj pi) in Hm; auto; discriminate.
Qed.
