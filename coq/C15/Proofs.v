(* C15 — proofs about the LTS of Model.v: invariants over all interleavings,
   by induction on the schedule. *)
From Coq Require Import List NArith Bool Arith Lia Permutation Sorted.
Require Import BobV.C15.Model.
Import ListNotations.
Open Scope N_scope.

(* ------------------------------------------------------------------ association lists *)
Lemma lookup_set_key_same : forall A k (v : A) l, lookup k (set_key k v l) = Some v.
Proof.
  induction l as [|[k' v'] r IH]; cbn; [rewrite N.eqb_refl; reflexivity|].
  destruct (k =? k') eqn:E; cbn; rewrite ?N.eqb_refl, ?E; auto.
Qed.

Lemma lookup_set_key_other : forall A k k' (v : A) l, k' <> k -> lookup k' (set_key k v l) = lookup k' l.
Proof.
  induction l as [|[k2 v2] r IH]; intros Hne; cbn.
  - destruct (k' =? k) eqn:E; [apply N.eqb_eq in E; congruence|reflexivity].
  - destruct (k =? k2) eqn:E; cbn.
    + apply N.eqb_eq in E; subst k2.
      destruct (k' =? k) eqn:E2; [apply N.eqb_eq in E2; congruence|reflexivity].
    + destruct (k' =? k2); auto.
Qed.

Lemma lookup_remove_key_same : forall A k (l : list (N * A)), lookup k (remove_key k l) = None.
Proof.
  induction l as [|[k' v'] r IH]; cbn; auto.
  destruct (k =? k') eqn:E; cbn; rewrite ?E; auto.
Qed.

Lemma lookup_remove_key_other : forall A k k' (l : list (N * A)), k' <> k -> lookup k' (remove_key k l) = lookup k' l.
Proof.
  induction l as [|[k2 v2] r IH]; intros Hne; cbn; auto.
  destruct (k =? k2) eqn:E; cbn.
  - apply N.eqb_eq in E; subst k2. destruct (k' =? k) eqn:E2; [apply N.eqb_eq in E2; congruence|auto].
  - destruct (k' =? k2); auto.
Qed.

Lemma lookup_app_new : forall A k (v : A) l, lookup k l = None -> lookup k (l ++ [(k, v)]) = Some v.
Proof.
  induction l as [|[k2 v2] r IH]; cbn; intros H; [rewrite N.eqb_refl; reflexivity|].
  destruct (k =? k2); [discriminate|auto].
Qed.

Lemma lookup_app_other : forall A k k' (v : A) l, k' <> k -> lookup k' (l ++ [(k, v)]) = lookup k' l.
Proof.
  induction l as [|[k2 v2] r IH]; cbn; intros H.
  - destruct (k' =? k) eqn:E; [apply N.eqb_eq in E; congruence|reflexivity].
  - destruct (k' =? k2); auto.
Qed.

Lemma has_key_lookup : forall A k (l : list (N * A)), has_key k l = true <-> exists v, lookup k l = Some v.
Proof.
  unfold has_key; intros; destruct (lookup k l); split; intros H; eauto; try discriminate.
  destruct H; discriminate.
Qed.

Lemma has_key_false : forall A k (l : list (N * A)), has_key k l = false <-> lookup k l = None.
Proof. unfold has_key; intros; destruct (lookup k l); split; intros; congruence. Qed.

Lemma lookup_In : forall A k (v : A) l, lookup k l = Some v -> In (k, v) l.
Proof.
  induction l as [|[k2 v2] r IH]; cbn; intros H; [discriminate|].
  destruct (k =? k2) eqn:E; [apply N.eqb_eq in E; inversion H; subst; auto|auto].
Qed.

Lemma In_keys_lookup : forall A k (l : list (N * A)), In k (map fst l) <-> exists v, lookup k l = Some v.
Proof.
  induction l as [|[k2 v2] r IH]; cbn; split; intros H.
  - destruct H.
  - destruct H; discriminate.
  - destruct (k =? k2) eqn:E; eauto. destruct H as [H|H]; [subst; rewrite N.eqb_refl in E; discriminate|apply IH; auto].
  - destruct (k =? k2) eqn:E; [apply N.eqb_eq in E; auto|right; apply IH; auto].
Qed.

Lemma NoDup_lookup_In : forall A k (v : A) l, NoDup (map fst l) -> In (k, v) l -> lookup k l = Some v.
Proof.
  induction l as [|[k2 v2] r IH]; cbn; intros ND H; [destruct H|].
  inversion ND; subst. destruct H as [H|H].
  - inversion H; subst. rewrite N.eqb_refl; reflexivity.
  - destruct (k =? k2) eqn:E; [|auto].
    apply N.eqb_eq in E; subst. exfalso; apply H2. apply in_map_iff; exists (k2, v); auto.
Qed.

Lemma keys_set_key_In : forall A k k' (v : A) l, In k' (map fst (set_key k v l)) <-> k' = k \/ In k' (map fst l).
Proof.
  induction l as [|[k2 v2] r IH]; cbn; [intuition|].
  destruct (k =? k2) eqn:E; cbn.
  - apply N.eqb_eq in E; subst; intuition.
  - rewrite IH; intuition.
Qed.

Lemma NoDup_set_key : forall A k (v : A) l, NoDup (map fst l) -> NoDup (map fst (set_key k v l)).
Proof.
  induction l as [|[k2 v2] r IH]; cbn; intros ND; [constructor; auto; constructor|].
  inversion ND; subst.
  destruct (k =? k2) eqn:E; cbn.
  - apply N.eqb_eq in E; subst; constructor; auto.
  - constructor; auto. rewrite keys_set_key_In. intros [H|H]; [subst; rewrite N.eqb_refl in E; discriminate|auto].
Qed.

Lemma keys_remove_key_In : forall A k k' (l : list (N * A)), In k' (map fst (remove_key k l)) <-> k' <> k /\ In k' (map fst l).
Proof.
  induction l as [|[k2 v2] r IH]; cbn; [intuition|].
  destruct (k =? k2) eqn:E; cbn.
  - apply N.eqb_eq in E; subst. rewrite IH. intuition. subst; tauto.
  - rewrite IH. assert (k2 <> k) by (intros ->; rewrite N.eqb_refl in E; discriminate). intuition; subst; auto.
Qed.

Lemma NoDup_remove_key : forall A k (l : list (N * A)), NoDup (map fst l) -> NoDup (map fst (remove_key k l)).
Proof.
  induction l as [|[k2 v2] r IH]; cbn; intros ND; auto.
  inversion ND; subst. destruct (k =? k2); auto.
  cbn; constructor; auto. rewrite keys_remove_key_In; tauto.
Qed.

Lemma In_remove_key : forall A k k' (v : A) l, In (k', v) (remove_key k l) <-> k' <> k /\ In (k', v) l.
Proof.
  induction l as [|[k2 v2] r IH]; cbn; [intuition|].
  destruct (k =? k2) eqn:E; cbn.
  - apply N.eqb_eq in E; subst. rewrite IH. split.
    + intros [? ?]; auto.
    + intros [Hne [Heq|Hin]]; [inversion Heq; subst; congruence|auto].
  - assert (k2 <> k) by (intros ->; rewrite N.eqb_refl in E; discriminate).
    rewrite IH. split.
    + intros [Heq|[? ?]]; [inversion Heq; subst; auto|auto].
    + intros [Hne [Heq|Hin]]; auto.
Qed.


(* ------------------------------------------------------------------ lists of processes *)
Lemma nth_error_set_nth_same : forall A (l : list A) i x y, nth_error l i = Some y -> nth_error (set_nth l i x) i = Some x.
Proof. induction l; destruct i; cbn; intros; try discriminate; eauto. Qed.

Lemma nth_error_set_nth_other : forall A (l : list A) i j x, i <> j -> nth_error (set_nth l i x) j = nth_error l j.
Proof. induction l; destruct i, j; cbn; intros; try congruence; auto. Qed.

Lemma set_nth_length : forall A (l : list A) i x, length (set_nth l i x) = length l.
Proof. induction l; destruct i; cbn; intros; auto. Qed.

Definition proc_at (s : state) (i : nat) (pr : proc) : Prop := nth_error (st_procs s) i = Some pr.

Lemma proc_at_upd : forall s i pr0 pr j prj,
  proc_at s i pr0 -> proc_at (upd_proc s i pr) j prj ->
  (j = i /\ prj = pr) \/ (j <> i /\ proc_at s j prj).
Proof.
  unfold proc_at; intros s i pr0 pr j prj H0 H. cbn in H.
  destruct (Nat.eq_dec i j) as [->|Hne].
  - rewrite (nth_error_set_nth_same _ _ _ _ _ H0) in H. inversion H; auto.
  - rewrite nth_error_set_nth_other in H by auto. right; split; auto.
Qed.

Lemma forallb_set_nth : forall A (f : A -> bool) l i x,
  forallb f l = true -> f x = true -> forallb f (set_nth l i x) = true.
Proof.
  induction l; destruct i; cbn; intros; auto; apply andb_true_iff in H; destruct H; apply andb_true_iff; auto.
Qed.

Lemma forallb_nth : forall A (f : A -> bool) l i x, forallb f l = true -> nth_error l i = Some x -> f x = true.
Proof.
  intros. rewrite forallb_forall in H. apply H. eapply nth_error_In; eauto.
Qed.

(* ------------------------------------------------------------------ control points after the helper functions *)
Lemma repo_mode_start : forall ops, repo_mode (start_pc ops) = None.
Proof. destruct ops as [|o r]; cbn; auto. destruct (o_kind o); reflexivity. Qed.

Definition pc_pkg_lock (pc : pcT) : bool :=
  match pc with UWrite | UUnlockPkg | GScanUnlock => true | _ => false end.

Lemma pkg_lock_none : forall pr, pc_pkg_lock (p_pc pr) = false -> pkg_lock pr = None.
Proof. unfold pkg_lock; intros pr; destruct (p_pc pr); cbn; intros; congruence. Qed.

Lemma pc_pkg_lock_start : forall ops, pc_pkg_lock (start_pc ops) = false.
Proof. destruct ops as [|o r]; cbn; auto. destruct (o_kind o); reflexivity. Qed.

Lemma finish_pc : forall pr r, p_pc (finish pr r) = start_pc (tl (p_ops pr)).
Proof. reflexivity. Qed.

Lemma use_return_pc : forall pr b,
  p_pc (use_return pr b) = IFinish \/ p_pc (use_return pr b) = UUnlink \/ p_pc (use_return pr b) = UUnshare.
Proof. unfold use_return; intros; destruct (o_kind (cur pr)); cbn; auto; destruct b; auto. Qed.

Lemma gc_return_pc : forall pr sz,
  p_pc (gc_return pr sz) = IFinish \/ p_pc (gc_return pr sz) = start_pc (tl (p_ops pr)).
Proof. unfold gc_return; intros; destruct (o_kind (cur pr)); cbn; auto. Qed.

Lemma move_next_inl : forall pr pr', move_next pr = inl pr' ->
  (pr' = set_pc pr GUnlock \/ pr' = set_pc pr GMove).
Proof.
  unfold move_next; intros pr pr' H. destruct (p_queue pr); [inversion H; auto|].
  destruct (gc_break pr c) as [[|]|]; inversion H; auto.
Qed.

Lemma after_scan_inl : forall pr pr', after_scan pr = inl pr' ->
  pr' = set_pc pr GScan \/
  (p_todo pr = [] /\ (pr' = set_pc (set_gc pr [] (p_cands pr) (sort_cands (p_cands pr)) [] (p_scan pr)) GUnlock \/
                      pr' = set_pc (set_gc pr [] (p_cands pr) (sort_cands (p_cands pr)) [] (p_scan pr)) GMove)).
Proof.
  unfold after_scan; intros pr pr' H. destruct (p_todo pr); [|inversion H; auto].
  right; split; auto. apply move_next_inl in H; auto.
Qed.

(* ------------------------------------------------------------------ case analysis of one step *)
Ltac step_cases H pr Hpr Hpc :=
  unfold step, commit in H;
  match type of H with context [nth_error ?l ?i] => destruct (nth_error l i) as [pr|] eqn:Hpr; [|discriminate H] end;
  destruct (p_pc pr) eqn:Hpc;
  repeat (match type of H with
          | context [if ?b then _ else _] => destruct b eqn:?
          | context [match ?x with _ => _ end] => destruct x eqn:?
          end);
  try discriminate H; inversion H; clear H.

Ltac simp_st :=
  cbn [st_store st_repo st_rtrunc st_links st_clk st_log st_procs upd_proc with_store with_repo with_links with_log
       p_pc p_ops p_res p_tmp p_attic p_meta p_dirty p_size p_inst p_pmeta p_todo p_cands p_queue p_done p_scan
       p_quota p_auto set_pc set_tmp set_attic set_repo_mem set_inst set_pmeta set_gc finish] in *.

(* the list of processes changes only at position i *)
Lemma step_procs : forall s i s', step s i = Some s' ->
  exists pr pr', proc_at s i pr /\ st_procs s' = set_nth (st_procs s) i pr'.
Proof.
  intros s i s' H. step_cases H pr Hpr Hpc; subst; unfold flush_repo;
    repeat match goal with |- context [if ?b then _ else _] => destruct b end;
    simp_st; eexists; eexists; (split; [exact Hpr|reflexivity]).
Qed.

Lemma step_proc_at_other : forall s i s' j prj, step s i = Some s' -> j <> i ->
  (proc_at s' j prj <-> proc_at s j prj).
Proof.
  intros s i s' j prj H Hne. destruct (step_procs _ _ _ H) as (pr & pr' & Hp & Heq).
  unfold proc_at. rewrite Heq. rewrite nth_error_set_nth_other by auto. tauto.
Qed.

Lemma step_proc_at_self : forall s i s', step s i = Some s' ->
  exists pr pr', proc_at s i pr /\ proc_at s' i pr'.
Proof.
  intros s i s' H. destruct (step_procs _ _ _ H) as (pr & pr' & Hp & Heq).
  exists pr, pr'. split; auto. unfold proc_at. rewrite Heq. eapply nth_error_set_nth_same; eauto.
Qed.

(* ------------------------------------------------------------------ the lock table excludes *)
Definition excl_repo (s : state) : Prop :=
  forall i j pi pj, i <> j -> proc_at s i pi -> proc_at s j pj ->
    repo_mode (p_pc pi) = Some true -> repo_mode (p_pc pj) = None.

Definition lock_evolves (m m' : option bool) (free_x free_s : bool) : Prop :=
  match m, m' with
  | None, Some true => free_x = true
  | None, Some false => free_s = true
  | None, None => True
  | Some a, Some b => a = b
  | Some _, None => True
  end.

Lemma step_repo_mode : forall s i s' pr pr', step s i = Some s' -> proc_at s i pr -> proc_at s' i pr' ->
  lock_evolves (repo_mode (p_pc pr)) (repo_mode (p_pc pr')) (repo_free_x s) (repo_free_s s).
Proof.
  intros s i s' pr0 pr' H Hp0 Hp'. unfold proc_at in *.
  step_cases H pr Hpr Hpc; subst; inversion Hp0; subst pr0; clear Hp0;
    unfold flush_repo in Hp';
    repeat match type of Hp' with context [if ?b then _ else _] => destruct b end;
    simp_st; rewrite (nth_error_set_nth_same _ _ _ _ _ Hpr) in Hp'; inversion Hp'; subst pr'; clear Hp';
    rewrite Hpc; simp_st; unfold lock_evolves; cbn [repo_mode];
    rewrite ?repo_mode_start; auto;
    try (match goal with |- context [use_return ?p ?b] => destruct (use_return_pc p b) as [E|[E|E]]; rewrite E; cbn; auto end);
    try (match goal with |- context [gc_return ?p ?b] => destruct (gc_return_pc p b) as [E|E]; rewrite E; rewrite ?repo_mode_start; cbn; auto end);
    try (match goal with E : after_scan _ = inl _ |- _ => apply after_scan_inl in E; destruct E as [E|[_ [E|E]]]; subst; cbn; auto end);
    try (match goal with E : move_next _ = inl _ |- _ => apply move_next_inl in E; destruct E as [E|E]; subst; cbn; auto end).
Qed.

Lemma excl_repo_init : forall procs, (forall pr, In pr procs -> repo_mode (p_pc pr) = None) -> excl_repo (init procs).
Proof.
  intros procs H i j pi pj _ _ Hj _. apply H. eapply nth_error_In; exact Hj.
Qed.

Lemma excl_repo_step : forall s i s', excl_repo s -> step s i = Some s' -> excl_repo s'.
Proof.
  intros s i s' Inv H a b pa pb Hab Ha Hb Hm.
  destruct (step_proc_at_self _ _ _ H) as (pr & pr' & Hp & Hp').
  pose proof (step_repo_mode _ _ _ _ _ H Hp Hp') as Hev.
  destruct (Nat.eq_dec a i) as [->|Hai]; destruct (Nat.eq_dec b i) as [->|Hbi]; try congruence.
  - assert (pa = pr') by (unfold proc_at in *; congruence); subst pa.
    apply (step_proc_at_other _ _ _ b pb H) in Hb; auto.
    rewrite Hm in Hev. destruct (repo_mode (p_pc pr)) as [m|] eqn:Em; cbn in Hev.
    + subst m. apply (Inv i b pr pb); auto.
    + unfold repo_free_x in Hev. pose proof (forallb_nth _ _ _ _ _ Hev Hb) as Hf. cbn in Hf.
      destruct (repo_mode (p_pc pb)); [discriminate|reflexivity].
  - assert (pb = pr') by (unfold proc_at in *; congruence); subst pb.
    apply (step_proc_at_other _ _ _ a pa H) in Ha; auto.
    assert (Hn : repo_mode (p_pc pr) = None) by (apply (Inv a i pa pr); auto).
    rewrite Hn in Hev. destruct (repo_mode (p_pc pr')) as [[|]|] eqn:Em'; cbn in Hev; auto.
    + unfold repo_free_x in Hev. pose proof (forallb_nth _ _ _ _ _ Hev Ha) as Hf. cbn in Hf. rewrite Hm in Hf; discriminate.
    + unfold repo_free_s in Hev. pose proof (forallb_nth _ _ _ _ _ Hev Ha) as Hf. cbn in Hf. rewrite Hm in Hf; discriminate.
  - apply (step_proc_at_other _ _ _ a pa H) in Ha; auto. apply (step_proc_at_other _ _ _ b pb H) in Hb; auto.
    apply (Inv a b pa pb); auto.
Qed.

(* a shared holder and an exclusive holder never coexist *)
Lemma excl_repo_shared : forall s i j pi pj, excl_repo s -> i <> j -> proc_at s i pi -> proc_at s j pj ->
  repo_mode (p_pc pi) = Some false -> repo_mode (p_pc pj) <> Some true.
Proof.
  intros s i j pi pj Inv Hne Hi Hj Hm Hx. rewrite (Inv j i pj pi) in Hm; auto; discriminate.
Qed.

(* ------------------------------------------------------------------ pkg.json locks *)
Definition pkg_evolves (a b : option (N * bool)) (s : state) : Prop :=
  match a, b with
  | None, Some (q, true) => pkg_free_x s q = true
  | None, Some (q, false) => pkg_free_s s q = true
  | Some x, Some y => x = y
  | _, None => True
  end.

Lemma start_pc_cases : forall ops,
  start_pc ops = PDone \/ start_pc ops = IStart \/ start_pc ops = UOpenRepo \/ start_pc ops = GStart \/ start_pc ops = XUnlink.
Proof. destruct ops as [|o r]; cbn; auto. destruct (o_kind o); auto. Qed.

Lemma pkg_lock_finish : forall pr r, pkg_lock (finish pr r) = None.
Proof. intros. apply pkg_lock_none. cbn. apply pc_pkg_lock_start. Qed.

Lemma pkg_lock_use_return : forall pr b, pkg_lock (use_return pr b) = None.
Proof. intros. apply pkg_lock_none. destruct (use_return_pc pr b) as [E|[E|E]]; rewrite E; reflexivity. Qed.

Lemma pkg_lock_gc_return : forall pr sz, pkg_lock (gc_return pr sz) = None.
Proof.
  intros. apply pkg_lock_none. destruct (gc_return_pc pr sz) as [E|E]; rewrite E; [reflexivity|apply pc_pkg_lock_start].
Qed.

Ltac norm_next :=
  repeat match goal with
  | E : after_scan _ = inl _ |- _ => apply after_scan_inl in E; destruct E as [E|[? [E|E]]]; subst
  | E : move_next _ = inl _ |- _ => apply move_next_inl in E; destruct E as [E|E]; subst
  end.

Lemma step_pkg_lock : forall s i s' pr pr', step s i = Some s' -> proc_at s i pr -> proc_at s' i pr' ->
  pkg_evolves (pkg_lock pr) (pkg_lock pr') s.
Proof.
  intros s i s' pr0 pr' H Hp0 Hp'. unfold proc_at in *.
  step_cases H pr Hpr Hpc; subst; inversion Hp0; subst pr0; clear Hp0;
    unfold flush_repo in Hp';
    repeat match type of Hp' with context [if ?b then _ else _] => destruct b end;
    simp_st; rewrite (nth_error_set_nth_same _ _ _ _ _ Hpr) in Hp'; inversion Hp'; subst pr'; clear Hp';
    norm_next;
    unfold pkg_evolves; rewrite ?pkg_lock_finish, ?pkg_lock_use_return, ?pkg_lock_gc_return;
    unfold pkg_lock at 1; rewrite Hpc;
    try (unfold pkg_lock; simp_st; unfold cur; simp_st; fold (cur pr); auto; fail);
    auto.
Qed.

Definition excl_pkg (s : state) : Prop :=
  forall i j pi pj q, i <> j -> proc_at s i pi -> proc_at s j pj ->
    pkg_lock pi = Some (q, true) -> forall m, pkg_lock pj <> Some (q, m).

Lemma pkg_free_x_nth : forall s q j pj m, pkg_free_x s q = true -> proc_at s j pj -> pkg_lock pj <> Some (q, m).
Proof.
  unfold pkg_free_x, proc_at; intros s q j pj m Hf Hj Hl.
  pose proof (forallb_nth _ _ _ _ _ Hf Hj) as H. cbn in H. rewrite Hl in H. rewrite N.eqb_refl in H. discriminate.
Qed.

Lemma pkg_free_s_nth : forall s q j pj, pkg_free_s s q = true -> proc_at s j pj -> pkg_lock pj <> Some (q, true).
Proof.
  unfold pkg_free_s, proc_at; intros s q j pj Hf Hj Hl.
  pose proof (forallb_nth _ _ _ _ _ Hf Hj) as H. cbn in H. rewrite Hl in H. rewrite N.eqb_refl in H. discriminate.
Qed.

Lemma excl_pkg_step : forall s i s', excl_pkg s -> step s i = Some s' -> excl_pkg s'.
Proof.
  intros s i s' Inv H a b pa pb q Hab Ha Hb Hl m Hl2.
  destruct (step_proc_at_self _ _ _ H) as (pr & pr' & Hp & Hp').
  pose proof (step_pkg_lock _ _ _ _ _ H Hp Hp') as Hev.
  destruct (Nat.eq_dec a i) as [->|Hai]; destruct (Nat.eq_dec b i) as [->|Hbi]; try congruence.
  - assert (pa = pr') by (unfold proc_at in *; congruence); subst pa.
    apply (step_proc_at_other _ _ _ b pb H) in Hb; auto.
    rewrite Hl in Hev. destruct (pkg_lock pr) as [x|] eqn:Em; cbn in Hev.
    + subst x. apply (Inv i b pr pb q Hab Hp Hb Em m Hl2).
    + exact (pkg_free_x_nth _ _ _ _ m Hev Hb Hl2).
  - assert (pb = pr') by (unfold proc_at in *; congruence); subst pb.
    apply (step_proc_at_other _ _ _ a pa H) in Ha; auto.
    rewrite Hl2 in Hev. destruct (pkg_lock pr) as [x|] eqn:Em; cbn in Hev.
    + subst x. apply (Inv a i pa pr q Hab Ha Hp Hl m Em).
    + destruct m.
      * exact (pkg_free_x_nth _ _ _ _ true Hev Ha Hl).
      * exact (pkg_free_s_nth _ _ _ _ Hev Ha Hl).
  - apply (step_proc_at_other _ _ _ a pa H) in Ha; auto. apply (step_proc_at_other _ _ _ b pb H) in Hb; auto.
    apply (Inv a b pa pb q Hab Ha Hb Hl m Hl2).
Qed.

(* ------------------------------------------------------------------ how one step changes the store *)
Lemma step_store_lookup : forall s i s' pr q, step s i = Some s' -> proc_at s i pr ->
  lookup q (st_store s') = lookup q (st_store s)
  \/ (p_pc pr = IRename /\ q = o_pkg (cur pr) /\ lookup q (st_store s) = None)
  \/ (p_pc pr = ULockPkg /\ q = o_pkg (cur pr) /\ pkg_free_x s q = true)
  \/ ((p_pc pr = UWrite \/ p_pc pr = UUnlockPkg) /\ q = o_pkg (cur pr))
  \/ (p_pc pr = GMove /\ lookup q (st_store s') = None).
Proof.
  intros s i s' pr0 q H Hp0. unfold proc_at in *.
  step_cases H pr Hpr Hpc; subst; inversion Hp0; subst pr0; clear Hp0;
    unfold flush_repo;
    repeat match goal with |- context [if ?b then _ else _] => destruct b end;
    simp_st; auto.
  all: try (destruct (N.eq_dec q (o_pkg (cur pr))) as [->|Hne];
            [|left; first [apply lookup_app_other; auto | apply lookup_set_key_other; auto]]).
  all: try (destruct (N.eq_dec q (c_id c)) as [->|Hne]; [|left; apply lookup_remove_key_other; auto]).
  all: try (right; left; repeat split; auto; apply has_key_false; auto; fail).
  all: try (right; right; left; repeat split; auto; fail).
  all: try (right; right; right; left; split; auto; fail).
  all: try (right; right; right; right; split; auto; apply lookup_remove_key_same).
Qed.

Lemma cur_set_pc : forall pr x, cur (set_pc pr x) = cur pr. Proof. reflexivity. Qed.
Lemma cur_set_tmp : forall pr x, cur (set_tmp pr x) = cur pr. Proof. reflexivity. Qed.
Lemma cur_set_attic : forall pr x, cur (set_attic pr x) = cur pr. Proof. reflexivity. Qed.
Lemma cur_set_repo_mem : forall pr a b c, cur (set_repo_mem pr a b c) = cur pr. Proof. reflexivity. Qed.
Lemma cur_set_inst : forall pr x, cur (set_inst pr x) = cur pr. Proof. reflexivity. Qed.
Lemma cur_set_pmeta : forall pr a b, cur (set_pmeta pr a b) = cur pr. Proof. reflexivity. Qed.
Lemma cur_set_gc : forall pr a b c d e, cur (set_gc pr a b c d e) = cur pr. Proof. reflexivity. Qed.
Ltac simp_cur := rewrite ?cur_set_pc, ?cur_set_tmp, ?cur_set_attic, ?cur_set_repo_mem, ?cur_set_inst, ?cur_set_pmeta, ?cur_set_gc in *.

Ltac inv_some :=
  repeat match goal with
  | E : Some ?a = Some ?b |- _ => assert_fails (constr_eq a b); inversion E; subst; try clear E
  end.

(* ------------------------------------------------------------------ pc membership helpers *)
Ltac pc_contra H :=
  (* H : p_pc X = <constructor>, where X is finish / use_return / gc_return / set_pc ... *)
  try discriminate H;
  try (cbn in H; discriminate H);
  try (rewrite finish_pc in H;
       match type of H with start_pc ?ops = _ =>
         destruct (start_pc_cases ops) as [E|[E|[E|[E|E]]]]; rewrite E in H; discriminate H end);
  try (match type of H with p_pc (use_return ?p ?b) = _ =>
         destruct (use_return_pc p b) as [E|[E|E]]; rewrite E in H; discriminate H end);
  try (match type of H with p_pc (gc_return ?p ?b) = _ =>
         destruct (gc_return_pc p b) as [E|E]; rewrite E in H; [discriminate H|];
         match type of H with start_pc ?ops = _ =>
           destruct (start_pc_cases ops) as [E2|[E2|[E2|[E2|E2]]]]; rewrite E2 in H; discriminate H end end).

(* ------------------------------------------------------------------ use: the copy of pkg.json in memory is the file *)
Definition use_locals (s : state) : Prop :=
  forall i pr, proc_at s i pr -> (p_pc pr = UWrite \/ p_pc pr = UUnlockPkg) ->
    exists d, lookup (o_pkg (cur pr)) (st_store s) = Some d /\ d_meta d = Some (p_pmeta pr) /\ d_trunc d = p_dirty pr.

Lemma pkg_lock_use : forall pr, (p_pc pr = UWrite \/ p_pc pr = UUnlockPkg) -> pkg_lock pr = Some (o_pkg (cur pr), true).
Proof. unfold pkg_lock; intros pr [E|E]; rewrite E; reflexivity. Qed.

Lemma repo_mode_use : forall pr, (p_pc pr = UWrite \/ p_pc pr = UUnlockPkg) -> repo_mode (p_pc pr) = Some false.
Proof. intros pr [E|E]; rewrite E; reflexivity. Qed.

Lemma use_locals_step : forall s i s', excl_repo s -> excl_pkg s -> use_locals s -> step s i = Some s' -> use_locals s'.
Proof.
  intros s i s' ER EP UL H j prj Hj Hpc.
  destruct (Nat.eq_dec j i) as [->|Hne].
  - (* the process that moved *)
    unfold proc_at in Hj.
    step_cases H pr Hpr Hpc0; subst;
      unfold flush_repo in Hj;
      repeat match type of Hj with context [if ?b then _ else _] => destruct b end;
      simp_st; rewrite (nth_error_set_nth_same _ _ _ _ _ Hpr) in Hj; inversion Hj; subst prj; clear Hj;
      norm_next;
      try (destruct Hpc as [Hpc|Hpc]; pc_contra Hpc; fail).
    + (* ULockPkg, already a user *)
      unfold disk_meta in *. destruct (d_trunc p) eqn:Et; [discriminate|].
      exists p. simp_st. unfold cur in *; simp_st. auto.
    + (* ULockPkg, appended *)
      eexists. unfold cur in *; simp_st. rewrite lookup_set_key_same. split; [reflexivity|]. cbn. auto.
    + (* UWrite, buffered *)
      destruct (UL i pr Hpr (or_introl Hpc0)) as (d & Hd & Hm & Ht).
      exists d. unfold cur in *; simp_st. auto.
    + (* UWrite, utime *)
      destruct (UL i pr Hpr (or_introl Hpc0)) as (d & Hd & Hm & Ht).
      eexists. unfold cur in *; simp_st. rewrite lookup_set_key_same. split; [reflexivity|].
      rewrite Hd in *. match goal with E : Some _ = Some _ |- _ => inversion E; subst end. cbn. auto.
  - (* another process moved *)
    apply (step_proc_at_other _ _ _ j prj H) in Hj; auto.
    destruct (UL j prj Hj Hpc) as (d & Hd & Hm & Ht).
    destruct (step_proc_at_self _ _ _ H) as (pr & pr' & Hp & Hp').
    destruct (step_store_lookup _ _ _ _ (o_pkg (cur prj)) H Hp) as [E|[(E1 & E2 & E3)|[(E1 & E2 & E3)|[(E1 & E2)|(E1 & E2)]]]].
    + exists d. rewrite E. auto.
    + congruence.
    + exfalso. eapply (pkg_free_x_nth s _ j prj true E3 Hj). apply pkg_lock_use; auto.
    + exfalso. apply (EP i j pr prj (o_pkg (cur prj))) with (m := true); auto.
      * rewrite E2. apply pkg_lock_use; auto.
      * apply pkg_lock_use; auto.
    + exfalso. assert (repo_mode (p_pc prj) = None).
      { apply (ER i j pr prj); auto. rewrite E1; reflexivity. }
      rewrite repo_mode_use in H0; auto. discriminate.
Qed.

(* ------------------------------------------------------------------ the package under construction in the temporary directory *)
Definition dir_ok (d : pdir) : Prop :=
  d_audit d = true /\ exists m, d_meta d = Some m /\ d_tree d = Some (m_hash m).

Definition tmp_ok (s : state) : Prop :=
  forall i pr, proc_at s i pr ->
    (p_pc pr = IMeta -> exists d, p_tmp pr = Some d /\ d_audit d = true /\ d_tree d = Some (o_expect (cur pr))) /\
    (p_pc pr = IRename -> exists d m, p_tmp pr = Some d /\ d_audit d = true /\ d_meta d = Some m /\
                          d_tree d = Some (m_hash m) /\ m_size m = o_size (cur pr) /\ d_trunc d = false).

Lemma tmp_ok_step : forall s i s', tmp_ok s -> step s i = Some s' -> tmp_ok s'.
Proof.
  intros s i s' T H j prj Hj.
  destruct (Nat.eq_dec j i) as [->|Hne].
  - unfold proc_at in Hj.
    step_cases H pr Hpr Hpc0; subst;
      unfold flush_repo in Hj;
      repeat match type of Hj with context [if ?b then _ else _] => destruct b end;
      simp_st; rewrite (nth_error_set_nth_same _ _ _ _ _ Hpr) in Hj; inversion Hj; subst prj; clear Hj;
      norm_next;
      try (split; intros Hpc; pc_contra Hpc; fail).
    + (* ICopy -> IMeta *)
      split; intros Hpc; [|discriminate Hpc].
      eexists; split; [reflexivity|]. simp_cur. apply N.eqb_eq in Heqb. cbn [d_audit d_tree]. rewrite Heqb. auto.
    + (* IMeta -> IRename *)
      split; intros Hpc; [discriminate Hpc|].
      destruct (T i pr Hpr) as [T1 _]. destruct (T1 Hpc0) as (d & Hd & Ha & Ht).
      rewrite Hd in *. match goal with E : Some _ = Some _ |- _ => inversion E; subst end.
      eexists; eexists; split; [reflexivity|]. simp_cur. cbn. auto 6.
  - apply (step_proc_at_other _ _ _ j prj H) in Hj; auto. apply (T j prj Hj).
Qed.

(* ------------------------------------------------------------------ visible => complete and hashed *)
Definition visible_ok (s : state) : Prop :=
  forall q d, lookup q (st_store s) = Some d -> dir_ok d.

Lemma lookup_remove_key_some : forall A k k' (v : A) l, lookup k' (remove_key k l) = Some v -> lookup k' l = Some v.
Proof.
  intros A k k' v l H. destruct (N.eq_dec k' k) as [->|Hne].
  - rewrite lookup_remove_key_same in H; discriminate.
  - rewrite lookup_remove_key_other in H; auto.
Qed.

Lemma visible_ok_step : forall s i s', tmp_ok s -> use_locals s -> visible_ok s -> step s i = Some s' -> visible_ok s'.
Proof.
  intros s i s' T UL V H q d Hq.
  step_cases H pr Hpr Hpc0; subst;
    unfold flush_repo in Hq;
    repeat match type of Hq with context [if ?b then _ else _] => destruct b end;
    simp_st; norm_next; simp_st;
    try (apply (V q d Hq); fail);
    try (apply lookup_remove_key_some in Hq; apply (V q d Hq); fail).
  - (* IRename *)
    destruct (N.eq_dec q (o_pkg (cur pr))) as [->|Hne].
    + rewrite lookup_app_new in Hq by (apply has_key_false; auto). inversion Hq; subst.
      destruct (T i pr Hpr) as [_ T2]. destruct (T2 Hpc0) as (d0 & m & Hd & Ha & Hm & Ht & _).
      rewrite Hd in *. inv_some.
      split; eauto.
    + rewrite lookup_app_other in Hq by auto. apply (V q d Hq).
  - (* ULockPkg: users.append *)
    destruct (N.eq_dec q (o_pkg (cur pr))) as [->|Hne].
    + rewrite lookup_set_key_same in Hq. inversion Hq; subst; clear Hq.
      destruct (V _ _ Heqo) as (Ha & m0 & Hm0 & Ht0).
      unfold disk_meta in *. destruct (d_trunc p); [discriminate|]. rewrite Hm0 in *. inv_some.
      split; cbn; eauto.
    + rewrite lookup_set_key_other in Hq by auto. apply (V q d Hq).
  - (* UWrite: utime *)
    destruct (N.eq_dec q (o_pkg (cur pr))) as [->|Hne].
    + rewrite lookup_set_key_same in Hq. inversion Hq; subst; clear Hq.
      destruct (V _ _ Heqo) as (Ha & m0 & Hm0 & Ht0). split; cbn; eauto.
    + rewrite lookup_set_key_other in Hq by auto. apply (V q d Hq).
  - (* UUnlockPkg: flush *)
    destruct (N.eq_dec q (o_pkg (cur pr))) as [->|Hne].
    + rewrite lookup_set_key_same in Hq. inversion Hq; subst; clear Hq.
      destruct (UL i pr Hpr (or_intror Hpc0)) as (d0 & Hd0 & Hm0 & _).
      rewrite Hd0 in *. inv_some.
      destruct (V _ _ Hd0) as (Ha & m1 & Hm1 & Ht1). rewrite Hm0 in Hm1. inversion Hm1; subst.
      split; cbn; eauto.
    + rewrite lookup_set_key_other in Hq by auto. apply (V q d Hq).
Qed.

(* ------------------------------------------------------------------ recorded size of an installed package *)
Definition lsize (s : state) (q : N) : option N :=
  match lookup q (st_store s) with
  | Some d => match d_meta d with Some m => Some (m_size m) | None => None end
  | None => None
  end.

Lemma step_lsize : forall s i s' pr q, use_locals s -> tmp_ok s -> step s i = Some s' -> proc_at s i pr ->
  lsize s' q = lsize s q
  \/ (p_pc pr = IRename /\ q = o_pkg (cur pr) /\ lookup q (st_store s) = None /\ lsize s' q = Some (o_size (cur pr)))
  \/ (p_pc pr = GMove /\ lookup q (st_store s') = None /\ exists c rest, p_queue pr = c :: rest /\ q = c_id c /\ g_dry pr = false).
Proof.
  intros s i s' pr0 q UL T H Hp0. unfold proc_at in *. unfold lsize.
  step_cases H pr Hpr Hpc; subst; inversion Hp0; subst pr0; clear Hp0;
    unfold flush_repo;
    repeat match goal with |- context [if ?b then _ else _] => destruct b end;
    simp_st; auto.
  all: try (destruct (N.eq_dec q (o_pkg (cur pr))) as [->|Hne];
            [|left; first [rewrite lookup_app_other by auto; reflexivity | rewrite lookup_set_key_other by auto; reflexivity]]).
  all: try (destruct (N.eq_dec q (c_id c)) as [->|Hne];
            [right; right; split; [auto|split; [apply lookup_remove_key_same|eauto 6]]
            |left; rewrite lookup_remove_key_other by auto; reflexivity]).
  - (* IRename *)
    right; left. destruct (T i pr Hpr) as [_ T2]. destruct (T2 Hpc) as (d0 & m & Hd & Ha & Hm & Ht & Hs & _).
    rewrite Hd in *. inv_some. repeat split; auto; [apply has_key_false; auto|].
    rewrite lookup_app_new by (apply has_key_false; auto). rewrite Hm. congruence.
  - (* ULockPkg *)
    left. rewrite lookup_set_key_same, Heqo. cbn. unfold disk_meta in *.
    destruct (d_trunc p); [discriminate|]. rewrite Heqo0. reflexivity.
  - (* UWrite utime *)
    left. rewrite lookup_set_key_same, Heqo. cbn. reflexivity.
  - (* UUnlockPkg flush *)
    left. rewrite lookup_set_key_same, Heqo. cbn.
    destruct (UL i pr Hpr (or_intror Hpc)) as (d0 & Hd0 & Hm0 & _). rewrite Hd0 in *. inv_some. rewrite Hm0. reflexivity.
Qed.

(* ------------------------------------------------------------------ sorting *)
Lemma In_insert_cand : forall c x l, In c (insert_cand x l) <-> c = x \/ In c l.
Proof.
  induction l as [|y r IH]; cbn; [intuition|].
  destruct (cand_leb x y); cbn; [intuition|]. rewrite IH. intuition.
Qed.

Lemma In_sort_cands : forall c l, In c (sort_cands l) <-> In c l.
Proof.
  induction l as [|y r IH]; cbn; [tauto|]. rewrite In_insert_cand, IH. intuition.
Qed.

(* ------------------------------------------------------------------ where gc candidates come from *)
Definition new_scan (s : state) (pr : proc) (c : cand) : Prop :=
  p_pc pr = GScanLock /\
  exists sz rest d m, p_todo pr = (c_id c, sz) :: rest /\ pkg_free_s s (c_id c) = true /\
     lookup (c_id c) (st_store s) = Some d /\ disk_meta d = Some m /\
     c_unused c = (check_unused (st_links s) (m_users m) (c_id c) && negb (is_newpkg pr (c_id c))).

Lemma gphase_start : forall ops, gphase (start_pc ops) = false.
Proof. intros ops; destruct (start_pc_cases ops) as [E|[E|[E|[E|E]]]]; rewrite E; reflexivity. Qed.

Lemma gphase_use_return : forall pr b, gphase (p_pc (use_return pr b)) = false.
Proof. intros; destruct (use_return_pc pr b) as [E|[E|E]]; rewrite E; reflexivity. Qed.

Lemma gphase_gc_return : forall pr b, gphase (p_pc (gc_return pr b)) = false.
Proof. intros; destruct (gc_return_pc pr b) as [E|E]; rewrite E; [reflexivity|apply gphase_start]. Qed.

Lemma step_cands : forall s k s' pr pr', step s k = Some s' -> proc_at s k pr -> proc_at s' k pr' ->
  gphase (p_pc pr') = true ->
  (p_pc pr = GLock /\ p_cands pr' = [] /\ p_queue pr' = []) \/
  (gphase (p_pc pr) = true /\ p_ops pr' = p_ops pr /\
   forall c, In c (p_cands pr') \/ In c (p_queue pr') -> (In c (p_cands pr) \/ In c (p_queue pr)) \/ new_scan s pr c).
Proof.
  intros s k s' pr0 pr' H Hp0 Hp' Hg. unfold proc_at in *.
  step_cases H pr Hpr Hpc; subst; inversion Hp0; subst pr0; clear Hp0;
    unfold flush_repo in Hp';
    repeat match type of Hp' with context [if ?b then _ else _] => destruct b end;
    simp_st; rewrite (nth_error_set_nth_same _ _ _ _ _ Hpr) in Hp'; inversion Hp'; subst pr'; clear Hp';
    norm_next;
    try (rewrite finish_pc, gphase_start in Hg; discriminate Hg);
    try (rewrite gphase_use_return in Hg; discriminate Hg);
    try (rewrite gphase_gc_return in Hg; discriminate Hg);
    try (cbn in Hg; discriminate Hg);
    try (left; simp_st; auto; fail);
    right; rewrite Hpc; (split; [reflexivity|]); (split; [reflexivity|]); simp_st; intros c0 Hc;
    try (left; exact Hc).
  - (* GScan, package directory is gone, last one: sort *)
    left. destruct Hc as [Hc|Hc]; auto. apply In_sort_cands in Hc; auto.
  - left. destruct Hc as [Hc|Hc]; auto. apply In_sort_cands in Hc; auto.
  - (* GScanLock *)
    destruct Hc as [Hc|Hc]; [|auto].
    match type of Hc with In _ (if ?b then _ else _) => destruct b end; [|auto].
    apply in_app_iff in Hc. destruct Hc as [Hc|[Hc|[]]]; [auto|]. subst c0.
    right. split; [assumption|]. cbn [c_id c_unused]. eauto 10.
  - (* GScanUnlock, last one: sort *)
    left. destruct Hc as [Hc|Hc]; auto. apply In_sort_cands in Hc; auto.
  - left. destruct Hc as [Hc|Hc]; auto. apply In_sort_cands in Hc; auto.
  - (* GMove dry *)
    left. destruct Hc as [Hc|Hc]; auto. right. rewrite Heql. right; auto.
  - left. destruct Hc as [Hc|Hc]; auto. right. rewrite Heql. right; auto.
Qed.
