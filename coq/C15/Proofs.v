(* C15 — proofs about the LTS of Model.v: invariants over all interleavings,
   by induction on the schedule. *)
From Coq Require Import List NArith Bool Arith Lia Permutation Sorted.
Require Import BobV.C15.Model.
Import ListNotations.
Open Scope N_scope.

(* ------------------------------------------------------------------ association lists *)
Lemma lookup_set_key_same : forall A k (v : A) l, lookup k (set_key k v l) = Some v.
Proof.
  induction l as [|[k' v'] r IH]; cbn; [rewrite N.eqb_refl; reflexivity|].
  destruct (k =? k') eqn:E; cbn; rewrite ?N.eqb_refl, ?E; auto.
Qed.

Lemma lookup_set_key_other : forall A k k' (v : A) l, k' <> k -> lookup k' (set_key k v l) = lookup k' l.
Proof.
  induction l as [|[k2 v2] r IH]; intros Hne; cbn.
  - destruct (k' =? k) eqn:E; [apply N.eqb_eq in E; congruence|reflexivity].
  - destruct (k =? k2) eqn:E; cbn.
    + apply N.eqb_eq in E; subst k2.
      destruct (k' =? k) eqn:E2; [apply N.eqb_eq in E2; congruence|reflexivity].
    + destruct (k' =? k2); auto.
Qed.

Lemma lookup_remove_key_same : forall A k (l : list (N * A)), lookup k (remove_key k l) = None.
Proof.
  induction l as [|[k' v'] r IH]; cbn; auto.
  destruct (k =? k') eqn:E; cbn; rewrite ?E; auto.
Qed.

Lemma lookup_remove_key_other : forall A k k' (l : list (N * A)), k' <> k -> lookup k' (remove_key k l) = lookup k' l.
Proof.
  induction l as [|[k2 v2] r IH]; intros Hne; cbn; auto.
  destruct (k =? k2) eqn:E; cbn.
  - apply N.eqb_eq in E; subst k2. destruct (k' =? k) eqn:E2; [apply N.eqb_eq in E2; congruence|auto].
  - destruct (k' =? k2); auto.
Qed.

Lemma lookup_app_new : forall A k (v : A) l, lookup k l = None -> lookup k (l ++ [(k, v)]) = Some v.
Proof.
  induction l as [|[k2 v2] r IH]; cbn; intros H; [rewrite N.eqb_refl; reflexivity|].
  destruct (k =? k2); [discriminate|auto].
Qed.

Lemma lookup_app_other : forall A k k' (v : A) l, k' <> k -> lookup k' (l ++ [(k, v)]) = lookup k' l.
Proof.
  induction l as [|[k2 v2] r IH]; cbn; intros H.
  - destruct (k' =? k) eqn:E; [apply N.eqb_eq in E; congruence|reflexivity].
  - destruct (k' =? k2); auto.
Qed.

Lemma has_key_lookup : forall A k (l : list (N * A)), has_key k l = true <-> exists v, lookup k l = Some v.
Proof.
  unfold has_key; intros; destruct (lookup k l); split; intros H; eauto; try discriminate.
  destruct H; discriminate.
Qed.

Lemma has_key_false : forall A k (l : list (N * A)), has_key k l = false <-> lookup k l = None.
Proof. unfold has_key; intros; destruct (lookup k l); split; intros; congruence. Qed.

Lemma lookup_In : forall A k (v : A) l, lookup k l = Some v -> In (k, v) l.
Proof.
  induction l as [|[k2 v2] r IH]; cbn; intros H; [discriminate|].
  destruct (k =? k2) eqn:E; [apply N.eqb_eq in E; inversion H; subst; auto|auto].
Qed.

Lemma In_keys_lookup : forall A k (l : list (N * A)), In k (map fst l) <-> exists v, lookup k l = Some v.
Proof.
  induction l as [|[k2 v2] r IH]; cbn; split; intros H.
  - destruct H.
  - destruct H; discriminate.
  - destruct (k =? k2) eqn:E; eauto. destruct H as [H|H]; [subst; rewrite N.eqb_refl in E; discriminate|apply IH; auto].
  - destruct (k =? k2) eqn:E; [apply N.eqb_eq in E; auto|right; apply IH; auto].
Qed.

Lemma NoDup_lookup_In : forall A k (v : A) l, NoDup (map fst l) -> In (k, v) l -> lookup k l = Some v.
Proof.
  induction l as [|[k2 v2] r IH]; cbn; intros ND H; [destruct H|].
  inversion ND; subst. destruct H as [H|H].
  - inversion H; subst. rewrite N.eqb_refl; reflexivity.
  - destruct (k =? k2) eqn:E; [|auto].
    apply N.eqb_eq in E; subst. exfalso; apply H2. apply in_map_iff; exists (k2, v); auto.
Qed.

Lemma keys_set_key_In : forall A k k' (v : A) l, In k' (map fst (set_key k v l)) <-> k' = k \/ In k' (map fst l).
Proof.
  induction l as [|[k2 v2] r IH]; cbn; [intuition|].
  destruct (k =? k2) eqn:E; cbn.
  - apply N.eqb_eq in E; subst; intuition.
  - rewrite IH; intuition.
Qed.

Lemma NoDup_set_key : forall A k (v : A) l, NoDup (map fst l) -> NoDup (map fst (set_key k v l)).
Proof.
  induction l as [|[k2 v2] r IH]; cbn; intros ND; [constructor; auto; constructor|].
  inversion ND; subst.
  destruct (k =? k2) eqn:E; cbn.
  - apply N.eqb_eq in E; subst; constructor; auto.
  - constructor; auto. rewrite keys_set_key_In. intros [H|H]; [subst; rewrite N.eqb_refl in E; discriminate|auto].
Qed.

Lemma keys_remove_key_In : forall A k k' (l : list (N * A)), In k' (map fst (remove_key k l)) <-> k' <> k /\ In k' (map fst l).
Proof.
  induction l as [|[k2 v2] r IH]; cbn; [intuition|].
  destruct (k =? k2) eqn:E; cbn.
  - apply N.eqb_eq in E; subst. rewrite IH. intuition. subst; tauto.
  - rewrite IH. assert (k2 <> k) by (intros ->; rewrite N.eqb_refl in E; discriminate). intuition; subst; auto.
Qed.

Lemma NoDup_remove_key : forall A k (l : list (N * A)), NoDup (map fst l) -> NoDup (map fst (remove_key k l)).
Proof.
  induction l as [|[k2 v2] r IH]; cbn; intros ND; auto.
  inversion ND; subst. destruct (k =? k2); auto.
  cbn; constructor; auto. rewrite keys_remove_key_In; tauto.
Qed.

Lemma In_remove_key : forall A k k' (v : A) l, In (k', v) (remove_key k l) <-> k' <> k /\ In (k', v) l.
Proof.
  induction l as [|[k2 v2] r IH]; cbn; [intuition|].
  destruct (k =? k2) eqn:E; cbn.
  - apply N.eqb_eq in E; subst. rewrite IH. split.
    + intros [? ?]; auto.
    + intros [Hne [Heq|Hin]]; [inversion Heq; subst; congruence|auto].
  - assert (k2 <> k) by (intros ->; rewrite N.eqb_refl in E; discriminate).
    rewrite IH. split.
    + intros [Heq|[? ?]]; [inversion Heq; subst; auto|auto].
    + intros [Hne [Heq|Hin]]; auto.
Qed.


(* ------------------------------------------------------------------ lists of processes *)
Lemma nth_error_set_nth_same : forall A (l : list A) i x y, nth_error l i = Some y -> nth_error (set_nth l i x) i = Some x.
Proof. induction l; destruct i; cbn; intros; try discriminate; eauto. Qed.

Lemma nth_error_set_nth_other : forall A (l : list A) i j x, i <> j -> nth_error (set_nth l i x) j = nth_error l j.
Proof. induction l; destruct i, j; cbn; intros; try congruence; auto. Qed.

Lemma set_nth_length : forall A (l : list A) i x, length (set_nth l i x) = length l.
Proof. induction l; destruct i; cbn; intros; auto. Qed.

Definition proc_at (s : state) (i : nat) (pr : proc) : Prop := nth_error (st_procs s) i = Some pr.

Lemma proc_at_upd : forall s i pr0 pr j prj,
  proc_at s i pr0 -> proc_at (upd_proc s i pr) j prj ->
  (j = i /\ prj = pr) \/ (j <> i /\ proc_at s j prj).
Proof.
  unfold proc_at; intros s i pr0 pr j prj H0 H. cbn in H.
  destruct (Nat.eq_dec i j) as [->|Hne].
  - rewrite (nth_error_set_nth_same _ _ _ _ _ H0) in H. inversion H; auto.
  - rewrite nth_error_set_nth_other in H by auto. right; split; auto.
Qed.

Lemma forallb_set_nth : forall A (f : A -> bool) l i x,
  forallb f l = true -> f x = true -> forallb f (set_nth l i x) = true.
Proof.
  induction l; destruct i; cbn; intros; auto; apply andb_true_iff in H; destruct H; apply andb_true_iff; auto.
Qed.

Lemma forallb_nth : forall A (f : A -> bool) l i x, forallb f l = true -> nth_error l i = Some x -> f x = true.
Proof.
  intros. rewrite forallb_forall in H. apply H. eapply nth_error_In; eauto.
Qed.

(* ------------------------------------------------------------------ control points after the helper functions *)
Lemma repo_mode_start : forall ops, repo_mode (start_pc ops) = None.
Proof. destruct ops as [|o r]; cbn; auto. destruct (o_kind o); reflexivity. Qed.

Definition pc_pkg_lock (pc : pcT) : bool :=
  match pc with UWrite | UUnlockPkg | GScanUnlock => true | _ => false end.

Lemma pkg_lock_none : forall pr, pc_pkg_lock (p_pc pr) = false -> pkg_lock pr = None.
Proof. unfold pkg_lock; intros pr; destruct (p_pc pr); cbn; intros; congruence. Qed.

Lemma pc_pkg_lock_start : forall ops, pc_pkg_lock (start_pc ops) = false.
Proof. destruct ops as [|o r]; cbn; auto. destruct (o_kind o); reflexivity. Qed.

Lemma finish_pc : forall pr r, p_pc (finish pr r) = start_pc (tl (p_ops pr)).
Proof. reflexivity. Qed.

Lemma use_return_pc : forall pr b,
  p_pc (use_return pr b) = IFinish \/ p_pc (use_return pr b) = UUnlink \/ p_pc (use_return pr b) = UUnshare.
Proof. unfold use_return; intros; destruct (o_kind (cur pr)); cbn; auto; destruct b; auto. Qed.

Lemma gc_return_pc : forall pr sz,
  p_pc (gc_return pr sz) = IFinish \/ p_pc (gc_return pr sz) = start_pc (tl (p_ops pr)).
Proof. unfold gc_return; intros; destruct (o_kind (cur pr)); cbn; auto. Qed.

Lemma move_next_inl : forall pr pr', move_next pr = inl pr' ->
  (pr' = set_pc pr GUnlock \/ pr' = set_pc pr GMove).
Proof.
  unfold move_next; intros pr pr' H. destruct (p_queue pr); [inversion H; auto|].
  destruct (gc_break pr c) as [[|]|]; inversion H; auto.
Qed.

Lemma after_scan_inl : forall pr pr', after_scan pr = inl pr' ->
  pr' = set_pc pr GScan \/
  (p_todo pr = [] /\ (pr' = set_pc (set_gc pr [] (p_cands pr) (sort_cands (p_cands pr)) [] (p_scan pr)) GUnlock \/
                      pr' = set_pc (set_gc pr [] (p_cands pr) (sort_cands (p_cands pr)) [] (p_scan pr)) GMove)).
Proof.
  unfold after_scan; intros pr pr' H. destruct (p_todo pr); [|inversion H; auto].
  right; split; auto. apply move_next_inl in H; auto.
Qed.

(* ------------------------------------------------------------------ case analysis of one step *)
Ltac step_cases H pr Hpr Hpc :=
  unfold step, commit in H;
  match type of H with context [nth_error ?l ?i] => destruct (nth_error l i) as [pr|] eqn:Hpr; [|discriminate H] end;
  destruct (p_pc pr) eqn:Hpc;
  repeat (match type of H with
          | context [if ?b then _ else _] => destruct b eqn:?
          | context [match ?x with _ => _ end] => destruct x eqn:?
          end);
  try discriminate H; inversion H; clear H.

Ltac simp_st :=
  cbn [st_dir st_store st_repo st_rtrunc st_links st_clk st_log st_procs upd_proc with_store with_repo with_links with_log with_dir
       p_pc p_ops p_res p_tmp p_attic p_meta p_dirty p_size p_inst p_pmeta p_todo p_cands p_queue p_done p_scan
       p_quota p_auto set_pc set_tmp set_attic set_repo_mem set_inst set_pmeta set_gc finish] in *.

(* the list of processes changes only at position i *)
Lemma step_procs : forall s i s', step s i = Some s' ->
  exists pr pr', proc_at s i pr /\ st_procs s' = set_nth (st_procs s) i pr'.
Proof.
  intros s i s' H. step_cases H pr Hpr Hpc; subst; unfold flush_repo;
    repeat match goal with |- context [if ?b then _ else _] => destruct b end;
    simp_st; eexists; eexists; (split; [exact Hpr|reflexivity]).
Qed.

Lemma step_proc_at_other : forall s i s' j prj, step s i = Some s' -> j <> i ->
  (proc_at s' j prj <-> proc_at s j prj).
Proof.
  intros s i s' j prj H Hne. destruct (step_procs _ _ _ H) as (pr & pr' & Hp & Heq).
  unfold proc_at. rewrite Heq. rewrite nth_error_set_nth_other by auto. tauto.
Qed.

Lemma step_proc_at_self : forall s i s', step s i = Some s' ->
  exists pr pr', proc_at s i pr /\ proc_at s' i pr'.
Proof.
  intros s i s' H. destruct (step_procs _ _ _ H) as (pr & pr' & Hp & Heq).
  exists pr, pr'. split; auto. unfold proc_at. rewrite Heq. eapply nth_error_set_nth_same; eauto.
Qed.

(* ------------------------------------------------------------------ the lock table excludes *)
Definition excl_repo (s : state) : Prop :=
  forall i j pi pj, i <> j -> proc_at s i pi -> proc_at s j pj ->
    repo_mode (p_pc pi) = Some true -> repo_mode (p_pc pj) = None.

Definition lock_evolves (m m' : option bool) (free_x free_s : bool) : Prop :=
  match m, m' with
  | None, Some true => free_x = true
  | None, Some false => free_s = true
  | None, None => True
  | Some a, Some b => a = b
  | Some _, None => True
  end.

Lemma step_repo_mode : forall s i s' pr pr', step s i = Some s' -> proc_at s i pr -> proc_at s' i pr' ->
  lock_evolves (repo_mode (p_pc pr)) (repo_mode (p_pc pr')) (repo_free_x s) (repo_free_s s).
Proof.
  intros s i s' pr0 pr' H Hp0 Hp'. unfold proc_at in *.
  step_cases H pr Hpr Hpc; subst; inversion Hp0; subst pr0; clear Hp0;
    unfold flush_repo in Hp';
    repeat match type of Hp' with context [if ?b then _ else _] => destruct b end;
    simp_st; rewrite (nth_error_set_nth_same _ _ _ _ _ Hpr) in Hp'; inversion Hp'; subst pr'; clear Hp';
    rewrite Hpc; simp_st; unfold lock_evolves; cbn [repo_mode];
    rewrite ?repo_mode_start; auto;
    try (match goal with |- context [use_return ?p ?b] => destruct (use_return_pc p b) as [E|[E|E]]; rewrite E; cbn; auto end);
    try (match goal with |- context [gc_return ?p ?b] => destruct (gc_return_pc p b) as [E|E]; rewrite E; rewrite ?repo_mode_start; cbn; auto end);
    try (match goal with E : after_scan _ = inl _ |- _ => apply after_scan_inl in E; destruct E as [E|[_ [E|E]]]; subst; cbn; auto end);
    try (match goal with E : move_next _ = inl _ |- _ => apply move_next_inl in E; destruct E as [E|E]; subst; cbn; auto end).
Qed.

Section WithDir.
Variable dir : bool.   (* does the store directory exist at the beginning *)

Lemma excl_repo_init : forall procs, (forall pr, In pr procs -> repo_mode (p_pc pr) = None) -> excl_repo (init dir procs).
Proof.
  intros procs H i j pi pj _ _ Hj _. apply H. eapply nth_error_In; exact Hj.
Qed.

Lemma excl_repo_step : forall s i s', excl_repo s -> step s i = Some s' -> excl_repo s'.
Proof.
  intros s i s' Inv H a b pa pb Hab Ha Hb Hm.
  destruct (step_proc_at_self _ _ _ H) as (pr & pr' & Hp & Hp').
  pose proof (step_repo_mode _ _ _ _ _ H Hp Hp') as Hev.
  destruct (Nat.eq_dec a i) as [->|Hai]; destruct (Nat.eq_dec b i) as [->|Hbi]; try congruence.
  - assert (pa = pr') by (unfold proc_at in *; congruence); subst pa.
    apply (step_proc_at_other _ _ _ b pb H) in Hb; auto.
    rewrite Hm in Hev. destruct (repo_mode (p_pc pr)) as [m|] eqn:Em; cbn in Hev.
    + subst m. apply (Inv i b pr pb); auto.
    + unfold repo_free_x in Hev. pose proof (forallb_nth _ _ _ _ _ Hev Hb) as Hf. cbn in Hf.
      destruct (repo_mode (p_pc pb)); [discriminate|reflexivity].
  - assert (pb = pr') by (unfold proc_at in *; congruence); subst pb.
    apply (step_proc_at_other _ _ _ a pa H) in Ha; auto.
    assert (Hn : repo_mode (p_pc pr) = None) by (apply (Inv a i pa pr); auto).
    rewrite Hn in Hev. destruct (repo_mode (p_pc pr')) as [[|]|] eqn:Em'; cbn in Hev; auto.
    + unfold repo_free_x in Hev. pose proof (forallb_nth _ _ _ _ _ Hev Ha) as Hf. cbn in Hf. rewrite Hm in Hf; discriminate.
    + unfold repo_free_s in Hev. pose proof (forallb_nth _ _ _ _ _ Hev Ha) as Hf. cbn in Hf. rewrite Hm in Hf; discriminate.
  - apply (step_proc_at_other _ _ _ a pa H) in Ha; auto. apply (step_proc_at_other _ _ _ b pb H) in Hb; auto.
    apply (Inv a b pa pb); auto.
Qed.

(* a shared holder and an exclusive holder never coexist *)
Lemma excl_repo_shared : forall s i j pi pj, excl_repo s -> i <> j -> proc_at s i pi -> proc_at s j pj ->
  repo_mode (p_pc pi) = Some false -> repo_mode (p_pc pj) <> Some true.
Proof.
  intros s i j pi pj Inv Hne Hi Hj Hm Hx. rewrite (Inv j i pj pi) in Hm; auto; discriminate.
Qed.

(* ------------------------------------------------------------------ pkg.json locks *)
Definition pkg_evolves (a b : option (N * bool)) (s : state) : Prop :=
  match a, b with
  | None, Some (q, true) => pkg_free_x s q = true
  | None, Some (q, false) => pkg_free_s s q = true
  | Some x, Some y => x = y
  | _, None => True
  end.

Lemma start_pc_cases : forall ops,
  start_pc ops = PDone \/ start_pc ops = IStart \/ start_pc ops = UOpenRepo \/ start_pc ops = GStart \/ start_pc ops = XUnlink.
Proof. destruct ops as [|o r]; cbn; auto. destruct (o_kind o); auto. Qed.

Lemma pkg_lock_finish : forall pr r, pkg_lock (finish pr r) = None.
Proof. intros. apply pkg_lock_none. cbn. apply pc_pkg_lock_start. Qed.

Lemma pkg_lock_use_return : forall pr b, pkg_lock (use_return pr b) = None.
Proof. intros. apply pkg_lock_none. destruct (use_return_pc pr b) as [E|[E|E]]; rewrite E; reflexivity. Qed.

Lemma pkg_lock_gc_return : forall pr sz, pkg_lock (gc_return pr sz) = None.
Proof.
  intros. apply pkg_lock_none. destruct (gc_return_pc pr sz) as [E|E]; rewrite E; [reflexivity|apply pc_pkg_lock_start].
Qed.

Ltac norm_next :=
  repeat match goal with
  | E : after_scan _ = inl _ |- _ => apply after_scan_inl in E; destruct E as [E|[? [E|E]]]; subst
  | E : move_next _ = inl _ |- _ => apply move_next_inl in E; destruct E as [E|E]; subst
  end.

Lemma step_pkg_lock : forall s i s' pr pr', step s i = Some s' -> proc_at s i pr -> proc_at s' i pr' ->
  pkg_evolves (pkg_lock pr) (pkg_lock pr') s.
Proof.
  intros s i s' pr0 pr' H Hp0 Hp'. unfold proc_at in *.
  step_cases H pr Hpr Hpc; subst; inversion Hp0; subst pr0; clear Hp0;
    unfold flush_repo in Hp';
    repeat match type of Hp' with context [if ?b then _ else _] => destruct b end;
    simp_st; rewrite (nth_error_set_nth_same _ _ _ _ _ Hpr) in Hp'; inversion Hp'; subst pr'; clear Hp';
    norm_next;
    unfold pkg_evolves; rewrite ?pkg_lock_finish, ?pkg_lock_use_return, ?pkg_lock_gc_return;
    unfold pkg_lock at 1; rewrite Hpc;
    try (unfold pkg_lock; simp_st; unfold cur; simp_st; fold (cur pr); auto; fail);
    auto.
Qed.

Definition excl_pkg (s : state) : Prop :=
  forall i j pi pj q, i <> j -> proc_at s i pi -> proc_at s j pj ->
    pkg_lock pi = Some (q, true) -> forall m, pkg_lock pj <> Some (q, m).

Lemma pkg_free_x_nth : forall s q j pj m, pkg_free_x s q = true -> proc_at s j pj -> pkg_lock pj <> Some (q, m).
Proof.
  unfold pkg_free_x, proc_at; intros s q j pj m Hf Hj Hl.
  pose proof (forallb_nth _ _ _ _ _ Hf Hj) as H. cbn in H. rewrite Hl in H. rewrite N.eqb_refl in H. discriminate.
Qed.

Lemma pkg_free_s_nth : forall s q j pj, pkg_free_s s q = true -> proc_at s j pj -> pkg_lock pj <> Some (q, true).
Proof.
  unfold pkg_free_s, proc_at; intros s q j pj Hf Hj Hl.
  pose proof (forallb_nth _ _ _ _ _ Hf Hj) as H. cbn in H. rewrite Hl in H. rewrite N.eqb_refl in H. discriminate.
Qed.

Lemma excl_pkg_step : forall s i s', excl_pkg s -> step s i = Some s' -> excl_pkg s'.
Proof.
  intros s i s' Inv H a b pa pb q Hab Ha Hb Hl m Hl2.
  destruct (step_proc_at_self _ _ _ H) as (pr & pr' & Hp & Hp').
  pose proof (step_pkg_lock _ _ _ _ _ H Hp Hp') as Hev.
  destruct (Nat.eq_dec a i) as [->|Hai]; destruct (Nat.eq_dec b i) as [->|Hbi]; try congruence.
  - assert (pa = pr') by (unfold proc_at in *; congruence); subst pa.
    apply (step_proc_at_other _ _ _ b pb H) in Hb; auto.
    rewrite Hl in Hev. destruct (pkg_lock pr) as [x|] eqn:Em; cbn in Hev.
    + subst x. apply (Inv i b pr pb q Hab Hp Hb Em m Hl2).
    + exact (pkg_free_x_nth _ _ _ _ m Hev Hb Hl2).
  - assert (pb = pr') by (unfold proc_at in *; congruence); subst pb.
    apply (step_proc_at_other _ _ _ a pa H) in Ha; auto.
    rewrite Hl2 in Hev. destruct (pkg_lock pr) as [x|] eqn:Em; cbn in Hev.
    + subst x. apply (Inv a i pa pr q Hab Ha Hp Hl m Em).
    + destruct m.
      * exact (pkg_free_x_nth _ _ _ _ true Hev Ha Hl).
      * exact (pkg_free_s_nth _ _ _ _ Hev Ha Hl).
  - apply (step_proc_at_other _ _ _ a pa H) in Ha; auto. apply (step_proc_at_other _ _ _ b pb H) in Hb; auto.
    apply (Inv a b pa pb q Hab Ha Hb Hl m Hl2).
Qed.

(* ------------------------------------------------------------------ how one step changes the store *)
Lemma step_store_lookup : forall s i s' pr q, step s i = Some s' -> proc_at s i pr ->
  lookup q (st_store s') = lookup q (st_store s)
  \/ (p_pc pr = IRename /\ q = o_pkg (cur pr) /\ lookup q (st_store s) = None)
  \/ (p_pc pr = ULockPkg /\ q = o_pkg (cur pr) /\ pkg_free_x s q = true)
  \/ ((p_pc pr = UWrite \/ p_pc pr = UUnlockPkg) /\ q = o_pkg (cur pr))
  \/ (p_pc pr = GMove /\ lookup q (st_store s') = None).
Proof.
  intros s i s' pr0 q H Hp0. unfold proc_at in *.
  step_cases H pr Hpr Hpc; subst; inversion Hp0; subst pr0; clear Hp0;
    unfold flush_repo;
    repeat match goal with |- context [if ?b then _ else _] => destruct b end;
    simp_st; auto.
  all: try (destruct (N.eq_dec q (o_pkg (cur pr))) as [->|Hne];
            [|left; first [apply lookup_app_other; auto | apply lookup_set_key_other; auto]]).
  all: try (destruct (N.eq_dec q (c_id c)) as [->|Hne]; [|left; apply lookup_remove_key_other; auto]).
  all: try (right; left; repeat split; auto; apply has_key_false; auto; fail).
  all: try (right; right; left; repeat split; auto; fail).
  all: try (right; right; right; left; split; auto; fail).
  all: try (right; right; right; right; split; auto; apply lookup_remove_key_same).
Qed.

Lemma cur_set_pc : forall pr x, cur (set_pc pr x) = cur pr. Proof. reflexivity. Qed.
Lemma cur_set_tmp : forall pr x, cur (set_tmp pr x) = cur pr. Proof. reflexivity. Qed.
Lemma cur_set_attic : forall pr x, cur (set_attic pr x) = cur pr. Proof. reflexivity. Qed.
Lemma cur_set_repo_mem : forall pr a b c, cur (set_repo_mem pr a b c) = cur pr. Proof. reflexivity. Qed.
Lemma cur_set_inst : forall pr x, cur (set_inst pr x) = cur pr. Proof. reflexivity. Qed.
Lemma cur_set_pmeta : forall pr a b, cur (set_pmeta pr a b) = cur pr. Proof. reflexivity. Qed.
Lemma cur_set_gc : forall pr a b c d e, cur (set_gc pr a b c d e) = cur pr. Proof. reflexivity. Qed.
Ltac simp_cur := rewrite ?cur_set_pc, ?cur_set_tmp, ?cur_set_attic, ?cur_set_repo_mem, ?cur_set_inst, ?cur_set_pmeta, ?cur_set_gc in *.

Ltac inv_some :=
  repeat match goal with
  | E : Some ?a = Some ?b |- _ => assert_fails (constr_eq a b); inversion E; subst; try clear E
  end.

(* ------------------------------------------------------------------ pc membership helpers *)
Ltac pc_contra H :=
  (* H : p_pc X = <constructor>, where X is finish / use_return / gc_return / set_pc ... *)
  try discriminate H;
  try (cbn in H; discriminate H);
  try (rewrite finish_pc in H;
       match type of H with start_pc ?ops = _ =>
         destruct (start_pc_cases ops) as [E|[E|[E|[E|E]]]]; rewrite E in H; discriminate H end);
  try (match type of H with p_pc (use_return ?p ?b) = _ =>
         destruct (use_return_pc p b) as [E|[E|E]]; rewrite E in H; discriminate H end);
  try (match type of H with p_pc (gc_return ?p ?b) = _ =>
         destruct (gc_return_pc p b) as [E|E]; rewrite E in H; [discriminate H|];
         match type of H with start_pc ?ops = _ =>
           destruct (start_pc_cases ops) as [E2|[E2|[E2|[E2|E2]]]]; rewrite E2 in H; discriminate H end end).

(* ------------------------------------------------------------------ use: the copy of pkg.json in memory is the file *)
Definition use_locals (s : state) : Prop :=
  forall i pr, proc_at s i pr -> (p_pc pr = UWrite \/ p_pc pr = UUnlockPkg) ->
    exists d, lookup (o_pkg (cur pr)) (st_store s) = Some d /\ d_meta d = Some (p_pmeta pr) /\ d_trunc d = p_dirty pr.

Lemma pkg_lock_use : forall pr, (p_pc pr = UWrite \/ p_pc pr = UUnlockPkg) -> pkg_lock pr = Some (o_pkg (cur pr), true).
Proof. unfold pkg_lock; intros pr [E|E]; rewrite E; reflexivity. Qed.

Lemma repo_mode_use : forall pr, (p_pc pr = UWrite \/ p_pc pr = UUnlockPkg) -> repo_mode (p_pc pr) = Some false.
Proof. intros pr [E|E]; rewrite E; reflexivity. Qed.

Lemma use_locals_step : forall s i s', excl_repo s -> excl_pkg s -> use_locals s -> step s i = Some s' -> use_locals s'.
Proof.
  intros s i s' ER EP UL H j prj Hj Hpc.
  destruct (Nat.eq_dec j i) as [->|Hne].
  - (* the process that moved *)
    unfold proc_at in Hj.
    step_cases H pr Hpr Hpc0; subst;
      unfold flush_repo in Hj;
      repeat match type of Hj with context [if ?b then _ else _] => destruct b end;
      simp_st; rewrite (nth_error_set_nth_same _ _ _ _ _ Hpr) in Hj; inversion Hj; subst prj; clear Hj;
      norm_next;
      try (destruct Hpc as [Hpc|Hpc]; pc_contra Hpc; fail).
    + (* ULockPkg, already a user *)
      unfold disk_meta in *. destruct (d_trunc p) eqn:Et; [discriminate|].
      exists p. simp_st. unfold cur in *; simp_st. auto.
    + (* ULockPkg, appended *)
      eexists. unfold cur in *; simp_st. rewrite lookup_set_key_same. split; [reflexivity|]. cbn. auto.
    + (* UWrite, buffered *)
      destruct (UL i pr Hpr (or_introl Hpc0)) as (d & Hd & Hm & Ht).
      exists d. unfold cur in *; simp_st. auto.
    + (* UWrite, utime *)
      destruct (UL i pr Hpr (or_introl Hpc0)) as (d & Hd & Hm & Ht).
      eexists. unfold cur in *; simp_st. rewrite lookup_set_key_same. split; [reflexivity|].
      rewrite Hd in *. match goal with E : Some _ = Some _ |- _ => inversion E; subst end. cbn. auto.
  - (* another process moved *)
    apply (step_proc_at_other _ _ _ j prj H) in Hj; auto.
    destruct (UL j prj Hj Hpc) as (d & Hd & Hm & Ht).
    destruct (step_proc_at_self _ _ _ H) as (pr & pr' & Hp & Hp').
    destruct (step_store_lookup _ _ _ _ (o_pkg (cur prj)) H Hp) as [E|[(E1 & E2 & E3)|[(E1 & E2 & E3)|[(E1 & E2)|(E1 & E2)]]]].
    + exists d. rewrite E. auto.
    + congruence.
    + exfalso. eapply (pkg_free_x_nth s _ j prj true E3 Hj). apply pkg_lock_use; auto.
    + exfalso. apply (EP i j pr prj (o_pkg (cur prj))) with (m := true); auto.
      * rewrite E2. apply pkg_lock_use; auto.
      * apply pkg_lock_use; auto.
    + exfalso. assert (repo_mode (p_pc prj) = None).
      { apply (ER i j pr prj); auto. rewrite E1; reflexivity. }
      rewrite repo_mode_use in H0; auto. discriminate.
Qed.

(* ------------------------------------------------------------------ the package under construction in the temporary directory *)
Definition dir_ok (d : pdir) : Prop :=
  d_audit d = true /\ exists m, d_meta d = Some m /\ d_tree d = Some (m_hash m).

Definition tmp_ok (s : state) : Prop :=
  forall i pr, proc_at s i pr ->
    (p_pc pr = IMeta -> exists d, p_tmp pr = Some d /\ d_audit d = true /\ d_tree d = Some (o_expect (cur pr))) /\
    (p_pc pr = IRename -> exists d m, p_tmp pr = Some d /\ d_audit d = true /\ d_meta d = Some m /\
                          d_tree d = Some (m_hash m) /\ m_size m = o_size (cur pr) /\ d_trunc d = false).

Lemma tmp_ok_step : forall s i s', tmp_ok s -> step s i = Some s' -> tmp_ok s'.
Proof.
  intros s i s' T H j prj Hj.
  destruct (Nat.eq_dec j i) as [->|Hne].
  - unfold proc_at in Hj.
    step_cases H pr Hpr Hpc0; subst;
      unfold flush_repo in Hj;
      repeat match type of Hj with context [if ?b then _ else _] => destruct b end;
      simp_st; rewrite (nth_error_set_nth_same _ _ _ _ _ Hpr) in Hj; inversion Hj; subst prj; clear Hj;
      norm_next;
      try (split; intros Hpc; pc_contra Hpc; fail).
    + (* ICopy -> IMeta *)
      split; intros Hpc; [|discriminate Hpc].
      eexists; split; [reflexivity|]. simp_cur. apply N.eqb_eq in Heqb. cbn [d_audit d_tree]. rewrite Heqb. auto.
    + (* IMeta -> IRename *)
      split; intros Hpc; [discriminate Hpc|].
      destruct (T i pr Hpr) as [T1 _]. destruct (T1 Hpc0) as (d & Hd & Ha & Ht).
      rewrite Hd in *. match goal with E : Some _ = Some _ |- _ => inversion E; subst end.
      eexists; eexists; split; [reflexivity|]. simp_cur. cbn. auto 6.
  - apply (step_proc_at_other _ _ _ j prj H) in Hj; auto. apply (T j prj Hj).
Qed.

(* ------------------------------------------------------------------ visible => complete and hashed *)
Definition visible_ok (s : state) : Prop :=
  forall q d, lookup q (st_store s) = Some d -> dir_ok d.

Lemma lookup_remove_key_some : forall A k k' (v : A) l, lookup k' (remove_key k l) = Some v -> lookup k' l = Some v.
Proof.
  intros A k k' v l H. destruct (N.eq_dec k' k) as [->|Hne].
  - rewrite lookup_remove_key_same in H; discriminate.
  - rewrite lookup_remove_key_other in H; auto.
Qed.

Lemma visible_ok_step : forall s i s', tmp_ok s -> use_locals s -> visible_ok s -> step s i = Some s' -> visible_ok s'.
Proof.
  intros s i s' T UL V H q d Hq.
  step_cases H pr Hpr Hpc0; subst;
    unfold flush_repo in Hq;
    repeat match type of Hq with context [if ?b then _ else _] => destruct b end;
    simp_st; norm_next; simp_st;
    try (apply (V q d Hq); fail);
    try (apply lookup_remove_key_some in Hq; apply (V q d Hq); fail).
  - (* IRename *)
    destruct (N.eq_dec q (o_pkg (cur pr))) as [->|Hne].
    + rewrite lookup_app_new in Hq by (apply has_key_false; auto). inversion Hq; subst.
      destruct (T i pr Hpr) as [_ T2]. destruct (T2 Hpc0) as (d0 & m & Hd & Ha & Hm & Ht & _).
      rewrite Hd in *. inv_some.
      split; eauto.
    + rewrite lookup_app_other in Hq by auto. apply (V q d Hq).
  - (* ULockPkg: users.append *)
    destruct (N.eq_dec q (o_pkg (cur pr))) as [->|Hne].
    + rewrite lookup_set_key_same in Hq. inversion Hq; subst; clear Hq.
      destruct (V _ _ Heqo) as (Ha & m0 & Hm0 & Ht0).
      unfold disk_meta in *. destruct (d_trunc p); [discriminate|]. rewrite Hm0 in *. inv_some.
      split; cbn; eauto.
    + rewrite lookup_set_key_other in Hq by auto. apply (V q d Hq).
  - (* UWrite: utime *)
    destruct (N.eq_dec q (o_pkg (cur pr))) as [->|Hne].
    + rewrite lookup_set_key_same in Hq. inversion Hq; subst; clear Hq.
      destruct (V _ _ Heqo) as (Ha & m0 & Hm0 & Ht0). split; cbn; eauto.
    + rewrite lookup_set_key_other in Hq by auto. apply (V q d Hq).
  - (* UUnlockPkg: flush *)
    destruct (N.eq_dec q (o_pkg (cur pr))) as [->|Hne].
    + rewrite lookup_set_key_same in Hq. inversion Hq; subst; clear Hq.
      destruct (UL i pr Hpr (or_intror Hpc0)) as (d0 & Hd0 & Hm0 & _).
      rewrite Hd0 in *. inv_some.
      destruct (V _ _ Hd0) as (Ha & m1 & Hm1 & Ht1). rewrite Hm0 in Hm1. inversion Hm1; subst.
      split; cbn; eauto.
    + rewrite lookup_set_key_other in Hq by auto. apply (V q d Hq).
Qed.

(* ------------------------------------------------------------------ recorded size of an installed package *)
Definition lsize (s : state) (q : N) : option N :=
  match lookup q (st_store s) with
  | Some d => match d_meta d with Some m => Some (m_size m) | None => None end
  | None => None
  end.

Lemma step_lsize : forall s i s' pr q, use_locals s -> tmp_ok s -> step s i = Some s' -> proc_at s i pr ->
  lsize s' q = lsize s q
  \/ (p_pc pr = IRename /\ q = o_pkg (cur pr) /\ lookup q (st_store s) = None /\ lsize s' q = Some (o_size (cur pr)))
  \/ (p_pc pr = GMove /\ lookup q (st_store s') = None /\ exists c rest, p_queue pr = c :: rest /\ q = c_id c /\ g_dry pr = false).
Proof.
  intros s i s' pr0 q UL T H Hp0. unfold proc_at in *. unfold lsize.
  step_cases H pr Hpr Hpc; subst; inversion Hp0; subst pr0; clear Hp0;
    unfold flush_repo;
    repeat match goal with |- context [if ?b then _ else _] => destruct b end;
    simp_st; auto.
  all: try (destruct (N.eq_dec q (o_pkg (cur pr))) as [->|Hne];
            [|left; first [rewrite lookup_app_other by auto; reflexivity | rewrite lookup_set_key_other by auto; reflexivity]]).
  all: try (destruct (N.eq_dec q (c_id c)) as [->|Hne];
            [right; right; split; [auto|split; [apply lookup_remove_key_same|eauto 6]]
            |left; rewrite lookup_remove_key_other by auto; reflexivity]).
  - (* IRename *)
    right; left. destruct (T i pr Hpr) as [_ T2]. destruct (T2 Hpc) as (d0 & m & Hd & Ha & Hm & Ht & Hs & _).
    rewrite Hd in *. inv_some. repeat split; auto; [apply has_key_false; auto|].
    rewrite lookup_app_new by (apply has_key_false; auto). rewrite Hm. congruence.
  - (* ULockPkg *)
    left. rewrite lookup_set_key_same, Heqo. cbn. unfold disk_meta in *.
    destruct (d_trunc p); [discriminate|]. rewrite Heqo0. reflexivity.
  - (* UWrite utime *)
    left. rewrite lookup_set_key_same, Heqo. cbn. reflexivity.
  - (* UUnlockPkg flush *)
    left. rewrite lookup_set_key_same, Heqo. cbn.
    destruct (UL i pr Hpr (or_intror Hpc)) as (d0 & Hd0 & Hm0 & _). rewrite Hd0 in *. inv_some. rewrite Hm0. reflexivity.
Qed.

(* ------------------------------------------------------------------ sorting *)
Lemma In_insert_cand : forall c x l, In c (insert_cand x l) <-> c = x \/ In c l.
Proof.
  induction l as [|y r IH]; cbn; [intuition|].
  destruct (cand_leb x y); cbn; [intuition|]. rewrite IH. intuition.
Qed.

Lemma In_sort_cands : forall c l, In c (sort_cands l) <-> In c l.
Proof.
  induction l as [|y r IH]; cbn; [tauto|]. rewrite In_insert_cand, IH. intuition.
Qed.

(* ------------------------------------------------------------------ where gc candidates come from *)
Definition new_scan (s : state) (pr : proc) (c : cand) : Prop :=
  p_pc pr = GScanLock /\
  exists sz rest d m, p_todo pr = (c_id c, sz) :: rest /\ pkg_free_s s (c_id c) = true /\
     lookup (c_id c) (st_store s) = Some d /\ disk_meta d = Some m /\
     c_unused c = (check_unused (st_links s) (m_users m) (c_id c) && negb (is_newpkg pr (c_id c))) /\
     (c_unused c || g_used pr) = true.

Lemma gphase_start : forall ops, gphase (start_pc ops) = false.
Proof. intros ops; destruct (start_pc_cases ops) as [E|[E|[E|[E|E]]]]; rewrite E; reflexivity. Qed.

Lemma gphase_use_return : forall pr b, gphase (p_pc (use_return pr b)) = false.
Proof. intros; destruct (use_return_pc pr b) as [E|[E|E]]; rewrite E; reflexivity. Qed.

Lemma gphase_gc_return : forall pr b, gphase (p_pc (gc_return pr b)) = false.
Proof. intros; destruct (gc_return_pc pr b) as [E|E]; rewrite E; [reflexivity|apply gphase_start]. Qed.

Lemma step_cands : forall s k s' pr pr', step s k = Some s' -> proc_at s k pr -> proc_at s' k pr' ->
  gphase (p_pc pr') = true ->
  (p_pc pr = GLock /\ p_cands pr' = [] /\ p_queue pr' = []) \/
  (gphase (p_pc pr) = true /\ p_ops pr' = p_ops pr /\
   forall c, In c (p_cands pr') \/ In c (p_queue pr') -> (In c (p_cands pr) \/ In c (p_queue pr)) \/ new_scan s pr c).
Proof.
  intros s k s' pr0 pr' H Hp0 Hp' Hg. unfold proc_at in *.
  step_cases H pr Hpr Hpc; subst; inversion Hp0; subst pr0; clear Hp0;
    unfold flush_repo in Hp';
    repeat match type of Hp' with context [if ?b then _ else _] => destruct b end;
    simp_st; rewrite (nth_error_set_nth_same _ _ _ _ _ Hpr) in Hp'; inversion Hp'; subst pr'; clear Hp';
    norm_next;
    try (rewrite finish_pc, gphase_start in Hg; discriminate Hg);
    try (rewrite gphase_use_return in Hg; discriminate Hg);
    try (rewrite gphase_gc_return in Hg; discriminate Hg);
    try (cbn in Hg; discriminate Hg);
    try (left; simp_st; auto; fail);
    right; rewrite Hpc; (split; [reflexivity|]); (split; [reflexivity|]); simp_st; intros c0 Hc;
    try (left; exact Hc).
  all: destruct Hc as [Hc|Hc];
       try (apply (proj1 (In_sort_cands _ _)) in Hc);
       try (match type of Hc with In _ (if ?b then _ else _) => destruct b end);
       try (left; left; exact Hc); try (left; right; exact Hc);
       try (left; right; rewrite Heql; right; exact Hc);
       try (apply in_app_iff in Hc; destruct Hc as [Hc|[Hc|[]]];
            [left; left; exact Hc|subst c0; right; split; [assumption|]; cbn [c_id c_unused];
             do 4 eexists; repeat split; eauto]).
Qed.

(* ------------------------------------------------------------------ runs *)
Lemma run_app : forall s a b, run s (a ++ b) = run (run s a) b.
Proof. intros; unfold run; apply fold_left_app. Qed.

Lemma run_snoc : forall s a x, run s (a ++ [x]) = act (run s a) x.
Proof. intros; rewrite run_app; reflexivity. Qed.

(* ------------------------------------------------------------------ never collected while used (partial) *)
Definition scan_witness (procs : list proc) (sched : list action) (g : nat) (q : N) : Prop :=
  exists sched0 rest, sched = sched0 ++ Step g :: rest /\
    scans (run (init dir procs) sched0) g q /\
    (forall w, recorded (run (init dir procs) sched0) q w -> lookup w (st_links (run (init dir procs) sched0)) <> Some q) /\
    ops_left (run (init dir procs) sched0) g = ops_left (run (init dir procs) sched) g.

Definition cand_hist (procs : list proc) (sched : list action) : Prop :=
  forall g pr c, proc_at (run (init dir procs) sched) g pr -> gphase (p_pc pr) = true ->
    In c (p_cands pr) \/ In c (p_queue pr) ->
    (g_used pr = false -> c_unused c = true) /\ (c_unused c = true -> scan_witness procs sched g (c_id c)).

Lemma scan_witness_extend : forall procs sched a g q,
  ops_left (act (run (init dir procs) sched) a) g = ops_left (run (init dir procs) sched) g ->
  scan_witness procs sched g q -> scan_witness procs (sched ++ [a]) g q.
Proof.
  intros procs sched a g q Hops (sched0 & rest & E & Hs & Hl & Ho).
  exists sched0, (rest ++ [a]). split; [rewrite E, <- app_assoc; reflexivity|].
  split; auto. split; auto. rewrite run_snoc. congruence.
Qed.

Lemma ops_left_same : forall s s' g, nth_error (st_procs s') g = nth_error (st_procs s) g -> ops_left s' g = ops_left s g.
Proof. unfold ops_left; intros s s' g E; rewrite E; reflexivity. Qed.

Lemma g_used_ops : forall pr pr', p_ops pr' = p_ops pr -> g_used pr' = g_used pr.
Proof. unfold g_used, cur; intros pr pr' E; rewrite E; reflexivity. Qed.

Lemma check_unused_links : forall links users q w, check_unused links users q = true -> In w users -> lookup w links <> Some q.
Proof.
  unfold check_unused; intros links users q w H Hin E.
  rewrite forallb_forall in H. specialize (H w Hin). unfold links_to in H. rewrite E, N.eqb_refl in H. discriminate.
Qed.

Lemma cand_hist_step : forall procs sched a, cand_hist procs sched -> cand_hist procs (sched ++ [a]).
Proof.
  intros procs sched a IH g pr' c Hp' Hg Hc. rewrite run_snoc in Hp'.
  set (s := run (init dir procs) sched) in *.
  destruct a as [k|].
  2:{ (* Tick *)
    destruct (IH g pr' c Hp' Hg Hc) as [I1 I2]. split; auto. intros Hu.
    apply scan_witness_extend; auto. }
  cbn [act] in Hp'. destruct (step s k) as [s'|] eqn:Hst.
  2:{ destruct (IH g pr' c Hp' Hg Hc) as [I1 I2]. split; auto. intros Hu.
      apply scan_witness_extend; auto. cbn [act]. fold s. rewrite Hst. reflexivity. }
  destruct (Nat.eq_dec g k) as [->|Hne].
  2:{ pose proof Hp' as Hp. apply (step_proc_at_other _ _ _ g pr' Hst) in Hp; auto.
      destruct (IH g pr' c Hp Hg Hc) as [I1 I2]. split; auto. intros Hu.
      apply scan_witness_extend; auto. cbn [act]. fold s. rewrite Hst.
      apply ops_left_same. unfold proc_at in *. congruence. }
  destruct (step_proc_at_self _ _ _ Hst) as (pr & pr2 & Hp & Hp2).
  assert (pr2 = pr') by (unfold proc_at in *; congruence); subst pr2.
  destruct (step_cands _ _ _ _ _ Hst Hp Hp' Hg) as [(_ & E1 & E2)|(Hg0 & Hops & Hfrom)].
  { rewrite E1, E2 in Hc. destruct Hc as [[]|[]]. }
  destruct (Hfrom c Hc) as [Hold|(Hpc & sz & rest & d & m & Htodo & Hfree & Hlk & Hdm & Hun & Hor)].
  - destruct (IH k pr c Hp Hg0 Hold) as [I1 I2]. split.
    + rewrite (g_used_ops _ _ Hops). auto.
    + intros Hu. apply scan_witness_extend; auto. cbn [act]. fold s. rewrite Hst.
      unfold ops_left. unfold proc_at in *. rewrite Hp', Hp, Hops. reflexivity.
  - split.
    + rewrite (g_used_ops _ _ Hops). intros Hu. rewrite Hu, orb_false_r in Hor. auto.
    + intros Hu. exists sched, []. split; [reflexivity|]. fold s. split; [|split].
      * exists pr, sz, rest. auto.
      * intros w (d' & m' & Hd' & Hm' & Hin). rewrite Hlk in Hd'. inversion Hd'; subst d'.
        unfold disk_meta in Hdm. destruct (d_trunc d); [discriminate|]. rewrite Hdm in Hm'. inversion Hm'; subst m'.
        rewrite Hu in Hun. symmetry in Hun. apply andb_true_iff in Hun. destruct Hun as [Hun _].
        eapply check_unused_links; eauto.
      * rewrite run_snoc. fold s. cbn [act]. rewrite Hst.
        unfold ops_left. unfold proc_at in *. rewrite Hp', Hp, Hops. reflexivity.
Qed.

Lemma cand_hist_all : forall procs sched, wf_procs procs -> cand_hist procs sched.
Proof.
  intros procs sched WF. induction sched as [|a sched IH] using rev_ind.
  - intros g pr c Hp Hg Hc. cbn in Hp. destruct (WF pr) as (q & a & ops & ->).
    + eapply nth_error_In; exact Hp.
    + cbn in Hg. rewrite gphase_start in Hg. discriminate.
  - apply cand_hist_step; auto.
Qed.

Lemma never_collected_while_used_partial_proof : forall procs sched g q,
  wf_procs procs ->
  collects (run (init dir procs) sched) g q -> not_forced (run (init dir procs) sched) g ->
  exists sched0 rest, sched = sched0 ++ Step g :: rest /\
    scans (run (init dir procs) sched0) g q /\
    (forall w, recorded (run (init dir procs) sched0) q w -> lookup w (st_links (run (init dir procs) sched0)) <> Some q) /\
    ops_left (run (init dir procs) sched0) g = ops_left (run (init dir procs) sched) g.
Proof.
  intros procs sched g q WF (pr & c & rest & Hp & Hpc & Hq & Hid & Hdry) (pr2 & Hp2 & Hnf).
  assert (pr2 = pr) by congruence; subst pr2.
  destruct (cand_hist_all procs sched WF g pr c Hp) as [I1 I2].
  - rewrite Hpc; reflexivity.
  - right. rewrite Hq. left; reflexivity.
  - subst q. apply I2. auto.
Qed.

(* ------------------------------------------------------------------ invariants hold along every schedule: base block *)
Record base_inv (s : state) : Prop := {
  b_er : excl_repo s;
  b_ep : excl_pkg s;
  b_ul : use_locals s;
  b_tmp : tmp_ok s;
  b_vis : visible_ok s
}.

Lemma wf_start : forall procs i pr, wf_procs procs -> proc_at (init dir procs) i pr -> exists ops, p_pc pr = start_pc ops.
Proof.
  intros procs i pr WF H. destruct (WF pr) as (q & a & ops & ->); [eapply nth_error_In; exact H|].
  exists ops; reflexivity.
Qed.

Lemma base_init : forall procs, wf_procs procs -> base_inv (init dir procs).
Proof.
  intros procs WF. constructor.
  - intros i j pi pj _ _ Hj _. destruct (wf_start _ _ _ WF Hj) as (ops & ->). apply repo_mode_start.
  - intros i j pi pj q _ Hi _ Hl. destruct (wf_start _ _ _ WF Hi) as (ops & E).
    rewrite pkg_lock_none in Hl; [discriminate|]. rewrite E. apply pc_pkg_lock_start.
  - intros i pr Hi Hpc. destruct (wf_start _ _ _ WF Hi) as (ops & E). rewrite E in Hpc.
    destruct (start_pc_cases ops) as [E2|[E2|[E2|[E2|E2]]]]; rewrite E2 in Hpc; destruct Hpc; discriminate.
  - intros i pr Hi. destruct (wf_start _ _ _ WF Hi) as (ops & E). rewrite E.
    split; intros Hpc; destruct (start_pc_cases ops) as [E2|[E2|[E2|[E2|E2]]]]; rewrite E2 in Hpc; discriminate.
  - intros q d H. cbn in H. discriminate.
Qed.

Lemma base_step : forall s i s', base_inv s -> step s i = Some s' -> base_inv s'.
Proof.
  intros s i s' [ER EP UL T V] H. constructor.
  - eapply excl_repo_step; eauto.
  - eapply excl_pkg_step; eauto.
  - eapply use_locals_step; eauto.
  - eapply tmp_ok_step; eauto.
  - eapply visible_ok_step; eauto.
Qed.

Lemma base_act : forall s a, base_inv s -> base_inv (act s a).
Proof.
  intros s [i|] B; cbn [act].
  - destruct (step s i) eqn:E; auto. eapply base_step; eauto.
  - destruct B as [ER EP UL T V]. constructor; auto.
Qed.

Lemma base_run : forall s sched, base_inv s -> base_inv (run s sched).
Proof.
  intros s sched; revert s. induction sched as [|a r IH]; intros s B; cbn; auto. apply IH. apply base_act; auto.
Qed.

Lemma visible_is_complete_and_hashed_proof : forall procs sched q d,
  wf_procs procs -> lookup q (st_store (run (init dir procs) sched)) = Some d ->
  d_audit d = true /\ exists m, d_meta d = Some m /\ d_tree d = Some (m_hash m).
Proof.
  intros procs sched q d WF H. exact (b_vis _ (base_run _ sched (base_init _ WF)) q d H).
Qed.

(* ------------------------------------------------------------------ accounting: repo.json versus the installed packages *)
Definition scan_ids (pr : proc) : list N := map c_id (p_cands pr) ++ map fst (p_todo pr).

Definition gc_ids (pr : proc) : Prop :=
  (p_pc pr <> GMove -> NoDup (scan_ids pr) /\ forall x, In x (scan_ids pr) -> In x (map fst (p_meta pr))) /\
  (p_pc pr = GMove -> NoDup (map c_id (p_queue pr)) /\ forall c, In c (p_queue pr) -> In (c_id c) (map fst (p_meta pr))).

Definition needs_repo (pc : pcT) : bool := match pc with ILockRepo | GLock => true | _ => false end.

Record acct (s : state) : Prop := {
  a_rl : forall i pr, proc_at s i pr -> repo_mode (p_pc pr) = Some true ->
           st_repo s = Some (p_meta pr) /\ st_rtrunc s = p_dirty pr;
  a_rt : st_rtrunc s = true -> exists i pr, proc_at s i pr /\ repo_mode (p_pc pr) = Some true;
  a_nd : NoDup (map fst (pkgs s));
  a_vis : forall q sz, In (q, sz) (pkgs s) -> lsize s q = Some sz;
  a_pend : forall i pr, proc_at s i pr -> pend (p_pc pr) = true ->
           lsize s (o_pkg (cur pr)) = Some (o_size (cur pr)) /\ ~ In (o_pkg (cur pr)) (map fst (pkgs s));
  a_uniq : forall i j pi pj, i <> j -> proc_at s i pi -> proc_at s j pj ->
           pend (p_pc pi) = true -> pend (p_pc pj) = true -> o_pkg (cur pi) <> o_pkg (cur pj);
  a_all : forall q, lsize s q <> None ->
           In q (map fst (pkgs s)) \/ exists i pr, proc_at s i pr /\ pend (p_pc pr) = true /\ o_pkg (cur pr) = q;
  a_gc : forall i pr, proc_at s i pr -> gphase (p_pc pr) = true -> gc_ids pr;
  a_repo : forall i pr, proc_at s i pr -> needs_repo (p_pc pr) = true -> st_repo s <> None
}.

Lemma acct_transfer : forall s s' i pr pr',
  (forall j prj, j <> i -> (proc_at s' j prj <-> proc_at s j prj)) ->
  proc_at s i pr -> proc_at s' i pr' ->
  st_repo s' = st_repo s -> st_rtrunc s' = st_rtrunc s ->
  (forall q, lsize s' q = lsize s q) ->
  pend (p_pc pr') = pend (p_pc pr) ->
  (pend (p_pc pr) = true -> cur pr' = cur pr) ->
  (repo_mode (p_pc pr') = Some true -> st_repo s = Some (p_meta pr') /\ st_rtrunc s = p_dirty pr') ->
  (repo_mode (p_pc pr) = Some true -> repo_mode (p_pc pr') = Some true \/ st_rtrunc s = false) ->
  (gphase (p_pc pr') = true -> gc_ids pr') ->
  (needs_repo (p_pc pr') = true -> st_repo s <> None) ->
  acct s -> acct s'.
Proof.
  intros s s' i pr pr' Hoth Hp Hp' Hrepo Htr Hls Hpend Hcur Hx Hx2 Hgc Hnr A.
  assert (Hpk : pkgs s' = pkgs s) by (unfold pkgs; rewrite Hrepo; reflexivity).
  assert (Hsplit : forall j prj, proc_at s' j prj -> (j = i /\ prj = pr') \/ (j <> i /\ proc_at s j prj)).
  { intros j prj Hj. destruct (Nat.eq_dec j i) as [->|Hne].
    - left; split; auto. unfold proc_at in *; congruence.
    - right; split; auto. apply Hoth; auto. }
  constructor.
  - intros j prj Hj Hm. rewrite Hrepo, Htr. destruct (Hsplit j prj Hj) as [[-> ->]|[Hne Hj0]].
    + apply Hx; auto.
    + apply (a_rl _ A j prj Hj0 Hm).
  - rewrite Htr. intros Ht. destruct (a_rt _ A Ht) as (j & prj & Hj & Hm).
    destruct (Nat.eq_dec j i) as [->|Hne].
    + assert (prj = pr) by (unfold proc_at in *; congruence); subst prj.
      destruct (Hx2 Hm) as [Hm'|Hf]; [exists i, pr'; auto|congruence].
    + exists j, prj. split; auto. apply Hoth; auto.
  - rewrite Hpk. apply (a_nd _ A).
  - intros q sz Hin. rewrite Hpk in Hin. rewrite Hls. apply (a_vis _ A q sz Hin).
  - intros j prj Hj Hpe. rewrite Hpk, Hls. destruct (Hsplit j prj Hj) as [[-> ->]|[Hne Hj0]].
    + rewrite Hpend in Hpe. rewrite (Hcur Hpe). apply (a_pend _ A i pr Hp Hpe).
    + apply (a_pend _ A j prj Hj0 Hpe).
  - intros a b pa pb Hab Ha Hb Hpa Hpb.
    destruct (Hsplit a pa Ha) as [[-> ->]|[Hna Ha0]]; destruct (Hsplit b pb Hb) as [[-> ->]|[Hnb Hb0]]; try congruence.
    + rewrite Hpend in Hpa. rewrite (Hcur Hpa). apply (a_uniq _ A i b pr pb Hab Hp Hb0 Hpa Hpb).
    + rewrite Hpend in Hpb. rewrite (Hcur Hpb). apply (a_uniq _ A a i pa pr Hab Ha0 Hp Hpa Hpb).
    + apply (a_uniq _ A a b pa pb Hab Ha0 Hb0 Hpa Hpb).
  - intros q Hq. rewrite Hls in Hq. rewrite Hpk. destruct (a_all _ A q Hq) as [Hin|(j & prj & Hj & Hpe & Hq2)]; auto.
    right. destruct (Nat.eq_dec j i) as [->|Hne].
    + assert (prj = pr) by (unfold proc_at in *; congruence); subst prj.
      exists i, pr'. split; auto. split; [congruence|]. rewrite (Hcur Hpe); auto.
    + exists j, prj. split; [apply Hoth; auto|auto].
  - intros j prj Hj Hg. destruct (Hsplit j prj Hj) as [[-> ->]|[Hne Hj0]]; auto. apply (a_gc _ A j prj Hj0 Hg).
  - intros j prj Hj Hn. rewrite Hrepo. destruct (Hsplit j prj Hj) as [[-> ->]|[Hne Hj0]]; auto. apply (a_repo _ A j prj Hj0 Hn).
Qed.

Definition acct_rel (pc : pcT) : bool :=
  match pc with
  | IRename | IOpenRepo | ICreateRepo | ILockRepo | IWrite | IUnlock | UOpenRepo
  | GLock | GScan | GScanLock | GScanUnlock | GMove | GUnlock => true
  | _ => false
  end.

Lemma pend_start : forall ops, pend (start_pc ops) = false.
Proof. intros ops; destruct (start_pc_cases ops) as [E|[E|[E|[E|E]]]]; rewrite E; reflexivity. Qed.
Lemma needs_repo_start : forall ops, needs_repo (start_pc ops) = false.
Proof. intros ops; destruct (start_pc_cases ops) as [E|[E|[E|[E|E]]]]; rewrite E; reflexivity. Qed.
Lemma pend_use_return : forall pr b, pend (p_pc (use_return pr b)) = false.
Proof. intros; destruct (use_return_pc pr b) as [E|[E|E]]; rewrite E; reflexivity. Qed.
Lemma pend_gc_return : forall pr b, pend (p_pc (gc_return pr b)) = false.
Proof. intros; destruct (gc_return_pc pr b) as [E|E]; rewrite E; [reflexivity|apply pend_start]. Qed.
Lemma needs_repo_use_return : forall pr b, needs_repo (p_pc (use_return pr b)) = false.
Proof. intros; destruct (use_return_pc pr b) as [E|[E|E]]; rewrite E; reflexivity. Qed.
Lemma needs_repo_gc_return : forall pr b, needs_repo (p_pc (gc_return pr b)) = false.
Proof. intros; destruct (gc_return_pc pr b) as [E|E]; rewrite E; [reflexivity|apply needs_repo_start]. Qed.
Lemma repo_mode_use_return : forall pr b, repo_mode (p_pc (use_return pr b)) = None.
Proof. intros; destruct (use_return_pc pr b) as [E|[E|E]]; rewrite E; reflexivity. Qed.
Lemma repo_mode_gc_return : forall pr b, repo_mode (p_pc (gc_return pr b)) = None.
Proof. intros; destruct (gc_return_pc pr b) as [E|E]; rewrite E; [reflexivity|apply repo_mode_start]. Qed.

Ltac simp_ret :=
  rewrite ?finish_pc, ?pend_start, ?needs_repo_start, ?repo_mode_start, ?gphase_start,
          ?pend_use_return, ?pend_gc_return, ?needs_repo_use_return, ?needs_repo_gc_return,
          ?repo_mode_use_return, ?repo_mode_gc_return, ?gphase_use_return, ?gphase_gc_return in *.

(* steps that touch neither repo.json nor the pending / locked / collecting status of their process *)
Lemma step_frame : forall s i s' pr pr', step s i = Some s' -> proc_at s i pr -> proc_at s' i pr' ->
  acct_rel (p_pc pr) = false ->
  st_repo s' = st_repo s /\ st_rtrunc s' = st_rtrunc s /\
  pend (p_pc pr') = false /\ repo_mode (p_pc pr') <> Some true /\ gphase (p_pc pr') = false /\
  (needs_repo (p_pc pr') = true -> st_repo s <> None).
Proof.
  intros s i s' pr0 pr' H Hp0 Hp' R. unfold proc_at in *.
  step_cases H pr Hpr Hpc; subst; inversion Hp0; subst pr0; clear Hp0;
    rewrite Hpc in R; try discriminate R;
    unfold flush_repo in *;
    repeat match type of Hp' with context [if ?b then _ else _] => destruct b end;
    simp_st; rewrite (nth_error_set_nth_same _ _ _ _ _ Hpr) in Hp'; inversion Hp'; subst pr'; clear Hp';
    simp_ret; simp_st; repeat split; auto; try discriminate; try congruence.
Qed.

Lemma acct_rel_false : forall pc, acct_rel pc = false ->
  pend pc = false /\ repo_mode pc <> Some true /\ gphase pc = false.
Proof. destruct pc; cbn; intros; try discriminate; repeat split; auto; discriminate. Qed.

Lemma repo_x_not_pend : forall pc, repo_mode pc = Some true -> pend pc = false.
Proof. destruct pc; cbn; intros; try discriminate; auto. Qed.

(* the exclusive holder leaves its critical section (everything flushed) *)
Lemma acct_release : forall s s' i pr pr',
  excl_repo s ->
  (forall j prj, j <> i -> (proc_at s' j prj <-> proc_at s j prj)) ->
  proc_at s i pr -> proc_at s' i pr' ->
  repo_mode (p_pc pr) = Some true ->
  st_repo s' = st_repo s -> st_rtrunc s' = false ->
  (forall q, lsize s' q = lsize s q) ->
  pend (p_pc pr') = false -> repo_mode (p_pc pr') <> Some true -> gphase (p_pc pr') = false ->
  needs_repo (p_pc pr') = false ->
  acct s -> acct s'.
Proof.
  intros s s' i pr pr' ER Hoth Hp Hp' Hm Hrepo Htr Hls Hpe Hm' Hg Hn A.
  assert (Hpk : pkgs s' = pkgs s) by (unfold pkgs; rewrite Hrepo; reflexivity).
  assert (Hpe0 : pend (p_pc pr) = false) by (apply repo_x_not_pend; auto).
  assert (Hsplit : forall j prj, proc_at s' j prj -> (j = i /\ prj = pr') \/ (j <> i /\ proc_at s j prj)).
  { intros j prj Hj. destruct (Nat.eq_dec j i) as [->|Hne].
    - left; split; auto. unfold proc_at in *; congruence.
    - right; split; auto. apply Hoth; auto. }
  constructor.
  - intros j prj Hj Hmj. destruct (Hsplit j prj Hj) as [[-> ->]|[Hne Hj0]]; [congruence|].
    rewrite (ER i j pr prj) in Hmj; auto; discriminate.
  - rewrite Htr; discriminate.
  - rewrite Hpk. apply (a_nd _ A).
  - intros q sz Hin. rewrite Hpk in Hin. rewrite Hls. apply (a_vis _ A q sz Hin).
  - intros j prj Hj Hpj. rewrite Hpk, Hls. destruct (Hsplit j prj Hj) as [[-> ->]|[Hne Hj0]]; [congruence|].
    apply (a_pend _ A j prj Hj0 Hpj).
  - intros a b pa pb Hab Ha Hb Hpa Hpb.
    destruct (Hsplit a pa Ha) as [[-> ->]|[Hna Ha0]]; destruct (Hsplit b pb Hb) as [[-> ->]|[Hnb Hb0]]; try congruence.
    apply (a_uniq _ A a b pa pb Hab Ha0 Hb0 Hpa Hpb).
  - intros q Hq. rewrite Hls in Hq. rewrite Hpk. destruct (a_all _ A q Hq) as [Hin|(j & prj & Hj & Hpj & Hq2)]; auto.
    right. destruct (Nat.eq_dec j i) as [->|Hne].
    + assert (prj = pr) by (unfold proc_at in *; congruence); subst prj. congruence.
    + exists j, prj. split; [apply Hoth; auto|auto].
  - intros j prj Hj Hgj. destruct (Hsplit j prj Hj) as [[-> ->]|[Hne Hj0]]; [congruence|]. apply (a_gc _ A j prj Hj0 Hgj).
  - intros j prj Hj Hnj. rewrite Hrepo. destruct (Hsplit j prj Hj) as [[-> ->]|[Hne Hj0]]; [congruence|]. apply (a_repo _ A j prj Hj0 Hnj).
Qed.

(* Permutation facts for the sort *)
Lemma insert_cand_perm : forall c l, Permutation (insert_cand c l) (c :: l).
Proof.
  induction l as [|x r IH]; cbn; auto. destruct (cand_leb c x); auto.
  eapply perm_trans; [apply perm_skip; exact IH|apply perm_swap].
Qed.

Lemma sort_cands_perm : forall l, Permutation (sort_cands l) l.
Proof.
  induction l as [|x r IH]; cbn; auto. eapply perm_trans; [apply insert_cand_perm|]. auto.
Qed.

Lemma gc_ids_sorted : forall pr x, p_todo pr = [] -> gc_ids pr -> p_pc pr <> GMove ->
  gc_ids (set_pc (set_gc pr [] (p_cands pr) (sort_cands (p_cands pr)) [] (p_scan pr)) x).
Proof.
  intros pr x Ht [G1 _] Hn. destruct (G1 Hn) as [ND IN]. unfold scan_ids in *. rewrite Ht, app_nil_r in *.
  unfold gc_ids, scan_ids; simp_st. split; intros _.
  - rewrite app_nil_r. auto.
  - split.
    + eapply Permutation_NoDup; [|exact ND]. apply Permutation_map. apply Permutation_sym, sort_cands_perm.
    + intros c Hc. apply IN. apply in_map. apply In_sort_cands; auto.
Qed.

Lemma lsize_same_store : forall s s' q, st_store s' = st_store s -> lsize s' q = lsize s q.
Proof. unfold lsize; intros s s' q E; rewrite E; reflexivity. Qed.

Lemma lsize_lookup : forall s q, lsize s q <> None -> lookup q (st_store s) <> None.
Proof. unfold lsize; intros s q H E; rewrite E in H; auto. Qed.

Lemma In_keys_pair : forall A (l : list (N * A)) q, In q (map fst l) -> exists v, In (q, v) l.
Proof.
  intros A l q H. apply in_map_iff in H. destruct H as ([k v] & E & Hin). cbn in E; subst. eauto.
Qed.

Lemma proc_split : forall s s' i pr',
  (forall j prj, j <> i -> (proc_at s' j prj <-> proc_at s j prj)) -> proc_at s' i pr' ->
  forall j prj, proc_at s' j prj -> (j = i /\ prj = pr') \/ (j <> i /\ proc_at s j prj).
Proof.
  intros s s' i pr' Hoth Hp' j prj Hj. destruct (Nat.eq_dec j i) as [->|Hne].
  - left; split; auto. unfold proc_at in *; congruence.
  - right; split; auto. apply Hoth; auto.
Qed.

(* --- gc bookkeeping of package ids *)
Lemma gc_ids_scan : forall pr pr', gc_ids pr -> p_pc pr <> GMove -> p_pc pr' <> GMove ->
  p_meta pr' = p_meta pr -> (forall x, In x (scan_ids pr') -> In x (scan_ids pr)) -> NoDup (scan_ids pr') -> gc_ids pr'.
Proof.
  intros pr pr' [G1 _] Hn Hn' Hm Hsub ND. destruct (G1 Hn) as [_ IN]. split; [|intros E; congruence].
  intros _. split; auto. intros x Hx. rewrite Hm. auto.
Qed.

Lemma gc_ids_queue_tail : forall pr pr' c rest, gc_ids pr -> p_pc pr = GMove -> p_queue pr = c :: rest ->
  p_pc pr' = GMove -> p_queue pr' = rest ->
  (p_meta pr' = p_meta pr \/ p_meta pr' = remove_key (c_id c) (p_meta pr)) -> gc_ids pr'.
Proof.
  intros pr pr' c rest [_ G2] Hpc Hq Hpc' Hq' Hm. destruct (G2 Hpc) as [ND IN]. rewrite Hq in *. cbn in ND.
  apply NoDup_cons_iff in ND. destruct ND as [Hnin ND']. split; [intros E; congruence|]. intros _. rewrite Hq'. split; auto.
  intros c' Hc'. destruct Hm as [-> | ->]; [apply IN; right; auto|].
  apply keys_remove_key_In. split; [|apply IN; right; auto].
  intros E. apply Hnin. rewrite <- E. apply in_map; auto.
Qed.

(* the installer has renamed its package into the store *)
Lemma acct_rename : forall s s' i pr pr',
  (forall j prj, j <> i -> (proc_at s' j prj <-> proc_at s j prj)) ->
  proc_at s i pr -> proc_at s' i pr' ->
  p_pc pr = IRename -> p_pc pr' = IOpenRepo -> cur pr' = cur pr ->
  st_repo s' = st_repo s -> st_rtrunc s' = st_rtrunc s ->
  lookup (o_pkg (cur pr)) (st_store s) = None ->
  lsize s' (o_pkg (cur pr)) = Some (o_size (cur pr)) ->
  (forall q, q <> o_pkg (cur pr) -> lsize s' q = lsize s q) ->
  acct s -> acct s'.
Proof.
  intros s s' i pr pr' Hoth Hp Hp' Hpc Hpc' Hcur Hrepo Htr Hnone Hnew Hls A.
  assert (Hpk : pkgs s' = pkgs s) by (unfold pkgs; rewrite Hrepo; reflexivity).
  pose proof (proc_split s s' i pr' Hoth Hp') as Hsplit.
  assert (Hfresh : forall q, lsize s q <> None -> q <> o_pkg (cur pr)).
  { intros q Hq E. subst q. apply (lsize_lookup _ _ Hq). auto. }
  constructor.
  - intros j prj Hj Hm. rewrite Hrepo, Htr. destruct (Hsplit j prj Hj) as [[-> ->]|[Hne Hj0]].
    + rewrite Hpc' in Hm; discriminate.
    + apply (a_rl _ A j prj Hj0 Hm).
  - rewrite Htr. intros Ht. destruct (a_rt _ A Ht) as (j & prj & Hj & Hm). exists j, prj. split; auto.
    apply Hoth; auto. intros ->. assert (prj = pr) by (unfold proc_at in *; congruence); subst. rewrite Hpc in Hm; discriminate.
  - rewrite Hpk. apply (a_nd _ A).
  - intros q sz Hin. rewrite Hpk in Hin. pose proof (a_vis _ A q sz Hin) as Hv.
    rewrite Hls; auto. apply Hfresh. congruence.
  - intros j prj Hj Hpe. rewrite Hpk. destruct (Hsplit j prj Hj) as [[-> ->]|[Hne Hj0]].
    + rewrite Hcur. split; auto. intros Hin. apply In_keys_pair in Hin. destruct Hin as (sz & Hin).
      pose proof (a_vis _ A _ _ Hin) as Hv. apply (Hfresh (o_pkg (cur pr))); congruence.
    + destruct (a_pend _ A j prj Hj0 Hpe) as [P1 P2]. split; auto. rewrite Hls; auto. apply Hfresh; congruence.
  - intros a b pa pb Hab Ha Hb Hpa Hpb.
    destruct (Hsplit a pa Ha) as [[-> ->]|[Hna Ha0]]; destruct (Hsplit b pb Hb) as [[-> ->]|[Hnb Hb0]]; try congruence.
    + rewrite Hcur. destruct (a_pend _ A b pb Hb0 Hpb) as [P1 _]. intros E. apply (Hfresh (o_pkg (cur pb))); congruence.
    + rewrite Hcur. destruct (a_pend _ A a pa Ha0 Hpa) as [P1 _]. apply Hfresh; congruence.
    + apply (a_uniq _ A a b pa pb Hab Ha0 Hb0 Hpa Hpb).
  - intros q Hq. rewrite Hpk. destruct (N.eq_dec q (o_pkg (cur pr))) as [->|Hne].
    + right. exists i, pr'. rewrite Hpc', Hcur. auto.
    + rewrite Hls in Hq by auto. destruct (a_all _ A q Hq) as [Hin|(j & prj & Hj & Hpj & Hq2)]; auto.
      right. exists j, prj. split; auto. apply Hoth; auto. intros ->.
      assert (prj = pr) by (unfold proc_at in *; congruence); subst. rewrite Hpc in Hpj; discriminate.
  - intros j prj Hj Hg. destruct (Hsplit j prj Hj) as [[-> ->]|[Hne Hj0]]; [rewrite Hpc' in Hg; discriminate|].
    apply (a_gc _ A j prj Hj0 Hg).
  - intros j prj Hj Hn. rewrite Hrepo. destruct (Hsplit j prj Hj) as [[-> ->]|[Hne Hj0]]; [rewrite Hpc' in Hn; discriminate|].
    apply (a_repo _ A j prj Hj0 Hn).
Qed.

Lemma In_set_key_nodup : forall A k k' (v v' : A) l, NoDup (map fst l) ->
  In (k', v') (set_key k v l) -> (k' = k /\ v' = v) \/ (k' <> k /\ In (k', v') l).
Proof.
  induction l as [|[k2 v2] r IH]; cbn; intros ND H.
  - destruct H as [H|[]]; inversion H; auto.
  - inversion ND as [|x l0 Hnin ND']; subst. destruct (k =? k2) eqn:E; cbn in H.
    + apply N.eqb_eq in E; subst k2. destruct H as [H|H]; [inversion H; auto|].
      right. split; [|auto]. intros ->. apply Hnin. apply in_map_iff. exists (k, v'); auto.
    + assert (k2 <> k) by (intros ->; rewrite N.eqb_refl in E; discriminate).
      destruct H as [H|H]; [inversion H; subst; auto|]. destruct (IH ND' H) as [?|[? ?]]; auto.
Qed.

Lemma no_holder_free : forall s, acct s -> repo_free_x s = true -> st_rtrunc s = false.
Proof.
  intros s A Hf. destruct (st_rtrunc s) eqn:E; auto.
  destruct (a_rt _ A E) as (j & prj & Hj & Hm). unfold repo_free_x in Hf.
  pose proof (forallb_nth _ _ _ _ _ Hf Hj) as X. cbn in X. rewrite Hm in X. discriminate.
Qed.

Lemma free_no_x : forall s j prj, repo_free_x s = true -> proc_at s j prj -> repo_mode (p_pc prj) = None.
Proof.
  intros s j prj Hf Hj. unfold repo_free_x in Hf. pose proof (forallb_nth _ _ _ _ _ Hf Hj) as X. cbn in X.
  destruct (repo_mode (p_pc prj)); [discriminate|reflexivity].
Qed.

(* somebody creates the empty repo.json *)
Lemma acct_create : forall s s' i pr pr',
  (forall j prj, j <> i -> (proc_at s' j prj <-> proc_at s j prj)) ->
  proc_at s i pr -> proc_at s' i pr' ->
  pend (p_pc pr') = pend (p_pc pr) -> repo_mode (p_pc pr') <> Some true -> gphase (p_pc pr') = false ->
  cur pr' = cur pr ->
  st_repo s = None -> st_repo s' = Some [] -> st_rtrunc s' = false ->
  (forall q, lsize s' q = lsize s q) ->
  acct s -> acct s'.
Proof.
  intros s s' i pr pr' Hoth Hp Hp' Hpe Hmode Hgp Hcur Hnone Hrepo Htr Hls A.
  assert (Hpk : pkgs s' = pkgs s) by (unfold pkgs; rewrite Hrepo, Hnone; reflexivity).
  pose proof (proc_split s s' i pr' Hoth Hp') as Hsplit.
  assert (NoX : forall j prj, proc_at s j prj -> repo_mode (p_pc prj) <> Some true).
  { intros j prj Hj Hm. destruct (a_rl _ A j prj Hj Hm). congruence. }
  constructor.
  - intros j prj Hj Hm. destruct (Hsplit j prj Hj) as [[-> ->]|[Hne Hj0]]; [congruence|].
    exfalso; eapply NoX; eauto.
  - rewrite Htr; discriminate.
  - rewrite Hpk. apply (a_nd _ A).
  - intros q sz Hin. rewrite Hpk in Hin. rewrite Hls. apply (a_vis _ A q sz Hin).
  - intros j prj Hj Hpj. rewrite Hpk, Hls. destruct (Hsplit j prj Hj) as [[-> ->]|[Hne Hj0]].
    + rewrite Hcur. apply (a_pend _ A i pr Hp). congruence.
    + apply (a_pend _ A j prj Hj0 Hpj).
  - intros a b pa pb Hab Ha Hb Hpa Hpb.
    destruct (Hsplit a pa Ha) as [[-> ->]|[Hna Ha0]]; destruct (Hsplit b pb Hb) as [[-> ->]|[Hnb Hb0]]; try congruence.
    + rewrite Hcur. apply (a_uniq _ A i b pr pb Hab Hp Hb0); congruence.
    + rewrite Hcur. apply (a_uniq _ A a i pa pr Hab Ha0 Hp); congruence.
    + apply (a_uniq _ A a b pa pb Hab Ha0 Hb0 Hpa Hpb).
  - intros q Hq. rewrite Hls in Hq. rewrite Hpk. destruct (a_all _ A q Hq) as [Hin|(j & prj & Hj & Hpj & Hq2)]; auto.
    right. destruct (Nat.eq_dec j i) as [->|Hne].
    + assert (prj = pr) by (unfold proc_at in *; congruence); subst prj.
      exists i, pr'. rewrite Hcur. split; auto. split; congruence.
    + exists j, prj. split; [apply Hoth; auto|auto].
  - intros j prj Hj Hg. destruct (Hsplit j prj Hj) as [[-> ->]|[Hne Hj0]]; [congruence|].
    apply (a_gc _ A j prj Hj0 Hg).
  - intros j prj Hj Hn. rewrite Hrepo. discriminate.
Qed.

(* the installer has the lock, has read repo.json and truncated it *)
Lemma acct_lock : forall s s' i pr pr' l0,
  (forall j prj, j <> i -> (proc_at s' j prj <-> proc_at s j prj)) ->
  proc_at s i pr -> proc_at s' i pr' ->
  p_pc pr = ILockRepo -> p_pc pr' = IWrite ->
  repo_free_x s = true -> disk_repo s = Some l0 ->
  st_repo s' = Some (set_key (o_pkg (cur pr)) (o_size (cur pr)) l0) -> st_rtrunc s' = true ->
  p_meta pr' = set_key (o_pkg (cur pr)) (o_size (cur pr)) l0 -> p_dirty pr' = true ->
  (forall q, lsize s' q = lsize s q) ->
  acct s -> acct s'.
Proof.
  intros s s' i pr pr' l0 Hoth Hp Hp' Hpc Hpc' Hfree Hdisk Hrepo Htr Hmeta Hdirty Hls A.
  pose proof (no_holder_free _ A Hfree) as Hnt.
  assert (Hl0 : st_repo s = Some l0).
  { unfold disk_repo in Hdisk. rewrite Hnt in Hdisk. destruct (st_repo s); congruence. }
  assert (Hpk0 : pkgs s = l0) by (unfold pkgs; rewrite Hl0; reflexivity).
  assert (Hpk : pkgs s' = set_key (o_pkg (cur pr)) (o_size (cur pr)) l0) by (unfold pkgs; rewrite Hrepo; reflexivity).
  pose proof (proc_split s s' i pr' Hoth Hp') as Hsplit.
  assert (Hpi : pend (p_pc pr) = true) by (rewrite Hpc; reflexivity).
  destruct (a_pend _ A i pr Hp Hpi) as [Pi1 Pi2]. rewrite Hpk0 in Pi2.
  pose proof (a_nd _ A) as ND. rewrite Hpk0 in ND.
  constructor.
  - intros j prj Hj Hm. destruct (Hsplit j prj Hj) as [[-> ->]|[Hne Hj0]]; [rewrite Hrepo, Htr, Hmeta, Hdirty; auto|].
    rewrite (free_no_x _ _ _ Hfree Hj0) in Hm; discriminate.
  - intros _. exists i, pr'. rewrite Hpc'. auto.
  - rewrite Hpk. apply NoDup_set_key; auto.
  - intros q sz Hin. rewrite Hpk in Hin. rewrite Hls.
    destruct (In_set_key_nodup _ _ _ _ _ _ ND Hin) as [[-> ->]|[Hne Hin0]]; auto.
    apply (a_vis _ A q sz). rewrite Hpk0; auto.
  - intros j prj Hj Hpe. destruct (Hsplit j prj Hj) as [[-> ->]|[Hne Hj0]]; [rewrite Hpc' in Hpe; discriminate|].
    destruct (a_pend _ A j prj Hj0 Hpe) as [P1 P2]. rewrite Hls, Hpk. split; auto.
    rewrite keys_set_key_In. intros [E|Hin]; [|rewrite Hpk0 in P2; auto].
    apply (a_uniq _ A j i prj pr Hne Hj0 Hp Hpe Hpi E).
  - intros a b pa pb Hab Ha Hb Hpa Hpb.
    destruct (Hsplit a pa Ha) as [[-> ->]|[Hna Ha0]]; [rewrite Hpc' in Hpa; discriminate|].
    destruct (Hsplit b pb Hb) as [[-> ->]|[Hnb Hb0]]; [rewrite Hpc' in Hpb; discriminate|].
    apply (a_uniq _ A a b pa pb Hab Ha0 Hb0 Hpa Hpb).
  - intros q Hq. rewrite Hls in Hq. rewrite Hpk. destruct (a_all _ A q Hq) as [Hin|(j & prj & Hj & Hpj & Hq2)].
    + left. rewrite keys_set_key_In. rewrite Hpk0 in Hin. auto.
    + destruct (Nat.eq_dec j i) as [->|Hne].
      * assert (prj = pr) by (unfold proc_at in *; congruence); subst prj.
        left. rewrite keys_set_key_In. auto.
      * right. exists j, prj. split; [apply Hoth; auto|auto].
  - intros j prj Hj Hg. destruct (Hsplit j prj Hj) as [[-> ->]|[Hne Hj0]]; [rewrite Hpc' in Hg; discriminate|].
    apply (a_gc _ A j prj Hj0 Hg).
  - intros j prj Hj Hn. rewrite Hrepo. discriminate.
Qed.

(* gc moves package q to its attic and rewrites repo.json *)
Lemma acct_collect : forall s s' i pr pr' q tr,
  excl_repo s ->
  (forall j prj, j <> i -> (proc_at s' j prj <-> proc_at s j prj)) ->
  proc_at s i pr -> proc_at s' i pr' ->
  repo_mode (p_pc pr) = Some true ->
  In q (map fst (p_meta pr)) ->
  st_repo s' = Some (remove_key q (p_meta pr)) -> st_rtrunc s' = tr ->
  lsize s' q = None -> (forall q', q' <> q -> lsize s' q' = lsize s q') ->
  pend (p_pc pr') = false -> needs_repo (p_pc pr') = false ->
  (repo_mode (p_pc pr') = Some true -> p_meta pr' = remove_key q (p_meta pr) /\ p_dirty pr' = tr) ->
  (repo_mode (p_pc pr') <> Some true -> tr = false) ->
  (gphase (p_pc pr') = true -> gc_ids pr') ->
  acct s -> acct s'.
Proof.
  intros s s' i pr pr' q tr ER Hoth Hp Hp' Hm Hq Hrepo Htr Hgone Hls Hpe Hn Hx Hnx Hg A.
  destruct (a_rl _ A i pr Hp Hm) as [RL1 RL2].
  assert (Hpk0 : pkgs s = p_meta pr) by (unfold pkgs; rewrite RL1; reflexivity).
  assert (Hpk : pkgs s' = remove_key q (p_meta pr)) by (unfold pkgs; rewrite Hrepo; reflexivity).
  pose proof (proc_split s s' i pr' Hoth Hp') as Hsplit.
  assert (Hpe0 : pend (p_pc pr) = false) by (apply repo_x_not_pend; auto).
  constructor.
  - intros j prj Hj Hmj. destruct (Hsplit j prj Hj) as [[-> ->]|[Hne Hj0]].
    + destruct (Hx Hmj) as [E1 E2]. rewrite Hrepo, Htr, E1, E2. auto.
    + rewrite (ER i j pr prj) in Hmj; auto; discriminate.
  - rewrite Htr. intros ->. exists i, pr'. split; auto.
    destruct (repo_mode (p_pc pr')) as [[|]|] eqn:E; auto; exfalso; assert (true = false) by (apply Hnx; congruence); discriminate.
  - rewrite Hpk. apply NoDup_remove_key. rewrite <- Hpk0. apply (a_nd _ A).
  - intros q' sz Hin. rewrite Hpk in Hin. apply In_remove_key in Hin. destruct Hin as [Hne Hin].
    rewrite Hls by auto. apply (a_vis _ A). rewrite Hpk0; auto.
  - intros j prj Hj Hpj. destruct (Hsplit j prj Hj) as [[-> ->]|[Hne Hj0]]; [congruence|].
    destruct (a_pend _ A j prj Hj0 Hpj) as [P1 P2]. rewrite Hpk0 in P2.
    assert (o_pkg (cur prj) <> q) by (intros E; apply P2; rewrite E; auto).
    rewrite Hls by auto. split; auto. rewrite Hpk, keys_remove_key_In. tauto.
  - intros a b pa pb Hab Ha Hb Hpa Hpb.
    destruct (Hsplit a pa Ha) as [[-> ->]|[Hna Ha0]]; [congruence|].
    destruct (Hsplit b pb Hb) as [[-> ->]|[Hnb Hb0]]; [congruence|].
    apply (a_uniq _ A a b pa pb Hab Ha0 Hb0 Hpa Hpb).
  - intros q' Hq'. destruct (N.eq_dec q' q) as [->|Hne]; [congruence|].
    rewrite Hls in Hq' by auto. rewrite Hpk. destruct (a_all _ A q' Hq') as [Hin|(j & prj & Hj & Hpj & Hq2)].
    + left. rewrite keys_remove_key_In. rewrite Hpk0 in Hin. auto.
    + right. exists j, prj. split; auto. apply Hoth; auto. intros ->.
      assert (prj = pr) by (unfold proc_at in *; congruence); subst. congruence.
  - intros j prj Hj Hgj. destruct (Hsplit j prj Hj) as [[-> ->]|[Hne Hj0]]; auto. apply (a_gc _ A j prj Hj0 Hgj).
  - intros j prj Hj Hnj. rewrite Hrepo. discriminate.
Qed.

Lemma gc_ids_scan_eq : forall pr pr', gc_ids pr -> p_pc pr <> GMove -> p_pc pr' <> GMove ->
  p_meta pr' = p_meta pr -> scan_ids pr' = scan_ids pr -> gc_ids pr'.
Proof.
  intros pr pr' G Hn Hn' Hm E. apply (gc_ids_scan pr pr' G Hn Hn' Hm).
  - intros x; rewrite E; auto.
  - rewrite E. destruct G as [G1 _]. apply G1; auto.
Qed.

Lemma gc_ids_scan_drop : forall pr pr' A n R, gc_ids pr -> p_pc pr <> GMove -> p_pc pr' <> GMove ->
  p_meta pr' = p_meta pr -> scan_ids pr = A ++ n :: R -> scan_ids pr' = A ++ R -> gc_ids pr'.
Proof.
  intros pr pr' A n R G Hn Hn' Hm E E'. apply (gc_ids_scan pr pr' G Hn Hn' Hm).
  - intros x; rewrite E, E'. rewrite !in_app_iff. cbn. tauto.
  - rewrite E'. destruct G as [G1 _]. destruct (G1 Hn) as [ND _]. rewrite E in ND. eapply NoDup_remove_1; eauto.
Qed.

Ltac own_proc Hpr := unfold proc_at; cbn [st_procs upd_proc with_store with_repo with_links with_log with_dir]; eapply nth_error_set_nth_same; exact Hpr.

Lemma acct_step : forall s i s', base_inv s -> acct s -> step s i = Some s' -> acct s'.
Proof.
  intros s i s' B A H.
  destruct (step_proc_at_self _ _ _ H) as (pr & pr' & Hp & Hp').
  pose proof (fun j prj (Hne : j <> i) => step_proc_at_other s i s' j prj H Hne) as Hoth.
  pose proof H as Hstep.
  destruct (acct_rel (p_pc pr)) eqn:R.
  2:{ destruct (step_frame _ _ _ _ _ H Hp Hp' R) as (E1 & E2 & E3 & E4 & E5 & E6).
      destruct (acct_rel_false _ R) as (F1 & F2 & F3).
      apply (acct_transfer s s' i pr pr'); auto; try congruence.
      intros q. destruct (step_lsize _ _ _ _ q (b_ul _ B) (b_tmp _ B) H Hp) as [E|[(Ec & _)|(Ec & _)]]; auto;
        rewrite Ec in R; discriminate R. }
  unfold proc_at in Hp, Hp'.
  step_cases H pr0 Hpr Hpc; subst; inversion Hp; subst pr0; clear Hp;
    rewrite Hpc in R; try discriminate R; clear R;
    unfold flush_repo in *.
  all: repeat match type of Hp' with context [if ?b then _ else _] => destruct b eqn:? end;
       simp_st; rewrite (nth_error_set_nth_same _ _ _ _ _ Hpr) in Hp'; inversion Hp'; subst pr'; clear Hp';
       norm_next.
  (* generic: nothing relevant changes *)
  all: try (solve [ eapply (acct_transfer s _ i pr); try exact Hoth; try exact A; try exact Hpr;
                    try (own_proc Hpr);
                    simp_st; simp_cur; rewrite ?Hpc; cbn [pend repo_mode gphase needs_repo];
                    auto; try congruence; try discriminate;
                    try (intros; apply lsize_same_store; reflexivity) ]).
  (* the file does not exist although somebody is about to lock it: impossible *)
  all: try (solve [ exfalso; apply (a_repo _ A i pr Hpr); [rewrite Hpc; reflexivity|];
                    unfold disk_repo in *; destruct (st_repo s); [discriminate|reflexivity] ]).
  (* the holder of the exclusive lock leaves *)
  all: try (solve [ destruct (a_rl _ A i pr Hpr ltac:(rewrite Hpc; reflexivity)) as [RL1 RL2];
                    eapply (acct_release s _ i pr);
                    [exact (b_er _ B)|exact Hoth|exact Hpr|own_proc Hpr|rewrite Hpc; reflexivity
                    |simp_st; congruence|simp_st; congruence|intros; apply lsize_same_store; reflexivity
                    |simp_ret; simp_st; auto; try discriminate
                    |simp_ret; simp_st; auto; try discriminate
                    |simp_ret; simp_st; auto; try discriminate
                    |simp_ret; simp_st; auto; try discriminate
                    |exact A] ]).
  (* IRename: the package appears in the store *)
  all: try (match goal with Hpc : p_pc _ = IRename |- _ => idtac end;
       destruct (b_tmp _ B i pr Hpr) as [_ T2]; destruct (T2 Hpc) as (d0 & m & Hd & Ha & Hm & Ht & Hs & _);
       rewrite Hd in *; inv_some;
       eapply (acct_rename s _ i pr); [exact Hoth|exact Hpr|own_proc Hpr|exact Hpc|reflexivity|reflexivity|reflexivity|reflexivity
         |apply has_key_false; assumption
         |unfold lsize; simp_st; rewrite lookup_app_new by (apply has_key_false; assumption); rewrite Hm; congruence
         |intros q Hne; unfold lsize; simp_st; rewrite lookup_app_other by auto; reflexivity
         |exact A]).
  (* ICreateRepo *)
  all: try (match goal with |- acct (upd_proc (with_repo _ (Some []) false) _ _) => idtac end;
       eapply (acct_create s _ i pr); [exact Hoth|exact Hpr|own_proc Hpr|simp_st; rewrite Hpc; reflexivity
         |simp_st; discriminate|reflexivity|reflexivity|assumption
         |reflexivity|reflexivity|intros; apply lsize_same_store; reflexivity|exact A]).
  (* ILockRepo *)
  all: try (match goal with Hpc : p_pc _ = ILockRepo |- _ => idtac end;
       eapply (acct_lock s _ i pr); [exact Hoth|exact Hpr|own_proc Hpr|exact Hpc|reflexivity|assumption|eassumption
         |reflexivity|reflexivity|reflexivity|reflexivity|intros; apply lsize_same_store; reflexivity|exact A]).
  (* steps of the exclusive holder that leave repo.json alone: what remains is the bookkeeping of gc *)
  all: try (match goal with Hpc : p_pc _ = GLock |- _ => fail 1 | _ => idtac end;
       match goal with |- acct (upd_proc (with_log _ _) _ _) => fail 1 | |- acct (upd_proc (with_repo _ _ _) _ _) => fail 1 | _ => idtac end;
       eapply (acct_transfer s _ i pr);
         [exact Hoth|exact Hpr|own_proc Hpr|reflexivity|reflexivity|intros; apply lsize_same_store; reflexivity
         |simp_st; rewrite ?Hpc; reflexivity
         |intros; simp_cur; reflexivity
         |intros _; simp_st; exact (a_rl _ A i pr Hpr ltac:(rewrite Hpc; reflexivity))
         |intros _; left; reflexivity
         |intros Hgp; try (cbn in Hgp; discriminate Hgp); pose proof (a_gc _ A i pr Hpr ltac:(rewrite Hpc; reflexivity)) as G
         |simp_st; cbn; discriminate
         |exact A]).
  all: try (match goal with G : gc_ids ?p |- gc_ids _ =>
         first
         [ (* same ids *)
           apply (gc_ids_scan_eq p); [exact G|rewrite Hpc; discriminate|simp_st; discriminate|reflexivity
             |unfold scan_ids; simp_st; rewrite ?Heql; cbn [map]; rewrite ?map_app, <- ?app_assoc; reflexivity]
         | (* the head of the todo list is dropped *)
           eapply (gc_ids_scan_drop p); [exact G|rewrite Hpc; discriminate|simp_st; discriminate|reflexivity
             |unfold scan_ids; simp_st; rewrite Heql; cbn [map fst]; reflexivity
             |unfold scan_ids; simp_st; reflexivity]
         | (* the collection loop proceeds *)
           eapply (gc_ids_queue_tail p); [exact G|exact Hpc|eassumption|reflexivity|reflexivity|left; reflexivity]
         | (* sorted *)
           apply gc_ids_sorted; [assumption|exact G|rewrite Hpc; discriminate] ] end).
  (* GScan skipped the last package: sort *)
  all: try (match goal with G : gc_ids ?p |- gc_ids _ =>
         apply gc_ids_sorted;
           [simp_st; assumption
           |eapply (gc_ids_scan_drop p); [exact G|rewrite Hpc; discriminate|simp_st; rewrite Hpc; discriminate|reflexivity
             |unfold scan_ids; simp_st; rewrite Heql; cbn [map fst]; reflexivity
             |unfold scan_ids; simp_st; reflexivity]
           |simp_st; rewrite Hpc; discriminate] end).
  (* GLock: gc enters its critical section *)
  all: try (match goal with Hpc : p_pc _ = GLock |- _ => idtac end;
       pose proof (no_holder_free _ A Heqb) as Hnt;
       assert (Hl : st_repo s = Some l) by (unfold disk_repo in Heqo; rewrite Hnt in Heqo; destruct (st_repo s); congruence);
       eapply (acct_transfer s _ i pr);
         [exact Hoth|exact Hpr|own_proc Hpr|reflexivity|reflexivity|intros; apply lsize_same_store; reflexivity
         |simp_ret; simp_st; rewrite ?Hpc; reflexivity
         |intros Hpe; first [rewrite Hpc in Hpe; discriminate Hpe|simp_cur; reflexivity]
         |intros _; simp_st; split; assumption
         |intros Hm; rewrite Hpc in Hm; discriminate Hm
         |intros Hgp; simp_ret;
          first [cbn in Hgp; discriminate Hgp
                |unfold gc_ids, scan_ids; simp_st; cbn [map app sort_cands fold_right];
                 split; [intros Hn; first [exfalso; apply Hn; reflexivity
                                         |split; [pose proof (a_nd _ A) as ND; unfold pkgs in ND; rewrite Hl in ND; exact ND|auto]]
                        |intros _; split; [constructor|intros ? []]]]
         |simp_ret; simp_st; cbn; try discriminate; auto
         |exact A]).
  (* GMove: a package goes to the attic *)
  all: try (match goal with Hpc : p_pc _ = GMove |- _ => idtac end;
       pose proof (a_gc _ A i pr Hpr ltac:(rewrite Hpc; reflexivity)) as G;
       eapply (acct_collect s _ i pr _ (c_id c));
         [exact (b_er _ B)|exact Hoth|exact Hpr|own_proc Hpr|rewrite Hpc; reflexivity
         |destruct G as [_ G2]; destruct (G2 Hpc) as [_ IN]; apply IN; rewrite Heql; left; reflexivity
         |reflexivity|reflexivity
         |unfold lsize; simp_st; rewrite lookup_remove_key_same; reflexivity
         |intros q' Hne; unfold lsize; simp_st; rewrite lookup_remove_key_other by auto; reflexivity
         |simp_ret; simp_st; reflexivity
         |simp_ret; simp_st; reflexivity
         |intros _; simp_st; split; reflexivity
         |simp_ret; simp_st; intros Hn; try reflexivity; exfalso; apply Hn; reflexivity
         |simp_ret; simp_st; intros Hgp;
          first [cbn in Hgp; discriminate Hgp
                |eapply (gc_ids_queue_tail pr); [exact G|exact Hpc|exact Heql|reflexivity|reflexivity|right; reflexivity]]
         |exact A]).
  (* useSharedPackage without a store directory *)
  all: try (eapply (acct_transfer s _ i pr);
         [exact Hoth|exact Hpr|own_proc Hpr|reflexivity|reflexivity|intros; apply lsize_same_store; reflexivity
         |simp_ret; rewrite Hpc; reflexivity
         |intros Hpe; rewrite Hpc in Hpe; discriminate Hpe
         |intros Hm; simp_ret; discriminate Hm
         |intros Hm; rewrite Hpc in Hm; discriminate Hm
         |intros Hg; simp_ret; discriminate Hg
         |intros Hn; simp_ret; discriminate Hn
         |exact A]).
Qed.

Lemma acct_init : forall procs, wf_procs procs -> acct (init dir procs).
Proof.
  intros procs WF. constructor; cbn.
  - intros i pr Hi Hm. destruct (wf_start _ _ _ WF Hi) as (ops & E). rewrite E, repo_mode_start in Hm. discriminate.
  - discriminate.
  - constructor.
  - intros q sz [].
  - intros i pr Hi Hpe. destruct (wf_start _ _ _ WF Hi) as (ops & E). rewrite E, pend_start in Hpe. discriminate.
  - intros i j pi pj _ Hi _ Hpe. destruct (wf_start _ _ _ WF Hi) as (ops & E). rewrite E, pend_start in Hpe. discriminate.
  - intros q Hq. exfalso; apply Hq. reflexivity.
  - intros i pr Hi Hg. destruct (wf_start _ _ _ WF Hi) as (ops & E). rewrite E, gphase_start in Hg. discriminate.
  - intros i pr Hi Hn. destruct (wf_start _ _ _ WF Hi) as (ops & E). rewrite E, needs_repo_start in Hn. discriminate.
Qed.

Lemma both_run : forall s sched, base_inv s -> acct s -> base_inv (run s sched) /\ acct (run s sched).
Proof.
  intros s sched; revert s. induction sched as [|a r IH]; intros s B A; cbn; auto.
  apply IH.
  - apply base_act; auto.
  - destruct a as [i|]; cbn [act].
    + destruct (step s i) eqn:E; auto. eapply acct_step; eauto.
    + destruct A. constructor; auto.
Qed.

(* repo.json versus the installed packages, at every point of every interleaving *)
Lemma repo_size_is_sum_proof : forall procs sched,
  wf_procs procs ->
  let s := run (init dir procs) sched in
  NoDup (map fst (pkgs s)) /\
  (forall q sz, In (q, sz) (pkgs s) ->
     exists d m, lookup q (st_store s) = Some d /\ d_meta d = Some m /\ m_size m = sz) /\
  (forall q, has_key q (st_store s) = true ->
     In q (map fst (pkgs s)) \/
     exists i pr, nth_error (st_procs s) i = Some pr /\ pend (p_pc pr) = true /\ o_pkg (cur pr) = q) /\
  (forall i pr, nth_error (st_procs s) i = Some pr -> repo_mode (p_pc pr) = Some true ->
     pkgs s = p_meta pr /\ st_rtrunc s = p_dirty pr) /\
  ((forall i pr, nth_error (st_procs s) i = Some pr -> repo_mode (p_pc pr) <> Some true) -> disk_repo s = st_repo s).
Proof.
  intros procs sched WF s.
  destruct (both_run _ sched (base_init _ WF) (acct_init _ WF)) as [B A]. fold s in B, A.
  split; [apply (a_nd _ A)|]. split; [|split; [|split]].
  - intros q sz Hin. pose proof (a_vis _ A q sz Hin) as Hv. unfold lsize in Hv.
    destruct (lookup q (st_store s)) as [d|] eqn:E; [|discriminate].
    destruct (d_meta d) as [m|] eqn:Em; [|discriminate]. inversion Hv; eauto.
  - intros q Hq. apply has_key_lookup in Hq. destruct Hq as (d & Hd).
    apply (a_all _ A q). unfold lsize. rewrite Hd.
    destruct (b_vis _ B q d Hd) as (_ & m & Hm & _). rewrite Hm. discriminate.
  - intros i pr Hi Hm. destruct (a_rl _ A i pr Hi Hm) as [E1 E2]. split; auto. unfold pkgs; rewrite E1; reflexivity.
  - intros Hno. unfold disk_repo. destruct (st_repo s); auto. destruct (st_rtrunc s) eqn:Et; auto.
    destruct (a_rt _ A Et) as (j & prj & Hj & Hm). exfalso; eapply Hno; eauto.
Qed.

(* ------------------------------------------------------------------ a truncated pkg.json belongs to a writer holding its lock *)
Definition trunc_held (s : state) : Prop :=
  forall q d, lookup q (st_store s) = Some d -> d_trunc d = true ->
    exists j prj, proc_at s j prj /\ (p_pc prj = UWrite \/ p_pc prj = UUnlockPkg) /\ o_pkg (cur prj) = q.

Lemma trunc_held_step : forall s i s', base_inv s -> trunc_held s -> step s i = Some s' -> trunc_held s'.
Proof.
  intros s i s' B TH H q d Hq Ht.
  destruct (step_proc_at_self _ _ _ H) as (pr & pr' & Hp & Hp').
  pose proof (fun j prj (Hne : j <> i) => step_proc_at_other s i s' j prj H Hne) as Hoth.
  assert (Keep : forall d0, lookup q (st_store s) = Some d0 -> d_trunc d0 = true ->
                 (p_pc pr = UWrite \/ p_pc pr = UUnlockPkg -> o_pkg (cur pr) = q ->
                    (p_pc pr' = UWrite \/ p_pc pr' = UUnlockPkg) /\ cur pr' = cur pr) ->
                 exists j prj, proc_at s' j prj /\ (p_pc prj = UWrite \/ p_pc prj = UUnlockPkg) /\ o_pkg (cur prj) = q).
  { intros d0 Hd0 Ht0 Hown. destruct (TH q d0 Hd0 Ht0) as (j & prj & Hj & Hpcj & Hqj).
    destruct (Nat.eq_dec j i) as [->|Hne].
    - assert (prj = pr) by (unfold proc_at in *; congruence); subst prj.
      destruct (Hown Hpcj Hqj) as [Hpc' Hcur]. exists i, pr'. rewrite Hcur. auto.
    - exists j, prj. split; auto. apply Hoth; auto. }
  unfold proc_at in Hp, Hp'.
  step_cases H pr0 Hpr Hpc; subst; inversion Hp; subst pr0; clear Hp;
    unfold flush_repo in *;
    repeat match type of Hp' with context [if ?b then _ else _] => destruct b eqn:? end;
    repeat match type of Hq with context [if ?b then _ else _] => destruct b eqn:? end;
    simp_st; rewrite (nth_error_set_nth_same _ _ _ _ _ Hpr) in Hp'; inversion Hp'; subst pr'; clear Hp';
    norm_next; simp_st;
    try (solve [ apply (Keep d Hq Ht); intros [E|E] _; rewrite Hpc in E; discriminate E ]).
  - (* IRename *)
    destruct (N.eq_dec q (o_pkg (cur pr))) as [->|Hne].
    + rewrite lookup_app_new in Hq by (apply has_key_false; auto). inversion Hq; subst.
      destruct (b_tmp _ B i pr Hpr) as [_ T2]. destruct (T2 Hpc) as (d0 & m & Hd & _ & _ & _ & _ & Hf).
      rewrite Hd in *. inv_some. congruence.
    + rewrite lookup_app_other in Hq by auto. apply (Keep d Hq Ht). intros [E|E] _; rewrite Hpc in E; discriminate E.
  - (* ULockPkg: truncates *)
    destruct (N.eq_dec q (o_pkg (cur pr))) as [->|Hne].
    + exists i. eexists. split; [own_proc Hpr|]. simp_st. simp_cur. auto.
    + rewrite lookup_set_key_other in Hq by auto. apply (Keep d Hq Ht). intros [E|E] _; rewrite Hpc in E; discriminate E.
  - (* UWrite, buffered *)
    apply (Keep d Hq Ht). intros _ _. simp_st. simp_cur. auto.
  - (* UWrite, utime *)
    destruct (N.eq_dec q (o_pkg (cur pr))) as [->|Hne].
    + exists i. eexists. split; [own_proc Hpr|]. simp_st. simp_cur. auto.
    + rewrite lookup_set_key_other in Hq by auto. apply (Keep d Hq Ht). intros _ E; congruence.
  - (* UUnlockPkg, flush *)
    destruct (N.eq_dec q (o_pkg (cur pr))) as [->|Hne].
    + rewrite lookup_set_key_same in Hq. inversion Hq; subst. cbn in Ht. discriminate.
    + rewrite lookup_set_key_other in Hq by auto. apply (Keep d Hq Ht). intros _ E; congruence.
  - (* UUnlockPkg, nothing buffered *)
    destruct (b_ul _ B i pr Hpr (or_intror Hpc)) as (d0 & Hd0 & _ & Htr).
    destruct (N.eq_dec q (o_pkg (cur pr))) as [->|Hne].
    + rewrite Hd0 in Hq. inversion Hq; subst. congruence.
    + apply (Keep d Hq Ht). intros _ E; congruence.
  - apply lookup_remove_key_some in Hq. apply (Keep d Hq Ht). intros [E|E] _; rewrite Hpc in E; discriminate E.
  - apply lookup_remove_key_some in Hq. apply (Keep d Hq Ht). intros [E|E] _; rewrite Hpc in E; discriminate E.
  - apply lookup_remove_key_some in Hq. apply (Keep d Hq Ht). intros [E|E] _; rewrite Hpc in E; discriminate E.
  - apply lookup_remove_key_some in Hq. apply (Keep d Hq Ht). intros [E|E] _; rewrite Hpc in E; discriminate E.
Qed.

(* ------------------------------------------------------------------ no spurious failure *)
Lemma move_next_inr : forall pr f, move_next pr = inr f -> f = FType /\ p_quota pr = None.
Proof.
  unfold move_next; intros pr f H. destruct (p_queue pr); [discriminate|].
  destruct (gc_break pr c) as [[|]|] eqn:E; inversion H; split; auto.
  unfold gc_break in E. destruct (negb (c_unused c) || negb (g_unused pr)); [|discriminate].
  destruct (p_quota pr); [discriminate|reflexivity].
Qed.

Lemma after_scan_inr : forall pr f, after_scan pr = inr f -> f = FType /\ p_quota pr = None.
Proof.
  unfold after_scan; intros pr f H. destruct (p_todo pr); [|discriminate].
  apply move_next_inr in H. exact H.
Qed.

Lemma p_res_gc_return : forall pr sz f, In (RFail f) (p_res (gc_return pr sz)) -> In (RFail f) (p_res pr).
Proof.
  unfold gc_return; intros pr sz f H. destruct (o_kind (cur pr)); cbn in H; auto.
  destruct H as [H|H]; [discriminate|auto].
Qed.

Lemma p_res_use_return : forall pr b, p_res (use_return pr b) = p_res pr.
Proof. unfold use_return; intros; destruct (o_kind (cur pr)); reflexivity. Qed.

Lemma step_new_failure : forall s i s' pr pr' f,
  base_inv s -> acct s -> trunc_held s -> step s i = Some s' -> proc_at s i pr -> proc_at s' i pr' ->
  In (RFail f) (p_res pr') -> In (RFail f) (p_res pr) \/ f = FHash \/ (f = FType /\ p_quota pr = None).
Proof.
  intros s i s' pr0 pr' f B A TH H Hp0 Hp' Hin. unfold proc_at in *.
  step_cases H pr Hpr Hpc; subst; inversion Hp0; subst pr0; clear Hp0;
    unfold flush_repo in *;
    repeat match type of Hp' with context [if ?b then _ else _] => destruct b eqn:? end;
    simp_st; rewrite (nth_error_set_nth_same _ _ _ _ _ Hpr) in Hp'; inversion Hp'; subst pr'; clear Hp';
    norm_next; simp_st;
    rewrite ?p_res_use_return in Hin; try (apply p_res_gc_return in Hin); simp_st;
    try (left; exact Hin);
    try (destruct Hin as [Hin|Hin]; [inversion Hin; subst; clear Hin|left; exact Hin]);
    try (right; left; reflexivity);
    try (match goal with E : after_scan _ = inr _ |- _ => apply after_scan_inr in E; destruct E as [-> E]; right; right; split; [reflexivity|exact E] end);
    try (match goal with E : move_next _ = inr _ |- _ => apply move_next_inr in E; destruct E as [-> E]; right; right; split; [reflexivity|exact E] end);
    try discriminate.
  all: exfalso.
  (* the remaining cases are impossible *)
  all: try (solve [ apply (a_repo _ A i pr Hpr); [rewrite Hpc; reflexivity|];
                    unfold disk_repo in *; destruct (st_repo s); [discriminate|reflexivity] ]).
  all: try (solve [
    match goal with Hl : lookup ?q (st_store _) = Some ?d, Hd : disk_meta ?d = None |- _ =>
      destruct (b_vis _ B q d Hl) as (_ & m & Hm & _); unfold disk_meta in Hd; destruct (d_trunc d) eqn:Et; [|congruence];
      destruct (TH q d Hl Et) as (j & prj & Hj & Hpcj & Hqj);
      first [ eapply (pkg_free_x_nth s q j prj true); [eassumption|exact Hj|rewrite <- Hqj; apply pkg_lock_use; exact Hpcj]
            | eapply (pkg_free_s_nth s q j prj); [eassumption|exact Hj|rewrite <- Hqj; apply pkg_lock_use; exact Hpcj] ] end ]).
  all: try (solve [
    destruct (a_rl _ A i pr Hpr ltac:(rewrite Hpc; reflexivity)) as [RL1 _];
    destruct (a_gc _ A i pr Hpr ltac:(rewrite Hpc; reflexivity)) as [_ G2]; destruct (G2 Hpc) as [_ IN];
    match goal with Hq : p_queue _ = ?c :: _ , Hk : has_key (c_id ?c) (st_store _) = false |- _ =>
      assert (Hin2 : In (c_id c) (map fst (p_meta pr))) by (apply IN; rewrite Hq; left; reflexivity);
      apply In_keys_pair in Hin2; destruct Hin2 as (sz & Hin2);
      assert (Hv : lsize s (c_id c) = Some sz) by (apply (a_vis _ A); unfold pkgs; rewrite RL1; exact Hin2);
      apply has_key_false in Hk; unfold lsize in Hv; rewrite Hk in Hv; discriminate Hv end ]).
Qed.

Definition res_ok (s : state) : Prop :=
  forall i pr f, proc_at s i pr -> In (RFail f) (p_res pr) -> f = FHash \/ (f = FType /\ p_quota pr = None).

Lemma step_quota : forall s i s' pr pr', step s i = Some s' -> proc_at s i pr -> proc_at s' i pr' -> p_quota pr' = p_quota pr.
Proof.
  intros s i s' pr0 pr' H Hp0 Hp'. unfold proc_at in *.
  step_cases H pr Hpr Hpc; subst; inversion Hp0; subst pr0; clear Hp0;
    unfold flush_repo in *;
    repeat match type of Hp' with context [if ?b then _ else _] => destruct b eqn:? end;
    simp_st; rewrite (nth_error_set_nth_same _ _ _ _ _ Hpr) in Hp'; inversion Hp'; subst pr'; clear Hp';
    norm_next; simp_st; auto;
    try (unfold use_return; destruct (o_kind (cur pr)); reflexivity);
    try (unfold gc_return; match goal with |- context [o_kind ?x] => destruct (o_kind x) end; reflexivity).
Qed.

Record full_inv (s : state) : Prop := {
  f_base : base_inv s;
  f_acct : acct s;
  f_trunc : trunc_held s;
  f_res : res_ok s
}.

Lemma full_init : forall procs, wf_procs procs -> full_inv (init dir procs).
Proof.
  intros procs WF. constructor.
  - apply base_init; auto.
  - apply acct_init; auto.
  - intros q d H; cbn in H; discriminate.
  - intros i pr f Hi Hin. destruct (WF pr) as (q & a & ops & ->); [eapply nth_error_In; exact Hi|]. destruct Hin.
Qed.

Lemma full_step : forall s i s', full_inv s -> step s i = Some s' -> full_inv s'.
Proof.
  intros s i s' [B A TH R] H. constructor.
  - eapply base_step; eauto.
  - eapply acct_step; eauto.
  - eapply trunc_held_step; eauto.
  - intros j prj f Hj Hin. destruct (Nat.eq_dec j i) as [->|Hne].
    + destruct (step_proc_at_self _ _ _ H) as (pr & pr' & Hp & Hp').
      assert (prj = pr') by (unfold proc_at in *; congruence); subst prj.
      rewrite (step_quota _ _ _ _ _ H Hp Hp').
      destruct (step_new_failure _ _ _ _ _ f B A TH H Hp Hp' Hin) as [Hold|[E|E]]; auto.
      apply (R i pr f Hp Hold).
    + apply (step_proc_at_other _ _ _ j prj H) in Hj; auto. apply (R j prj f Hj Hin).
Qed.

Lemma full_run : forall s sched, full_inv s -> full_inv (run s sched).
Proof.
  intros s sched; revert s. induction sched as [|a r IH]; intros s F; cbn; auto.
  apply IH. destruct a as [i|]; cbn [act].
  - destruct (step s i) eqn:E; auto. eapply full_step; eauto.
  - destruct F as [[ER EP UL T V] [A1 A2 A3 A4 A5 A6 A7 A8 A9] TH R]. constructor; [constructor|constructor| |]; auto.
Qed.

Lemma no_spurious_failure_proof : forall procs sched i pr f,
  wf_procs procs -> nth_error (st_procs (run (init dir procs) sched)) i = Some pr -> In (RFail f) (p_res pr) ->
  f = FHash \/ (f = FType /\ p_quota pr = None).
Proof.
  intros procs sched i pr f WF Hi Hin. exact (f_res _ (full_run _ sched (full_init _ WF)) i pr f Hi Hin).
Qed.

Lemma truncated_has_writer_proof : forall procs sched q d,
  wf_procs procs -> lookup q (st_store (run (init dir procs) sched)) = Some d -> d_trunc d = true ->
  exists j prj, nth_error (st_procs (run (init dir procs) sched)) j = Some prj /\
     pkg_lock prj = Some (q, true) /\ p_dirty prj = true /\ d_meta d = Some (p_pmeta prj).
Proof.
  intros procs sched q d WF Hq Ht. pose proof (full_run _ sched (full_init _ WF)) as F.
  destruct (f_trunc _ F q d Hq Ht) as (j & prj & Hj & Hpc & Hqj).
  destruct (b_ul _ (f_base _ F) j prj Hj Hpc) as (d0 & Hd0 & Hm & Htr). rewrite Hqj, Hq in Hd0. inversion Hd0; subst d0.
  exists j, prj. split; auto. split; [rewrite <- Hqj; apply pkg_lock_use; auto|]. split; congruence.
Qed.

(* ------------------------------------------------------------------ installed at most once per build-id *)
Lemma has_key_set_key_present : forall A k (v : A) l q, has_key k l = true -> has_key q (set_key k v l) = has_key q l.
Proof.
  intros A k v l q Hk. unfold has_key. destruct (N.eq_dec q k) as [->|Hne].
  - rewrite lookup_set_key_same. apply has_key_lookup in Hk. destruct Hk as (v0 & ->). reflexivity.
  - rewrite lookup_set_key_other by auto. reflexivity.
Qed.

Lemma step_log : forall s i s', step s i = Some s' ->
  (st_log s' = st_log s /\ forall q, has_key q (st_store s') = has_key q (st_store s)) \/
  (exists p, st_log s' = st_log s ++ [(true, p)] /\ has_key p (st_store s) = false /\ has_key p (st_store s') = true /\
             forall q, q <> p -> has_key q (st_store s') = has_key q (st_store s)) \/
  (exists p, st_log s' = st_log s ++ [(false, p)] /\ has_key p (st_store s) = true /\ has_key p (st_store s') = false /\
             forall q, q <> p -> has_key q (st_store s') = has_key q (st_store s)).
Proof.
  intros s i s' H.
  step_cases H pr Hpr Hpc; subst; unfold flush_repo;
    repeat match goal with |- context [if ?b then _ else _] => destruct b end;
    simp_st; auto;
    try (left; split; [reflexivity|]; intros q; apply has_key_set_key_present; apply has_key_lookup; eauto; fail).
  - right; left. exists (o_pkg (cur pr)). split; [reflexivity|]. split; [assumption|]. split.
    + unfold has_key. rewrite lookup_app_new by (apply has_key_false; assumption). reflexivity.
    + intros q Hne. unfold has_key. rewrite lookup_app_other by auto. reflexivity.
  - right; right. exists (c_id c). split; [reflexivity|]. split; [assumption|]. split.
    + unfold has_key. rewrite lookup_remove_key_same. reflexivity.
    + intros q Hne. unfold has_key. rewrite lookup_remove_key_other by auto. reflexivity.
  - right; right. exists (c_id c). split; [reflexivity|]. split; [assumption|]. split.
    + unfold has_key. rewrite lookup_remove_key_same. reflexivity.
    + intros q Hne. unfold has_key. rewrite lookup_remove_key_other by auto. reflexivity.
  - right; right. exists (c_id c). split; [reflexivity|]. split; [assumption|]. split.
    + unfold has_key. rewrite lookup_remove_key_same. reflexivity.
    + intros q Hne. unfold has_key. rewrite lookup_remove_key_other by auto. reflexivity.
Qed.

Lemma count_log_app : forall e l x,
  count_log e (l ++ [x]) = (count_log e l + (if Bool.eqb (fst x) (fst e) && (snd x =? snd e)%N then 1 else 0))%nat.
Proof.
  unfold count_log; intros e l x. rewrite filter_app, app_length. cbn.
  destruct (Bool.eqb (fst x) (fst e) && (snd x =? snd e)); reflexivity.
Qed.

Definition once_inv (s : state) : Prop :=
  forall p, count_log (true, p) (st_log s) =
            (count_log (false, p) (st_log s) + (if has_key p (st_store s) then 1 else 0))%nat.

Lemma once_step : forall s i s', once_inv s -> step s i = Some s' -> once_inv s'.
Proof.
  intros s i s' I H p. specialize (I p).
  destruct (step_log _ _ _ H) as [[El Ek]|[(p0 & El & K0 & K1 & Ko)|(p0 & El & K0 & K1 & Ko)]]; rewrite El.
  - rewrite Ek. exact I.
  - rewrite !count_log_app. cbn [fst snd Bool.eqb andb]. destruct (N.eq_dec p p0) as [->|Hne].
    + rewrite N.eqb_refl, K1. rewrite K0 in I. lia.
    + assert (E : (p0 =? p) = false) by (apply N.eqb_neq; auto). rewrite E, (Ko p Hne). cbn. lia.
  - rewrite !count_log_app. cbn [fst snd Bool.eqb andb]. destruct (N.eq_dec p p0) as [->|Hne].
    + rewrite N.eqb_refl, K1. rewrite K0 in I. lia.
    + assert (E : (p0 =? p) = false) by (apply N.eqb_neq; auto). rewrite E, (Ko p Hne). cbn. lia.
Qed.

Lemma installed_at_most_once_proof : forall procs sched p,
  let s := run (init dir procs) sched in
  count_log (true, p) (st_log s) = (count_log (false, p) (st_log s) + (if has_key p (st_store s) then 1 else 0))%nat.
Proof.
  intros procs sched. cbn zeta.
  assert (G : forall s, once_inv s -> once_inv (run s sched)).
  { induction sched as [|a r IH]; intros s I; cbn; auto. apply IH. destruct a as [i|]; cbn [act].
    - destruct (step s i) eqn:E; auto. eapply once_step; eauto.
    - exact I. }
  intros p. apply G. intros q. reflexivity.
Qed.

(* ------------------------------------------------------------------ the order of the candidates *)


Lemma cand_leb_total : forall a b, cand_leb a b = false -> cand_leb b a = true.
Proof.
  intros a b H. unfold cand_leb, bool_ltb in *.
  destruct a as [ua ta sa ia], b as [ub tb sb ib]; cbn [c_unused c_mtime c_size c_id] in *.
  destruct ua, ub; cbn [negb andb] in *; try discriminate; try reflexivity;
    destruct (N.ltb_spec ta tb); try discriminate; destruct (N.ltb_spec tb ta); try reflexivity; try lia;
    destruct (N.ltb_spec sa sb); try discriminate; destruct (N.ltb_spec sb sa); try reflexivity; try lia;
    apply N.leb_gt in H; apply N.leb_le; lia.
Qed.

Lemma cand_leb_trans : forall a b c, cand_leb a b = true -> cand_leb b c = true -> cand_leb a c = true.
Proof.
  intros a b c H1 H2. unfold cand_leb, bool_ltb in *.
  destruct a as [ua ta sa ia], b as [ub tb sb ib], c as [uc tc sc ic]; cbn [c_unused c_mtime c_size c_id] in *.
  destruct ua, ub, uc; cbn [negb andb] in *; try discriminate; try reflexivity;
    destruct (N.ltb_spec ta tb); destruct (N.ltb_spec tb ta); try discriminate; try lia;
    destruct (N.ltb_spec tb tc); destruct (N.ltb_spec tc tb); try discriminate; try lia;
    destruct (N.ltb_spec ta tc); destruct (N.ltb_spec tc ta); try reflexivity; try lia;
    destruct (N.ltb_spec sa sb); destruct (N.ltb_spec sb sa); try discriminate; try lia;
    destruct (N.ltb_spec sb sc); destruct (N.ltb_spec sc sb); try discriminate; try lia;
    destruct (N.ltb_spec sa sc); destruct (N.ltb_spec sc sa); try reflexivity; try lia;
    apply N.leb_le in H1; apply N.leb_le in H2; apply N.leb_le; lia.
Qed.

(* among candidates of the same kind, earlier in the order = not younger *)
Lemma cand_le_mtime : forall a b, cand_le a b -> c_unused a = c_unused b -> c_mtime a <= c_mtime b.
Proof.
  unfold cand_le, cand_leb, bool_ltb; intros a b H E. rewrite E in H.
  destruct (c_unused b); cbn [negb andb] in H;
    destruct (N.ltb_spec (c_mtime a) (c_mtime b)); try lia;
    destruct (N.ltb_spec (c_mtime b) (c_mtime a)); try discriminate; lia.
Qed.

Lemma insert_cand_sorted : forall c l, StronglySorted cand_le l -> StronglySorted cand_le (insert_cand c l).
Proof.
  induction l as [|x r IH]; cbn; intros S.
  - constructor; [constructor|constructor].
  - inversion S as [|? ? Sr Fx]; subst. destruct (cand_leb c x) eqn:E.
    + constructor; auto. constructor; [exact E|].
      rewrite Forall_forall in *. intros y Hy. eapply cand_leb_trans; [exact E|apply Fx; auto].
    + constructor; [apply IH; auto|]. rewrite Forall_forall in *. intros y Hy.
      apply In_insert_cand in Hy. destruct Hy as [->|Hy]; [apply cand_leb_total; auto|apply Fx; auto].
Qed.

Lemma sort_cands_sorted : forall l, StronglySorted cand_le (sort_cands l).
Proof. induction l; cbn; [constructor|apply insert_cand_sorted; auto]. Qed.

(* ------------------------------------------------------------------ bookkeeping of a gc run (process-local) *)
Lemma sizes_cons : forall c l, sizes (c :: l) = c_size c + sizes l.
Proof. reflexivity. Qed.

Lemma sizes_app : forall a b, sizes (a ++ b) = sizes a + sizes b.
Proof. induction a; intros; [reflexivity|rewrite <- app_comm_cons, !sizes_cons, IHa; lia]. Qed.

Lemma sizes_perm : forall a b, Permutation a b -> sizes a = sizes b.
Proof. induction 1; rewrite ?sizes_cons; try lia; reflexivity. Qed.

Lemma must_go_break : forall pr c,
  (gc_break pr c = Some false -> must_go (p_quota pr) (g_unused pr) c (p_size pr) = true) /\
  (gc_break pr c = Some true -> must_go (p_quota pr) (g_unused pr) c (p_size pr) = false).
Proof.
  unfold gc_break, must_go; intros pr c. destruct (negb (c_unused c) || negb (g_unused pr)).
  - destruct (p_quota pr); split; intros H; inversion H as [E]; rewrite E; reflexivity.
  - split; intros H; [reflexivity|discriminate].
Qed.

Lemma move_next_spec : forall pr pr', move_next pr = inl pr' ->
  (pr' = set_pc pr GUnlock /\ (p_queue pr = [] \/ exists c rest, p_queue pr = c :: rest /\
                                 must_go (p_quota pr) (g_unused pr) c (p_size pr) = false)) \/
  (pr' = set_pc pr GMove /\ exists c rest, p_queue pr = c :: rest /\ must_go (p_quota pr) (g_unused pr) c (p_size pr) = true).
Proof.
  unfold move_next; intros pr pr' H. destruct (p_queue pr) as [|c rest]; [inversion H; auto|].
  destruct (gc_break pr c) as [[|]|] eqn:E; inversion H; subst.
  - left. split; auto. right. exists c, rest. split; auto. apply must_go_break; auto.
  - right. split; auto. exists c, rest. split; auto. apply must_go_break; auto.
Qed.

Definition gc_local (pr : proc) : Prop :=
  match p_pc pr with
  | GScan | GScanUnlock => cands_ok pr /\ sizes (p_cands pr) <= p_size pr /\ p_done pr = []
  | GScanLock => cands_ok pr /\ sizes (p_cands pr) + snd (hd (0, 0) (p_todo pr)) <= p_size pr /\ p_done pr = []
  | GMove | GUnlock => cands_ok pr /\ move_ok pr
  | _ => True
  end.

Lemma move_ok_sorted : forall pr x,
  sizes (p_cands pr) <= p_size pr ->
  (x = GUnlock /\ (sort_cands (p_cands pr) = [] \/ exists c rest, sort_cands (p_cands pr) = c :: rest /\
        must_go (p_quota pr) (g_unused pr) c (p_size pr) = false)) \/
  (x = GMove /\ exists c rest, sort_cands (p_cands pr) = c :: rest /\ must_go (p_quota pr) (g_unused pr) c (p_size pr) = true) ->
  move_ok (set_pc (set_gc pr [] (p_cands pr) (sort_cands (p_cands pr)) [] (p_scan pr)) x).
Proof.
  intros pr x Hs Hx. unfold move_ok, g_unused; simp_st; simp_cur. cbn [app].
  split; [apply sort_cands_perm|]. split; [apply sort_cands_sorted|].
  split; [rewrite (sizes_perm _ _ (sort_cands_perm (p_cands pr))); exact Hs|].
  split; [intros pre c post E; destruct pre; discriminate|].
  destruct Hx as [[-> H]|[-> H]]; split; intros E; try discriminate; auto.
Qed.

Lemma app_snoc_split : forall A (l pre post : list A) (c x : A), l ++ [c] = pre ++ x :: post ->
  (post = [] /\ x = c /\ pre = l) \/ (exists post0, post = post0 ++ [c] /\ l = pre ++ x :: post0).
Proof.
  intros A l pre post c x E. destruct (exists_last (l := x :: post)) as (post0 & y & Ey); [discriminate|].
  rewrite Ey in E. rewrite app_assoc in E. apply app_inj_tail in E. destruct E as [E1 E2]. subst y.
  destruct post0 as [|z post0].
  - cbn in Ey. inversion Ey; subst. left. rewrite app_nil_r. auto.
  - cbn in Ey. inversion Ey; subst. right. exists post0. auto.
Qed.

Lemma move_ok_next : forall pr c rest pr1 x,
  move_ok pr -> p_pc pr = GMove -> p_queue pr = c :: rest ->
  p_quota pr1 = p_quota pr -> g_unused pr1 = g_unused pr -> p_cands pr1 = p_cands pr ->
  p_size pr1 = p_size pr - c_size c -> p_done pr1 = p_done pr ++ [c] -> p_queue pr1 = rest ->
  (x = GUnlock /\ (rest = [] \/ exists c' rest', rest = c' :: rest' /\
        must_go (p_quota pr) (g_unused pr) c' (p_size pr - c_size c) = false)) \/
  (x = GMove /\ exists c' rest', rest = c' :: rest' /\ must_go (p_quota pr) (g_unused pr) c' (p_size pr - c_size c) = true) ->
  p_pc pr1 = x ->
  move_ok pr1.
Proof.
  intros pr c rest pr1 x (MP & MS & MZ & MD & MG & _) Hpc Hq Eq Eu Ec Es Ed Equ Hx Hpc1.
  destruct (MG Hpc) as (c0 & rest0 & Hq0 & Hgo). rewrite Hq in Hq0. inversion Hq0; subst c0 rest0. clear Hq0.
  rewrite Hq in *. rewrite sizes_cons in MZ.
  unfold move_ok. rewrite Eq, Eu, Ec, Es, Ed, Equ, Hpc1.
  split; [rewrite <- app_assoc; exact MP|]. split; [rewrite <- app_assoc; exact MS|].
  split; [lia|]. split.
  - intros pre y post E. apply app_snoc_split in E. destruct E as [(-> & -> & ->)|(post0 & -> & E)].
    + assert (E0 : sizes [c] = c_size c) by (cbn; lia). rewrite E0.
      replace (p_size pr - c_size c + c_size c) with (p_size pr) by lia. exact Hgo.
    + specialize (MD pre y post0 E). rewrite sizes_cons in *. rewrite sizes_app.
      assert (E0 : sizes [c] = c_size c) by (cbn; lia). rewrite E0.
      replace (p_size pr - c_size c + (c_size y + (sizes post0 + c_size c))) with (p_size pr + (c_size y + sizes post0)) by lia.
      exact MD.
  - destruct Hx as [[-> H]|[-> H]]; split; intros E; try discriminate; auto.
Qed.

Lemma gc_local_trivial : forall pr, gphase (p_pc pr) = false -> p_pc pr <> GUnlock -> gc_local pr.
Proof. unfold gc_local; intros pr H1 H2; destruct (p_pc pr); cbn in *; try discriminate; try congruence; exact I. Qed.

Lemma cands_ok_same : forall pr pr', cands_ok pr -> p_cands pr' = p_cands pr -> p_ops pr' = p_ops pr -> cands_ok pr'.
Proof.
  unfold cands_ok, is_newpkg, g_used, cur; intros pr pr' H E1 E2 c Hc. rewrite E1 in Hc. rewrite E2. apply H; auto.
Qed.

Lemma is_newpkg_ops : forall pr pr' q, p_ops pr' = p_ops pr -> is_newpkg pr' q = is_newpkg pr q.
Proof. unfold is_newpkg, cur; intros pr pr' q E; rewrite E; reflexivity. Qed.

Lemma after_scan_spec : forall pr pr', after_scan pr = inl pr' ->
  (p_todo pr <> [] /\ pr' = set_pc pr GScan) \/
  (p_todo pr = [] /\
   let pr1 := set_gc pr [] (p_cands pr) (sort_cands (p_cands pr)) [] (p_scan pr) in
   ((pr' = set_pc pr1 GUnlock /\ (sort_cands (p_cands pr) = [] \/ exists c rest, sort_cands (p_cands pr) = c :: rest /\
                                 must_go (p_quota pr) (g_unused pr) c (p_size pr) = false)) \/
    (pr' = set_pc pr1 GMove /\ exists c rest, sort_cands (p_cands pr) = c :: rest /\ must_go (p_quota pr) (g_unused pr) c (p_size pr) = true))).
Proof.
  unfold after_scan; intros pr pr' H. destruct (p_todo pr) eqn:Et; [|left; split; [discriminate|inversion H; auto]].
  right. split; auto. apply move_next_spec in H. exact H.
Qed.

Lemma gc_local_after_scan : forall pr pr',
  cands_ok pr -> sizes (p_cands pr) <= p_size pr -> p_done pr = [] ->
  after_scan pr = inl pr' -> gc_local pr'.
Proof.
  intros pr pr' CO SZ DN H. apply after_scan_spec in H. destruct H as [[Ht ->]|[Ht H]].
  - unfold gc_local; simp_st. split; [eapply cands_ok_same; eauto|auto].
  - cbn zeta in H. destruct H as [[-> H]|[-> H]]; unfold gc_local; simp_st.
    + split; [eapply cands_ok_same; eauto|]. apply move_ok_sorted; auto.
    + split; [eapply cands_ok_same; eauto|]. apply move_ok_sorted; auto.
Qed.

Lemma gc_local_step : forall s i s' pr pr', step s i = Some s' -> proc_at s i pr -> proc_at s' i pr' ->
  gc_local pr -> gc_local pr'.
Proof.
  intros s i s' pr0 pr' H Hp0 Hp' G. unfold proc_at in *.
  step_cases H pr Hpr Hpc; subst; inversion Hp0; subst pr0; clear Hp0;
    unfold flush_repo in *;
    repeat match type of Hp' with context [if ?b then _ else _] => destruct b eqn:? end;
    cbn [st_procs upd_proc with_store with_repo with_links with_log with_dir] in Hp';
    rewrite (nth_error_set_nth_same _ _ _ _ _ Hpr) in Hp'; inversion Hp'; subst pr'; clear Hp';
    try (apply gc_local_trivial;
         [rewrite ?finish_pc, ?gphase_start, ?gphase_use_return, ?gphase_gc_return; reflexivity
         |intros Hx; pc_contra Hx]; fail);
    unfold gc_local in G; rewrite Hpc in G.
  - (* GLock *)
    eapply gc_local_after_scan; [| | |eassumption]; simp_st; [intros c []|cbn; lia|reflexivity].
  - (* GScan -> GScanLock *)
    destruct G as (CO & SZ & DN). unfold gc_local; simp_st.
    split; [eapply cands_ok_same; eauto|]. split; [cbn; lia|auto].
  - (* GScan, directory gone *)
    destruct G as (CO & SZ & DN).
    eapply gc_local_after_scan; [| | |eassumption]; simp_st; [eapply cands_ok_same; eauto|lia|auto].
  - (* GScanLock, candidate *)
    destruct G as (CO & SZ & DN). rewrite Heql in SZ. cbn [hd snd] in SZ. unfold gc_local; simp_st.
    split; [|split; [rewrite sizes_app; cbn; lia|auto]].
    intros c0 Hc. simp_st. apply in_app_iff in Hc. destruct Hc as [Hc|[<-|[]]].
    + pose proof (CO c0 Hc) as X. unfold is_newpkg, g_used in *. simp_cur. exact X.
    + cbn [c_unused c_id]. unfold is_newpkg, g_used in *. simp_cur. split.
      * intros Hu. apply andb_true_iff in Hu. destruct Hu as [_ Hu]. apply negb_true_iff in Hu. exact Hu.
      * intros Hg. rewrite Hg, orb_false_r in Heqb0. exact Heqb0.
  - (* GScanLock, not a candidate *)
    destruct G as (CO & SZ & DN). unfold gc_local; simp_st.
    split; [eapply cands_ok_same; eauto|]. split; [lia|auto].
  - (* GScanUnlock *)
    destruct G as (CO & SZ & DN). eapply gc_local_after_scan; eauto.
  - (* GMove, dry run *)
    destruct G as (CO & MO). apply move_next_spec in Heqs0. simp_st.
    unfold g_unused in Heqs0; simp_cur; fold (g_unused pr) in Heqs0.
    destruct Heqs0 as [[-> Hx]|[-> Hx]]; unfold gc_local; simp_st;
      (split; [eapply cands_ok_same; eauto|]);
      eapply (move_ok_next pr c l); try exact MO; try exact Hpc; try exact Heql; try reflexivity; auto.
  - (* GMove, collect *)
    destruct G as (CO & MO). apply move_next_spec in Heqs0. simp_st.
    unfold g_unused in Heqs0; simp_cur; fold (g_unused pr) in Heqs0.
    destruct Heqs0 as [[-> Hx]|[-> Hx]]; unfold gc_local; simp_st;
      (split; [eapply cands_ok_same; eauto|]);
      eapply (move_ok_next pr c l); try exact MO; try exact Hpc; try exact Heql; try reflexivity; auto.
Qed.

Lemma gc_local_all : forall procs sched i pr, wf_procs procs ->
  nth_error (st_procs (run (init dir procs) sched)) i = Some pr -> gc_local pr.
Proof.
  intros procs sched i pr WF. revert i pr.
  induction sched as [|a sched IH] using rev_ind; intros i pr Hi.
  - cbn in Hi. destruct (WF pr) as (q & au & ops & ->); [eapply nth_error_In; exact Hi|].
    apply gc_local_trivial; cbn [p_pc mk_proc]; [apply gphase_start|].
    intros E. destruct (start_pc_cases ops) as [E2|[E2|[E2|[E2|E2]]]]; rewrite E2 in E; discriminate.
  - rewrite run_snoc in Hi. destruct a as [k|]; cbn [act] in Hi; [|apply (IH i pr Hi)].
    destruct (step (run (init dir procs) sched) k) as [s'|] eqn:Hst; [|apply (IH i pr Hi)].
    destruct (Nat.eq_dec i k) as [->|Hne].
    + destruct (step_proc_at_self _ _ _ Hst) as (pr0 & pr1 & Hp & Hp').
      assert (pr1 = pr) by (unfold proc_at in *; congruence); subst pr1.
      eapply gc_local_step; eauto.
    + apply (step_proc_at_other _ _ _ i pr Hst) in Hi; auto. apply (IH i pr Hi).
Qed.

Lemma auto_gc_only_unused_oldest_first_until_quota_proof : forall procs sched g pr,
  wf_procs procs -> nth_error (st_procs (run (init dir procs) sched)) g = Some pr ->
  p_pc pr = GMove \/ p_pc pr = GUnlock -> cands_ok pr /\ move_ok pr.
Proof.
  intros procs sched g pr WF Hg Hpc. pose proof (gc_local_all procs sched g pr WF Hg) as G.
  unfold gc_local in G. destruct Hpc as [E|E]; rewrite E in G; exact G.
Qed.

Lemma lock_protocol_proof : forall procs sched i j pi pj,
  wf_procs procs -> i <> j ->
  nth_error (st_procs (run (init dir procs) sched)) i = Some pi ->
  nth_error (st_procs (run (init dir procs) sched)) j = Some pj ->
  (repo_mode (p_pc pi) = Some true -> repo_mode (p_pc pj) = None) /\
  (forall q, pkg_lock pi = Some (q, true) -> forall m, pkg_lock pj <> Some (q, m)).
Proof.
  intros procs sched i j pi pj WF Hne Hi Hj.
  pose proof (base_run _ sched (base_init _ WF)) as B. split.
  - intros Hm. apply (b_er _ B i j pi pj Hne Hi Hj Hm).
  - intros q Hl m. apply (b_ep _ B i j pi pj q Hne Hi Hj Hl m).
Qed.

(* ------------------------------------------------------------------ the sizes reported by the API are sums over repo.json *)
Lemma sum_sizes_cons : forall e l, sum_sizes (e :: l) = snd e + sum_sizes l.
Proof. reflexivity. Qed.

Lemma sum_remove_key : forall l q sz, NoDup (map fst l) -> In (q, sz) l -> sum_sizes (remove_key q l) + sz = sum_sizes l.
Proof.
  induction l as [|[k v] r IH]; intros q sz ND Hin; [destruct Hin|].
  cbn [map fst] in ND. apply NoDup_cons_iff in ND. destruct ND as [Hnin ND].
  cbn [remove_key]. destruct (q =? k) eqn:E.
  - apply N.eqb_eq in E; subst k. destruct Hin as [Hin|Hin].
    + inversion Hin; subst. rewrite sum_sizes_cons. cbn [snd].
      assert (remove_key q r = r).
      { clear -Hnin. induction r as [|[k2 v2] r IH]; cbn; auto. cbn in Hnin.
        destruct (q =? k2) eqn:E2; [apply N.eqb_eq in E2; subst; tauto|]. rewrite IH; auto. }
      rewrite H. lia.
    + exfalso. apply Hnin. apply in_map_iff. exists (q, sz); auto.
  - assert (k <> q) by (intros ->; rewrite N.eqb_refl in E; discriminate).
    destruct Hin as [Hin|Hin]; [inversion Hin; congruence|].
    rewrite !sum_sizes_cons. cbn [snd]. rewrite <- (IH q sz ND Hin). lia.
Qed.

Lemma NoDup_app_l : forall A (a b : list A), NoDup (a ++ b) -> NoDup a.
Proof.
  induction a as [|x a IH]; intros b H; [constructor|].
  cbn in H. apply NoDup_cons_iff in H. destruct H as [Hn H]. constructor; [|eapply IH; eauto].
  intros Hin. apply Hn. apply in_app_iff; auto.
Qed.

Definition gsz (pr : proc) : Prop :=
  match p_pc pr with
  | IWrite | IUnlock => p_size pr = sum_sizes (p_meta pr)
  | GScan | GScanUnlock =>
      NoDup (map fst (p_meta pr)) /\ p_size pr + sum_sizes (p_todo pr) = sum_sizes (p_meta pr) /\
      (forall c, In c (p_cands pr) -> In (c_id c, c_size c) (p_meta pr)) /\ (forall e, In e (p_todo pr) -> In e (p_meta pr))
  | GScanLock =>
      NoDup (map fst (p_meta pr)) /\ p_size pr + sum_sizes (tl (p_todo pr)) = sum_sizes (p_meta pr) /\
      (forall c, In c (p_cands pr) -> In (c_id c, c_size c) (p_meta pr)) /\ (forall e, In e (p_todo pr) -> In e (p_meta pr))
  | GMove | GUnlock =>
      NoDup (map fst (p_meta pr)) /\ (forall c, In c (p_queue pr) -> In (c_id c, c_size c) (p_meta pr)) /\
      NoDup (map c_id (p_queue pr)) /\ (g_dry pr = false -> p_size pr = sum_sizes (p_meta pr))
  | _ => True
  end.

Lemma gsz_trivial : forall pr, gphase (p_pc pr) = false -> p_pc pr <> GUnlock -> p_pc pr <> IWrite -> p_pc pr <> IUnlock -> gsz pr.
Proof. unfold gsz; intros pr H1 H2 H3 H4; destruct (p_pc pr); cbn in *; try discriminate; try congruence; exact I. Qed.

Lemma NoDup_sorted_ids : forall l, NoDup (map c_id l) -> NoDup (map c_id (sort_cands l)).
Proof. intros l H. eapply Permutation_NoDup; [|exact H]. apply Permutation_map, Permutation_sym, sort_cands_perm. Qed.

Lemma g_dry_ops : forall pr pr', p_ops pr' = p_ops pr -> g_dry pr' = g_dry pr.
Proof. unfold g_dry, cur; intros pr pr' E; rewrite E; reflexivity. Qed.


Lemma gsz_after_scan : forall pr pr',
  NoDup (map fst (p_meta pr)) -> p_size pr + sum_sizes (p_todo pr) = sum_sizes (p_meta pr) ->
  (forall c, In c (p_cands pr) -> In (c_id c, c_size c) (p_meta pr)) -> (forall e, In e (p_todo pr) -> In e (p_meta pr)) ->
  NoDup (map c_id (p_cands pr)) ->
  after_scan pr = inl pr' -> gsz pr'.
Proof.
  intros pr pr' ND SZ CS TD NC H. apply after_scan_inl in H. destruct H as [->|[Ht [->| ->]]]; unfold gsz; simp_st.
  - auto.
  - split; auto. split; [intros c Hc; apply CS; apply In_sort_cands; auto|]. split; [apply NoDup_sorted_ids; auto|].
    intros _. rewrite Ht in SZ. cbn in SZ. lia.
  - split; auto. split; [intros c Hc; apply CS; apply In_sort_cands; auto|]. split; [apply NoDup_sorted_ids; auto|].
    intros _. rewrite Ht in SZ. cbn in SZ. lia.
Qed.

Lemma gsz_step : forall s i s' pr pr', full_inv s -> step s i = Some s' -> proc_at s i pr -> proc_at s' i pr' ->
  gsz pr -> gsz pr'.
Proof.
  intros s i s' pr0 pr' F H Hp0 Hp' G. unfold proc_at in *.
  pose proof (f_acct _ F) as A.
  step_cases H pr Hpr Hpc; subst; inversion Hp0; subst pr0; clear Hp0;
    unfold flush_repo in *;
    repeat match type of Hp' with context [if ?b then _ else _] => destruct b eqn:? end;
    cbn [st_procs upd_proc with_store with_repo with_links with_log with_dir] in Hp';
    rewrite (nth_error_set_nth_same _ _ _ _ _ Hpr) in Hp'; inversion Hp'; subst pr'; clear Hp';
    try (apply gsz_trivial;
         [rewrite ?finish_pc, ?gphase_start, ?gphase_use_return, ?gphase_gc_return; reflexivity
         |intros Hx; pc_contra Hx|intros Hx; pc_contra Hx|intros Hx; pc_contra Hx]; fail);
    unfold gsz in G; rewrite Hpc in G.
  - (* ILockRepo *) unfold gsz; simp_st. reflexivity.
  - (* IWrite *) unfold gsz; simp_st. exact G.
  - (* GLock *)
    pose proof (no_holder_free _ A Heqb) as Hnt.
    assert (Hl : st_repo s = Some l) by (unfold disk_repo in Heqo; rewrite Hnt in Heqo; destruct (st_repo s); congruence).
    eapply gsz_after_scan; [| | | | |eassumption]; simp_st.
    + pose proof (a_nd _ A) as ND. unfold pkgs in ND. rewrite Hl in ND. exact ND.
    + lia.
    + intros c [].
    + auto.
    + constructor.
  - (* GScan -> GScanLock *)
    destruct G as (ND & SZ & CS & TD). rewrite Heql in SZ, TD. rewrite sum_sizes_cons in SZ. cbn [snd] in SZ.
    unfold gsz; simp_st. cbn [tl]. repeat split; auto. lia.
  - (* GScan, directory gone *)
    destruct G as (ND & SZ & CS & TD). rewrite Heql in SZ, TD. rewrite sum_sizes_cons in SZ. cbn [snd] in SZ.
    pose proof (a_gc _ A i pr Hpr ltac:(rewrite Hpc; reflexivity)) as [G1 _].
    destruct (G1 ltac:(rewrite Hpc; discriminate)) as [NDI _]. unfold scan_ids in NDI. apply NoDup_app_l in NDI.
    eapply gsz_after_scan; [| | | | |eassumption]; simp_st; auto.
    + lia.
    + intros e He. apply TD. right; auto.
  - (* GScanLock, candidate *)
    destruct G as (ND & SZ & CS & TD). rewrite Heql in SZ, TD. cbn [tl] in SZ.
    unfold gsz; simp_st. repeat split; auto.
    + intros c0 Hc. apply in_app_iff in Hc. destruct Hc as [Hc|[<-|[]]]; auto. cbn [c_id c_size]. apply TD. left; reflexivity.
    + intros e He. apply TD. right; auto.
  - (* GScanLock, no candidate *)
    destruct G as (ND & SZ & CS & TD). rewrite Heql in SZ, TD. cbn [tl] in SZ.
    unfold gsz; simp_st. repeat split; auto. intros e He. apply TD. right; auto.
  - (* GScanUnlock *)
    destruct G as (ND & SZ & CS & TD).
    pose proof (a_gc _ A i pr Hpr ltac:(rewrite Hpc; reflexivity)) as [G1 _].
    destruct (G1 ltac:(rewrite Hpc; discriminate)) as [NDI _]. unfold scan_ids in NDI. apply NoDup_app_l in NDI.
    eapply gsz_after_scan; eauto.
  - (* GMove, dry run *)
    destruct G as (ND & CS & NQ & SZ). rewrite Heql in CS, NQ. cbn [map] in NQ. apply NoDup_cons_iff in NQ. destruct NQ as [Hnin NQ].
    apply move_next_inl in Heqs0. destruct Heqs0 as [-> | ->]; unfold gsz; simp_st;
      (split; [exact ND|]); (split; [intros c' Hc'; apply CS; right; exact Hc'|]); (split; [exact NQ|]);
      intros Hd; change (g_dry pr = false) in Hd; congruence.
  - (* GMove, collect *)
    destruct G as (ND & CS & NQ & SZ). rewrite Heql in CS, NQ. cbn [map] in NQ. apply NoDup_cons_iff in NQ. destruct NQ as [Hnin NQ].
    assert (Hc : In (c_id c, c_size c) (p_meta pr)) by (apply CS; left; reflexivity).
    pose proof (sum_remove_key _ _ _ ND Hc) as Hsum. specialize (SZ Heqb).
    apply move_next_inl in Heqs0. destruct Heqs0 as [-> | ->]; unfold gsz; simp_st;
      (split; [apply NoDup_remove_key; exact ND|]);
      (split; [intros c' Hc'; apply In_remove_key; split; [intros E; apply Hnin; rewrite <- E; apply in_map; exact Hc'|apply CS; right; exact Hc']|]);
      (split; [exact NQ|]); intros _; lia.
Qed.

Lemma gsz_all : forall procs sched i pr, wf_procs procs ->
  nth_error (st_procs (run (init dir procs) sched)) i = Some pr -> gsz pr.
Proof.
  intros procs sched i pr WF. revert i pr.
  induction sched as [|a sched IH] using rev_ind; intros i pr Hi.
  - cbn in Hi. destruct (WF pr) as (q & au & ops & ->); [eapply nth_error_In; exact Hi|].
    apply gsz_trivial; cbn [p_pc mk_proc]; [apply gphase_start| | |];
      intros E; destruct (start_pc_cases ops) as [E2|[E2|[E2|[E2|E2]]]]; rewrite E2 in E; discriminate.
  - rewrite run_snoc in Hi. destruct a as [k|]; cbn [act] in Hi; [|apply (IH i pr Hi)].
    destruct (step (run (init dir procs) sched) k) as [s'|] eqn:Hst; [|apply (IH i pr Hi)].
    destruct (Nat.eq_dec i k) as [->|Hne].
    + destruct (step_proc_at_self _ _ _ Hst) as (pr0 & pr1 & Hp & Hp').
      assert (pr1 = pr) by (unfold proc_at in *; congruence); subst pr1.
      eapply gsz_step; [apply (full_run _ sched (full_init _ WF))|exact Hst|exact Hp|exact Hp'|apply (IH k pr0 Hp)].
    + apply (step_proc_at_other _ _ _ i pr Hst) in Hi; auto. apply (IH i pr Hi).
Qed.

(* the repository size computed by __addPackage and by a (not dry) gc is the sum of repo.json *)
Lemma reported_size_is_sum_proof : forall procs sched i pr,
  wf_procs procs -> nth_error (st_procs (run (init dir procs) sched)) i = Some pr ->
  (p_pc pr = IWrite \/ p_pc pr = IUnlock \/ ((p_pc pr = GMove \/ p_pc pr = GUnlock) /\ g_dry pr = false)) ->
  p_size pr = sum_sizes (pkgs (run (init dir procs) sched)).
Proof.
  intros procs sched i pr WF Hi Hpc.
  pose proof (gsz_all procs sched i pr WF Hi) as G.
  pose proof (f_acct _ (full_run _ sched (full_init _ WF))) as A.
  assert (Hm : repo_mode (p_pc pr) = Some true) by (destruct Hpc as [E|[E|[[E|E] _]]]; rewrite E; reflexivity).
  destruct (a_rl _ A i pr Hi Hm) as [E1 _]. unfold pkgs. rewrite E1.
  unfold gsz in G. destruct Hpc as [E|[E|[[E|E] Hd]]]; rewrite E in G; auto; destruct G as (_ & _ & _ & G); auto.
Qed.

End WithDir.
