(* C15 — property theorems.  Only statements (each closed by [exact] of a
   lemma of Proofs.v), witnesses and non-vacuity examples.

   All theorems quantify over both initial conditions of the store (directory
   missing / existing and empty), every list of processes started by [mk_proc]
   (any number of projects, any programs of install / use / gc / unlink
   operations on any build-ids, any quota and autoClean settings) and over
   every schedule (interleaving of their steps and clock ticks). *)
From Coq Require Import List NArith Bool Arith Permutation Sorted.
Require Import BobV.C15.Model BobV.C15.Proofs.
Import ListNotations.
Open Scope N_scope.

(* A directory that is visible under a package name contains the audit trail,
   the workspace tree and pkg.json, and the tree has the recorded hash. *)
Theorem visible_is_complete_and_hashed : forall dir procs sched q d,
  wf_procs procs -> lookup q (st_store (run (init dir procs) sched)) = Some d ->
  d_audit d = true /\ exists m, d_meta d = Some m /\ d_tree d = Some (m_hash m).
Proof. exact visible_is_complete_and_hashed_proof. Qed.

(* ... pkg.json is empty on disk only while a user holds its exclusive lock
   with exactly that text in its write buffer. *)
Theorem truncated_pkg_json_has_writer : forall dir procs sched q d,
  wf_procs procs -> lookup q (st_store (run (init dir procs) sched)) = Some d -> d_trunc d = true ->
  exists j prj, nth_error (st_procs (run (init dir procs) sched)) j = Some prj /\
     pkg_lock prj = Some (q, true) /\ p_dirty prj = true /\ d_meta d = Some (p_pmeta prj).
Proof. exact truncated_has_writer_proof. Qed.

(* The two-level lock protocol: an exclusive holder of repo.json excludes every
   other holder; an exclusive holder of a pkg.json excludes every other holder. *)
Theorem lock_protocol_excludes : forall dir procs sched i j pi pj,
  wf_procs procs -> i <> j ->
  nth_error (st_procs (run (init dir procs) sched)) i = Some pi ->
  nth_error (st_procs (run (init dir procs) sched)) j = Some pj ->
  (repo_mode (p_pc pi) = Some true -> repo_mode (p_pc pj) = None) /\
  (forall q, pkg_lock pi = Some (q, true) -> forall m, pkg_lock pj <> Some (q, m)).
Proof. exact lock_protocol_proof. Qed.

(* Per build-id: successful renames into the store = moves to an attic + (1 if
   it is installed now).  Without a collection in between a build-id is
   installed at most once, whatever the interleaving of the installers. *)
Theorem installed_at_most_once : forall dir procs sched p,
  let s := run (init dir procs) sched in
  count_log (true, p) (st_log s) = (count_log (false, p) (st_log s) + (if has_key p (st_store s) then 1 else 0))%nat.
Proof. exact installed_at_most_once_proof. Qed.

(* repo.json (as last written) lists every package once; every listed package
   is installed and listed with its own size; every installed package is listed
   or its installer stands between its rename and its repo.json update; the
   exclusive holder's copy is the file; when nobody holds the lock exclusively
   the file on disk is that text. *)
Theorem repo_size_is_sum : forall dir procs sched,
  wf_procs procs ->
  let s := run (init dir procs) sched in
  NoDup (map fst (pkgs s)) /\
  (forall q sz, In (q, sz) (pkgs s) ->
     exists d m, lookup q (st_store s) = Some d /\ d_meta d = Some m /\ m_size m = sz) /\
  (forall q, has_key q (st_store s) = true ->
     In q (map fst (pkgs s)) \/
     exists i pr, nth_error (st_procs s) i = Some pr /\ pend (p_pc pr) = true /\ o_pkg (cur pr) = q) /\
  (forall i pr, nth_error (st_procs s) i = Some pr -> repo_mode (p_pc pr) = Some true ->
     pkgs s = p_meta pr /\ st_rtrunc s = p_dirty pr) /\
  ((forall i pr, nth_error (st_procs s) i = Some pr -> repo_mode (p_pc pr) <> Some true) -> disk_repo s = st_repo s).
Proof. exact repo_size_is_sum_proof. Qed.

(* The repository size computed by __addPackage (returned by the installer's
   update) and the running size of a gc that really deletes is the sum of the
   sizes listed in repo.json at that moment. *)
Theorem reported_size_is_sum : forall dir procs sched i pr,
  wf_procs procs -> nth_error (st_procs (run (init dir procs) sched)) i = Some pr ->
  (p_pc pr = IWrite \/ p_pc pr = IUnlock \/ ((p_pc pr = GMove \/ p_pc pr = GUnlock) /\ g_dry pr = false)) ->
  p_size pr = sum_sizes (pkgs (run (init dir procs) sched)).
Proof. exact reported_size_is_sum_proof. Qed.

(* Every gc run, at every point of its collection loop: what has been
   collected so far followed by what is still queued is the sorted list of the
   scanned candidates (so the collected ones are the oldest); without --used
   every candidate was unused when scanned and is not the package being
   installed; every collected candidate was collected while the size was still
   over the quota (or --all-unused asked for it); when the loop has stopped
   nothing is queued or the quota is met. *)
Theorem auto_gc_only_unused_oldest_first_until_quota : forall dir procs sched g pr,
  wf_procs procs -> nth_error (st_procs (run (init dir procs) sched)) g = Some pr ->
  p_pc pr = GMove \/ p_pc pr = GUnlock ->
  (forall c, In c (p_cands pr) ->
     (c_unused c = true -> is_newpkg pr (c_id c) = false) /\ (g_used pr = false -> c_unused c = true)) /\
  Permutation (p_done pr ++ p_queue pr) (p_cands pr) /\
  StronglySorted cand_le (p_done pr ++ p_queue pr) /\
  sizes (p_queue pr) <= p_size pr /\
  (forall pre c post, p_done pr = pre ++ c :: post ->
     must_go (p_quota pr) (g_unused pr) c (p_size pr + sizes (c :: post)) = true) /\
  (p_pc pr = GMove -> exists c rest, p_queue pr = c :: rest /\ must_go (p_quota pr) (g_unused pr) c (p_size pr) = true) /\
  (p_pc pr = GUnlock -> p_queue pr = [] \/
     exists c rest, p_queue pr = c :: rest /\ must_go (p_quota pr) (g_unused pr) c (p_size pr) = false).
Proof. exact auto_gc_only_unused_oldest_first_until_quota_proof. Qed.

(* among candidates of the same kind the order is by age *)
Theorem sorted_means_oldest_first : forall a b, cand_le a b -> c_unused a = c_unused b -> c_mtime a <= c_mtime b.
Proof. exact cand_le_mtime. Qed.

(* never_collected_while_used, full statement (FALSE of the code, finding F8):
     forall dir procs sched g q w, wf_procs procs ->
       collects (run (init dir procs) sched) g q -> not_forced (run (init dir procs) sched) g ->
       ~ uses (run (init dir procs) sched) w q.
   Refuted by the schedule below: P0 installs package 1; P1's
   useSharedPackage(1) returns (workspace 20 recorded in users, both locks
   released); P2 installs package 2 over the quota, its automatic gc finds no
   link of workspace 20 yet and moves package 1 to the attic; P1's builder then
   creates the symlink. *)
Definition f8_procs : list proc :=
  [ mk_proc (Some 15) true [{| o_kind := KInstall; o_pkg := 1; o_ws := 10; o_tree := 101; o_size := 10; o_expect := 101;
                               o_link := false; o_used := false; o_unused := false; o_dry := false |}];
    mk_proc (Some 15) true [{| o_kind := KUse; o_pkg := 1; o_ws := 20; o_tree := 0; o_size := 0; o_expect := 0;
                               o_link := false; o_used := false; o_unused := false; o_dry := false |}];
    mk_proc (Some 15) true [{| o_kind := KInstall; o_pkg := 2; o_ws := 30; o_tree := 102; o_size := 10; o_expect := 102;
                               o_link := true; o_used := false; o_unused := false; o_dry := false |}] ].

Definition f8_sched : list action :=
  steps_of 0 11 ++ [Tick] ++ steps_of 1 8 ++ [Tick] ++ steps_of 2 17.

Theorem never_collected_while_used_refuted :
  exists dir procs sched g q w, wf_procs procs /\
    collects (run (init dir procs) sched) g q /\ not_forced (run (init dir procs) sched) g /\
    recorded (run (init dir procs) sched) q w /\ uses (run (init dir procs) sched) w q.
Proof.
  exists false, f8_procs, f8_sched, 2%nat, 1, 20.
  split; [intros pr [<-|[<-|[<-|[]]]]; eexists; eexists; eexists; reflexivity|].
  split; [vm_compute; eexists; eexists; eexists; repeat split; reflexivity|].
  split; [vm_compute; eexists; split; reflexivity|].
  split; [vm_compute; eexists; eexists; split; [reflexivity|split; [reflexivity|right; left; reflexivity]]|].
  right. exists 1%nat. vm_compute. eexists. repeat split; left; reflexivity.
Qed.

(* What does hold ("uses" = the link exists when gc, holding the repository
   lock exclusively, scans the package): a gc without --used that moves q to
   its attic has, earlier in the same run, taken the shared lock on q's
   pkg.json at a moment when no workspace recorded there had its link on q.
   MISSING for the full statement: the link of a recorded user may be created
   after that moment (F8); closing the window needs the repository lock held
   across builder code. *)
Theorem never_collected_while_used_partial : forall dir procs sched g q,
  wf_procs procs ->
  collects (run (init dir procs) sched) g q -> not_forced (run (init dir procs) sched) g ->
  exists sched0 rest, sched = sched0 ++ Step g :: rest /\
    scans (run (init dir procs) sched0) g q /\
    (forall w, recorded (run (init dir procs) sched0) q w -> lookup w (st_links (run (init dir procs) sched0)) <> Some q) /\
    ops_left (run (init dir procs) sched0) g = ops_left (run (init dir procs) sched) g.
Proof. exact never_collected_while_used_partial_proof. Qed.

(* No operation of any process ever fails except installSharedPackage called
   with a tree that does not hash to the recorded result hash, and the
   TypeError of a gc without configured quota (clean --shared --used
   --all-unused).  In particular: no missing file, no corrupt or half written
   meta data, whatever the other projects do and also on an empty store. *)
Theorem no_spurious_failure : forall dir procs sched i pr f,
  wf_procs procs -> nth_error (st_procs (run (init dir procs) sched)) i = Some pr -> In (RFail f) (p_res pr) ->
  f = FHash \/ (f = FType /\ p_quota pr = None).
Proof. exact no_spurious_failure_proof. Qed.

(* ------------------------------------------------------------------ non-vacuity *)
Definition mo (k : okind) (p w t sz e : N) (l u un d : bool) : op :=
  {| o_kind := k; o_pkg := p; o_ws := w; o_tree := t; o_size := sz; o_expect := e; o_link := l;
     o_used := u; o_unused := un; o_dry := d |}.

Definition two_installers : list proc :=
  [ mk_proc None true [mo KInstall 1 10 101 10 101 true false false false];
    mk_proc None true [mo KInstall 1 20 101 10 101 true false false false] ].

(* both prepare the package, the second loses the rename race, is recorded as user and both link *)
Example installed_at_most_once_nonvacuous :
  let s := run (init false two_installers) (steps_of 0 3 ++ steps_of 1 3 ++ steps_of 0 20 ++ steps_of 1 20) in
  map p_res (st_procs s) = [[RInstall true]; [RInstall false]] /\
  st_log s = [(true, 1)] /\ pkgs s = [(1, 10)] /\
  recorded s 1 10 /\ recorded s 1 20 /\ st_links s = [(10, 1); (20, 1)].
Proof.
  vm_compute. repeat split; try reflexivity; eexists; eexists; repeat split; try reflexivity; cbn; auto.
Qed.

Example visible_nonvacuous :
  exists d, lookup 1 (st_store (run (init false two_installers) (steps_of 0 4))) = Some d /\ p_pc (nth 0 (st_procs (run (init false two_installers) (steps_of 0 4))) (mk_proc None false [])) = IOpenRepo.
Proof. vm_compute. eexists; split; reflexivity. Qed.

(* gc on a store where nothing has been installed yet returns 0 (finding F6, fixed) *)
Example gc_on_empty_store_nonvacuous :
  map p_res (st_procs (run (init true [mk_proc (Some 10) true [mo KGc 0 0 0 0 0 false false true false];
                                  mk_proc None true [mo KUse 1 20 0 0 0 false false false false]])
                           (steps_of 0 3 ++ steps_of 1 8)))
  = [[RGc (Some 0) []]; [RUse false]].
Proof. vm_compute. reflexivity. Qed.

(* both failure classes exist: a wrong hash, and --used --all-unused without quota *)
Example no_spurious_failure_nonvacuous :
  map p_res (st_procs (run (init false [mk_proc None true [mo KInstall 1 10 101 10 999 true false false false;
                                                     mo KInstall 1 10 101 10 101 true false false false;
                                                     mo KGc 0 0 0 0 0 false true true false]])
                           (steps_of 0 40)))
  = [[RFail FType; RInstall true; RFail FHash]].
Proof. vm_compute. reflexivity. Qed.

(* the automatic gc of the third install removes the oldest unused package and stops when the quota is met *)
Definition three_installs : list proc :=
  [ mk_proc (Some 25) true [mo KInstall 1 10 101 10 101 false false false false];
    mk_proc (Some 25) true [mo KInstall 2 20 102 10 102 false false false false];
    mk_proc (Some 25) true [mo KInstall 3 30 103 10 103 true false false false] ].

Example auto_gc_nonvacuous :
  let s := run (init false three_installs) (steps_of 0 12 ++ [Tick] ++ steps_of 1 12 ++ [Tick] ++ steps_of 2 21) in
  let pr := nth 2 (st_procs s) (mk_proc None false []) in
  p_pc pr = GUnlock /\ map c_id (p_done pr) = [1] /\ map c_id (p_queue pr) = [2] /\ p_size pr = 20 /\
  map fst (st_store s) = [2; 3] /\ st_log s = [(true, 1); (true, 2); (true, 3); (false, 1)].
Proof. vm_compute. repeat split; reflexivity. Qed.
