From Coq Require Import List NArith Bool.
Require Import BobV.C15.Model BobV.C15.Proofs.
Import ListNotations.
Open Scope N_scope.
Example placeholder_nonvacuous : run (init []) [Tick] = tick (init []).
Proof. reflexivity. Qed.
