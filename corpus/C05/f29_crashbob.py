# run bob with a kill injected right after the first emptyDirectory call of the builder
import sys, os
sys.path.insert(0, "/repo/pym")
if __name__ == "__main__":
    import bob.utils, bob.builder
    orig = bob.builder.emptyDirectory
    def killing(path):
        orig(path)
        sys.stderr.write("KILLED after emptyDirectory(%s)\n" % path)
        os._exit(9)
    bob.builder.emptyDirectory = killing
    from bob.scripts import bob as main
    sys.exit(main())
