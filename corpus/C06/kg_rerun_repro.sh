#!/bin/sh
# Reproduction: with --keep-going a failing step whose workspace is reached under
# three different sandboxes (three task keys, one workspace) is executed three times.
# usage: kg_rerun_repro.sh [repo]     prints the number of executions of lib's build step
REPO=${1:-/repo}
D=$(mktemp -d /var/tmp/bobv-c06-kg-XXXXXX)
cp -a "$(dirname "$0")/f7_project/." "$D/"
cat > "$D/recipes/lib.yaml" <<'EOR'
buildScript: |
    sleep 0.3; exit 1
packageScript: |
    cp $1/out.txt .
EOR
cd "$D" || exit 2
PYTHONPATH="$REPO/pym" timeout 120 /venv/bin/python "$REPO/bob" dev --sandbox -k -j4 root > "$D/out.txt" 2>&1
n=$(grep -c 'Start.*BUILD *lib ' "$D/out.txt")
cd / ; rm -rf "$D"
echo "lib build step executed $n time(s)"
[ "$n" = 1 ]
