#!/bin/sh
# Reproduction: bob under an external (make) job server whose pipe holds no free
# token -> job slot over-subscription, IndexError in JobServerSemaphore.release, hang.
# usage: extjs_repro.sh [repo]      exit 124 = hang reproduced, 0 = build finished
REPO=${1:-/repo}
D=$(mktemp -d /var/tmp/bobv-c06-extjs-XXXXXX)
cp -a "$(dirname "$0")/extjs_project/." "$D/"
mkfifo "$D/js.fifo"
cd "$D" || exit 2
exec 9<>"$D/js.fifo"      # keep the fifo alive, zero tokens inside
MAKEFLAGS="-j3 --jobserver-auth=fifo:$D/js.fifo" PYTHONPATH="$REPO/pym" timeout 30 /venv/bin/python "$REPO/bob" dev root > "$D/out.txt" 2>&1
rc=$?
grep -v '^INFO\|^See' "$D/out.txt" | tail -8
cd / ; rm -rf "$D"
echo "exit=$rc"
exit $rc
