"""Confirm an independently seeded breaking change and run our checks against it.
usage: seedcheck.py <seed-dir (patch.diff, demo.*, meta.json)> <Cxx> [<Cyy> ...]
Works on a scratch copy of /repo (other work on /repo is not disturbed):
  1. demo on the unchanged copy must pass, 2. patch applies, 3. pinned test suite still passes,
  4. demo must fail, 5. each named check must exit 1 with a VIOLATION line.
Writes the outcome into <seed-dir>/verified.json."""
import json, os, shutil, subprocess, sys, tempfile, glob

def sh(cmd, cwd=None, env=None, timeout=3600, out=None):
    f = open(out, "w") if out else subprocess.DEVNULL
    try:
        r = subprocess.run(cmd, cwd=cwd, env=env, stdout=f, stderr=subprocess.STDOUT, stdin=subprocess.DEVNULL, timeout=timeout)
        return r.returncode
    except subprocess.TimeoutExpired:
        return "timeout"
    finally:
        if out: f.close()

def main():
    fast = "--fast" in sys.argv          # re-run checks only: take demo/test outcomes from an earlier verified.json
    argv = [a for a in sys.argv if a != "--fast"]
    seed = os.path.abspath(argv[1]); checks = argv[2:]
    prev0 = {}
    if fast:
        prev0 = json.load(open(os.path.join(seed, "verified.json")))
        assert prev0.get("pinned_tests_pass") and prev0.get("demo_changed_rc") not in (0, None), "--fast needs a complete earlier verification"
    meta = json.load(open(os.path.join(seed, "meta.json")))
    demo = (glob.glob(os.path.join(seed, "demo.py")) + glob.glob(os.path.join(seed, "demo.sh")))[0]
    runner = ["/venv/bin/python", demo] if demo.endswith(".py") else ["bash", demo]
    d = tempfile.mkdtemp(prefix="bobv-seed-", dir="/var/tmp")
    res = {"property": meta.get("property"), "checks": {}}
    try:
        repo = os.path.join(d, "repo")
        shutil.copytree("/repo", repo, symlinks=True)
        env = dict(os.environ, PYTHONPATH=os.path.join(repo, "pym"))
        if fast:
            for k in ("demo_unchanged_rc", "pinned_tests_pass", "pinned_tests_summary", "demo_changed_rc", "demo_changed_tail"):
                res[k] = prev0.get(k)
        else:
            res["demo_unchanged_rc"] = sh(runner + [repo], env=env, timeout=900, out=os.path.join(d, "demo0.log"))
        rc = sh(["patch", "-p1", "-i", os.path.join(seed, "patch.diff")], cwd=repo, out=os.path.join(d, "patch.log"))
        res["patch_applies"] = (rc == 0)
        if rc != 0:
            res["patch_log"] = open(os.path.join(d, "patch.log")).read()[-500:]
        else:
            e2 = dict(os.environ, BOBV_REPO=repo)
            if not fast:
                rc = sh(["/venv/bin/python", "/verif/harness/baseline_check.py", "-n", "6"], env=e2, timeout=3000, out=os.path.join(d, "tests.log"))
                res["pinned_tests_pass"] = (rc == 0)
                res["pinned_tests_summary"] = open(os.path.join(d, "tests.log")).read()[-300:]
                res["demo_changed_rc"] = sh(runner + [repo], env=env, timeout=900, out=os.path.join(d, "demo1.log"))
                res["demo_changed_tail"] = open(os.path.join(d, "demo1.log"), errors="replace").read()[-400:]
            for c in checks:
                log = os.path.join(d, "check_%s.log" % c)
                rc = sh(["/verif/check", c, "quick"], env=e2, timeout=5000, out=log)
                lines = [l for l in open(log, errors="replace").read().split("\n") if l.startswith(("VIOLATION", "KNOWN", c + " "))]
                res["checks"][c] = {"rc": rc, "caught": rc == 1 and any(l.startswith("VIOLATION") for l in lines), "lines": lines[-6:]}
                # keep the replay of the first violation as documentation
                for l in lines:
                    if l.startswith("VIOLATION") and "replay=" in l:
                        rp = l.split("replay=")[1].split()[0]
                        if os.path.exists(rp):
                            shutil.copy(rp, os.path.join(seed, "replay_%s.json" % c))
                        break
    finally:
        shutil.rmtree(d, ignore_errors=True)
    # keep the outcomes of checks that were run against this seed earlier and are not re-run now
    try:
        prev = json.load(open(os.path.join(seed, "verified.json")))
        for c, v in prev.get("checks", {}).items():
            res["checks"].setdefault(c, v)
    except (OSError, ValueError):
        pass
    json.dump(res, open(os.path.join(seed, "verified.json"), "w"), indent=1)
    print(json.dumps(res, indent=1))

main()
