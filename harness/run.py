"""./check <Cxx> quick|thorough [--replay file]  |  ./check setup | ./check all quick"""
import sys, os, importlib, traceback, time, subprocess
sys.path.insert(0, os.path.dirname(os.path.abspath(__file__)))
from vlib import core, coq, gen_consts


def setup():
    changed, errs = gen_consts.regenerate()
    if errs:
        print("constants translator failed: %r" % (errs,))
        return 1
    with coq.locked():
        coq.ensure_project()
    # build the proof cones of the registered checks (not unrelated work in progress)
    import json
    targets = []
    try:
        man = json.load(open(os.path.join(core.VERIF, "MANIFEST.json")))
        for c in man["checks"]:
            mod = importlib.import_module("props." + c["property_id"].lower())
            targets += [f[:-2] + ".vo" for f in mod.PROPERTY_FILES]
    except Exception as e:
        print("cannot read MANIFEST.json (%r): building everything" % (e,))
        targets = []
    targets = sorted(set(targets + ["Common/Cases.vo", "Common/Sha1.vo"]))
    ok, log = coq.build(targets, timeout=5000)
    print(log[-3000:])
    if not ok:
        print("SETUP FAILED")
        return 1
    print("setup ok")
    return 0


def run_check(prop, tier, replay=None):
    seed = int(os.environ.get("VERIF_SEED", "1"))
    ctx = core.Ctx(prop, tier, seed, replay)
    try:
        mod = importlib.import_module("props." + prop.lower())
    except ImportError as e:
        print("no check for %s: %s" % (prop, e))
        return 2
    # 1. translator (only the generated files in this property's cone matter)
    changed, errs = gen_consts.regenerate()
    cone = coq.cone(mod.PROPERTY_FILES)
    mine = {k: v for k, v in errs.items() if k == "*" or ("Gen/%s.v" % k) in cone
            or any(("BobV.Gen.%s" % k) in open(os.path.join(coq.COQ, f)).read() for f in cone if os.path.exists(os.path.join(coq.COQ, f)))}
    if mine:
        err = "; ".join("%s: %s" % kv for kv in sorted(mine.items()))
        ctx.tie_broken("constants-translator", err)
        ctx.proof = {"ok": False, "failed": [{"what": "translator", "detail": err}], "obligations": 1,
                     "discharged": 0, "theorems": [], "axioms": {}, "checker_cmd": "gen_consts"}
    else:
        # 2. proofs
        coq.check_proofs(ctx, mod.PROPERTY_FILES, getattr(mod, "EXTRA_TARGETS", ()))
    # 3/4. correspondence and oracle
    try:
        mod.run(ctx)
    except Exception as e:
        ctx.tie_broken("harness-exception", traceback.format_exc()[-3000:])
    return ctx.finish()


def main(argv):
    if len(argv) >= 1 and argv[0] == "setup":
        return setup()
    if len(argv) < 2:
        print(__doc__)
        return 2
    prop, tier = argv[0], argv[1]
    if tier == "--replay":
        tier = "quick"
        replay = argv[2]
    else:
        replay = argv[3] if len(argv) > 3 and argv[2] == "--replay" else None
    if os.environ.get("VERIF_TIER") in ("quick", "thorough") and tier not in ("quick", "thorough"):
        tier = os.environ["VERIF_TIER"]
    if prop == "all":
        rc = 0
        for i in range(1, 21):
            p = "C%02d" % i
            if os.path.exists(os.path.join(os.path.dirname(__file__), "props", p.lower() + ".py")):
                rc |= run_check(p, tier)
        return rc
    return run_check(prop, tier, replay)


if __name__ == "__main__":
    sys.exit(main(sys.argv[1:]))
