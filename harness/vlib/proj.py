"""Generated Bob recipe projects: structured description, YAML writer, single
edits with known id-relevance, and runners (in a sub-process of the *current*
/repo).  Shared by C01-C07, C13, C14."""
import copy, json, os, shutil, subprocess, sys
import yaml
from .core import REPO, VERIF, scratch_dir

HOST_MOUNTS = ["/bin", "/etc", "/lib", "/run", "/usr", "/var", ["/lib32", "/lib32", ["nofail"]],
               ["/lib64", "/lib64", ["nofail"]]]

VALS = ["1", "0", "val", "a b", "x:y", "", "q\"uo'te", "$dollar", "back\\slash", "é€", "semi;colon", "two\nlines"]
SAFE_VALS = ["1", "0", "val", "abc", "x-y", "v2", "", "on", "off"]


def lit(v):
    """escape a literal value for Bob's string substitution"""
    return "".join("\\" + c if c in "\\\"'$" else c for c in v)


def script_for(frag, kind, variables):
    """A deterministic step script whose output is a function of exactly: the
    fragment id, the values of the named variables, and the *relative* content
    of its inputs ("$@").  It is restartable (removes its own partial output)
    and has two fault hooks driven by whitelisted host variables, which are not
    part of any digest: BOBV_FAIL=<frag> fails after partial output,
    BOBV_KILL=<frag> kills the Bob process whose pid is in $BOBV_PIDFILE."""
    lines = ['echo "frag=%s"' % frag]
    for v in variables:
        lines.append('echo "%s=${%s-<unset>}"' % (v, v))
    # a marker file whose NAME depends on the variable values: leftovers of another variant stay visible
    markers = "".join(': > "m-%s-$(printf \'%%s\' "${%s-}" | sha1sum | cut -c1-8).marker"\n' % (v, v) for v in variables)
    lines.append('for a in "$@" ; do [ -d "$a" ] || continue ; ( cd "$a" && find . -type f | LC_ALL=C sort | while read f ; do echo "in:$f:$(sha1sum < "$f" | cut -c1-40)" ; done ) ; done')
    hooks = ('rm -f partial-*.txt\n'
             'if [ "${BOBV_FAIL:-}" = "%s" ]; then echo partial > partial-%s.txt; exit 1; fi\n'
             'if [ "${BOBV_KILL:-}" = "%s" ]; then echo partial > partial-%s.txt; kill -9 "$(cat "$BOBV_PIDFILE")"; sleep 5; fi\n'
             % (frag, frag, frag, frag))
    body = hooks + markers + "{\n" + "\n".join("  " + l for l in lines) + "\n} > result-%s.txt\n" % frag
    return body


class Gen:
    def __init__(self, rng, n_recipes=None, features=None):
        self.rng = rng
        self.n = n_recipes or rng.randint(3, 7)
        self.f = features or {}

    def feat(self, name, p):
        if name in self.f:
            return self.f[name]
        return self.rng.random() < p

    def project(self):
        rng = self.rng
        n = self.n
        names = ["r%d" % i for i in range(n)]
        classes = {}
        for ci in range(rng.randint(0, 2)):
            cn = "cls%d" % ci
            c = {}
            if rng.random() < 0.7:
                c["environment"] = {"CV%d" % ci: rng.choice(SAFE_VALS)}
            if rng.random() < 0.6:
                c["buildVars"] = ["CV%d" % ci]
                c["buildScript"] = script_for("c%db" % ci, "build", ["CV%d" % ci])
            if rng.random() < 0.3:
                c["packageSetup"] = "# setup of %s\nCLS_HELPER_%d=1\n" % (cn, ci)
            if ci > 0 and rng.random() < 0.4:
                c["inherit"] = ["cls0"]
            classes[cn] = c
        recipes = {}
        sandbox_provider = None
        tool_providers = {}
        # build from the leaves so that dependencies exist
        for i in reversed(range(n)):
            nm = names[i]
            r = {}
            lower = names[i + 1:]
            if classes and rng.random() < 0.5:
                r["inherit"] = rng.sample(sorted(classes), rng.randint(1, min(2, len(classes))))
            envn = ["E%d_%d" % (i, k) for k in range(rng.randint(0, 2))]
            if envn:
                r["environment"] = {e: lit(rng.choice(VALS if self.feat("nasty_values", 0.3) else SAFE_VALS)) for e in envn}
            if rng.random() < 0.3:
                r["privateEnvironment"] = {"P%d" % i: rng.choice(SAFE_VALS)}
            deps = []
            if lower:
                for d in rng.sample(lower, rng.randint(0, min(3, len(lower)))):
                    dep = {"name": d}
                    if rng.random() < 0.3:
                        dep["environment"] = {"DEPV": rng.choice(SAFE_VALS)}
                    if rng.random() < 0.2:
                        dep["use"] = rng.choice([["result"], ["result", "deps"], ["result", "environment"],
                                                 ["result", "tools"], ["deps"]])
                    if d in tool_providers and rng.random() < 0.8:
                        dep.setdefault("use", ["result"])
                        if "tools" not in dep["use"]:
                            dep["use"] = dep["use"] + ["tools"]
                        if rng.random() < 0.5:
                            dep["forward"] = True
                    if d == sandbox_provider and self.feat("sandbox", 0.8):
                        dep["use"] = ["sandbox"] + ([] if rng.random() < 0.5 else ["result"])
                        if rng.random() < 0.6:
                            dep["forward"] = True
                    if rng.random() < 0.15:
                        dep["if"] = rng.choice(["${E%d_0:-1}" % i, "$(eq,a,a)", "false", "$(not,${NOPE:-})"])
                    deps.append(dep if len(dep) > 1 else d)
            # sandbox users should see the sandbox first
            deps.sort(key=lambda d: 0 if isinstance(d, dict) and "sandbox" in d.get("use", []) else 1)
            if deps:
                r["depends"] = deps
            visible = envn + (["DEPV"] if rng.random() < 0.3 else []) + (["GLOBAL1"] if rng.random() < 0.4 else [])
            bvars = [v for v in visible if rng.random() < 0.7]
            if rng.random() < 0.8 or i == 0:
                r["buildVars"] = bvars
                if visible and rng.random() < 0.3:
                    r["buildVarsWeak"] = [rng.choice(visible)]
                r["buildScript"] = script_for("%sb" % nm, "build", bvars)
                r["packageVars"] = [v for v in visible if rng.random() < 0.3]
                r["packageScript"] = script_for("%sp" % nm, "package", r["packageVars"]) + 'cp -a "$1"/. . 2>/dev/null || true\n'
            elif rng.random() < 0.5:
                r["packageScript"] = script_for("%sp" % nm, "package", [])
            # sources
            if self.feat("checkout", 0.5):
                if rng.random() < 0.6:
                    r["checkoutSCM"] = {"scm": "import", "url": "src/%s" % nm}
                    r["_sources"] = {"file.txt": "content of %s\n" % nm, "sub/other.txt": "other\n"}
                else:
                    r["checkoutDeterministic"] = True
                    # restartable like the other generated scripts: Bob runs a changed checkout script again in the
                    # workspace as it is (sources are never pruned), so the script removes what an edited version of
                    # itself may have left behind
                    r["checkoutScript"] = 'rm -f co-edited-*.txt edited-*.txt\necho "checkout %s" > co.txt\n' % nm
                    if envn:
                        # the checkout consumes a variable: its value is part of the checkout's Variant-Id only
                        # (no rng call: the random streams of all users of this generator stay as they were)
                        r["checkoutVars"] = [envn[0]]
                        r["checkoutScript"] += 'echo "%s=${%s-<unset>}" >> co.txt\n' % (envn[0], envn[0])
                if "buildScript" in r:
                    r["buildScript"] = 'cp -a "$1"/. . 2>/dev/null || true\n' + r["buildScript"]
            # provided things
            if rng.random() < 0.3:
                r["provideVars"] = {"PV_%s" % nm: rng.choice(SAFE_VALS) + "${E%d_0:-}" % i}
            if "packageScript" in r and self.feat("tools", 0.3):
                r["provideTools"] = {"tool_%s" % nm: rng.choice([".", {"path": "bin", "libs": ["lib"]},
                                                                 {"path": ".", "environment": {"TOOLVAR": "tv_%s" % nm}}])}
                tool_providers[nm] = "tool_%s" % nm
            if "packageScript" in r and sandbox_provider is None and self.feat("sandbox", 0.25) and i > 0:
                r["provideSandbox"] = {"paths": ["/usr/local/bin", "/usr/bin", "/bin"], "mount": HOST_MOUNTS,
                                       "environment": {"SBVAR": "in-sandbox"}}
                sandbox_provider = nm
            depnames = [d if isinstance(d, str) else d["name"] for d in deps
                        if isinstance(d, str) or ("if" not in d and "result" in d.get("use", ["result"]))]
            if rng.random() < 0.15 and depnames:
                r["provideDeps"] = [rng.choice(depnames)]
            if "buildScript" in r and self.feat("fingerprint", 0.15):
                r["buildScript"] = r["buildScript"]
                r["fingerprintScript"] = "echo fp-%s-${FPHOST:-none}\n" % rng.choice(["a", "b"])
                r["fingerprintIf"] = True
                r["fingerprintVars"] = []
            if rng.random() < 0.3:
                r["metaEnvironment"] = {"LICENSE": rng.choice(["MIT", "GPL"])}
            recipes[nm] = r
        # tools are consumed by name by anybody above the provider who got them
        for i, nm in enumerate(names):
            r = recipes[nm]
            got = [tool_providers[d["name"]] for d in r.get("depends", []) if isinstance(d, dict)
                   and "tools" in d.get("use", []) and d["name"] in tool_providers]
            if got and "buildScript" in r and rng.random() < 0.8:
                t = rng.choice(got)
                r[rng.choice(["buildTools", "buildToolsWeak", "packageTools"])] = [t]
        # motif: one recipe consumed twice below the root, first without and later with an optional variable
        if n >= 3 and self.feat("optional_var_motif", 0.5):
            leaf = names[-1]
            lr = recipes[leaf]
            if "buildScript" not in lr:
                lr["buildVars"] = []
                lr["buildScript"] = script_for("%sb" % leaf, "build", [])
                lr["packageVars"] = []
                lr["packageScript"] = script_for("%sp" % leaf, "package", []) + 'cp -a "$1"/. . 2>/dev/null || true\n'
            if "OPTV" not in lr.get("buildVars", []):
                lr["buildVars"] = lr.get("buildVars", []) + ["OPTV"]
                lr["buildScript"] = 'echo "optv=${OPTV:-none}" > optv.txt\n' + lr["buildScript"]
            mid = names[1]
            if mid != leaf:
                md = [d for d in recipes[mid].get("depends", []) if (d if isinstance(d, str) else d["name"]) != leaf]
                recipes[mid]["depends"] = md + [{"name": leaf, "environment": {"OPTV": "fast"}}]
                rd = [d for d in recipes[names[0]].get("depends", []) if (d if isinstance(d, str) else d["name"]) not in (leaf, mid)]
                sb = [d for d in rd if isinstance(d, dict) and "sandbox" in d.get("use", [])]
                rest = [d for d in rd if d not in sb]
                recipes[names[0]]["depends"] = sb + [leaf, mid] + rest
        recipes[names[0]]["root"] = True
        if n > 3 and rng.random() < 0.3:
            recipes[names[1]]["root"] = True
        desc = {"recipes": recipes, "classes": classes,
                "config": {"bobMinimumVersion": "0.25"},
                "default": {"environment": {"GLOBAL1": rng.choice(SAFE_VALS), "GLOBAL2": "unused"},
                            "whitelist": ["FPHOST", "BOBV_FAIL", "BOBV_KILL", "BOBV_PIDFILE"]}}
        return desc


def write_project(desc, path, order=None):
    """(re)write the project files below `path` (workspaces/state are kept)."""
    for sub in ("recipes", "classes", "src"):
        shutil.rmtree(os.path.join(path, sub), ignore_errors=True)
    os.makedirs(os.path.join(path, "recipes"), exist_ok=True)
    os.makedirs(os.path.join(path, "classes"), exist_ok=True)
    items = [("recipes", k, v) for k, v in desc["recipes"].items()] + [("classes", k, v) for k, v in desc["classes"].items()]
    if order is not None:
        order.shuffle(items)
    for sub, name, r in items:
        r = copy.deepcopy(r)
        src = r.pop("_sources", None)
        if src is not None:
            for fn, content in src.items():
                p = os.path.join(path, "src", name, fn)
                os.makedirs(os.path.dirname(p), exist_ok=True)
                with open(p, "w") as f:
                    f.write(content)
        fn = os.path.join(path, sub, *name.split("::")) + ".yaml"     # a::b lives in a/b.yaml
        os.makedirs(os.path.dirname(fn), exist_ok=True)
        with open(fn, "w") as f:
            yaml.safe_dump(r, f, default_flow_style=False, sort_keys=(order is None))
    with open(os.path.join(path, "config.yaml"), "w") as f:
        yaml.safe_dump(desc["config"], f)
    with open(os.path.join(path, "default.yaml"), "w") as f:
        yaml.safe_dump(desc["default"], f)


def bob_env(extra=None, hashseed="0"):
    env = {"PATH": os.environ.get("PATH", "/usr/bin:/bin"), "HOME": os.environ.get("HOME", "/root"),
           "PYTHONHASHSEED": hashseed, "PYTHONPATH": os.path.join(REPO, "pym"), "LANG": "C.UTF-8",
           "PYTHONDONTWRITEBYTECODE": "1", "BOB_VERIF": "1", "TERM": "dumb"}
    if extra:
        env.update(extra)
    return env


def run_bob(path, args, env=None, timeout=300, hashseed="0"):
    r = subprocess.run(["/venv/bin/python", os.path.join(REPO, "bob")] + list(args), cwd=path,
                       env=bob_env(env, hashseed), stdout=subprocess.PIPE, stderr=subprocess.STDOUT, stdin=subprocess.DEVNULL, timeout=timeout, text=True)
    return r.returncode, r.stdout


DUMP = os.path.join(VERIF, "harness", "vlib", "dump_proj.py")


def dump(path, defines=(), sandbox=False, hashseed="0", extra_args=(), env=None, timeout=300):
    """package tree of the project as seen by the real RecipeSet (sub-process)"""
    cmd = ["/venv/bin/python", DUMP, path] + ["-D" + d for d in defines] + (["--sandbox"] if sandbox else []) + list(extra_args)
    r = subprocess.run(cmd, env=bob_env(env, hashseed), stdout=subprocess.PIPE, stderr=subprocess.PIPE, stdin=subprocess.DEVNULL, timeout=timeout, text=True)
    if r.returncode != 0:
        return {"error": (r.stderr or r.stdout)[-2000:]}
    return json.loads(r.stdout)
