"""Coq side of the pipeline: project files, cone build, gates, Print Assumptions,
and evaluation of model cases with vm_compute."""
import glob, os, re, subprocess, fcntl, time, hashlib
from concurrent.futures import ThreadPoolExecutor
from .core import VERIF

COQ = os.path.join(VERIF, "coq")
RUN = os.path.join(COQ, "_run")
LOCK = os.path.join(COQ, ".build.lock")

# axioms of the standard library that a theorem may depend on (each is named in DESIGN.md section 4)
ALLOWED_AXIOMS = {
    "functional_extensionality_dep",
    "FunctionalExtensionality.functional_extensionality_dep",
}

GATE_RE = re.compile(r"\b(Admitted|admit|Axiom|Axioms|Parameter|Parameters|Conjecture|Conjectures|Hypothesis|Hypotheses|Variable|Variables|Unset\s+Guard|bypass_check|Admit\s+Obligations|type-in-type|impredicative-set|Unset\s+Positivity|Unset\s+Universe)\b")


def v_files():
    fs = []
    for p in glob.glob(os.path.join(COQ, "**", "*.v"), recursive=True):
        rel = os.path.relpath(p, COQ)
        if rel.startswith("_run"):
            continue
        fs.append(rel)
    return sorted(fs)


class locked:
    def __enter__(self):
        os.makedirs(COQ, exist_ok=True)
        self.f = open(LOCK, "w")
        fcntl.flock(self.f, fcntl.LOCK_EX)
        return self

    def __exit__(self, *a):
        fcntl.flock(self.f, fcntl.LOCK_UN)
        self.f.close()


def ensure_project():
    """(re)write _CoqProject and Makefile when the set of .v files changed."""
    files = v_files()
    txt = "-Q . BobV\n-arg -w -arg -notation-overridden,-deprecated-hint-without-locality,-deprecated-instance-without-locality\n" + "\n".join(files) + "\n"
    cp = os.path.join(COQ, "_CoqProject")
    old = open(cp).read() if os.path.exists(cp) else None
    if old != txt or not os.path.exists(os.path.join(COQ, "Makefile")):
        with open(cp, "w") as f:
            f.write(txt)
        subprocess.run(["coq_makefile", "-f", "_CoqProject", "-o", "Makefile"], cwd=COQ, check=True,
                       stdout=subprocess.DEVNULL, stderr=subprocess.DEVNULL)


def cone(prop_files):
    """transitive closure of `BobV.Dir.File` references starting from prop_files"""
    todo = list(prop_files)
    seen = set()
    while todo:
        rel = todo.pop()
        if rel in seen or not os.path.exists(os.path.join(COQ, rel)):
            continue
        seen.add(rel)
        src = strip_comments(open(os.path.join(COQ, rel)).read())
        for m in re.finditer(r"BobV((?:\.[A-Za-z_][A-Za-z0-9_']*)+)", src):
            todo.append(m.group(1)[1:].replace(".", "/") + ".v")
        # `From BobV.Dir Require Import A B.` / `From BobV Require Import Dir.A.`
        for m in re.finditer(r"From\s+BobV((?:\.[A-Za-z_]\w*)*)\s+Require\s+(?:Import|Export)?\s*([^.]*(?:\.[A-Za-z_][^.\s]*)*)\.", src):
            base = m.group(1)[1:].replace(".", "/")
            for nm in m.group(2).split():
                todo.append(os.path.join(base, nm.replace(".", "/")) + ".v")
    return sorted(seen)


def gates(files=None):
    """Scan the .v files (comments stripped) for forbidden declarations.
    `Variable`/`Hypothesis` are allowed only inside a Section."""
    bad = []
    for rel in (files if files is not None else v_files()):
        src = open(os.path.join(COQ, rel)).read()
        src = strip_comments(src)
        depth = 0
        for ln, line in enumerate(src.split("\n"), 1):
            s = line.strip()
            if re.match(r"^Section\b", s):
                depth += 1
            m = GATE_RE.search(line)
            if m:
                w = m.group(1)
                if w.startswith(("Variable", "Hypothes")) and depth > 0:
                    pass
                elif w == "admit" and re.search(r"\bno_admit\b", line):
                    pass
                else:
                    bad.append("%s:%d: %s" % (rel, ln, s[:100]))
            if re.match(r"^End\b", s) and depth > 0:
                # Module ... End also matches; harmless (depth only guards Variable/Hypothesis)
                depth -= 1
    return bad


def strip_comments(src):
    out = []
    i = 0
    depth = 0
    n = len(src)
    while i < n:
        if src.startswith("(*", i):
            depth += 1
            i += 2
        elif src.startswith("*)", i) and depth > 0:
            depth -= 1
            i += 2
        else:
            if depth == 0:
                out.append(src[i])
            elif src[i] == "\n":
                out.append("\n")
            i += 1
    return "".join(out)


def build(targets, timeout=1500, jobs=16):
    """make the .vo cone of the given targets. Returns (ok, log)."""
    with locked():
        ensure_project()
        try:
            r = subprocess.run(["make", "-j%d" % jobs, "--no-print-directory"] + targets, cwd=COQ,
                               stdout=subprocess.PIPE, stderr=subprocess.STDOUT, timeout=timeout, text=True)
            return r.returncode == 0, r.stdout
        except subprocess.TimeoutExpired as e:
            return False, "TIMEOUT after %ss\n%s" % (timeout, (e.stdout or b"")[-3000:])


def theorems_in(rel):
    src = strip_comments(open(os.path.join(COQ, rel)).read())
    return re.findall(r"^\s*(?:Theorem|Example)\s+([A-Za-z_][A-Za-z0-9_']*)", src, re.M)


def modname(rel):
    return "BobV." + rel[:-2].replace("/", ".")


class coqc_slot:
    """machine-wide limit on concurrently running coqc processes (several checks
    may run at the same time; each shards its cases over many coqc calls)"""
    N = int(os.environ.get("BOBV_COQC_SLOTS", "12"))
    DIR = "/var/tmp/bobv-coqc-slots"

    def __enter__(self):
        os.makedirs(self.DIR, exist_ok=True)
        start = (os.getpid() + int(time.time() * 1000)) % self.N
        while True:
            for k in range(self.N):
                f = open(os.path.join(self.DIR, "slot-%d" % ((start + k) % self.N)), "w")
                try:
                    fcntl.flock(f, fcntl.LOCK_EX | fcntl.LOCK_NB)
                    self.f = f
                    return self
                except OSError:
                    f.close()
            time.sleep(0.2)

    def __exit__(self, *a):
        fcntl.flock(self.f, fcntl.LOCK_UN)
        self.f.close()


def coqc_run(name, text, timeout=600):
    os.makedirs(RUN, exist_ok=True)
    p = os.path.join(RUN, name + ".v")
    with open(p, "w") as f:
        f.write(text)
    with coqc_slot():
        return _coqc_run(name, p, timeout)


def _coqc_run(name, p, timeout):
    try:
        r = subprocess.run(["coqc", "-Q", COQ, "BobV", "-w", "-all", p], cwd=RUN, stdout=subprocess.PIPE,
                           stderr=subprocess.STDOUT, timeout=timeout, text=True)
        out, rc = r.stdout, r.returncode
    except subprocess.TimeoutExpired:
        out, rc = "TIMEOUT", 124
    for ext in (".v", ".vo", ".vok", ".vos", ".glob"):
        try:
            os.unlink(os.path.join(RUN, name + ext))
        except OSError:
            pass
    try:
        os.unlink(os.path.join(RUN, "." + name + ".aux"))
    except OSError:
        pass
    return rc, out


def check_proofs(ctx, prop_files, extra_targets=()):
    """Build the cone, run the gates, and parse Print Assumptions for every
    Theorem/Example of the property files. Fills ctx.proof."""
    targets = [f[:-2] + ".vo" for f in prop_files] + list(extra_targets)
    t0 = time.time()
    ok, log = build(targets)
    failed = []
    if not ok:
        tail = "\n".join(log.strip().split("\n")[-25:])
        failed.append({"what": "coq build failed", "log": tail})
    g = gates(cone(prop_files))
    if g:
        failed.append({"what": "forbidden declarations", "where": g[:20]})
    thms = []
    axioms = {}
    n_ok = 0
    for rel in prop_files:
        names = theorems_in(rel)
        thms.extend(names)
        if not ok:
            continue
        txt = "Require Import %s.\n" % modname(rel)
        for nm in names:
            txt += 'Print Assumptions %s.\nGoal True. idtac "@@END %s". Abort.\n' % (nm, nm)
        rc, out = coqc_run("assum_%s_%d" % (ctx.prop, os.getpid()), txt)
        if rc != 0:
            failed.append({"what": "Print Assumptions failed", "file": rel, "log": out[-1500:]})
            continue
        chunks = out.split("@@END ")
        pos = 0
        # output is: <assumptions text> @@END name \n <assumptions text> @@END name ...
        prev = chunks[0]
        for ch in chunks[1:]:
            nm, _, rest = ch.partition("\n")
            nm = nm.strip()
            body = prev
            prev = rest
            if "Closed under the global context" in body:
                axioms[nm] = []
                n_ok += 1
            else:
                ax = re.findall(r"^([A-Za-z_][\w.']*)\s*:", body, re.M)
                axioms[nm] = ax
                if ax and all(a in ALLOWED_AXIOMS for a in ax):
                    n_ok += 1
                else:
                    failed.append({"what": "theorem depends on unlisted axioms", "theorem": nm, "axioms": ax,
                                   "raw": body[-400:]})
    ctx.proof = {
        "ok": not failed, "failed": failed, "obligations": len(thms), "discharged": n_ok if ok and not g else 0,
        "theorems": thms, "axioms": {k: v for k, v in axioms.items() if v},
        "checker_cmd": "make -C /verif/coq " + " ".join(targets) + "  &&  coqc Print Assumptions <each theorem>  (gates: grep Admitted|admit|Axiom|Parameter|...)",
        "build_s": round(time.time() - t0, 1),
    }
    ctx.proof["cone"] = cone(prop_files)
    if ok and ctx.tier == "thorough" and os.environ.get("BOBV_NO_COQCHK") != "1":
        # independent re-check of the compiled cone and its axioms
        mods = [modname(f) for f in prop_files]
        try:
            with coqc_slot():
                r = subprocess.run(["coqchk", "-silent", "-o", "-Q", COQ, "BobV"] + mods, stdout=subprocess.PIPE,
                                   stderr=subprocess.STDOUT, timeout=3000, text=True)
            out = r.stdout
            m = re.search(r"\* Axioms:(.*?)\n\s*\n\* Constants", out, re.S)
            ax = m.group(1).strip() if m else "?"
            ctx.proof["coqchk"] = {"rc": r.returncode, "axioms": ax,
                                   "type_in_type": "type-in-type: <none>" in out, "positivity": "positivity is assumed: <none>" in out}
            if r.returncode != 0 or ax != "<none>" or "type-in-type: <none>" not in out \
                    or "unsafe (co)fixpoints: <none>" not in out or "positivity is assumed: <none>" not in out:
                failed.append({"what": "coqchk", "log": out[-1500:]})
                ctx.proof["ok"] = False
            ctx.proof["checker_cmd"] += "  &&  coqchk -silent -o -Q /verif/coq BobV " + " ".join(mods)
        except subprocess.TimeoutExpired:
            ctx.proof["coqchk"] = {"rc": "timeout"}
    ctx.sample({"obligations": thms[:8]})
    return ctx.proof["ok"]


# ------------------------------------------------------------------ cases

def run_cases(ctx, requires, fn, eqb, cases, shard=400, tag="cases", preamble="", timeout=900):
    """Evaluate `fn input` in Coq for every (input_term, expected_term) and
    return the list of indices where `eqb (fn input) expected = false`,
    or None plus a log when coqc failed (model not buildable).
    `cases` : list of (coq_input_literal, coq_expected_literal)."""
    if not cases:
        return [], ""
    shards = [cases[i:i + shard] for i in range(0, len(cases), shard)]

    def one(ix):
        cs = shards[ix]
        txt = "".join("Require Import %s.\n" % r for r in requires)
        txt += "From Coq Require Import List NArith Bool.\nRequire Import BobV.Common.Cases.\nImport ListNotations.\nOpen Scope N_scope.\n" + preamble + "\n"
        # one definition per case keeps the parser fast and the stack shallow
        for j, (a, b) in enumerate(cs):
            txt += "Definition c%d := (%s, %s).\n" % (j, a, b)
        txt += "Definition all_cases := [%s].\n" % "; ".join("c%d" % j for j in range(len(cs)))
        txt += "Definition bad := mismatches (fun i o => %s (%s i) o) all_cases.\n" % (eqb, fn)
        txt += 'Set Printing Width 1000000. Set Printing Depth 1000000.\nEval vm_compute in bad.\n'
        rc, out = coqc_run("%s_%s_%d_%d" % (tag, ctx.prop, os.getpid(), ix), txt, timeout=timeout)
        if rc != 0:
            return ix, None, out
        m = re.search(r"=\s*\[(.*?)\]\s*:\s*list N", out, re.S)
        if not m:
            return ix, None, out
        body = m.group(1).strip()
        idx = [int(x.replace("%N", "").strip()) for x in body.split(";")] if body else []
        return ix, idx, out

    bad = []
    log = ""
    with ThreadPoolExecutor(max_workers=min(16, len(shards))) as ex:
        for ix, idx, out in ex.map(one, range(len(shards))):
            if idx is None:
                return None, out[-3000:]
            bad.extend(ix * shard + i for i in idx)
    return bad, log


def eval_terms(ctx, requires, terms, preamble="", timeout=300):
    """vm_compute each term and return the printed values (strings)."""
    txt = "".join("Require Import %s.\n" % r for r in requires)
    txt += "From Coq Require Import List NArith Bool.\nRequire Import BobV.Common.Cases.\nImport ListNotations.\nOpen Scope N_scope.\n" + preamble + "\n"
    txt += "Set Printing Width 1000000. Set Printing Depth 1000000.\n"
    for i, t in enumerate(terms):
        txt += 'Goal True. idtac "@@BEGIN %d". Abort.\nEval vm_compute in (%s).\n' % (i, t)
    rc, out = coqc_run("eval_%s_%d" % (ctx.prop, os.getpid()), txt, timeout=timeout)
    if rc != 0:
        return None, out
    res = []
    parts = out.split("@@BEGIN ")[1:]
    for p in parts:
        _, _, rest = p.partition("\n")
        m = re.search(r"=\s*(.*)\n\s*:\s", rest, re.S)
        res.append(m.group(1).strip() if m else rest.strip())
    return res, out
