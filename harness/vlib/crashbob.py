"""Run Bob from the current repository with a kill injected at the k-th
persistent-state save (BOBV_KILL_SAVE=k) or right after the k-th
emptyDirectory of the builder (BOBV_KILL_PRUNE=k).  Harness-side wrapper:
nothing in /repo is touched."""
import os, sys

if __name__ == "__main__":
    import bob.state, bob.builder
    ksave = int(os.environ.get("BOBV_KILL_SAVE", "0"))
    kprune = int(os.environ.get("BOBV_KILL_PRUNE", "0"))
    kinval = int(os.environ.get("BOBV_KILL_INVALIDATE", "0"))
    cnt = {"save": 0, "prune": 0, "inval": 0}
    if True:
        orig_reset = bob.state._BobState.resetWorkspaceState

        def reset(self, path, dirState):
            r = orig_reset(self, path, dirState)
            if dirState is None:
                cnt["inval"] += 1
                if kinval and cnt["inval"] == kinval:
                    os._exit(9)
            return r
        bob.state._BobState.resetWorkspaceState = reset
    if True:
        orig_save = bob.state._BobState._BobState__save

        def save(self, *a, **kw):
            r = orig_save(self, *a, **kw)
            cnt["save"] += 1
            if ksave and cnt["save"] == ksave:
                os._exit(9)
            return r
        bob.state._BobState._BobState__save = save
    if True:
        orig_empty = bob.builder.emptyDirectory

        def empty(path):
            orig_empty(path)
            cnt["prune"] += 1
            if kprune and cnt["prune"] == kprune:
                os._exit(9)
        bob.builder.emptyDirectory = empty
    from bob.scripts import bob as main
    rc = main()
    # report how many saves happened so that the harness can enumerate kill points
    cf = os.environ.get("BOBV_COUNT_FILE")
    if cf:
        with open(cf, "w") as f:
            f.write("%d %d\n" % (cnt["save"], cnt["prune"]))
    sys.exit(rc)
