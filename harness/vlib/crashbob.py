"""Run Bob from the current repository with a kill injected at the k-th
persistent-state save (BOBV_KILL_SAVE=k) or right after the k-th
emptyDirectory of the builder (BOBV_KILL_PRUNE=k).  Harness-side wrapper:
nothing in /repo is touched."""
import os, sys

if __name__ == "__main__":
    import bob.state, bob.builder
    ksave = int(os.environ.get("BOBV_KILL_SAVE", "0"))
    kprune = int(os.environ.get("BOBV_KILL_PRUNE", "0"))
    kinval = int(os.environ.get("BOBV_KILL_INVALIDATE", "0"))
    ktear = int(os.environ.get("BOBV_TEAR_SAVE", "0"))
    cnt = {"save": 0, "prune": 0, "inval": 0}
    if True:
        orig_reset = bob.state._BobState.resetWorkspaceState

        def reset(self, path, dirState):
            r = orig_reset(self, path, dirState)
            if dirState is None:
                cnt["inval"] += 1
                if kinval and cnt["inval"] == kinval:
                    os._exit(9)
            return r
        bob.state._BobState.resetWorkspaceState = reset
    if True:
        orig_save = bob.state._BobState._BobState__save

        def save(self, *a, **kw):
            if ktear and cnt["save"] + 1 == ktear and self._BobState__asynchronous == 0:
                # die in the middle of this write: half of the pickled state reaches the file
                import pickle as _p, types

                def torn_dump(obj, f, *pa, **pk):
                    data = _p.dumps(obj, *pa, **pk)
                    f.write(data[:max(1, len(data) // 2)])
                    try:
                        f.flush()
                    except Exception:
                        pass
                    os._exit(9)
                shim = types.SimpleNamespace(**{k: getattr(_p, k) for k in dir(_p) if not k.startswith("__")})
                shim.dump = torn_dump
                bob.state.pickle = shim
            r = orig_save(self, *a, **kw)
            cnt["save"] += 1
            if ksave and cnt["save"] == ksave:
                os._exit(9)
            return r
        bob.state._BobState._BobState__save = save
    if True:
        orig_empty = bob.builder.emptyDirectory

        def empty(path):
            orig_empty(path)
            cnt["prune"] += 1
            if kprune and cnt["prune"] == kprune:
                os._exit(9)
        bob.builder.emptyDirectory = empty
    tf = os.environ.get("BOBV_TRACE_FILE")
    if tf:
        # micro-op trace of the builder (codes = BobV.Builder.Model.mop_code): which persistent-state
        # operations, prunes and script runs happen for which workspace, in which order
        import datetime
        fd = os.open(tf, os.O_WRONLY | os.O_CREAT | os.O_APPEND, 0o644)

        def log(code, path):
            os.write(fd, ("%d\t%s\n" % (code, os.path.normpath(path))).encode())
        S = bob.state._BobState

        def wrap(name, coder):
            orig = getattr(S, name)

            def f(self, path, *a, **kw):
                log(coder(*a, **kw), path)
                return orig(self, path, *a, **kw)
            setattr(S, name, f)
        wrap("resetWorkspaceState", lambda st: 4 if st is None else 3)
        wrap("delInputHashes", lambda: 5)
        wrap("setResultHash", lambda h: 6 if isinstance(h, datetime.datetime) else 8)
        wrap("setVariantId", lambda v: 9)
        wrap("setInputHashes", lambda i: 10)
        wrap("setDirectoryState", lambda st: 11 if (isinstance(st, dict) and bob.builder.CHECKOUT_STATE_VARIANT_ID in st) else 12)
        prev_empty = bob.builder.emptyDirectory

        def empty2(path):
            log(2, path)
            prev_empty(path)
        bob.builder.emptyDirectory = empty2
        LB = bob.builder.LocalBuilder
        orig_cd = LB._constructDir

        def cd(self, step, label):
            r = orig_cd(self, step, label)
            if r[1]:
                log(1, r[0])
            return r
        LB._constructDir = cd
        orig_rs = LB._runShell

        async def rs(self, step, *a, **kw):
            log(7, step.getWorkspacePath())
            return await orig_rs(self, step, *a, **kw)
        LB._runShell = rs
    from bob.scripts import bob as main
    rc = main()
    # report how many saves happened so that the harness can enumerate kill points
    cf = os.environ.get("BOBV_COUNT_FILE")
    if cf:
        with open(cf, "w") as f:
            f.write("%d %d\n" % (cnt["save"], cnt["prune"]))
    sys.exit(rc)
