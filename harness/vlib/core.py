"""Shared run context: seeds, counters, evidence, verdict, known findings."""
import json, os, random, sys, time, hashlib, traceback

VERIF = os.path.dirname(os.path.dirname(os.path.dirname(os.path.abspath(__file__))))
REPO = os.environ.get("BOBV_REPO", "/repo")
SCRATCH_ROOT = os.environ.get("BOBV_SCRATCH", "/var/tmp")

GLOBAL_TRUSTED_BASE = [
    "Coq 8.16.1 kernel (coqc); vm_compute used for case evaluation and witness theorems; native_compute not used",
    "no project-declared axioms; Print Assumptions output of every property theorem is parsed on each run",
    "correspondence harness (generators, canonicalisation, Python->Coq literal printer in harness/vlib/coqlit.py)",
    "constants translator harness/vlib/gen_consts.py (fail-closed ast walker regenerating coq/Gen/Consts.v from /repo)",
    "Python 3.12 interpreter and standard library running the implementation side",
]


class Ctx:
    def __init__(self, prop, tier, seed, replay=None):
        self.prop = prop
        self.tier = tier
        self.seed = seed
        self.replay = replay
        self.rng = random.Random((seed * 1000003) ^ int(hashlib.sha1(prop.encode()).hexdigest()[:8], 16))
        self.t0 = time.time()
        self.cov = {"evaluations": 0, "samples": [], "traces_validated_against_impl": 0}
        self.hist = {}
        self.distinct = set()
        self.violations = []        # dicts: signature, what, replay(obj)
        self.ties_broken = []       # (name, detail)
        self.proof = None           # filled by coq.check_proofs
        self.assumptions = []
        self.trusted_base = list(GLOBAL_TRUSTED_BASE)
        self.notes = []
        self.rule = ""
        self.known = load_known(prop)
        self.known_reproduced = {}  # id -> bool

    # ---- budgets
    def n(self, quick, thorough):
        return thorough if self.tier == "thorough" else quick

    def elapsed(self):
        return time.time() - self.t0

    # ---- counters
    def count(self, key, k=1):
        self.hist[key] = self.hist.get(key, 0) + k

    def evaluated(self, k=1):
        self.cov["evaluations"] += k

    def nontrivial(self, key):
        """register a case as non-trivial; key must identify it (hashable / repr-able)"""
        h = hashlib.sha1(repr(key).encode()).digest()[:10]
        self.distinct.add(h)

    def sample(self, x, limit=6):
        if len(self.cov["samples"]) < limit:
            self.cov["samples"].append(x)

    def validated(self, k=1):
        self.cov["traces_validated_against_impl"] += k

    # ---- outcomes
    def violation(self, signature, what, replay_obj):
        """An input on which the *implementation* fails the property statement."""
        self.violations.append({"signature": signature, "what": what, "replay": replay_obj})

    def tie_broken(self, name, detail):
        """Model and implementation disagree (or a proof obligation failed) and no
        failing input for the property itself was found for it."""
        self.ties_broken.append({"name": name, "detail": detail})

    def note(self, s):
        self.notes.append(s)

    # ---- finishing
    def finish(self):
        prop = self.prop
        wall = time.time() - self.t0
        out_lines = []
        rc = 0
        real_repo = os.path.realpath(REPO) == "/repo"
        rep_root = os.path.join(VERIF, "replays") if real_repo else os.path.join(SCRATCH_ROOT, "bobv-mutant-replays")
        os.makedirs(os.path.join(rep_root, prop), exist_ok=True)

        def write_replay(obj, tag):
            h = hashlib.sha1(json.dumps(obj, sort_keys=True, default=repr).encode()).hexdigest()[:12]
            p = os.path.join(rep_root, prop, "%s_%s.json" % (tag, h))
            with open(p, "w") as f:
                json.dump(obj, f, indent=1, sort_keys=True, default=repr)
            return p

        known_sigs = {k["signature"]: k for k in self.known if k.get("status") == "known"}
        seen_sig = set()
        n_viol = 0
        for v in self.violations:
            sig = v["signature"]
            if sig in known_sigs:
                self.known_reproduced[known_sigs[sig]["id"]] = True
                continue
            if sig in seen_sig:
                continue
            seen_sig.add(sig)
            n_viol += 1
            if n_viol <= 5:
                p = write_replay({"property": prop, "kind": "failing-input", "signature": sig,
                                  "what": v["what"], "case": v["replay"], "seed": self.seed,
                                  "tier": self.tier}, "viol")
                out_lines.append("VIOLATION property=%s replay=%s" % (prop, p))
            rc = 1
        for k in self.known:
            if k.get("status") == "known":
                if self.known_reproduced.get(k["id"]):
                    out_lines.append("KNOWN-FINDING: property=%s %s" % (prop, k["what"]))
                else:
                    # listed but it did not reproduce this run: say so, not an alarm
                    out_lines.append("NOTE: known finding %s of %s did not reproduce in this run" % (k["id"], prop))
        broken = []
        if self.proof is not None and not self.proof.get("ok"):
            broken.append({"name": "proof-obligations", "detail": self.proof.get("failed")})
        broken.extend(self.ties_broken)
        if broken and rc == 0:
            p = write_replay({"property": prop, "kind": "broken-tie", "broken": broken[:20],
                              "seed": self.seed, "tier": self.tier}, "tie")
            out_lines.append("VIOLATION property=%s replay=%s no-failing-input-found" % (prop, p))
            rc = 1
        elif broken:
            self.note("also broken: " + json.dumps(broken[:5], default=repr)[:2000])

        cov = dict(self.cov)
        cov["distinct_nontrivial"] = len(self.distinct)
        cov["rule"] = self.rule
        cov["input_distribution"] = dict(sorted(self.hist.items()))
        cov["trusted_base"] = self.trusted_base
        if self.proof is not None:
            cov["obligations"] = self.proof["obligations"]
            cov["discharged"] = self.proof["discharged"]
            cov["checker_cmd"] = self.proof["checker_cmd"]
            cov["theorems"] = self.proof["theorems"]
            cov["axioms_reported"] = self.proof["axioms"]
            if "coqchk" in self.proof:
                cov["coqchk"] = self.proof["coqchk"]
        if self.notes:
            cov["notes"] = self.notes
        if not cov["samples"]:
            cov["samples"] = ["(no sample recorded)"]
        ev = {"property_id": prop, "tier": self.tier, "seed": self.seed, "level": "proof",
              "coverage": cov, "assumptions": self.assumptions, "wall_s": round(wall, 2),
              "violations": n_viol + (1 if (broken and not n_viol) else 0)}
        # runs against a scratch copy of the repository (mutation self-tests) are not evidence for /repo
        evdir = os.path.join(VERIF, "evidence") if os.path.realpath(REPO) == "/repo" else os.path.join(SCRATCH_ROOT, "bobv-mutant-evidence")
        os.makedirs(evdir, exist_ok=True)
        with open(os.path.join(evdir, prop + ".json"), "w") as f:
            json.dump(ev, f, indent=1, sort_keys=True, default=repr)
        for l in out_lines:
            print(l)
        print("%s %s: %s  (%d evaluations, %d distinct non-trivial, proofs %s/%s, %.1fs)" % (
            prop, self.tier, "OK" if rc == 0 else "FAIL", cov["evaluations"], cov["distinct_nontrivial"],
            cov.get("discharged", "-"), cov.get("obligations", "-"), wall))
        sys.stdout.flush()
        return rc


def load_known(prop):
    p = os.path.join(VERIF, "known_findings.json")
    if not os.path.exists(p):
        return []
    with open(p) as f:
        data = json.load(f)
    return [e for e in data.get("findings", []) if e.get("property") == prop]


def scratch_dir(tag):
    import tempfile
    return tempfile.mkdtemp(prefix="bobv-%s-" % tag, dir=SCRATCH_ROOT)
