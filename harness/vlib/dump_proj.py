"""Sub-process: parse the project in argv[1] with the real RecipeSet and print the
package tree (every step with the inputs the recipes declare for it) as JSON.
Run with PYTHONPATH=<repo>/pym."""
import argparse, json, os, sys, asyncio, hashlib


def hx(b):
    return b.hex() if isinstance(b, (bytes, bytearray)) else b


def step_info(step, with_bid):
    core = step._coreStep
    d = {
        "label": step.getLabel(),
        "valid": step.isValid(),
        "vid": hx(step.getVariantId()),
        "deterministic": step.isDeterministic(),
        "fingerprinted": step._isFingerprinted(),
    }
    if not step.isValid():
        return d
    d["digestScript"] = step.getDigestScript()
    d["mainScript"] = step.getMainScript()
    d["setupScript"] = step.getSetupScript()
    d["env"] = dict(step.getEnv())
    d["digestEnv"] = dict(core.digestEnv)
    tools = {}
    for name, t in sorted(step.getTools().items()):
        tools[name] = {"vid": hx(t.getStep().getVariantId()), "path": t.getPath(), "libs": list(t.getLibs()),
                       "pkg": "/".join(t.getStep().getPackage().getStack())}
    d["tools"] = tools
    d["toolDepWeak"] = sorted(core.toolDepWeak)
    d["args"] = [{"vid": hx(a.getVariantId()), "valid": a.isValid(), "pkg": "/".join(a.getPackage().getStack()),
                  "label": a.getLabel()} for a in step.getArguments()]
    sb = step.getSandbox()
    if sb is not None:
        d["sandbox"] = {"vid": hx(sb.getStep().getVariantId()), "paths": list(sb.getPaths()),
                        "pkg": "/".join(sb.getStep().getPackage().getStack())}
    else:
        d["sandbox"] = None
    d["resultId"] = hx(core.getResultId()) if hasattr(core, "getResultId") else None
    if step.isCheckoutStep():
        d["scm"] = [s.getProperties(False) for s in step.getScmList()]
        d["scmDigest"] = [s.asDigestScript() for s in step.getScmList()]
    return d


def main():
    ap = argparse.ArgumentParser()
    ap.add_argument("path")
    ap.add_argument("-D", action="append", default=[], dest="defines")
    ap.add_argument("-c", action="append", default=[], dest="configs")
    ap.add_argument("--sandbox", action="store_true")
    ap.add_argument("--no-cache", action="store_true", help="remove every on-disk cache first and enable DEBUG pkgck")
    ap.add_argument("--query", default=None)
    ap.add_argument("--bid", action="store_true")
    args = ap.parse_args()
    os.chdir(args.path)
    if args.no_cache:
        import glob
        for p in glob.glob(".bob-*"):
            try:
                os.unlink(p)
            except OSError:
                pass
    from bob.input import RecipeSet
    from bob.cmds.helpers import processDefines
    from bob.errors import BobError
    try:
        recipes = RecipeSet()
        recipes.setConfigFiles(args.configs)
        recipes.parse(processDefines(args.defines))
        packages = recipes.generatePackages(lambda s, m: "unused", args.sandbox)
        root = packages.getRootPackage()
    except BobError as e:
        print(json.dumps({"error": "BobError", "slogan": str(e)}))
        return 0
    out = {}
    seen = {}

    def walk(pkg, path):
        key = "/".join(path)
        info = {"name": pkg.getName(), "recipe": pkg.getRecipe().getName(), "steps": {}}
        for kind, st in (("checkout", pkg.getCheckoutStep()), ("build", pkg.getBuildStep()), ("package", pkg.getPackageStep())):
            info["steps"][kind] = step_info(st, args.bid)
        info["direct"] = [d.getPackage().getName() for d in pkg.getDirectDepSteps()]
        info["indirect"] = [d.getPackage().getName() for d in pkg.getIndirectDepSteps()]
        info["metaEnv"] = dict(pkg.getMetaEnv())
        out[key] = info
        for d in pkg.getAllDepSteps():
            p = d.getPackage()
            walk(p, path + [p.getName()])

    try:
        for d in root.getDirectDepSteps():
            p = d.getPackage()
            walk(p, [p.getName()])
    except BobError as e:
        print(json.dumps({"error": "BobError", "slogan": str(e)}))
        return 0
    res = {"packages": out}
    if args.bid:
        # Build-Ids with synthetic source hashes and fingerprints: exercises the
        # real StepIR.getDigestCoro of every build/package step.
        from bob.cmds.build.build import ExecutableStep, LazyIR
        from bob.utils import getPlatformTag
        memo = {}

        def src_hash(vid):
            return hashlib.sha1(b"src:" + vid).digest()

        def fp_of(st):
            if not st._isFingerprinted():
                return b""
            return hashlib.sha1(b"fp:" + st._getFingerprintScript().encode("utf8")).digest()

        async def calc(steps):
            ret = []
            for st in steps:
                if st.isCheckoutStep():
                    ret.append(src_hash(st.getVariantId()))
                    continue
                key = (st.getVariantId(), st.getSandbox() is not None and st.getSandbox().getStep().getVariantId())
                if key not in memo:
                    memo[key] = await st.getDigestCoro(calc, fingerprint=fp_of(st), platform=getPlatformTag(),
                                                       relaxTools=True)
                ret.append(memo[key])
            return ret

        def walk2(pkg, path):
            key = "/".join(path)
            for kind, st in (("build", pkg.getBuildStep()), ("package", pkg.getPackageStep())):
                if st.isValid():
                    ir = ExecutableStep.fromStep(st, LazyIR)
                    [bid] = asyncio.run(calc([ir]))
                    inf = out[key]["steps"][kind]
                    inf["bid"] = hx(bid)
                    inf["bid_fingerprint"] = hx(fp_of(ir))
                    inf["bid_args"] = [hx(b) for b in asyncio.run(calc([a for a in ir.getArguments() if a.isValid()]))]
                    inf["bid_tools"] = {n: hx(asyncio.run(calc([t.getStep()]))[0]) for n, t in ir.getTools().items()}
                    inf["platform"] = hx(getPlatformTag())
            co = pkg.getCheckoutStep()
            if co.isValid():
                out[key]["steps"]["checkout"]["bid"] = hx(src_hash(co.getVariantId()))
            for d in pkg.getAllDepSteps():
                p = d.getPackage()
                walk2(p, path + [p.getName()])

        for d in root.getDirectDepSteps():
            p = d.getPackage()
            walk2(p, [p.getName()])
    if args.query is not None:
        try:
            res["query"] = sorted("/".join(stack) for stack, _ in packages.queryTreePath(args.query, True))
        except BobError as e:
            res["query"] = "error"
    print(json.dumps(res))
    return 0


if __name__ == "__main__":
    sys.exit(main())
