"""Translator: regenerates coq/Gen/Consts.v from the *current* /repo sources.

Fail-closed: every extractor checks the shape of the syntax tree it reads and
raises TieError when the source no longer looks as expected.  Only constant
tables are translated (control flow is hand-modelled and tied by the
correspondence checks)."""
import ast, os, sys
from .core import REPO, VERIF


class TieError(Exception):
    pass


def parse(rel):
    p = os.path.join(REPO, rel)
    try:
        return ast.parse(open(p).read(), p)
    except Exception as e:
        raise TieError("cannot parse %s: %s" % (rel, e))


def module_consts(tree, names):
    """evaluate simple module-level constants (str/list literals, + of earlier names)"""
    env = {}
    for node in tree.body:
        if isinstance(node, ast.Assign) and len(node.targets) == 1 and isinstance(node.targets[0], ast.Name):
            nm = node.targets[0].id
            try:
                env[nm] = _ev(node.value, env)
            except Exception:
                pass
    missing = [n for n in names if n not in env]
    if missing:
        raise TieError("module constants not found / not literal: %s" % missing)
    return env


def _ev(n, env):
    if isinstance(n, ast.Constant):
        return n.value
    if isinstance(n, ast.Name):
        return env[n.id]
    if isinstance(n, ast.BinOp) and isinstance(n.op, ast.Add):
        return _ev(n.left, env) + _ev(n.right, env)
    if isinstance(n, (ast.List, ast.Tuple)):
        return [_ev(e, env) for e in n.elts]
    if isinstance(n, ast.Set):
        return sorted(_ev(e, env) for e in n.elts)
    if isinstance(n, ast.Call) and isinstance(n.func, ast.Name) and n.func.id in ("frozenset", "set") and len(n.args) == 1:
        return sorted(_ev(n.args[0], env))
    if isinstance(n, ast.Dict):
        return {_ev(k, env): _ev(v, env) for k, v in zip(n.keys, n.values)}
    raise ValueError(ast.dump(n))


def find_def(tree, path):
    """path like 'StringParser.nextToken' or 'isFalse'"""
    body = tree.body
    node = None
    for part in path.split("."):
        node = None
        for b in body:
            if isinstance(b, (ast.FunctionDef, ast.AsyncFunctionDef, ast.ClassDef)) and b.name == part:
                node = b
                break
        if node is None:
            raise TieError("definition %s not found" % path)
        body = node.body
    return node


def literal_lists_in(fn):
    out = []
    for n in ast.walk(fn):
        if isinstance(n, ast.List) and n.elts and all(isinstance(e, ast.Constant) for e in n.elts):
            out.append([e.value for e in n.elts])
    return out


def coq_str(s):
    return "[" + ";".join(str(ord(c)) for c in s) + "]"


def coq_strs(xs):
    return "[" + "; ".join(coq_str(x) for x in xs) + "]"


# ---------------------------------------------------------------- extractors

def ex_stringparser(out):
    t = parse("pym/bob/stringparser.py")
    env = module_consts(t, ["NAME_START", "NAME_CHARS"])
    out.append("Definition NAME_START : list N := %s." % coq_str(env["NAME_START"]))
    out.append("Definition NAME_CHARS : list N := %s." % coq_str(env["NAME_CHARS"]))
    f = find_def(t, "isFalse")
    ls = literal_lists_in(f)
    if len(ls) != 1:
        raise TieError("isFalse: expected exactly one literal list, got %r" % ls)
    src = ast.unparse(f)
    if "val.strip().lower() in" not in src:
        raise TieError("isFalse no longer has the shape val.strip().lower() in [...]")
    ls_false = ls[0]
    out.append("Definition FALSE_WORDS : list (list N) := %s." % coq_strs(ls[0]))
    # delimiters
    f = find_def(t, "StringParser.nextToken")
    ls = literal_lists_in(f)
    if len(ls) != 1:
        raise TieError("nextToken: expected one literal delimiter list")
    out.append("Definition TOKEN_DELIMS : list N := %s." % coq_str("".join(ls[0])))
    f = find_def(t, "StringParser.parse")
    strs = [n.value for n in ast.walk(f) if isinstance(n, ast.Constant) and isinstance(n.value, str) and len(n.value) > 1 and not n.value.startswith("Parse")]
    if len(strs) != 1:
        raise TieError("parse(): expected one literal string of special characters, got %r" % strs)
    out.append("Definition SPECIAL_CHARS : list N := %s." % coq_str(strs[0]))
    f = find_def(t, "StringParser.getVariable")
    ls = [l for l in literal_lists_in(f)]
    if ls != [[':', '-', '+', '}'], ['}'], ['}']]:
        raise TieError("getVariable delimiter lists changed: %r" % ls)
    out.append("Definition VARNAME_DELIMS : list N := %s." % coq_str("".join(ls[0])))
    out.append("Definition VARBODY_DELIMS : list N := %s." % coq_str("".join(ls[1])))
    f = find_def(t, "StringParser.getCommand")
    ls = literal_lists_in(f)
    if ls != [[",", ")"]]:
        raise TieError("getCommand delimiter list changed: %r" % ls)
    out.append("Definition CMD_DELIMS : list N := %s." % coq_str("".join(ls[0])))
    # function table keys
    funs = None
    for node in t.body:
        if isinstance(node, ast.Assign) and isinstance(node.targets[0], ast.Name) and node.targets[0].id == "DEFAULT_STRING_FUNS":
            if not isinstance(node.value, ast.Dict):
                raise TieError("DEFAULT_STRING_FUNS is not a dict literal")
            funs = {k.value: v.id for k, v in zip(node.value.keys, node.value.values)}
    if funs is None:
        raise TieError("DEFAULT_STRING_FUNS not found")
    for node in t.body:
        if isinstance(node, ast.Assign) and isinstance(node.targets[0], ast.Name) and node.targets[0].id == "EXTRA_STRING_FUNS":
            funs.update({k.value: v.id for k, v in zip(node.value.keys, node.value.values)})
    out.append("Definition STRING_FUN_NAMES : list (list N) := %s." % coq_strs(sorted(funs)))
    ops = None
    for node in t.body:
        if isinstance(node, ast.Assign) and isinstance(node.targets[0], ast.Name) and node.targets[0].id == "OPS":
            ops = [k.value for k in node.value.keys]
    if ops is None:
        raise TieError("OPS table not found")
    out.append("Definition IF_OPS : list (list N) := %s." % coq_strs(ops))
    # interpreter facts: str.strip() whitespace among the first 0x3100 code points
    ws = [c for c in range(0x110000) if chr(c).strip() == ""]
    out.append("Definition PY_WHITESPACE : list N := [%s]." % ";".join(map(str, ws)))
    # str.lower(): every code point whose lower-casing changes it and yields a
    # character of the FALSE_WORDS alphabet
    alpha = set("".join(ls_false))
    tab = []
    for c in range(0x110000):
        lo = chr(c).lower()
        if lo != chr(c) and (set(lo) & alpha):
            tab.append("(%d, %s)" % (c, coq_str(lo)))
    out.append("Definition LOWER_TABLE : list (N * list N) := [%s]." % "; ".join(tab))


EXTRACTORS = [ex_stringparser]

HEADER = ["(* GENERATED by harness/vlib/gen_consts.py from the current /repo sources; do not edit *)",
          "From Coq Require Import List NArith ZArith.", "Import ListNotations.", "Open Scope N_scope.", ""]


def generate():
    out = list(HEADER)
    for ex in EXTRACTORS:
        out.append("(* %s *)" % ex.__name__)
        ex(out)
        out.append("")
    return "\n".join(out) + "\n"


def discovered():
    """per-property translator modules harness/props/consts_*.py, each with
    NAME (Coq file name under coq/Gen, without .v) and extract(out)."""
    import glob, importlib
    mods = []
    here = os.path.join(VERIF, "harness", "props")
    for p in sorted(glob.glob(os.path.join(here, "consts_*.py"))):
        mods.append(importlib.import_module("props." + os.path.basename(p)[:-3]))
    return mods


def _write_if_changed(name, txt):
    path = os.path.join(VERIF, "coq", "Gen", name + ".v")
    old = open(path).read() if os.path.exists(path) else None
    if old != txt:
        os.makedirs(os.path.dirname(path), exist_ok=True)
        with open(path, "w") as f:
            f.write(txt)
        return True
    return False


def regenerate():
    """returns (changed, errors) with errors : {generated-file-name: message};
    a failing translator only concerns the checks whose cone uses its file"""
    changed = False
    errors = {}
    try:
        changed |= _write_if_changed("Consts", generate())
    except TieError as e:
        errors["Consts"] = str(e)
    except Exception as e:
        errors["Consts"] = "translator crashed: %r" % (e,)
    try:
        mods = discovered()
    except Exception as e:
        return changed, {"*": "cannot import translators: %r" % (e,)}
    for m in mods:
        try:
            out = list(HEADER)
            m.extract(out)
            changed |= _write_if_changed(m.NAME, "\n".join(out) + "\n")
        except TieError as e:
            errors[m.NAME] = str(e)
        except Exception as e:
            errors[m.NAME] = "translator crashed: %r" % (e,)
    return changed, errors


if __name__ == "__main__":
    sys.stdout.write(generate())
