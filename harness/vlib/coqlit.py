"""Python value -> Coq literal text (N scope is open in generated files)."""

def N(n):
    assert isinstance(n, int) and n >= 0, n
    return str(n)

def Z(n):
    return "(%d)%%Z" % n

def nat(n):
    assert 0 <= n < 5000
    return "%d%%nat" % n

def B(b):
    return "true" if b else "false"

def lst(xs):
    return "[" + "; ".join(xs) + "]"

def s(text):
    """Python str -> list N of code points"""
    if not text:
        return "(@nil N)"
    return "[" + ";".join(str(ord(c)) for c in text) + "]"

def by(b):
    """bytes -> list N"""
    if not b:
        return "(@nil N)"
    return "[" + ";".join(str(x) for x in b) + "]"

def opt(x, f=lambda v: v):
    return "None" if x is None else "(Some %s)" % f(x)

def pair(a, b):
    return "(%s, %s)" % (a, b)

def tup(*xs):
    return "(" + ", ".join(xs) + ")"

def app(f, *args):
    return "(" + f + " " + " ".join(args) + ")"
