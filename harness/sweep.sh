#!/bin/bash
# usage: sweep.sh <seed> <tier> <parallel> [ids...]   -- runs the registered checks with VERIF_SEED=<seed>, logs under /var/tmp/bobv-sweep-<seed>/
seed="$1"; tier="$2"; par="$3"; shift 3
ids="$*"; [ -z "$ids" ] && ids="C01 C02 C03 C04 C05 C06 C07 C08 C09 C10 C11 C12 C13 C14 C15 C16 C17 C18 C19 C20"
out=/var/tmp/bobv-sweep-$seed; mkdir -p $out
cd /verif
printf '%s\n' $ids | xargs -P "$par" -I{} sh -c "VERIF_SEED=$seed timeout 7200 ./check {} $tier > $out/{}.log 2>&1; echo {} rc=\$? >> $out/summary.txt"
echo done >> $out/summary.txt
