"""Run the pinned test suite (guard off) and compare with BASELINE.json stable_pass."""
import json, subprocess, sys, os, xml.etree.ElementTree as ET, tempfile
base = json.load(open("/root/.vp/BASELINE.json"))
out = tempfile.mktemp(suffix=".xml", dir="/var/tmp")
env = dict(os.environ); env.pop("BOB_VERIF", None)
REPO = os.environ.get("BOBV_REPO", "/repo")
if REPO != "/repo":
    # a scratch copy: the editable install in /venv points at /repo/pym, so put the copy first
    env["PYTHONPATH"] = os.path.join(REPO, "pym")
extra = sys.argv[1:]
subprocess.run(["/venv/bin/python", "-m", "pytest", "-ra", "-q", "-p", "no:cacheprovider", "--timeout=900",
                "--continue-on-collection-errors", "--junitxml=" + out] + extra, cwd=REPO, env=env,
               stdout=subprocess.DEVNULL, stderr=subprocess.DEVNULL)
passed = set()
for tc in ET.parse(out).getroot().iter("testcase"):
    if not any(ch.tag in ("failure", "error", "skipped") for ch in tc):
        passed.add(tc.get("classname") + "::" + tc.get("name"))
os.unlink(out)
missing = [t for t in base["stable_pass"] if t not in passed]
print("stable_pass=%d passed_now=%d missing=%d" % (len(base["stable_pass"]), len(passed), len(missing)))
for m in missing[:30]:
    print("  NOT PASSING:", m)
sys.exit(1 if missing else 0)
