#!/bin/bash
# usage: coqshow.sh <file.v relative to coq/> <line>   -- shows the goal just before <line>
f="$1"; n="$2"
cd /verif/coq
tmp="_run/show_$$.v"; mkdir -p _run
head -n $((n-1)) "$f" > "$tmp"
printf '\nShow.\nAbort All.\n' >> "$tmp"
timeout 300 coqc -Q . BobV -w -all "$tmp" 2>&1 | tail -${3:-40}
rm -f _run/show_$$.* _run/.show_$$.*
