"""C12 — Checkouts converge to the recipe and never destroy user work.

Correspondence: generated local git/url/import universes (real git, real
`bob dev -k`, `bob dev --clean-checkout`, `bob clean -s`, `bob clean --attic`)
driven through histories of recipe edits, upstream changes and user actions;
after every step the complete observable state (every SCM directory in the
workspaces and attics: refs, HEAD, remotes, tags, origin url, files) and Bob's
decisions (SWITCH / ATTIC lines, result) are compared with the Coq model
(coq/C12/Model.v, vm_compute).  Oracles on the implementation, independent of
the model: (1) sweep - every user-created commit / file content present before
a Bob command is still present somewhere under the project afterwards;
(2) convergence - a workspace never touched by the user equals the fresh
checkout computed from the universe bookkeeping after a successful build, and
a build must not fail when a fresh checkout would succeed."""
import copy, glob, json, os, re, shutil, subprocess, time, traceback
from concurrent.futures import ThreadPoolExecutor
from vlib import coq, coqlit as L, core, proj

PROPERTY_FILES = ["C12/Properties.v"]

SIG_URL = "url-digest-change-same-url-never-converges"
SIG_AHEAD = "inline-switch-leaves-branch-ahead-of-new-upstream"
SIG_REWRITE = "untouched-not-converged-after-upstream-history-rewrite"
SIG_TAG = "tag-on-branch-switch-trusts-stale-local-tag"

# ---------------------------------------------------------------- names <-> ids
COMP = {"a": 1, "ab": 2, "b": 3, "m": 4, "n": 5}
COMP_R = {v: k for k, v in COMP.items()}
BRANCH = {"master": 0, "dev": 1, "rel": 2, "wip": 3, "wip2": 4}
BRANCH_R = {v: k for k, v in BRANCH.items()}
FGITIGNORE = 99


def fname(i):
    if i == FGITIGNORE:
        return ".gitignore"
    if 100 <= i < 200:
        return "u%d.txt" % (i - 100)
    if 200 <= i < 300:
        return "i%d" % (i - 200)
    if 10 <= i < 20:
        return "x%d" % (i - 10)
    return "f%d" % i


def fid(name):
    if name == ".gitignore":
        return FGITIGNORE
    m = re.fullmatch(r"u(\d+)\.txt", name)
    if m:
        return 100 + int(m.group(1))
    m = re.fullmatch(r"([fxi])(\d+)", name)
    if m:
        return {"f": 0, "x": 10, "i": 200}[m.group(1)] + int(m.group(2))
    return None


def blob_text(b):
    return "n/\n" if b == 0 else "blob %d\n" % b


def blob_id(text):
    if text == "n/\n":
        return 0
    m = re.fullmatch(r"blob (\d+)\n", text)
    return int(m.group(1)) if m else None


def dir_str(p):
    return "/".join(COMP_R[c] for c in p) if p else "."


def dir_path(s):
    s = os.path.normpath(s)
    return [] if s == "." else [COMP[c] for c in s.split("/")]


def is_prefix(p, q):
    return len(p) <= len(q) and q[:len(p)] == p


class Skip(Exception):
    """the generated history is not executable (generator artefact, not a finding)"""


# ---------------------------------------------------------------- universe
class Universe:
    """Real git/url/import universe plus Bob project in one scratch directory,
    with the bookkeeping that maps real objects to model ids."""

    def __init__(self, tag="c12"):
        self.root = core.scratch_dir(tag)
        self.home = os.path.join(self.root, "home")
        os.makedirs(self.home)
        with open(os.path.join(self.home, ".gitconfig"), "w") as f:
            f.write('[user]\n  name = U\n  email = u@example.invalid\n[protocol "file"]\n  allow = always\n'
                    '[init]\n  defaultBranch = master\n[advice]\n  detachedHead = false\n[gc]\n  auto = 0\n'
                    '[core]\n  fsync = none\n')
        self.env = dict(os.environ, HOME=self.home, GIT_CONFIG_GLOBAL=os.path.join(self.home, ".gitconfig"),
                        GIT_CONFIG_NOSYSTEM="1", GIT_AUTHOR_DATE="2020-01-01T00:00:00Z",
                        GIT_COMMITTER_DATE="2020-01-01T00:00:00Z", LANG="C.UTF-8", GIT_TERMINAL_PROMPT="0")
        self.pool = os.path.join(self.root, "pool")
        self.git(self.root, "init", "-q", "--bare", self.pool)
        self.project = os.path.join(self.root, "proj")
        os.makedirs(os.path.join(self.project, "recipes"))
        self.files = os.path.join(self.root, "files")
        os.makedirs(self.files)
        self.clock = 1500000000
        # bookkeeping
        self.commits = []          # index = cid-1: dict(sha, parent, tree{fid:blob}, user)
        self.sha2cid = {}
        self.repos = {}            # repo id -> {"branches": {bid: cid}, "tags": {tid: cid}}
        self.urls = {}             # url id -> blob
        self.imps = {}             # src id -> {fid: blob}
        self.specs = {0: [], 1: []}
        self.used = [0, 1]
        self.rewritten = set()     # repo ids whose history was rewritten
        self.touched = set()       # packages the user acted in
        self.user_blobs = set()
        self.written = False

    def close(self):
        shutil.rmtree(self.root, ignore_errors=True)

    # -- helpers
    def git(self, cwd, *args, check=True, input=None):
        r = subprocess.run(["git"] + list(args), cwd=cwd, env=self.env, stdout=subprocess.PIPE,
                           stderr=subprocess.PIPE, text=True, input=input)
        if check and r.returncode != 0:
            raise RuntimeError("git %s failed in %s: %s" % (" ".join(args), cwd, r.stderr[-500:]))
        return r.stdout.strip() if check else r

    def tick(self, path):
        self.clock += 10
        os.utime(path, (self.clock, self.clock))

    def repo_path(self, r):
        return os.path.join(self.root, "up%d" % r)

    def cid(self, sha):
        return self.sha2cid.get(sha)

    def sha(self, cid):
        return self.commits[cid - 1]["sha"]

    def is_anc(self, a, c):
        while c is not None:
            if a == c:
                return True
            c = self.commits[c - 1]["parent"]
        return False

    # -- upstream operations
    def write_obj(self, kind, data):
        import hashlib, zlib
        raw = kind.encode() + b" " + str(len(data)).encode() + b"\0" + data
        h = hashlib.sha1(raw).hexdigest()
        d = os.path.join(self.pool, "objects", h[:2])
        f = os.path.join(d, h[2:])
        if not os.path.exists(f):
            os.makedirs(d, exist_ok=True)
            with open(f, "wb") as fh:
                fh.write(zlib.compress(raw))
        return h

    def new_commit(self, parent, tree, user=False, sha=None):
        """register (and, for upstream commits, create in the pool) a commit"""
        if sha is None:
            ents = []
            for f, b in tree.items():
                h = self.write_obj("blob", blob_text(b).encode())
                ents.append((fname(f).encode(), h))
            body = b"".join(b"100644 " + n + b"\0" + bytes.fromhex(h) for n, h in sorted(ents))
            t = self.write_obj("tree", body)
            txt = "tree %s\n" % t
            if parent is not None:
                txt += "parent %s\n" % self.sha(parent)
            txt += "author U <u@example.invalid> 1577836800 +0000\ncommitter U <u@example.invalid> 1577836800 +0000\n\nc%d\n" % (len(self.commits) + 1)
            sha = self.write_obj("commit", txt.encode())
        self.commits.append({"sha": sha, "parent": parent, "tree": dict(tree), "user": user})
        self.sha2cid[sha] = len(self.commits)
        return len(self.commits)

    def set_ref(self, repo, ref, cid):
        p = os.path.join(self.repo_path(repo), ref)
        if cid is None:
            if os.path.exists(p):
                os.unlink(p)
            return
        os.makedirs(os.path.dirname(p), exist_ok=True)
        with open(p, "w") as f:
            f.write(self.sha(cid) + "\n")

    def ensure_repo(self, r):
        if r not in self.repos:
            p = self.repo_path(r)
            self.git(self.root, "init", "-q", "--bare", p)
            with open(os.path.join(p, "objects", "info", "alternates"), "w") as f:
                f.write(os.path.join(self.pool, "objects") + "\n")
            self.repos[r] = {"branches": {}, "tags": {}}

    def apply(self, op):
        """execute one abstract operation; returns (rc, stdout) for bob commands"""
        k = op["op"]
        if k == "up_commit":
            self.ensure_repo(op["repo"])
            br = self.repos[op["repo"]]["branches"]
            parent = br.get(op["branch"])
            if "parent" in op:
                parent = op["parent"]
            tree = dict(self.commits[parent - 1]["tree"]) if parent else {}
            if op.get("delete"):
                tree.pop(op["file"], None)
            else:
                tree[op["file"]] = op["blob"]
            c = self.new_commit(parent, tree)
            old = br.get(op["branch"])
            if old is not None and not self.is_anc(old, c):
                self.rewritten.add(op["repo"])
            br[op["branch"]] = c
            self.set_ref(op["repo"], "refs/heads/" + BRANCH_R[op["branch"]], c)
        elif k == "up_branch":     # create / move (possibly non fast-forward) / delete
            self.ensure_repo(op["repo"])
            br = self.repos[op["repo"]]["branches"]
            if op.get("at") is None:
                br.pop(op["branch"], None)
                self.set_ref(op["repo"], "refs/heads/" + BRANCH_R[op["branch"]], None)
            else:
                old = br.get(op["branch"])
                if old is not None and not self.is_anc(old, op["at"]):
                    self.rewritten.add(op["repo"])
                br[op["branch"]] = op["at"]
                self.set_ref(op["repo"], "refs/heads/" + BRANCH_R[op["branch"]], op["at"])
        elif k == "up_tag":
            self.ensure_repo(op["repo"])
            self.repos[op["repo"]]["tags"][op["tag"]] = op["at"]
            self.set_ref(op["repo"], "refs/tags/t%d" % op["tag"], op["at"])
        elif k == "up_url":
            p = os.path.join(self.files, "u%d.txt" % op["url"])
            with open(p, "w") as f:
                f.write(blob_text(op["blob"]))
            self.tick(p)
            self.urls[op["url"]] = op["blob"]
        elif k == "up_imp":
            d = os.path.join(self.project, "isrc%d" % op["src"])
            os.makedirs(d, exist_ok=True)
            p = os.path.join(d, fname(op["file"]))
            fs = self.imps.setdefault(op["src"], {})
            if op.get("delete"):
                if os.path.exists(p):
                    os.unlink(p)
                fs.pop(op["file"], None)
            else:
                with open(p, "w") as f:
                    f.write(blob_text(op["blob"]))
                self.tick(p)
                fs[op["file"]] = op["blob"]
        elif k == "spec":
            self.specs[op["pkg"]] = copy.deepcopy(op["spec"])
            self.written = False
        elif k == "use":
            self.used = list(op["pkgs"])
            self.written = False
        elif k == "user":
            return self.user(op)
        elif k == "bob":
            return self.bob(op["cmd"])
        else:
            raise ValueError(k)
        return None

    # -- project files
    def scm_yaml(self, s):
        if s["scm"] == "git":
            d = {"scm": "git", "url": self.repo_path(s["url"]), "dir": dir_str(s["dir"])}
            r = s["rev"]
            if "branch" in r:
                d["branch"] = BRANCH_R[r["branch"]]
            if "tag" in r:
                d["tag"] = "t%d" % r["tag"]
            if "commit" in r:
                d["commit"] = self.sha(r["commit"])
            return d
        if s["scm"] == "url":
            d = {"scm": "url", "url": os.path.join(self.files, "u%d.txt" % s["url"]), "dir": dir_str(s["dir"]),
                 "extract": False}
            if s.get("dig") is not None:
                import hashlib
                d["digestSHA1"] = hashlib.sha1(blob_text(s["dig"]).encode()).hexdigest()
            return d
        return {"scm": "import", "url": "isrc%d" % s["src"], "dir": dir_str(s["dir"]), "prune": bool(s["prune"])}

    def write_project(self):
        recipes = {"root": {"root": True, "buildScript": "true", "packageScript": "true",
                            "depends": ["lib%d" % k for k in self.used]}}
        if not recipes["root"]["depends"]:
            del recipes["root"]["depends"]
        for k in (0, 1):
            r = {"buildScript": "true", "packageScript": "true"}
            if self.specs[k]:
                r["checkoutSCM"] = [self.scm_yaml(s) for s in self.specs[k]]
            recipes["lib%d" % k] = r
        proj.write_project({"recipes": recipes, "classes": {}, "config": {"bobMinimumVersion": "0.25"},
                            "default": {}}, self.project)
        # write_project clears src/ only; import sources live in isrc*/ and stay
        self.written = True

    def bob(self, cmd):
        if not self.written:
            self.write_project()
        args = {"dev": ["dev", "-k", "root"], "dev-cc": ["dev", "-k", "--clean-checkout", "root"],
                "clean-src": ["clean", "-s", "-v"], "clean-attic": ["clean", "--attic", "-v"],
                "clean-src-force": ["clean", "-s", "-f", "-v"]}[cmd]
        rc, out = proj.run_bob(self.project, args, env={"HOME": self.home, "GIT_CONFIG_NOSYSTEM": "1",
                                                         "GIT_CONFIG_GLOBAL": os.path.join(self.home, ".gitconfig"),
                                                         "GIT_TERMINAL_PROMPT": "0"})
        return rc, out

    # -- user actions
    def ws(self, k):
        return os.path.join(self.project, "dev", "src", "lib%d" % k, "1", "workspace")

    def user(self, op):
        d = os.path.join(self.ws(op["pkg"]), dir_str(op["dir"]))
        if not os.path.isdir(os.path.join(d, ".git")):
            raise Skip("no git dir for user action")
        a = op["act"]
        if a == "write":
            with open(os.path.join(d, fname(op["file"])), "w") as f:
                f.write(blob_text(op["blob"]))
            self.user_blobs.add(op["blob"])
        elif a == "commit":
            files = [f for f in sorted(os.listdir(d)) if os.path.isfile(os.path.join(d, f))]
            head = self.git(d, "rev-parse", "-q", "--verify", "HEAD", check=False)
            if head.returncode != 0:
                raise Skip("commit on unborn HEAD")
            if files:
                self.git(d, "add", "-f", "--", *files)
            self.git(d, "commit", "-q", "--allow-empty", "-m", "user %d" % (len(self.commits) + 1))
            sha = self.git(d, "rev-parse", "HEAD")
            tree = self.read_tree(d)
            self.new_commit(self.cid(head.stdout.strip()), tree, user=True, sha=sha)
        elif a == "newbranch":
            r = self.git(d, "checkout", "-q", "-b", BRANCH_R[op["branch"]], check=False)
            if r.returncode != 0:
                raise Skip("newbranch failed")
        elif a == "checkout":
            r = self.git(d, "checkout", "-q", BRANCH_R[op["branch"]], check=False)
            if r.returncode != 0:
                raise Skip("checkout failed")
        elif a == "detach":
            args = ["checkout", "-q", "--detach"] + ([self.sha(op["at"])] if op.get("at") else [])
            r = self.git(d, *args, check=False)
            if r.returncode != 0:
                raise Skip("detach failed")
        self.touched.add(op["pkg"])
        return None

    def read_tree(self, d):
        """tree of the commit just made from all regular files of the directory"""
        tree = {}
        for name in sorted(os.listdir(d)):
            full = os.path.join(d, name)
            if not os.path.isfile(full) or os.path.islink(full):
                continue
            b = blob_id(open(full).read())
            f = fid(name)
            if b is None or f is None:
                raise Skip("unknown content in tree")
            tree[f] = b
        return tree

    # -- observation
    def observe_dir_tree(self, base):
        """all directories below base (not inside .git): rel path -> (gitobs|None, files)"""
        res = []
        if not os.path.isdir(base):
            return res
        for cur, dirs, files in os.walk(base):
            if ".git" in dirs:
                dirs.remove(".git")
            dirs.sort()
            rel = os.path.relpath(cur, base)
            p = dir_path(rel)
            fl = {}
            for f in files:
                full = os.path.join(cur, f)
                if os.path.islink(full):
                    continue
                try:
                    txt = open(full).read()
                except Exception:
                    txt = None
                fl[fid(f) if fid(f) is not None else 9999] = blob_id(txt) if txt is not None and blob_id(txt) is not None else 9999
            g = self.observe_git(cur) if os.path.isdir(os.path.join(cur, ".git")) else None
            res.append((p, g, fl))
        return res

    def read_refs(self, d):
        """(HEAD text, {refname: sha}) read from the files of the repository"""
        gd = os.path.join(d, ".git")
        refs = {}
        pk = os.path.join(gd, "packed-refs")
        if os.path.exists(pk):
            for line in open(pk):
                line = line.strip()
                if line and line[0] not in "#^":
                    sha, name = line.split(" ", 1)
                    refs[name] = sha
        top = os.path.join(gd, "refs")
        for cur, dirs, files in os.walk(top):
            for f in files:
                full = os.path.join(cur, f)
                refs[os.path.relpath(full, gd)] = open(full).read().strip()
        return open(os.path.join(gd, "HEAD")).read().strip(), refs

    def observe_git(self, d):
        url = ""
        try:
            m = re.search(r'\[remote "origin"\][^\[]*?url = (\S+)', open(os.path.join(d, ".git", "config")).read(), re.S)
            url = m.group(1) if m else ""
        except OSError:
            pass
        m = re.search(r"up(\d+)$", url)
        u = int(m.group(1)) if m else 999
        headtxt, allrefs = self.read_refs(d)
        refs = {"heads": {}, "remotes": {}, "tags": {}}
        for name, sha in allrefs.items():
            c = self.cid(sha) or 9999
            if name.startswith("refs/heads/"):
                refs["heads"][BRANCH.get(name[11:], 999)] = c
            elif name.startswith("refs/remotes/origin/"):
                refs["remotes"][BRANCH.get(name[20:], 999)] = c
            elif name.startswith("refs/tags/t"):
                refs["tags"][int(name[11:])] = c
        if headtxt.startswith("ref: refs/heads/"):
            b = BRANCH.get(headtxt[16:], 999)
            head = (0 if b in refs["heads"] else 2, b)
        else:
            head = (1, self.cid(headtxt) or 9999)
        return {"url": u, "head": head, "branches": refs["heads"], "remotes": refs["remotes"], "tags": refs["tags"]}

    def observe(self):
        res = {}
        for k in (0, 1):
            w = self.ws(k)
            attic = os.path.join(os.path.dirname(w), "attic")
            ats = []
            if os.path.isdir(attic):
                for a in sorted(os.listdir(attic)):
                    ats.append(self.observe_dir_tree(os.path.join(attic, a)))
            res[k] = {"exists": os.path.isdir(w), "dirs": self.observe_dir_tree(w), "attic": ats}
        return res

    def sweep(self):
        """user objects that exist anywhere below the project: (set of user commit ids reachable
        from a ref or HEAD of some repository, set of user blob ids present as a file)"""
        commits, blobs = set(), set()
        top = os.path.join(self.project, "dev")
        for cur, dirs, files in os.walk(top):
            if ".git" in dirs:
                dirs.remove(".git")
                headtxt, allrefs = self.read_refs(cur)
                tips = list(allrefs.values()) + ([] if headtxt.startswith("ref:") else [headtxt])
                for sha in tips:
                    c = self.cid(sha)
                    while c is not None and c not in commits:
                        if not self.commits[c - 1]["user"]:
                            break           # the history of an upstream commit is upstream
                        commits.add(c)
                        c = self.commits[c - 1]["parent"]
            for f in files:
                try:
                    b = blob_id(open(os.path.join(cur, f)).read())
                except Exception:
                    b = None
                if b is not None and b in self.user_blobs:
                    blobs.add(b)
        for c in commits:           # content committed by the user lives on in that commit
            blobs |= set(self.commits[c - 1]["tree"].values()) & self.user_blobs
        return commits, blobs


# ---------------------------------------------------------------- Coq literals
def lit_path(p):
    return "(@nil N)" if not p else L.lst([L.N(c) for c in p])


def lit_tree(t):
    if not t:
        return "(@nil (N * N))"
    return L.lst([L.pair(L.N(f), L.N(b)) for f, b in sorted(t.items())])


def lit_refs(d):
    return lit_tree(d)


def lit_rev(r):
    if "commit" in r and "branch" in r:
        return "(RCommitOn %d %d)" % (r["branch"], r["commit"])
    if "tag" in r and "branch" in r:
        return "(RTagOn %d %d)" % (r["branch"], r["tag"])
    if "commit" in r:
        return "(RCommit %d)" % r["commit"]
    if "tag" in r:
        return "(RTag %d)" % r["tag"]
    return "(RBranch %d)" % r["branch"]


def lit_scm(s):
    if s["scm"] == "git":
        return "(SGit %d %s %s)" % (s["url"], lit_rev(s["rev"]), lit_path(s["dir"]))
    if s["scm"] == "url":
        return "(SUrl %d %s %s)" % (s["url"], L.opt(s.get("dig"), L.N), lit_path(s["dir"]))
    return "(SImport %d %s %s)" % (s["src"], L.B(s["prune"]), lit_path(s["dir"]))


def lit_spec(spec):
    return "(@nil scm)" if not spec else L.lst([lit_scm(s) for s in spec])


def lit_upstream(u):
    repos = L.lst(["(%d, mkU %s %s)" % (r, lit_refs(v["branches"]), lit_refs(v["tags"])) for r, v in sorted(u.repos.items())]) \
        if u.repos else "(@nil (N * urepo))"
    imps = L.lst(["(%d, %s)" % (k, lit_tree(v)) for k, v in sorted(u.imps.items())]) if u.imps else "(@nil (N * tree))"
    return "(mkUp %s %s %s)" % (repos, lit_tree(u.urls), imps)


def lit_store(u):
    if not u.commits:
        return "(@nil (cid * commit))"
    return L.lst(["(%d, mkC %s %s %s)" % (i + 1, L.opt(c["parent"], L.N), lit_tree(c["tree"]), L.B(c["user"]))
                  for i, c in enumerate(u.commits)])


def lit_op(u, op):
    """model operation for an abstract op executed on universe u (None: not a model op)"""
    k = op["op"]
    if k == "bob":
        if op["cmd"] in ("dev", "dev-cc"):
            specs = L.lst(["(%d, %s)" % (p, lit_spec(u.specs[p])) for p in u.used]) if u.used else "(@nil (N * list scm))"
            return "(OBuild %s %s %s)" % (L.B(op["cmd"] == "dev-cc"), lit_upstream(u), specs)
        if op["cmd"] == "clean-src":
            used = [p for p in u.used if u.specs[p]]
            return "(OCleanSrc %s)" % (L.lst([L.N(p) for p in used]) if used else "(@nil N)")
        if op["cmd"] == "clean-attic":
            return "OCleanAttic"
        return None
    if k == "user":
        a = op["act"]
        if a == "write":
            uo = "(UWrite %d %d)" % (op["file"], op["blob"])
        elif a == "commit":
            uo = "(UCommit %d)" % len(u.commits)
        elif a == "newbranch":
            uo = "(UNewBranch %d)" % op["branch"]
        elif a == "checkout":
            uo = "(UCheckout %d)" % op["branch"]
        else:
            uo = "(UDetach %s)" % L.opt(op.get("at"), L.N)
        return "(OUser %d %s %s)" % (op["pkg"], lit_path(op["dir"]), uo)
    return None


def lit_dirobs(d):
    p, g, fl = d
    if g is None:
        gl = "(@None gitobs)"
    else:
        gl = "(Some (%d, (%d, %d), (%s, %s, %s)))" % (g["url"], g["head"][0], g["head"][1], lit_refs(g["branches"]),
                                                       lit_refs(g["remotes"]), lit_refs(g["tags"]))
    return "(%s, %s, %s)" % (lit_path(p), gl, lit_tree(fl))


def lit_dirs(ds):
    return L.lst([lit_dirobs(d) for d in ds]) if ds else "(@nil dirobs)"


RESULT = {"skipped": "RSkipped", "ok": "ROk", "collision": "RCollision", "failed": "RFailed"}


def lit_obs(stepobs, state):
    so = L.lst(["(%d, (%s, %s))" % (k, L.lst(["(%d, %s)" % (t, lit_path(p)) for t, p in dec]) if dec else "(@nil (N * path))",
                                    RESULT[res]) for k, dec, res in stepobs]) if stepobs else "(@nil (N * (list (N * path) * result)))"
    ws = []
    for k in sorted(state):
        w = state[k]
        at = L.lst([lit_dirs(a) for a in w["attic"]]) if w["attic"] else "(@nil (list dirobs))"
        ws.append("(%d, (%s, %s, %s))" % (k, L.B(w["exists"]), lit_dirs(w["dirs"]), at))
    return "((%s : stepobs), %s)" % (so, L.lst(ws))


# ---------------------------------------------------------------- bob output
def parse_bob(u, out, rc):
    """per package decisions and result from the output of bob dev -k"""
    res = {}
    for line in out.split("\n"):
        m = re.match(r"\s+(SWITCH|ATTIC)\s+dev/src/lib(\d)/1/workspace(?:/(\S+))?", line)
        if m:
            k = int(m.group(2))
            res.setdefault(k, {"dec": [], "res": None})["dec"].append((1 if m.group(1) == "SWITCH" else 2,
                                                                       dir_path(m.group(3) or ".")))
            continue
        m = re.match(r"\s+CHECKOUT\s+skipped \(fixed package dev/src/lib(\d)/1/workspace\)", line)
        if m:
            res.setdefault(int(m.group(1)), {"dec": [], "res": None})["res"] = "skipped"
            continue
        m = re.match(r"\s+CHECKOUT\s+dev/src/lib(\d)/1/workspace \(", line)
        if m:
            r = res.setdefault(int(m.group(1)), {"dec": [], "res": None})
            if r["res"] is None:
                r["res"] = "ok"
            continue
        m = re.search(r"collides with existing file in workspace 'dev/src/lib(\d)/1/workspace'", line)
        if m:
            res.setdefault(int(m.group(1)), {"dec": [], "res": None})["res"] = "collision"
            continue
        m = re.search(r"dev/src/lib(\d)/1/checkout\.sh returned with", line)
        if m:
            res.setdefault(int(m.group(1)), {"dec": [], "res": None})["res"] = "failed"
    order = [k for k in u.used if u.specs[k]]
    return [(k, res[k]["dec"], res[k]["res"]) for k in order if k in res]


# ---------------------------------------------------------------- generator
TOP_DIRS = [[1], [2], [3]]
ALL_DIRS = [[], [1], [2], [3], [1, 5], [1, 4], [3, 5], [5], [1, 5, 4]]


def spec_valid(spec):
    known = []
    for s in spec:
        p = s["dir"]
        for kp, native in known:
            if is_prefix(p, kp):
                return False
            if is_prefix(kp, p) and s["scm"] == "git" and not native:
                return False
        known.append((p, s["scm"] == "git"))
    return True


class Gen:
    def __init__(self, rng, u, flavour):
        self.rng = rng
        self.u = u
        self.flavour = flavour          # "free": no user actions in package 0; "user": user heavy; "mixed"
        self.next_blob = 20
        self.rewrites = flavour == "rewrite"

    def blob(self):
        self.next_blob += 1
        return self.next_blob

    # ---- initial universe
    def setup(self):
        rng, ops = self.rng, []
        ign = rng.random() < 0.45
        # up0: master c1 -> c2 -> c3, dev from c1, tag t0 at c2
        first = {"op": "up_commit", "repo": 0, "branch": 0, "file": 0, "blob": self.blob()}
        ops.append(first)
        if ign:
            ops.append({"op": "up_commit", "repo": 0, "branch": 0, "file": FGITIGNORE, "blob": 0})
        ops.append({"op": "up_commit", "repo": 0, "branch": 0, "file": 1, "blob": self.blob()})
        base = 3 if ign else 2
        ops.append({"op": "up_tag", "repo": 0, "tag": 0, "at": base})
        ops.append({"op": "up_branch", "repo": 0, "branch": 1, "at": base})
        ops.append({"op": "up_commit", "repo": 0, "branch": 0, "file": 0, "blob": self.blob()})
        ops.append({"op": "up_commit", "repo": 0, "branch": 1, "file": 1, "blob": self.blob()})
        # up1: a fork (behind, equal or ahead) or an unrelated history
        kind = rng.choice(["behind", "ahead", "unrelated", "equal"])
        if kind == "unrelated":
            ops.append({"op": "up_commit", "repo": 1, "branch": 0, "file": 0, "blob": self.blob()})
            ops.append({"op": "up_commit", "repo": 1, "branch": 0, "file": 2, "blob": self.blob()})
            ops.append({"op": "up_tag", "repo": 1, "tag": 0, "at": base + 4})
        else:
            ops.append({"op": "up_branch", "repo": 1, "branch": 0, "at": base if kind == "behind" else base + 1})
            ops.append({"op": "up_tag", "repo": 1, "tag": 0, "at": base})
            if kind == "ahead":
                ops.append({"op": "up_commit", "repo": 1, "branch": 0, "file": 2, "blob": self.blob()})
            ops.append({"op": "up_branch", "repo": 1, "branch": 1, "at": base + 2})
        ops.append({"op": "up_url", "url": 0, "blob": self.blob()})
        ops.append({"op": "up_url", "url": 1, "blob": self.blob()})
        ops.append({"op": "up_imp", "src": 0, "file": 200, "blob": self.blob()})
        ops.append({"op": "up_imp", "src": 0, "file": 201, "blob": self.blob()})
        ops.append({"op": "up_imp", "src": 1, "file": 200, "blob": self.blob()})
        return ops

    def after_setup(self):
        ops = []
        for k in (0, 1):
            spec = self.random_spec(k)
            ops.append({"op": "spec", "pkg": k, "spec": spec})
        return ops

    # ---- specs
    def random_rev(self, repo):
        rng, u = self.rng, self.u
        r = u.repos.get(repo, {"branches": {0: 1}, "tags": {}})
        branches = sorted(r["branches"]) or [0]
        kind = rng.choice(["branch"] * 5 + ["tag", "commit", "tagon", "commiton"])
        b = rng.choice(branches)
        if rng.random() < 0.04:
            b = 2           # a branch that (probably) does not exist
        tip = r["branches"].get(b)
        chain = []
        c = tip
        while c is not None:
            chain.append(c)
            c = u.commits[c - 1]["parent"]
        if kind == "branch" or not chain:
            return {"branch": b}
        if kind in ("tag", "tagon"):
            tags = sorted(r["tags"])
            if not tags:
                return {"branch": b}
            t = rng.choice(tags)
            return {"tag": t} if kind == "tag" else {"branch": b, "tag": t}
        c = rng.choice(chain) if rng.random() < 0.9 else rng.randrange(1, len(u.commits) + 1)
        return {"commit": c} if kind == "commit" else {"branch": b, "commit": c}

    def random_scm(self, d, kinds=("git", "git", "git", "url", "import")):
        rng = self.rng
        k = rng.choice(kinds)
        if k == "git":
            repo = rng.choice([0, 0, 1])
            return {"scm": "git", "url": repo, "rev": self.random_rev(repo), "dir": d}
        if k == "url":
            url = rng.choice([0, 1])
            dig = self.u.urls.get(url) if rng.random() < 0.4 else None
            return {"scm": "url", "url": url, "dig": dig, "dir": d}
        return {"scm": "import", "src": rng.choice([0, 0, 1]), "prune": rng.random() < 0.8, "dir": d}

    def random_spec(self, k):
        rng = self.rng
        for _ in range(50):
            n = rng.choice([1, 1, 2, 2, 3]) if k == 0 else rng.choice([0, 1, 1, 2])
            spec = []
            for i in range(n):
                if spec and rng.random() < 0.55:
                    parent = rng.choice(spec)
                    d = parent["dir"] + [rng.choice([5, 5, 4])]
                    kinds = ("git", "git", "url", "import") if parent["scm"] == "git" else ("url", "import")
                else:
                    d = rng.choice([[]] + TOP_DIRS * 3)
                    kinds = ("git", "git", "git", "url", "import")
                spec.append(self.random_scm(d, kinds))
            spec.sort(key=lambda s: len(s["dir"]))
            if spec_valid(spec) and (k == 1 or any(s["scm"] == "git" for s in spec)):
                return spec
        return [{"scm": "git", "url": 0, "rev": {"branch": 0}, "dir": [1]}]

    def edit_spec(self):
        rng, u = self.rng, self.u
        k = rng.choice([0, 0, 1])
        for _ in range(30):
            spec = copy.deepcopy(u.specs[k])
            kind = rng.choice(["rev", "rev", "rev", "url", "url", "dir", "add", "add", "remove", "kind", "digest", "prune", "new"])
            gits = [s for s in spec if s["scm"] == "git"]
            if kind == "rev" and gits:
                s = rng.choice(gits)
                s["rev"] = self.random_rev(s["url"])
            elif kind == "url" and gits:
                s = rng.choice(gits)
                s["url"] = 1 - s["url"]
                if rng.random() < 0.3:
                    s["rev"] = self.random_rev(s["url"])
            elif kind == "dir" and spec:
                s = rng.choice(spec)
                old = s["dir"]
                new = rng.choice([d for d in TOP_DIRS + [[]] if d != old] if len(old) <= 1 else [old[:-1] + [4 if old[-1] == 5 else 5]])
                for t in spec:
                    if is_prefix(old, t["dir"]) and (old or t is s):
                        t["dir"] = new + t["dir"][len(old):]
            elif kind == "add" and len(spec) < 4:
                if spec and rng.random() < 0.6:
                    parent = rng.choice(spec)
                    d = parent["dir"] + [rng.choice([5, 4])]
                    kinds = ("git", "git", "url", "import") if parent["scm"] == "git" else ("url", "import")
                else:
                    d = rng.choice(TOP_DIRS + [[]])
                    kinds = ("git", "git", "url", "import")
                spec.append(self.random_scm(d, kinds))
                spec.sort(key=lambda s: len(s["dir"]))
            elif kind == "remove" and spec:
                spec.remove(rng.choice(spec))
            elif kind == "kind" and spec:
                s = rng.choice(spec)
                i = spec.index(s)
                spec[i] = self.random_scm(s["dir"])
            elif kind == "digest":
                urls = [s for s in spec if s["scm"] == "url"]
                if not urls:
                    continue
                s = rng.choice(urls)
                s["dig"] = None if (s.get("dig") is not None and rng.random() < 0.4) else u.urls.get(s["url"])
            elif kind == "prune":
                imps = [s for s in spec if s["scm"] == "import"]
                if not imps:
                    continue
                s = rng.choice(imps)
                if rng.random() < 0.5:
                    s["prune"] = not s["prune"]
                else:
                    s["src"] = 1 - s["src"]
            elif kind == "new":
                spec = self.random_spec(k)
            else:
                continue
            if spec != u.specs[k] and spec_valid(spec):
                return {"op": "spec", "pkg": k, "spec": spec}
        return None

    # ---- upstream
    def upstream_op(self):
        rng, u = self.rng, self.u
        kind = rng.choice(["commit"] * 6 + ["tag", "branch", "url", "imp", "imp", "rewrite", "delbranch"])
        repo = rng.choice(sorted(u.repos))
        br = u.repos[repo]["branches"]
        if kind == "commit" and br:
            b = rng.choice(sorted(br))
            f = rng.choice([0, 1, 2, 3])
            return {"op": "up_commit", "repo": repo, "branch": b, "file": f, "blob": self.blob()}
        if kind == "tag" and br:
            t = max([-1] + [t for r in u.repos.values() for t in r["tags"]]) + 1
            if rng.random() < 0.3:
                t = rng.choice([0, 1])
            if t in u.repos[repo]["tags"] or t > 3:
                return None
            return {"op": "up_tag", "repo": repo, "tag": t, "at": br[rng.choice(sorted(br))]}
        if kind == "branch" and br:
            b = rng.choice([1, 2])
            if b in br:
                return None
            return {"op": "up_branch", "repo": repo, "branch": b, "at": br[rng.choice(sorted(br))]}
        if kind == "url":
            return {"op": "up_url", "url": rng.choice([0, 1]), "blob": self.blob()}
        if kind == "imp":
            src = rng.choice([0, 1])
            f = rng.choice([200, 201])
            if rng.random() < 0.2 and len(u.imps.get(src, {})) > 1 and f in u.imps[src]:
                return {"op": "up_imp", "src": src, "file": f, "delete": True}
            return {"op": "up_imp", "src": src, "file": f, "blob": self.blob()}
        if kind == "rewrite" and self.rewrites and br:
            b = rng.choice(sorted(br))
            parent = u.commits[br[b] - 1]["parent"]
            if parent is None:
                return None
            if rng.random() < 0.5:
                return {"op": "up_branch", "repo": repo, "branch": b, "at": parent}
            return {"op": "up_commit", "repo": repo, "branch": b, "parent": parent, "file": rng.choice([0, 1]),
                    "blob": self.blob(), "rewrite": True}
        if kind == "delbranch" and len(br) > 1 and rng.random() < 0.3:
            b = rng.choice([x for x in sorted(br) if x != 0])
            return {"op": "up_branch", "repo": repo, "branch": b, "at": None}
        return None

    # ---- user
    def user_op(self, state):
        rng, u = self.rng, self.u
        cands = []
        for k in (0, 1):
            if self.flavour == "free" and k == 0:
                continue
            for p, g, fl in state[k]["dirs"]:
                if g is not None:
                    cands.append((k, p, g, fl))
        if not cands:
            return None
        k, p, g, fl = rng.choice(cands)
        base = {"op": "user", "pkg": k, "dir": p}
        act = rng.choice(["write"] * 4 + ["commit"] * 3 + ["newbranch", "checkout", "checkout", "detach", "detach"])
        if act == "write":
            if rng.random() < 0.5 and fl:
                f = rng.choice(sorted(x for x in fl if x < 10) or [0])
            else:
                f = rng.choice([2, 3, 10, 11])
            return dict(base, act="write", file=f, blob=self.blob())
        if act == "commit":
            if g["head"][0] == 2:
                return None
            return dict(base, act="commit")
        if act == "newbranch":
            b = rng.choice([3, 4])
            if b in g["branches"] or g["head"][0] == 2:
                return None
            return dict(base, act="newbranch", branch=b)
        if act == "checkout":
            bs = sorted((set(g["branches"]) | set(g["remotes"])) - ({g["head"][1]} if g["head"][0] == 0 else set()))
            if not bs:
                return None
            return dict(base, act="checkout", branch=rng.choice(bs))
        if g["head"][0] == 2:
            return None
        if rng.random() < 0.5:
            return dict(base, act="detach")
        cur = g["head"][1] if g["head"][0] == 1 else g["branches"].get(g["head"][1])
        if cur is None or cur > len(u.commits) or u.commits[cur - 1]["parent"] is None:
            return dict(base, act="detach")
        return dict(base, act="detach", at=u.commits[cur - 1]["parent"])

    def next_op(self, state, i, n):
        rng = self.rng
        for _ in range(40):
            x = rng.random()
            if i == 0 or x < 0.30:
                return {"op": "bob", "cmd": "dev"}
            if x < 0.35:
                return {"op": "bob", "cmd": "dev-cc"}
            if x < 0.40:
                return {"op": "bob", "cmd": "clean-src"}
            if x < 0.44:
                return {"op": "bob", "cmd": "clean-attic"}
            if x < 0.66:
                op = self.user_op(state) if self.flavour != "nouser" else None
            elif x < 0.84:
                op = self.edit_spec()
            elif x < 0.96:
                op = self.upstream_op()
            else:
                used = rng.choice([[0, 1], [0, 1], [0], [1], [1, 0], []])
                op = {"op": "use", "pkgs": used} if used != self.u.used else None
            if op is not None:
                return op
        return {"op": "bob", "cmd": "dev"}


# ---------------------------------------------------------------- oracles
def expected_fresh(u, s):
    """(fresh checkout possible, files of the directory after a fresh checkout, target commit)"""
    if s["scm"] == "git":
        r = u.repos.get(s["url"])
        if r is None:
            return False, None, None
        rev = s["rev"]
        tips = list(r["branches"].values())
        bt = r["branches"].get(rev["branch"]) if "branch" in rev else None
        if "commit" in rev:
            c = rev["commit"]
            if c > len(u.commits) or u.commits[c - 1]["user"] or not any(u.is_anc(c, t) for t in tips):
                return False, None, None
        elif "tag" in rev:
            c = r["tags"].get(rev["tag"])
            if c is None:
                return False, None, None
        else:
            c = bt
            if c is None:
                return False, None, None
        if "branch" in rev and ("tag" in rev or "commit" in rev):
            if bt is None or not u.is_anc(c, bt):
                return False, None, None
        return True, dict(u.commits[c - 1]["tree"]), c
    if s["scm"] == "url":
        b = u.urls.get(s["url"])
        if b is None or (s.get("dig") is not None and s["dig"] != b):
            return False, None, None
        return True, {100 + s["url"]: b}, None
    if s["src"] not in u.imps:
        return False, None, None
    return True, dict(u.imps[s["src"]]), None


def classify(u, s, obs_dir, res):
    if s["scm"] == "git" and s["url"] in u.rewritten:
        return SIG_REWRITE
    if s["scm"] == "url" and s.get("dig") is not None and res == "failed":
        cur = obs_dir[2].get(100 + s["url"]) if obs_dir else None
        if cur is not None and cur != s["dig"] and u.urls.get(s["url"]) == s["dig"]:
            return SIG_URL
    if s["scm"] == "git" and obs_dir and obs_dir[1] is not None and "tag" in s["rev"] and "branch" in s["rev"]:
        up = u.repos.get(s["url"], {"tags": {}})["tags"].get(s["rev"]["tag"])
        loc = obs_dir[1]["tags"].get(s["rev"]["tag"])
        if up is not None and loc is not None and up != loc:
            return SIG_TAG
    if s["scm"] == "git" and obs_dir and obs_dir[1] is not None and set(s["rev"]) == {"branch"}:
        g = obs_dir[1]
        ok, _, tip = expected_fresh(u, s)
        head = g["branches"].get(g["head"][1]) if g["head"][0] == 0 else None
        if ok and head is not None and head <= len(u.commits) and head != tip and u.is_anc(tip, head):
            return SIG_AHEAD
    return "untouched-not-converged:%s:%s" % (s["scm"], res)


def check_convergence(u, stepobs, state, report):
    for k, dec, res in stepobs:
        if k in u.touched:
            continue
        spec = u.specs[k]
        fresh = [expected_fresh(u, s) for s in spec]
        dirs = {tuple(p): (p, g, fl) for p, g, fl in state[k]["dirs"]}
        if res in ("ok", "skipped"):
            for s, (fok, ffiles, _) in zip(spec, fresh):
                if not fok or (s["scm"] == "import" and not s["prune"]):
                    continue
                od = dirs.get(tuple(s["dir"]))
                have = od[2] if od else None
                if have != ffiles:
                    report(classify(u, s, od, res),
                           "untouched workspace of lib%d differs from a fresh checkout in '%s': has %s, fresh %s"
                           % (k, dir_str(s["dir"]), have, ffiles))
        elif all(f[0] for f in fresh):
            sig = None
            for s in spec:
                c = classify(u, s, dirs.get(tuple(s["dir"])), res)
                if not c.startswith("untouched-not-converged:"):
                    sig = c
                    break
            report(sig or "untouched-stuck:%s" % res,
                   "bob dev fails (%s) on the untouched workspace of lib%d although a fresh checkout of the same recipe succeeds" % (res, k))


# ---------------------------------------------------------------- one history
def run_history(rng, flavour, n_ops, fixed=None, tag="c12"):
    """execute a generated (or recorded: fixed = {"setup": [...], "ops": [...]}) history.
    Returns dict with executed ops, model cases and oracle reports."""
    u = Universe(tag)
    out = {"flavour": flavour, "setup": [], "ops": [], "model_ops": [], "expected": [], "meta": [], "reports": [],
           "skipped": 0, "error": None, "counts": {}}

    def count(key):
        out["counts"][key] = out["counts"].get(key, 0) + 1

    try:
        gen = Gen(rng, u, flavour)
        setup = fixed["setup"] if fixed else gen.setup()
        for op in setup:
            u.apply(op)
        if not fixed:
            more = gen.after_setup()
            for op in more:
                u.apply(op)
            setup = setup + more
        out["setup"] = setup
        state = u.observe()
        todo = list(fixed["ops"]) if fixed else None
        i = 0
        while (todo if fixed else i < n_ops):
            op = todo.pop(0) if fixed else gen.next_op(state, i, n_ops)
            i += 1
            isbob = op["op"] == "bob"
            before = u.sweep() if isbob else None
            try:
                r = u.apply(op)
            except Skip as e:
                out["skipped"] += 1
                if fixed:
                    raise
                continue
            out["ops"].append(op)
            count("op:" + op["op"] + (":" + op.get("cmd", op.get("act", "")) if op["op"] in ("bob", "user") else ""))
            m = lit_op(u, op)
            if m is None:
                continue
            state = u.observe()
            stepobs = []
            if isbob:
                rc, text = r
                if "Traceback" in text and "BrokenProcessPool" not in text:
                    raise RuntimeError("bob crashed: " + text[-1200:])
                if "Parse error" in text or "Traceback" in text:
                    raise Skip("bob rejected the project: " + text[-400:])
                if op["cmd"] in ("dev", "dev-cc"):
                    stepobs = parse_bob(u, text, rc)
                    for k, dec, res in stepobs:
                        count("result:" + str(res))
                        for t, p in dec:
                            count("decision:" + ("switch" if t == 1 else "attic"))
                        if any(t == 2 and any(is_prefix(p, s["dir"]) and p != s["dir"] for s in u.specs[k]) for t, p in dec):
                            count("decision:attic-with-nested")
                    if any(res is None for _, _, res in stepobs):
                        raise Skip("unparsed bob output: " + text[-600:])

                    def report(sig, what, _n=len(out["ops"])):
                        out["reports"].append({"signature": sig, "what": what, "at": _n})
                    check_convergence(u, stepobs, state, report)
                after = u.sweep()
                lostc, lostb = before[0] - after[0], before[1] - after[1]
                if lostc or lostb:
                    out["reports"].append({"signature": "user-object-lost:%s:%s" % (op["cmd"], "commit" if lostc else "file"),
                                           "what": "bob %s destroyed user %s" % (op["cmd"], ("commits %s" % sorted(lostc)) if lostc
                                                                                  else ("file contents %s" % sorted(lostb))),
                                           "at": len(out["ops"])})
                if before[0] or before[1]:
                    count("sweep:with-user-objects")
            out["model_ops"].append(m)
            out["expected"].append(lit_obs(stepobs, state))
            out["meta"].append({"n": len(out["ops"]), "op": op, "stepobs": stepobs,
                                "state": json.loads(json.dumps(state, default=list))})
        out["store"] = lit_store(u)
        out["ncommits"] = len(u.commits)
    except Skip as e:
        out["error"] = "skip: " + str(e)
    except Exception:
        out["error"] = traceback.format_exc()[-2000:]
    finally:
        u.close()
    return out


def history_json(h, upto=None):
    return {"setup": h["setup"], "ops": h["ops"][:upto] if upto else h["ops"], "flavour": h["flavour"]}


# ---------------------------------------------------------------- model comparison
REQ = ["BobV.C12.Model"]


def compare_with_model(ctx, hs):
    """hs: executed histories. Returns number of agreeing steps; reports mismatches as broken ties."""
    good = 0
    B = 12
    for off in range(0, len(hs), B):
        batch = [h for h in hs[off:off + B] if h.get("store") and h["model_ops"]]
        if not batch:
            continue
        pre = []
        cases, where = [], []
        for j, h in enumerate(batch):
            pre.append("Definition h%d_st : store := %s." % (j, h["store"]))
            pre.append("Definition h%d_ops : list op := %s." % (j, L.lst(h["model_ops"])))
            for i, e in enumerate(h["expected"]):
                cases.append(("(h%d_st, firstn %d%%nat h%d_ops)" % (j, i + 1, j), "(%s : obs)" % e))
                where.append((h, i, j))
        bad, log = coq.run_cases(ctx, REQ, "(fun i => last_obs (fst i) (snd i))", "obs_eqb", cases, shard=120,
                                 tag="c12", preamble="\n".join(pre))
        if bad is None:
            ctx.tie_broken("C12 model evaluation failed", log[-1500:])
            continue
        firstbad = {}
        for b in bad:
            h, i, j = where[b]
            if id(h) not in firstbad or i < firstbad[id(h)][1]:
                firstbad[id(h)] = (h, i, j)
        for h in batch:
            n = len(h["expected"])
            good += n if id(h) not in firstbad else firstbad[id(h)][1]
        for h, i, j in list(firstbad.values())[:3]:
            got, _ = coq.eval_terms(ctx, REQ, ["last_obs h%d_st (firstn %d%%nat h%d_ops)" % (j, i + 1, j)],
                                    preamble="\n".join(pre))
            ctx.tie_broken("model-vs-implementation", {
                "step": h["meta"][i]["n"], "op": h["meta"][i]["op"], "implementation": h["expected"][i],
                "model": (got[0] if got else "?")[:6000], "history": history_json(h, h["meta"][i]["n"])})
    return good


# ---------------------------------------------------------------- entry point
KNOWN_SIGS = {SIG_URL, SIG_AHEAD, SIG_REWRITE, SIG_TAG}


def load_corpus():
    res = []
    for p in sorted(glob.glob(os.path.join(core.VERIF, "corpus", "C12", "*.json"))):
        with open(p) as f:
            res.append((os.path.basename(p), json.load(f)))
    return res


def shrink(h, rep, budget=18):
    """truncate at the failing step and try to drop single non-bob operations"""
    import random
    ops = h["ops"][:rep["at"]]
    cur = {"setup": h["setup"], "ops": ops, "flavour": h["flavour"]}

    def fails(cand):
        r = run_history(random.Random(0), cand["flavour"], 0, fixed=cand, tag="c12s")
        return r["error"] is None and any(x["signature"] == rep["signature"] for x in r["reports"])
    i = len(cur["ops"]) - 2
    while i >= 0 and budget > 0:
        cand = dict(cur, ops=cur["ops"][:i] + cur["ops"][i + 1:])
        budget -= 1
        if fails(cand):
            cur = cand
        i -= 1
    return cur


def run(ctx):
    import random
    ctx.rule = ("histories over a generated universe (2 upstream git repositories incl. forks/unrelated histories, shared tag "
                "names, .gitignore'd nested directory, 2 url files, 2 import sources; 2 packages with 0-4 SCMs each, nested up "
                "to 3 levels) interleaving recipe SCM edits, upstream commits/tags/branch moves, user actions (dirty, untracked, "
                "commit, branch, detached HEAD) and bob dev -k / --clean-checkout / clean -s / clean --attic; a case is one "
                "history step; non-trivial when Bob took a decision (switch/attic/collision/failure/clean) or user objects "
                "were present; distinct by (op, decisions, result, observed state)")
    ctx.assumptions += [
        "git itself is modelled (fetch -p with tag following, checkout [-b], merge --ff-only, reset --keep, status); the modelled "
        "semantics is validated only differentially by these runs against git 2.39",
        "not modelled: rebase, submodules, shallow clones, rev/refs, remote-*, url extraction/separateDownload/mirrors, svn, cvs, "
        "checkoutScript, build-only mode, Jenkins; user actions only inside git directories; tags never move upstream",
        "PROVED (unbounded, closed): user_objects_monotone over arbitrary sequences of bob dev [--clean-checkout] / clean -s / "
        "clean --attic with arbitrary valid recipes and upstream states (assumes: recipes valid per input.py nesting rules, "
        "upstream refs and recipe commits never name a commit the user created locally = definition of 'unpushed', the commit "
        "history of upstream commits is upstream); attic_nested_consistent (loop over checkoutsFromState order); "
        "clean_requires_expendable for -s and --attic (nested form of bec5372); expendable => no user object",
        "untouched_converges is proved only in the _partial form (git level: switch / update / fresh checkout, url digest rule); "
        "the excluded shapes ahead_of_upstream, stale_local_tag, url digest change and history rewrite are the four known findings "
        "with _refuted / _stuck witnesses; project level convergence is only exercised by the correspondence and the oracle",
        "EXERCISED ONLY (differential): the git semantics themselves, import copy/prune mtime rules, DevelopDirOracle directory "
        "naming, bob's output format used to read its decisions",
    ]
    if ctx.replay:
        d = json.load(open(ctx.replay))
        h = run_history(random.Random(0), d["case"].get("flavour", "mixed"), 0, fixed=d["case"], tag="c12r")
        ctx.evaluated(len(h["ops"]))
        for r in h["reports"]:
            ctx.violation(r["signature"], r["what"], history_json(h, r["at"]))
        if h["error"]:
            ctx.tie_broken("replay-not-executable", h["error"])
        return
    n_hist = int(os.environ.get("C12_NHIST", ctx.n(quick=9, thorough=260)))
    n_ops = ctx.n(quick=15, thorough=18)
    jobs = []
    for name, c in load_corpus():
        jobs.append(("corpus:" + name, None, c.get("flavour", "mixed"), 0, c))
    flavours = ["mixed", "mixed", "user", "free", "free", "nouser", "rewrite"]
    for i in range(n_hist):
        fl = flavours[i % len(flavours)] if i % 16 != 15 else "rewrite"
        if fl == "rewrite" and i % 3:
            fl = "mixed"
        jobs.append(("gen%d" % i, ctx.rng.getrandbits(48), fl, n_ops, None))

    def one(job):
        name, seed, fl, n, fixed = job
        h = run_history(random.Random(seed), fl, n, fixed=fixed)
        if h["error"] and "BrokenProcessPool" in h["error"]:
            # Bob's own worker pool died (machine overload): not a property of the history, run it again
            h = run_history(random.Random(seed), fl, n, fixed=fixed)
        h["name"] = name
        return h
    t0 = time.time()
    with ThreadPoolExecutor(max_workers=4) as ex:
        hs = list(ex.map(one, jobs))
    ctx.note("histories executed in %.0fs (%d bob runs)" % (time.time() - t0, sum(v for h in hs for k, v in h["counts"].items() if k.startswith("op:bob"))))
    seen_sig = set()
    for h in hs:
        ctx.count("history:" + h["flavour"])
        if h["error"]:
            ctx.count("history-dropped")
            if not h["error"].startswith("skip:") or h["name"].startswith("corpus:"):
                ctx.tie_broken("history-not-executable", {"name": h["name"], "error": h["error"], "ops": h["ops"][-3:]})
            ctx.note("dropped %s: %s" % (h["name"], h["error"][:300]))
        for k, v in h["counts"].items():
            ctx.count(k, v)
        ctx.count("ops-skipped-by-generator", h["skipped"])
        for m in h["meta"]:
            ctx.evaluated()
            so = m["stepobs"]
            key = (json.dumps(m["op"], sort_keys=True), json.dumps(so), json.dumps(m["state"], sort_keys=True))
            if any(dec or res != "ok" for _, dec, res in so) or m["op"]["op"] == "user" or m["op"].get("cmd", "").startswith("clean"):
                ctx.nontrivial(key)
        for r in h["reports"]:
            if r["signature"] in seen_sig:
                continue
            seen_sig.add(r["signature"])
            case = history_json(h, r["at"])
            if r["signature"] not in KNOWN_SIGS and not h["name"].startswith("corpus:") and ctx.tier != "thorough":
                try:
                    case = shrink(h, r)
                except Exception:
                    pass
            ctx.violation(r["signature"], r["what"], case)
    ok = [h for h in hs if h.get("store")]
    t0 = time.time()
    good = compare_with_model(ctx, ok)
    ctx.note("model evaluation %.0fs" % (time.time() - t0))
    ctx.validated(good)
    for h in ok[:2]:
        if h["meta"]:
            ctx.sample({"history": h["name"], "ops": [m["op"] for m in h["meta"]][:6],
                        "decisions": [m["stepobs"] for m in h["meta"] if m["stepobs"]][:4]})
