"""C01 — incremental build equals clean build; a repeated build is a no-op."""
import os, shutil, json, copy
from concurrent.futures import ThreadPoolExecutor
from vlib import coq, coqlit as L, proj, core
from props import builder_common as bc

PROPERTY_FILES = ["Builder/Properties_C01.v"]


def one_history(args):
    seed, nsteps = args
    import random
    rng = random.Random(seed)
    hist, kinds = bc.gen_history(rng, nsteps)
    mode = rng.choice(["dev", "dev", "dev-j4", "build"])
    # in some histories every build is preceded by an invocation in the *other* mode in the same
    # project directory (develop and release mode share the parse caches but not the workspaces)
    premode = rng.choice([None, None, "build" if mode != "build" else "dev"])
    w = core.scratch_dir("c01")
    rec = {"seed": seed, "kinds": kinds, "steps": [], "violations": [], "hist": hist, "mode": mode, "premode": premode}
    try:
        paths, digs = bc.Interner(), bc.Interner()
        projects = []
        expected = []
        traces = []
        for i, desc in enumerate(hist):
            proj.write_project(desc, w)
            roots = bc.roots_of(desc)
            if premode:
                bc.bob(w, bc.MODES[premode] + roots)
            tf = os.path.join(w, ".bobv-trace.%d" % i)
            rc, txt = bc.bob(w, bc.MODES[mode] + roots, crash_env={"BOBV_TRACE_FILE": tf})
            trace = bc.read_trace(tf)
            if rc != 0:
                rec["steps"].append({"i": i, "rc": rc, "rejected": True, "tail": txt[-400:]})
                # a project state that does not parse/build is not a build of the history
                if "Parse error" in txt or "rror" in txt:
                    continue
            dec = bc.decisions(txt)
            res, ws = bc.results(w, mode)
            clean, ctxt = bc.clean_results(desc, mode=mode)
            step = {"i": i, "kind": kinds[i], "rc": rc, "decisions": len(dec),
                    "ran": sum(1 for d in dec if d[2] == "run"), "skipped": sum(1 for d in dec if d[2] == "skip"),
                    "pruned": sum(1 for d in dec if d[2] == "prune"), "packages": len(res)}
            rec["steps"].append(step)
            if rc == 0 and clean is not None:
                for pkg, dg in clean.items():
                    if res.get(pkg) != dg:
                        d = ws.get(pkg, {}).get("dist")
                        rec["violations"].append(("incremental-differs-from-clean", "package %s after step %d (%s)" % (pkg, i, kinds[i]),
                                                  {"step": i, "package": pkg, "files_incremental": bc.list_tree(os.path.join(w, d)) if d else None}))
                        break
            # model view of this build
            dumped = proj.dump(w)
            if "packages" in dumped:
                rec["det_src"] = {d["src"]: dumped["packages"][pk]["steps"]["checkout"]["deterministic"]
                                  for pk, d in ws.items() if "src" in d and pk in dumped["packages"]}
            if rc == 0 and "packages" in dumped:
                mp = bc.model_project(dumped, ws, paths, digs, desc)
                if mp is not None:
                    projects.append(mp)
                    exp = {}
                    for kind, path, act in dec:
                        if kind in ("BUILD", "PACKAGE", "CHECKOUT") and act in ("run", "skip"):
                            exp[paths(path)] = (act == "run")
                    expected.append(exp)
                    traces.append({paths(pth): codes for pth, codes in trace.items()})
                else:
                    projects = None
            else:
                projects = None
            if projects is None:
                break
        # an immediately repeated build of the unchanged project
        if rec["steps"] and rec["steps"][-1].get("rc") == 0:
            rc, txt = bc.bob(w, bc.MODES[mode] + bc.roots_of(hist[-1]))
            dec = bc.decisions(txt)
            reran = [d for d in dec if d[2] == "run" and d[0] in ("BUILD", "PACKAGE")]
            reran_co = [d for d in dec if d[2] == "run" and d[0] == "CHECKOUT" and rec.get("det_src", {}).get(d[1], True)]
            rec["repeat"] = {"rc": rc, "reran": reran, "reran_checkout": reran_co, "skipped": sum(1 for d in dec if d[2] == "skip")}
            if reran or reran_co:      # deterministic checkouts only
                rec["violations"].append(("repeated-build-reexecutes", "repeated build re-executed %r" % (reran + reran_co,), {"decisions": dec}))
        rec["model"] = (projects, expected, traces) if projects else None
    finally:
        shutil.rmtree(w, ignore_errors=True)
    return rec


def run(ctx):
    ctx.rule = ("generated projects + histories of single edits/reverts, `bob dev` after each; compared with a from-scratch "
                "build of the same state; a case = one build of a history; non-trivial when it executed or pruned a step")
    ctx.assumptions += [
        "scripts are deterministic and restartable by construction of the generator (output = f(fragment, declared variables, relative input content))",
        "content abstraction Out d i: equal input hashes => equal input content is C11's theorem",
        "sandbox, fingerprints, downloads and sharing are C06/C07/C13/C15 matter and not generated here",
    ]
    nh = ctx.n(10, 150)
    nsteps = ctx.n(4, 7)
    seeds = [ctx.rng.randrange(1 << 30) for _ in range(nh)]
    with ThreadPoolExecutor(max_workers=6) as ex:
        recs = list(ex.map(one_history, [(s, nsteps) for s in seeds]))
    for rec in recs:
        for st in rec["steps"]:
            ctx.evaluated()
            ctx.count("build:" + ("rejected" if st.get("rejected") else "ok"))
            ctx.count("mode:" + rec["mode"] + ("+interleaved-" + rec["premode"] if rec["premode"] else ""))
            if not st.get("rejected"):
                ctx.count("edit:" + st["kind"])
                ctx.count("steps-run", st["ran"]); ctx.count("steps-skipped", st["skipped"]); ctx.count("prunes", st["pruned"])
                if st["ran"] or st["pruned"]:
                    ctx.nontrivial((rec["seed"], st["i"]))
        if "repeat" in rec:
            ctx.evaluated(); ctx.count("repeat-build")
            ctx.nontrivial((rec["seed"], "repeat"))
        for sig, what, detail in rec["violations"]:
            detail = dict(detail); detail["seed"] = rec["seed"]; detail["history"] = rec["hist"]; detail["kinds"] = rec["kinds"]
            ctx.violation(sig, what, detail)
        if len(ctx.cov["samples"]) < 3:
            ctx.sample({"seed": rec["seed"], "kinds": rec["kinds"], "steps": rec["steps"], "repeat": rec.get("repeat")})
    model_correspondence(ctx, recs, "c01")


def model_correspondence(ctx, recs, tag):
    """the Builder model against the recorded histories: which steps run (decision lines) and, per workspace,
    the sequence of persistent-state operations, prunes and script runs (micro-op trace)"""
    cases = []
    tcases = []
    meta = []
    for rec in recs:
        if rec.get("model"):
            projects, expected, traces = rec["model"]
            inp = "[" + ";\n ".join(projects) + "]"
            exp = L.lst([L.lst(["(%d, %s)" % (p, L.B(b)) for p, b in sorted(e.items())]) if e else "(@nil (N * bool))" for e in expected])
            cfg = "release_cfg" if rec["mode"] == "build" else "dev_cfg"
            cases.append(("(%s, %s)" % (cfg, inp), "(%s : list (list (N * bool)))" % exp))
            tr = L.lst([L.lst(["(%d, %s)" % (p_, L.lst([str(c_) for c_ in cs]) if cs else "(@nil N)") for p_, cs in sorted(t.items())])
                        if t else "(@nil (N * list N))" for t in traces])
            tcases.append(("(%s, %s)" % (cfg, inp), "(%s : list (list (N * list N)))" % tr))
            meta.append({"seed": rec["seed"], "kinds": rec["kinds"], "builds": len(projects), "mode": rec["mode"]})
            ctx.count("model-histories")
    bad, log = coq.run_cases(ctx, bc.REQUIRES, "(fun i => history_runs hash_poly (fst i) (snd i) (fun _ => empty_slot))",
                             "history_agree", cases, shard=40, tag=tag)
    if bad is None:
        ctx.tie_broken("Builder model evaluation failed", log)
    else:
        ctx.validated(sum(m["builds"] for i, m in enumerate(meta) if i not in set(bad)))
        for i in bad[:5]:
            vals, _ = coq.eval_terms(ctx, bc.REQUIRES, ["(fun i => history_runs hash_poly (fst i) (snd i) (fun _ => empty_slot)) %s" % cases[i][0]])
            m = dict(meta[i]); m["model_runs"] = vals[0] if vals else None; m["observed_runs"] = cases[i][1]
            ctx.tie_broken("decision-correspondence", m)
    # micro-op level: the persistent-state operations, prunes and script runs of every workspace in every build,
    # in order, against the model's cook sequences (what the crash theorems of C05 quantify over)
    bad, log = coq.run_cases(ctx, bc.REQUIRES, "(fun i => history_traces hash_poly (fst i) (snd i) (fun _ => empty_slot))",
                             "traces_agree", tcases, shard=40, tag=tag + "t")
    if bad is None:
        ctx.tie_broken("Builder model evaluation failed (traces)", log)
    else:
        ctx.count("micro-op-trace-histories", len(tcases)); ctx.count("micro-op-trace-histories-agree", len(tcases) - len(bad))
        ctx.count("micro-op-trace-builds-agree", sum(m["builds"] for i, m in enumerate(meta) if i not in set(bad)))
        for i in bad[:5]:
            vals, _ = coq.eval_terms(ctx, bc.REQUIRES, ["(fun i => history_traces hash_poly (fst i) (snd i) (fun _ => empty_slot)) %s" % tcases[i][0]])
            m = dict(meta[i]); m["model_traces"] = vals[0] if vals else None; m["observed_traces"] = tcases[i][1]
            ctx.tie_broken("micro-op-correspondence", m)
